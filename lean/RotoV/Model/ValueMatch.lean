/-
  Model/ValueMatch — C02: a `match` works on a COPY of its examinee.

  `Lowerer::match` (src/mir/lower/match_expr.rs) lowers `match e { arms }` to

      examinee := <how the examinee is obtained — `Generated/ValueMatchGen.examineeSteps`>
      d := Discriminant(examinee)
      switch d { one chain per discriminant: the arms of that variant and the `_` arms, in order }
      chain: for every candidate arm in turn
               bindings := Clone(examinee.VariantField(d, i))      -- extracted HERE, per arm
               guard (arbitrary user code: it may assign any user variable)
               true → the arm's body;  false → the next candidate

  so the bindings of a later arm are extracted AFTER the guards of the earlier arms have run. The
  property (value semantics: "pattern-binding one yields an independent copy") demands the arm taken
  and the values bound to be those of the value the examinee expression had when the match started.
  That holds exactly when `examinee` is a variable no user code can name: a fresh temporary holding
  a copy. This file states both readings executably; `Lemmas/ValueMatch` proves them equal for the
  steps the translator reads off the source, and refutes the variant that reads from the user's
  variable itself.

  Payload components are abstract leaves here (`Nat`): that a component is copied byte-exactly is
  T5 (`clone_independent`) of the layout model. Core Lean only.
-/
namespace RotoV.ValueMatch

/-- how the lowerer obtains the variable it reads discriminant and bindings from: one step per
    `let examinee = …;` statement of `Lowerer::match` -/
inductive ExStep where
  /-- `self.expr(expr)`: evaluate the examinee expression (lazy: `Value::Clone(place)` for a variable) -/
  | evalExpr
  /-- `self.assign_to_var(examinee, ty)`: materialise the value in a fresh temporary of the lowerer -/
  | assignToVar
  deriving DecidableEq, Repr

/-- an enum value: tag and payload leaves -/
structure EVal where
  tag : Nat
  fs : List Nat
  deriving DecidableEq, Repr

/-- the store: enum-typed variables (user variables and lowerer temporaries share one name space,
    as `mir::Var`s do) and the leaf variables patterns bind -/
structure St where
  enums : Nat → EVal
  leaves : Nat → Nat

def upd {α} (f : Nat → α) (k : Nat) (v : α) : Nat → α := fun i => if i = k then v else f i

def St.setEnum (s : St) (k : Nat) (v : EVal) : St := { s with enums := upd s.enums k v }
def St.setLeaf (s : St) (k : Nat) (v : Nat) : St := { s with leaves := upd s.leaves k v }

/-- a guard is arbitrary user code: a state transformer with a verdict -/
abbrev Guard := St → St × Bool

structure Arm where
  /-- `none` = the `_` arm -/
  tag : Option Nat
  /-- the leaf variables the pattern binds, one per payload field -/
  binds : List Nat
  guard : Option Guard

def Arm.candidate (a : Arm) (d : Nat) : Bool :=
  match a.tag with
  | none => true
  | some t => t == d

/-- bind the pattern variables to the payload, position by position -/
def bindAll : List Nat → List Nat → St → St
  | b :: bs, f :: fs, s => bindAll bs fs (s.setLeaf b f)
  | _, _, s => s

/-- VALUE SEMANTICS (what `Model/ValueSpec.matchArms` executes): the matched value `v` is fixed;
    result = index of the arm taken and the state at the entry of its body -/
def specArms (v : EVal) : List Arm → St → Option (Nat × St)
  | [], _ => none
  | a :: rest, s =>
    if a.candidate v.tag then
      let s1 := bindAll a.binds v.fs s
      match a.guard with
      | none => some (0, s1)
      | some g =>
        let r := g s1
        if r.2 then some (0, r.1) else (specArms v rest r.1).map fun p => (p.1 + 1, p.2)
    else (specArms v rest s).map fun p => (p.1 + 1, p.2)

def specMatch (x : Nat) (arms : List Arm) (s : St) : Option (Nat × St) :=
  specArms (s.enums x) arms s

/-- THE LOWERED MATCH: the discriminant `d` was read once, before the switch; every candidate arm
    re-reads the payload from the variable `ex` at the moment it is tried -/
def lowArms (ex d : Nat) : List Arm → St → Option (Nat × St)
  | [], _ => none
  | a :: rest, s =>
    if a.candidate d then
      let s1 := bindAll a.binds (s.enums ex).fs s
      match a.guard with
      | none => some (0, s1)
      | some g =>
        let r := g s1
        if r.2 then some (0, r.1) else (lowArms ex d rest r.1).map fun p => (p.1 + 1, p.2)
    else (lowArms ex d rest s).map fun p => (p.1 + 1, p.2)

/-- run the `let examinee = …;` statements: the variable the examinee lives in, and the state.
    `x` = the user's variable the examinee expression names, `tmp` = the lowerer's next temporary -/
def examinee (x tmp : Nat) : List ExStep → Nat × St → Nat × St
  | [], r => r
  | .evalExpr :: rest, (_, s) => examinee x tmp rest (x, s)
  | .assignToVar :: rest, (ex, s) => examinee x tmp rest (tmp, s.setEnum tmp (s.enums ex))

def lowMatch (steps : List ExStep) (x tmp : Nat) (arms : List Arm) (s : St) : Option (Nat × St) :=
  let r := examinee x tmp steps (x, s)
  lowArms r.1 (r.2.enums r.1).tag arms r.2

/-- user code cannot name the lowerer's temporary `tmp`: it neither reads nor writes it -/
def Guard.blindTo (g : Guard) (tmp : Nat) : Prop :=
  ∀ s v, g (s.setEnum tmp v) = ((g s).1.setEnum tmp v, (g s).2)

def armsBlindTo (arms : List Arm) (tmp : Nat) : Prop :=
  ∀ a ∈ arms, ∀ g, a.guard = some g → g.blindTo tmp

end RotoV.ValueMatch
