/-
  TcModules: the documented *scoping* rules for packages of several modules, as
  an executable declarative judge (the module layer of C07's oracle `D`).

  `Model/Typing.lean` judges one flat program in which every item name is
  visible everywhere (locals have their block scopes there: `Gamma`). A package
  is a tree of modules; an item is *used* through a path written at some site.
  The rules (language reference, "Modules" / "Imports"; C13's statement):

    * the FIRST segment of a path is looked up lexically: declarations of the
      innermost enclosing scope, then that scope's imports, then outward — block
      scopes (which declare only local variables, but may carry `import`s), then
      the module: its own items and child modules, then the module's imports,
      then the global scope, which holds the root module `pkg`;
    * `pkg` at the start of a path always names the root module;
    * each leading `super` steps to the parent module; the segment after the
      `super`s names a MEMBER of that module;
    * every LATER segment names a direct member of the item before it: a child
      module or an item the module DECLARES (never a name the module merely
      imports), or a variant of an enum type;
    * an `import p;` makes the last identifier of `p` stand for what `p` denotes
      at that place, within the scope (block or module) the import is written
      in — whatever the order of the imports of that scope; every import must
      denote something, and a scope imports a name at most once;
    * nothing else is in scope: an item of a sibling / parent / child module is
      not visible by its bare name.

  `resolve` says what a path denotes, or `none`: then the script has no typing
  ("unknown or out-of-scope name").  The package judge of the harness is
      every import resolves  ∧  every use resolves to the item it was written for
      ∧  `Typing.checkProg` accepts the package flattened into one program.
  Domain: identifiers of different classes have different spellings (`m3`, `f1`,
  `C0`, `T2`, `K4`; locals `v5` are not in this identifier space), so a local
  never shadows an item. Where two imports of one scope shadow each other's
  first segments the order of resolution matters in the implementation (C13's
  `import_order_dep`); generated packages never do that.

  Core Lean only (linked into the driver).
-/
namespace RotoV.TcModules

/-- identifiers of a path -/
inductive Ident
  /-- the keyword `super` -/
  | sup
  /-- `pkg` -/
  | pkg
  | mod (n : Nat) | fn (n : Nat) | const (n : Nat) | ty (n : Nat) | variant (n : Nat)
  deriving DecidableEq, Repr, Inhabited

abbrev Path := List Ident

structure Module where
  /-- `m<name>`; the root (index 0) is called `pkg` whatever this says -/
  name : Nat
  /-- index of the parent module (`none`: the root) -/
  parent : Option Nat
  /-- the items the module DECLARES (`fn` / `const` / `ty`) -/
  items : List Ident
  /-- the module-level imports -/
  imports : List Path
  deriving Repr, Inhabited

structure Pkg where
  mods : List Module
  /-- the variants of the enum types: (type number, variant numbers) -/
  enums : List (Nat × List Nat)
  deriving Repr, Inhabited

/-- what a path can denote -/
inductive Entity
  | module (i : Nat)
  /-- the item `x` declared in module `m` -/
  | item (m : Nat) (x : Ident)
  /-- variant `k` of the enum type `t` declared in module `m` -/
  | variant (m : Nat) (t : Nat) (k : Nat)
  deriving DecidableEq, Repr, Inhabited

/-- the items module `i` declares -/
def itemsOf (p : Pkg) (i : Nat) : List Ident :=
  match p.mods[i]? with
  | some m => m.items
  | none => []

/-- the child modules of module `i`, by name -/
def childrenOf (p : Pkg) (i : Nat) : List (Ident × Entity) :=
  (List.range p.mods.length).filterMap fun j =>
    match p.mods[j]? with
    | some m => if m.parent == some i && j != 0 then some (.mod m.name, .module j) else none
    | none => none

/-- **the direct members** of module `i`: its child modules and the items it
    declares. What the module imports is not among them. -/
def moduleDecls (p : Pkg) (i : Nat) : List (Ident × Entity) :=
  childrenOf p i ++ (itemsOf p i).filterMap fun x =>
    match x with
    | .fn _ | .const _ | .ty _ => some (x, .item i x)
    | _ => none

def member (p : Pkg) (i : Nat) (x : Ident) : Option Entity :=
  (moduleDecls p i).lookup x

/-- the child of module `i` called `m<n>` -/
def childIdx (p : Pkg) (i n : Nat) : Option Nat :=
  match member p i (.mod n) with
  | some (.module j) => some j
  | _ => none

/-- later path segments: direct members of the item before them -/
def walk (p : Pkg) : Entity → Path → Option Entity
  | e, [] => some e
  | .module i, x :: rest =>
    match member p i x with
    | some e => walk p e rest
    | none => none
  | .item m (.ty t), [.variant k] =>
    if ((p.enums.lookup t).getD []).contains k then some (.variant m t k) else none
  | _, _ :: _ => none

/-- what the imports of one scope stand for -/
abbrev Table := List (Ident × Entity)

def findInTables : List Table → Ident → Option Entity
  | [], _ => none
  | t :: rest, x => match t.lookup x with
    | some e => some e
    | none => findInTables rest x

/-- the first segment, written in module `m` below blocks whose import tables are
    `blocks` (innermost first); `modTbl` is the import table of the module -/
def lexical (p : Pkg) (m : Nat) (blocks : List Table) (modTbl : Table) (x : Ident) : Option Entity :=
  if x = .pkg then some (.module 0) else
  match findInTables blocks x with
  | some e => some e
  | none =>
    match member p m x with
    | some e => some e
    | none => modTbl.lookup x

def parentOf (p : Pkg) (m : Nat) : Option Nat :=
  match p.mods[m]? with
  | some md => md.parent
  | none => none

/-- after at least one `super`: we stand in module `m` -/
def afterSuper (p : Pkg) : Nat → Path → Option Entity
  | m, [] => some (.module m)
  | m, .sup :: rest =>
    match parentOf p m with
    | some q => afterSuper p q rest
    | none => none
  | m, x :: rest =>
    match member p m x with
    | some e => walk p e rest
    | none => none

/-- **what a path denotes** at a site in module `m` -/
def resolve (p : Pkg) (m : Nat) (blocks : List Table) (modTbl : Table) : Path → Option Entity
  | [] => none
  | .sup :: rest =>
    match parentOf p m with
    | some q => afterSuper p q rest
    | none => none
  | x :: rest =>
    match lexical p m blocks modTbl x with
    | some e => walk p e rest
    | none => none

/-! ### imports -/

/-- the name an import introduces: the declared name of what the path denotes
    (its last identifier — except that `import super;` introduces the parent
    module under its own name) -/
def entityKey (p : Pkg) : Entity → Ident
  | .module i =>
    if i = 0 then .pkg else
    match p.mods[i]? with
    | some m => .mod m.name
    | none => .pkg
  | .item _ x => x
  | .variant _ _ k => .variant k

/-- one pass over the imports of a scope: every path that resolves with what
    is known so far is entered. `res t path` = what `path` denotes when the
    scope's own table is `t`. -/
def importPass (p : Pkg) (res : Table → Path → Option Entity) (paths : List Path) (t0 : Table) : Table :=
  paths.foldl (fun t path =>
    match res t path with
    | some e =>
      let k := entityKey p e
      if (t.lookup k).isSome then t else t ++ [(k, e)]
    | none => t) t0

def iterate {α} (f : α → α) : Nat → α → α
  | 0, a => a
  | n + 1, a => iterate f n (f a)

/-- the import table of a scope: passes until nothing can change any more
    (each productive pass enters at least one path) -/
def importTable (p : Pkg) (res : Table → Path → Option Entity) (paths : List Path) : Table :=
  iterate (importPass p res paths) paths.length []

def distinct : List Ident → Bool
  | [] => true
  | k :: rest => !rest.contains k && distinct rest

/-- every import of the scope denotes something (with the finished table), and
    no name is imported twice -/
def importsOk (p : Pkg) (res : Table → Path → Option Entity) (paths : List Path) (t : Table) : Bool :=
  let es := paths.map (res t)
  es.all Option.isSome && distinct (es.filterMap fun e => e.map (entityKey p))

/-- the import table of module `m` -/
def moduleTable (p : Pkg) (m : Nat) : Table :=
  match p.mods[m]? with
  | some md => importTable p (fun t path => resolve p m [] t path) md.imports
  | none => []

def moduleImportsOk (p : Pkg) (m : Nat) : Bool :=
  match p.mods[m]? with
  | some md => importsOk p (fun t path => resolve p m [] t path) md.imports (moduleTable p m)
  | none => false

/-- all module-level imports of the package are fine -/
def pkgImportsOk (p : Pkg) : Bool :=
  (List.range p.mods.length).all (moduleImportsOk p)

/-- the tree is a tree: the root has no parent, every other module a parent
    with a smaller index, and siblings have different names -/
def wfPkg (p : Pkg) : Bool :=
  (match p.mods[0]? with | some r => r.parent.isNone | none => false) &&
  (List.range p.mods.length).all fun j =>
    j == 0 ||
    match p.mods[j]? with
    | some m => (match m.parent with
        | some q => q < j && childIdx p q m.name == some j
        | none => false)
    | none => false

/-- the import tables of the enclosing blocks of a site; `frames` = the import
    lists of those blocks, innermost first. `none`: an import does not resolve. -/
def blockTables (p : Pkg) (m : Nat) (modTbl : Table) : List (List Path) → Option (List Table)
  | [] => some []
  | paths :: outer =>
    match blockTables p m modTbl outer with
    | none => none
    | some outerT =>
      let res := fun (t : Table) path => resolve p m (t :: outerT) modTbl path
      let t := importTable p res paths
      if importsOk p res paths t then some (t :: outerT) else none

/-- a use of an item: where it is written and how -/
structure Use where
  m : Nat
  /-- import lists of the enclosing blocks, innermost first -/
  frames : List (List Path)
  path : Path
  deriving Repr, Inhabited

inductive Verdict
  | ok (e : Entity)
  /-- an import of an enclosing block (or of the module) denotes nothing -/
  | badImport
  /-- the path denotes nothing: unknown or out-of-scope name -/
  | notInScope
  deriving DecidableEq, Repr

/-- the scoping judge on one use -/
def checkUse (p : Pkg) (u : Use) : Verdict :=
  if !moduleImportsOk p u.m then .badImport else
  let modTbl := moduleTable p u.m
  match blockTables p u.m modTbl u.frames with
  | none => .badImport
  | some blocks =>
    match resolve p u.m blocks modTbl u.path with
    | some e => .ok e
    | none => .notInScope

/-! ### the implementation's lookup order (tie to `ScopeGraph::resolve_name`)

  `Generated/C07Facts.resolveNameSteps` lists what one iteration of the loop of
  `resolve_name` consults, in source order. `runSteps` interprets such a list on
  one scope: its declarations and its imports. -/

/-- one scope as `resolve_name` sees it -/
structure ScopeView where
  decls : List (Ident × Entity)
  imports : Table

/-- one iteration: `some (some e)` found, `some none` the early exit (`return
    None`), `none` go on with the parent scope -/
def runSteps (sc : ScopeView) (x : Ident) (recurse : Bool) : List Nat → Option (Option Entity)
  | [] => none
  | 0 :: rest =>
    match sc.decls.lookup x with
    | some e => some (some e)
    | none => runSteps sc x recurse rest
  | 1 :: rest => if !recurse then some none else runSteps sc x recurse rest
  | 2 :: 0 :: rest =>
    match sc.imports.lookup x with
    | some e => some (some e)
    | none => runSteps sc x recurse rest
  | 2 :: rest =>
    match sc.imports.lookup x with
    | some e => some (some e)
    | none => runSteps sc x recurse rest
  | 3 :: _ => none
  | _ :: rest => runSteps sc x recurse rest

/-- module `i` as a scope of the graph: declared are its members, imported what
    its import table says -/
def moduleView (p : Pkg) (i : Nat) : ScopeView := ⟨moduleDecls p i, moduleTable p i⟩

/-- the package without any module-level import -/
def eraseImports (p : Pkg) : Pkg :=
  { p with mods := p.mods.map fun m => { m with imports := [] } }

end RotoV.TcModules
