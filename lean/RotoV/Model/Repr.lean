/-
  How the JIT sees an LIR value: `FuncGen::operand` turns an `IrValue` into an
  SSA constant with `iconst(ty, val)` for integers (the *generated*
  `integer_operand` gives type and i64 payload; `iconst` keeps the low `ty.bits`
  bits) and `f32const` / `f64const` for floats (bit pattern kept).
-/
import RotoV.Generated.OpTables

namespace RotoV
open RotoV.Gen

variable [FloatOps]

def jitRepr (v : IrValue) : Option CVal :=
  match v with
  | .F32 x => some ⟨.F32, x.bits.toNat⟩
  | .F64 x => some ⟨.F64, x.bits.toNat⟩
  | _ =>
    match OpTables.integer_operand false v with
    | .ok (some (ty, i)) => some (CVal.mk' ty i.bv.toNat)
    | _ => none

end RotoV
