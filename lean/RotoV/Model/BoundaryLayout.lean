/-
  C05 — vocabulary of the host-boundary model (core Lean only).

  * `Layout`, `LayoutBuilder`, `nextMultipleOf` (the meaning of
    `usize::next_multiple_of` as implemented in `core`): the arithmetic the
    generated `LayoutBuilder.add/finish`, `Layout.union` (from
    src/runtime/layout.rs) is written in.
  * `MTy`: the part of `mir::Ty` a boundary type can lower to (registered types
    carry the layout they were registered with).
  * small enums the translator targets: variant names, parameter kinds, heads of
    Rust types implementing `Value`, steps of `lower_type`, argument filters,
    positions of the hidden parameters.

  This file deliberately has a C05-specific name: `Model/Layout.lean` belongs to
  property C02.
-/
import RotoV.Model.Lir

namespace RotoV.Boundary
open RotoV

/-- `runtime::layout::Layout` -/
structure Layout where
  size : Nat
  align : Nat
  deriving DecidableEq, Repr, Inhabited

/-- `runtime::layout::LayoutBuilder` -/
structure LayoutBuilder where
  size : Nat
  align : Nat
  deriving DecidableEq, Repr, Inhabited

/-- `usize::next_multiple_of` exactly as `core` implements it
    (`match self % rhs { 0 => self, r => self + (rhs - r) }`).  `rhs = 0` panics
    in Rust; every caller passes an alignment, and `Layout::new` asserts
    `align > 0` — the theorems carry that as `Layout.WF`. -/
def nextMultipleOf (n rhs : Nat) : Nat :=
  if n % rhs = 0 then n else n + (rhs - n % rhs)

/-- `Layout::new` (its three assertions are the invariant `WF`, checked where a
    layout is built from measured numbers). -/
def Layout.new (size align : Nat) : Layout := ⟨size, align⟩

def isPow2 (a : Nat) : Prop := ∃ k, a = 2 ^ k

/-- The documented invariant of `Layout`: `align > 0`, a power of two, and
    `size` a multiple of `align`. -/
structure Layout.WF (l : Layout) : Prop where
  pow2 : isPow2 l.align
  dvd : l.align ∣ l.size

/-- decidable version for the driver (alignments at the boundary are ≤ 2^16) -/
def Layout.wfb (l : Layout) : Bool :=
  (List.range 17).any (fun k => l.align == 2 ^ k) && l.size % l.align == 0

/-- Layouts of the leaf types whose Rust definition *is* the Roto definition
    (`Layout::of::<T>()` on both sides): measured by the harness, arbitrary in
    the theorems. -/
structure HostLayouts where
  char : Layout
  string : Layout
  ipaddr : Layout
  prefix_ : Layout
  list : Layout
  deriving DecidableEq, Repr, Inhabited

/-- x86-64 numbers, for examples only. -/
def HostLayouts.x64 : HostLayouts :=
  { char := ⟨4, 4⟩, string := ⟨16, 8⟩, ipaddr := ⟨17, 1⟩, prefix_ := ⟨18, 1⟩, list := ⟨8, 8⟩ }

structure HostLayouts.WF (h : HostLayouts) : Prop where
  char : h.char.WF
  string : h.string.WF
  ipaddr : h.ipaddr.WF
  prefix_ : h.prefix_.WF
  list : h.list.WF
  /-- strings, lists, addresses and prefixes occupy memory (they are passed by pointer) -/
  string_pos : 0 < h.string.size
  ipaddr_pos : 0 < h.ipaddr.size
  prefix_pos : 0 < h.prefix_.size
  list_pos : 0 < h.list.size
  char_pos : 0 < h.char.size

def IntSize.bits : IntSize → Nat
  | .I8 => 8 | .I16 => 16 | .I32 => 32 | .I64 => 64
def FloatSize.bits : FloatSize → Nat
  | .F32 => 32 | .F64 => 64

/-- What `ty_pool.get(ty)` returns for a type reachable from a boundary type. -/
inductive MTy
  | unit
  | never
  | prim (p : Primitive)
  | list
  | runtime (l : Layout)
  | record (fields : List MTy)
  | enum (variants : List (List MTy))
  deriving Repr, Inhabited

/-- constructor of an `MTy`, what the `match self.get(ty)` of
    `is_reference_type` looks at -/
inductive MKind
  | Unit | Never | Record | Enum | Primitive (p : Primitive) | List | Runtime
  deriving DecidableEq, Repr, Inhabited

def MTy.kind : MTy → MKind
  | .unit => .Unit | .never => .Never | .prim p => .Primitive p | .list => .List
  | .runtime _ => .Runtime | .record _ => .Record | .enum _ => .Enum

/-- Variant names of the three boundary enums. -/
inductive VName | Some | None | Ok | Err | Accept | Reject
  deriving DecidableEq, Repr, Inhabited

/-- How `RotoFunc::invoke` / the trampolines pass a value of a type:
    `AsParam = Self` (by value), `AsParam = *mut …` (pointer), `AsParam = ()`. -/
inductive ParamKind | byValue | pointer | unitValue
  deriving DecidableEq, Repr, Inhabited

/-- Heads of the Rust types with an `impl Value`. -/
inductive RustHead
  | bool | u8 | u16 | u32 | u64 | i8 | i16 | i32 | i64 | f32 | f64 | char | Asn
  | IpAddr | Prefix | RotoString | unit | Val | Option | Result | Verdict | List
  | StringBytes | StringChars | StringLines | ErasedList | VTable | DynVal
  deriving DecidableEq, Repr, Inhabited

/-- The value class of a machine-level parameter (Cranelift type = register class + width). -/
inductive AbiTy | I8 | I16 | I32 | I64 | F32 | F64
  deriving DecidableEq, Repr, Inhabited

/-- Steps of `Lowerer::lower_type`, in source order. -/
inductive LowerStep
  /-- `if layout_of(ty).is_some_and(|l| l.size() == 0) { return None }` -/
  | zeroSizedNone
  /-- the same test, not applied to registered (`Ty::Runtime`) types -/
  | zeroSizedNoneUnlessRuntime
  /-- `if let Ty::Primitive(p) … match p { … }` (table `lowerPrim`) -/
  | primTable
  | listPointer
  | runtimePointer
  /-- `x if self.is_reference_type(x)? => IrType::Pointer, _ => ice!()` -/
  | referencePointerElseIce
  deriving DecidableEq, Repr, Inhabited

/-- How zero-sized arguments are filtered at a parameter list. -/
inductive ArgFilter
  /-- kept iff `lower_type(ty)` is `Some` -/
  | lowerType
  /-- kept iff `layout_of(ty)` is `Some` and not zero-sized -/
  | nonZeroLayout
  deriving DecidableEq, Repr, Inhabited

/-- The hidden and visible parameter groups of a machine-level signature. -/
inductive Slot | retPtr | ctx | params | fnPtr | vtables
  deriving DecidableEq, Repr, Inhabited

/-- What a function returns in registers. -/
inductive RetSlot | nothing | transformed
  deriving DecidableEq, Repr, Inhabited

/-- The generic built-in types with a fixed counterpart in Rust (`TypeDescription::{Verdict,
    Result, Option, List}` on the Rust side; the identifiers `Verdict`, `Result`, `Option`, `List`
    on the Roto side). -/
inductive GateHead | verdict | result | option | list
  deriving DecidableEq, Repr, Inhabited

/-- What an arm of `check_roto_type` compares of the Roto type's resolved name: the whole
    `ResolvedName { scope: ScopeRef::GLOBAL, ident }`, or the identifier alone. -/
inductive ScopeTest | global | anyScope
  deriving DecidableEq, Repr, Inhabited

/-- One arm of `check_roto_type` for a generic built-in type, as the translator reads it:
    `head` the `TypeDescription` constructor, `scope`/`ident` the name test, `arity` the number of
    type arguments the slice pattern demands, `pairs` = (Rust component, Roto argument) of every
    recursive check. -/
structure GateArm where
  head : GateHead
  scope : ScopeTest
  ident : GateHead
  arity : Nat
  pairs : List (Nat × Nat)
  deriving DecidableEq, Repr, Inhabited

end RotoV.Boundary
