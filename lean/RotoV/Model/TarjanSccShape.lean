/-
  C14: the statement-level shape of `find_compilation_order`, `tarjan`,
  `strongly_connect` and `State::update_lowlink`
  (src/typechecker/value_cycle.rs) that `Model/Tarjan.lean` (`findCompilationOrder`
  with `selfEdge` / `mixedComponent`, `tarjanLoop`, `strongConnect` with
  `visitRefs` / `popUntil`, `State.updateLowlink`) was written from.  The
  translator target `c14scc` regenerates the step lists from the source on every
  run (`Generated/C14Scc`); `Props/C14Scc` proves them equal to the lists below,
  so a changed statement of the algorithm — an on-stack flag instead of the stack
  scan, components reserved on entry, a post-processing of the order — breaks an
  obligation (and `order_topological`, `recursive_iff_cycle` are then about an
  algorithm the source no longer has).

  Core Lean only.
-/
namespace RotoV.TarjanSccShape

inductive Cond where
  | unvisited        -- `!state.vertices.contains_key(w)`
  | unvisitedTop     -- `!state.vertices.contains_key(v)` (loop of `tarjan`)
  | onStack          -- `state.stack.contains(w)`
  | isRoot           -- `v_state.index == v_state.lowlink`
  | isV              -- `w == v`
  | lenGt1           -- `component.len() > 1`
  | constAndSelfRef  -- the name is a constant `&& refs.contains(name)`
  | isConst          -- the name is a constant
  deriving DecidableEq, Repr

inductive Act where
  | takeIndex | bumpIndex | insertVertex | pushV
  | recurse | newFromLowlink | newFromIndex | updateLowlink
  | newComponent | componentPush | breakLoop | pushComponent
  | takeLowlink | minAssign
  | newState | recurseTop | returnComponents
  | errRecursive | callTarjan | callContextCheck | returnFlattened
  deriving DecidableEq, Repr

inductive Step where
  | act (a : Act)
  | ite (c : Cond) (thenSteps elseSteps : List Step)
  | forRefs (body : List Step)        -- `for w in references.get(&v).into_iter().flatten()`
  | forKeys (body : List Step)        -- `for v in edges.keys()`
  | forEdges (body : List Step)       -- `for (name, refs) in &self.references.references`
  | forComponents (body : List Step)  -- `for component in &components`
  | forMembers (body : List Step)     -- `for name in component`
  | whilePop (body : List Step)       -- `while let Some(w) = state.stack.pop()`
  deriving Repr

/-- structural equality as a `Bool` -/
def Step.beq : Step → Step → Bool
  | .act a, .act a' => a == a'
  | .ite c t e, .ite c' t' e' => c == c' && beqList t t' && beqList e e'
  | .forRefs b, .forRefs b' => beqList b b'
  | .forKeys b, .forKeys b' => beqList b b'
  | .forEdges b, .forEdges b' => beqList b b'
  | .forComponents b, .forComponents b' => beqList b b'
  | .forMembers b, .forMembers b' => beqList b b'
  | .whilePop b, .whilePop b' => beqList b b'
  | _, _ => false
where
  beqList : List Step → List Step → Bool
    | [], [] => true
    | x :: xs, y :: ys => Step.beq x y && beqList xs ys
    | _, _ => false

/-- `findCompilationOrder`: `selfEdge`, `tarjan`, `mixedComponent` (with
`firstConst`), `contextCheck`, the flattened components -/
def orderAsModelled : List Step := [
  .forEdges [.ite .constAndSelfRef [.act .errRecursive] []],
  .act .callTarjan,
  .forComponents [.ite .lenGt1 [.forMembers [.ite .isConst [.act .errRecursive] []]] []],
  .act .callContextCheck,
  .act .returnFlattened
]

/-- `tarjanFuel` / `tarjanLoop` -/
def tarjanAsModelled : List Step := [
  .act .newState,
  .forKeys [.ite .unvisitedTop [.act .recurseTop] []],
  .act .returnComponents
]

/-- `strongConnect` with `visitRefs` (the three-way test per reference) and
`popUntil` (pop until `v` itself has been popped) -/
def strongConnectAsModelled : List Step := [
  .act .takeIndex,
  .act .bumpIndex,
  .act .insertVertex,
  .act .pushV,
  .forRefs [.ite .unvisited [.act .recurse, .act .newFromLowlink, .act .updateLowlink]
    [.ite .onStack [.act .newFromIndex, .act .updateLowlink] []]],
  .ite .isRoot [.act .newComponent,
    .whilePop [.act .componentPush, .ite .isV [.act .breakLoop] []],
    .act .pushComponent] []
]

/-- `State.updateLowlink` -/
def updateLowlinkAsModelled : List Step := [.act .takeLowlink, .act .minAssign]

end RotoV.TarjanSccShape
