/-
  LexerBase: the vocabulary shared by the hand-written lexer model
  (`Model/Lexer.lean`) and the tables the translator regenerates from
  `src/parser/lexer.rs` on every run (`Generated/LexTables.lean`).

  Core Lean only: linked into the driver executable.
-/

namespace RotoV.Lex

/-- The recogniser methods `Lexer::next_token` tries, by their Rust names. The
*order* in which they are tried is generated (`Gen.LexTables.recognisers`). -/
inductive Recogniser where
  | ipv6 | ipv4 | twoCharPunctuation | oneCharPunctuation | asNumber | hexNumber
  | number | fString | string | char | keywordOrIdent
  deriving Repr, DecidableEq, Inhabited

/-- Token kinds (`parser/token.rs`), without the borrowed text (the text of a
token is the slice of the input its span designates). Punctuation and keyword
variants are carried by their Rust variant name, as generated. -/
inductive TokKind where
  | ident
  | punct (name : String)
  | keyword (name : String)
  | bool (b : Bool)
  | string
  | char
  /-- `Integer(num, suffix)`: `numLen` = byte length of `num` -/
  | integer (numLen : Nat)
  | float (numLen : Nat)
  | hex
  | asn
  | ipv4
  | ipv6
  | fStringStart
  deriving Repr, DecidableEq, Inhabited

end RotoV.Lex
