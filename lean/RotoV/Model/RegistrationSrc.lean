/-
  Registration (C18): the vocabulary in which the translator
  (`extract/src/targets/c18.rs`, target `regpasses`) reports how the five passes
  of `Rt::add` are *written* in `src/runtime/mod.rs` — which pass runs when and
  with which scope, what every `match item` arm of every pass does and in which
  scope, how `declare_import` walks a path and where it registers the import —
  and `asModelled`: those facts as `Model/Registration.lean` embodies them.
  `Props/C18.lean` proves `Generated.RegPasses.facts = asModelled` on every run.

  Core Lean only.
-/
import RotoV.Model.Registration

namespace RotoV.Reg.Src

/-- the functions of `impl Rt` that walk an item list -/
inductive PassFn
  | declareModules | declareTypes | declareFunctions | declareMethods | declareConstants | declareImports
  deriving DecidableEq, Repr

/-- the functions that register one item -/
inductive LeafFn
  | declareModule | declareType | declareFunction | declareMethod | declareConstant | declareImport
  deriving DecidableEq, Repr

inductive ItemK | function | type | constant | impl | use | module | wildcard
  deriving DecidableEq, Repr

/-- where a scope argument comes from -/
inductive ScopeExpr
  /-- the function's own `scope` parameter -/
  | param
  /-- `None` -/
  | noneArg
  /-- `ScopeRef::GLOBAL` -/
  | root
  /-- `Some(<the scope declare_runtime_module returned for this module>)` -/
  | declaredModule
  /-- `get_scope_of(<param>, <the module's ident>).unwrap()` -/
  | ofModule
  /-- `get_scope_of(ty.name.scope, ty.name.ident).unwrap()` for the registered
      type `ty` with the impl block's `TypeId` (an error if there is none) -/
  | ofType
  /-- `get_scope_of(<param>, ty.name.ident).unwrap()`: the type's name looked up
      where the impl block stands -/
  | ofTypeAtSite
  /-- the cursor of the path walk (`new_scope`) -/
  | cursor
  deriving DecidableEq, Repr

inductive Act
  /-- `{}` -/
  | skip
  /-- `return Err(..)` -/
  | error
  /-- `self.<pass>(<scope>, <the item's children>)?` -/
  | recurse (f : PassFn) (scope : ScopeExpr)
  /-- `self.<leaf>(<scope>, <the item>)?` -/
  | leaf (f : LeafFn) (scope : ScopeExpr)
  deriving DecidableEq, Repr

structure Facts where
  /-- `Rt::add` is all or nothing: the passes run on a copy of the runtime
      (`let mut rt = self.clone(); rt.<passes>(items)?; *self = rt; Ok(())`) that
      replaces it only when every pass succeeded.  `false`: the passes run on
      `&mut self` and an error leaves what they had inserted. -/
  addAtomic : Bool
  /-- `Rt::add`: the passes in call order with their scope argument -/
  addCalls : List (PassFn × ScopeExpr)
  /-- every `match item` arm of every pass, in source order -/
  arms : List (PassFn × List (ItemK × Act))
  /-- `declare_module`: what happens with the children -/
  moduleChildren : Act
  /-- `declare_import`: the cursor starts at …, every segment is looked up from …,
      the import is registered in …, its target scope is … -/
  importStart : ScopeExpr
  importStep : ScopeExpr
  importRegisteredIn : ScopeExpr
  importTarget : ScopeExpr
  deriving DecidableEq, Repr

/-- the passes as `Model/Registration.lean` has them (`add`, `declModules`,
    `walk`/`passLeaf`, `declMethods`, `declImplConstants`, `declImports`,
    `implScope`, `declareImport`/`walkPath` under `Cfg.fixed`) -/
def asModelled : Facts where
  addAtomic := true
  addCalls := [(.declareModules, .noneArg), (.declareTypes, .root), (.declareFunctions, .root),
    (.declareConstants, .root), (.declareImports, .root)]
  arms := [
    (.declareModules, [(.function, .skip), (.type, .skip), (.constant, .skip), (.impl, .skip), (.use, .skip),
      (.module, .leaf .declareModule .param)]),
    (.declareTypes, [(.module, .recurse .declareTypes .ofModule), (.type, .leaf .declareType .param),
      (.wildcard, .skip)]),
    (.declareFunctions, [(.module, .recurse .declareFunctions .ofModule),
      (.function, .leaf .declareFunction .param), (.impl, .recurse .declareMethods .ofType),
      (.wildcard, .skip)]),
    (.declareMethods, [(.function, .leaf .declareMethod .param), (.impl, .error), (.type, .error),
      (.module, .error), (.use, .skip), (.constant, .skip)]),
    (.declareConstants, [(.module, .recurse .declareConstants .ofModule),
      (.impl, .recurse .declareConstants .ofType), (.constant, .leaf .declareConstant .param),
      (.wildcard, .skip)]),
    (.declareImports, [(.function, .skip), (.type, .skip), (.constant, .skip), (.impl, .skip),
      (.use, .leaf .declareImport .param), (.module, .recurse .declareImports .param)])]
  moduleChildren := .recurse .declareModules .declaredModule
  importStart := .param
  importStep := .cursor
  importRegisteredIn := .param
  importTarget := .cursor

/-- `TypeChecker::rust_type_to_roto_type`: the variants of `TypeDescription` -/
inductive DescK | leaf | val | option | list | verdict | result
  deriving DecidableEq, Repr

/-- what an arm of `rust_type_to_roto_type` returns -/
inductive ConvAct
  /-- the name of the registered type with this `TypeId`, or an "unregistered type" error -/
  | lookup
  /-- `Type::<ctor>(<conversions of the listed components, in this order>)` -/
  | wrap (ctor : DescK) (args : List Nat)
  deriving DecidableEq, Repr

structure ConvFacts where
  /-- the unit type is answered before the description is looked at -/
  unitFirst : Bool
  arms : List (DescK × ConvAct)
  deriving DecidableEq, Repr

/-- `convTy` of `Model/Registration.lean` (`RustTy.reg` stands for `Leaf` and `Val`) -/
def convAsModelled : ConvFacts where
  unitFirst := true
  arms := [(.leaf, .lookup), (.option, .wrap .option [0]), (.verdict, .wrap .verdict [0, 1]),
    (.result, .wrap .result [0, 1]), (.list, .wrap .list [0]), (.val, .lookup)]

/-- the model switches that the facts determine -/
def Facts.cfg (f : Facts) : Cfg :=
  { Cfg.fixed with
    walkFromStart := decide (f.importStep = .param),
    implAtSite := decide (f.arms.any (fun p => p.2.any (fun a =>
      a.1 = .impl ∧ (a.2 = .recurse .declareMethods .ofTypeAtSite ∨ a.2 = .recurse .declareConstants .ofTypeAtSite)))) }

end RotoV.Reg.Src
