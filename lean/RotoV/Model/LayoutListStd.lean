/-
  Model/LayoutListStd — C02: the statement vocabulary of the runtime side of
  `==` on lists (src/value/list.rs): `impl PartialEq for ErasedList`,
  `RawList::contains`, `RawList::index`. The translator target `layoutlisteq`
  renders those function bodies as lists of these steps
  (`Generated/LayoutListEq.lean`); a statement that is none of them is an
  extraction failure. Their meaning is `Model/LayoutListEq.lean`.

  Core Lean only.
-/
namespace RotoV.Layout

/-- one statement of `impl PartialEq for ErasedList` -/
inductive ListStep where
  /-- `if Arc::ptr_eq(&self.0, &other.0) { return v; }` -/
  | ptrEqReturn (v : Bool)
  /-- `let (this, other) = …` both mutexes locked (in address order) -/
  | lockBoth
  /-- `if this.len != other.len { return v; }` -/
  | lenMismatchReturn (v : Bool)
  /-- `for i in 0..this.len() { let e1 = this.get(i).unwrap(); let e2 =
      other.get(i).unwrap(); let is_eq = (this.vtable.eq_fn)(e1, e2);
      if is_eq == exitWhen { return v; } }` -/
  | forEachPair (exitWhen : Bool) (v : Bool)
  /-- the final expression -/
  | ret (v : Bool)
  deriving Repr, DecidableEq

/-- what a scan returns when `eq_fn` says equal: `true` / `Some(i)` -/
inductive ScanHit where
  | found
  | foundAt
  deriving Repr, DecidableEq

/-- what a scan returns after the loop: `false` / `None` -/
inductive ScanEnd where
  | missing
  | missingAt
  deriving Repr, DecidableEq

/-- one statement of `RawList::contains` / `RawList::index` -/
inductive ScanStep where
  /-- `for i in 0..self.len() { let elem = self.get(i).unwrap(); let is_eq =
      (self.vtable.eq_fn)(elem, item); if is_eq { return <hit>; } }` -/
  | forEachItem (h : ScanHit)
  | ret (e : ScanEnd)
  deriving Repr, DecidableEq

/-- result of a scan -/
inductive ScanRes where
  | bool (b : Bool)
  | idx (i : Option Nat)
  deriving Repr, DecidableEq

/-- a field of `struct VTable` (src/value/vtable.rs) -/
inductive VtField where
  | size | align | cloneFn | dropFn | eqFn
  deriving Repr, DecidableEq

inductive GenFn where
  | clone | drop | eq
  deriving Repr, DecidableEq

inductive GenCond where
  | needsClone | needsDrop
  deriving Repr, DecidableEq

/-- what `Lowerer::call_runtime` writes into one field of the vtable it
    builds for a type parameter `ty_ref` of a runtime function -/
inductive VtSlot where
  /-- `layout_of(ty_ref).size()` -/
  | layoutSize
  /-- `layout_of(ty_ref).align()` -/
  | layoutAlign
  /-- the address of `::generated::<fn>_<type_id of ty_ref>`; with a
      condition: that address if it holds, null otherwise -/
  | generated (fn : GenFn) (cond : Option GenCond)
  deriving Repr, DecidableEq

/-- the slot written into field `f` -/
def vtableSlot : List VtField → List VtSlot → VtField → Option VtSlot
  | f :: fs, s :: ss, g => if f = g then some s else vtableSlot fs ss g
  | _, _, _ => none

def ScanHit.res : ScanHit → Nat → ScanRes
  | .found, _ => .bool true
  | .foundAt, i => .idx (some i)

def ScanEnd.res : ScanEnd → ScanRes
  | .missing => .bool false
  | .missingAt => .idx none

end RotoV.Layout
