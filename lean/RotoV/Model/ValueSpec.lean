/- Model/ValueSpec — C02 behavioural oracle (value semantics of aggregates,
   shared lists).  Placeholder, filled in below. -/
namespace RotoV.ValueSpec
def handle (_args : List String) : String := "bad-op"
end RotoV.ValueSpec
