/-
  Model/ValueSpec — C02 behavioural oracle: an executable value-semantics
  reference for the copy / mutate / compare / match / `?` / list fragment the
  C02 harness generates (`harness/src/c02/beh.rs`).

  The reading of the manual it encodes:
  * records (named, generic, anonymous), enums, Option / Result / Verdict,
    strings, scalars are VALUES: reading a variable, a field, binding in a
    `match`, passing to / returning from a function, storing in an aggregate
    or a list all copy; a later write through one name never shows through
    another;
  * `==` / `!=` are structural (lists compare element-wise);
  * a `List` is a HANDLE to shared storage: every copy of the handle observes
    `push` / `swap` made through any other, also from inside a `for` over it
    (`for` re-reads the length on every iteration: `list.get(idx)` until `None`);
  * `swap(i, j)` does nothing when either index is out of bounds;
  * `match` takes the first arm whose pattern matches and whose guard holds;
  * a constructor (record literal — its initialisers in the order WRITTEN —, anonymous record,
    enum constructor, list literal, the arguments of a call, the operands of `==`) evaluates its
    components left to right, and each component HOLDS the value its expression had at that
    point: a later component (a block `{ x = …; e }`) that assigns to a variable, or to a field
    of it, that an earlier component read does not change the earlier component (`.seq`,
    `.recdO`, `.first`; the total core of this reading and its theorems: `Model/ValueCtor`).

  Executable only (the theorems of C02 are about the layout / memory model);
  `partial` is therefore fine here.  Core Lean only.
-/
namespace RotoV.ValueSpec

inductive Val where
  | int (i : Int)
  | str (s : String)
  /-- an opaque leaf (float, char, Asn, IpAddr, Prefix): `hex` is the text the host prints,
      `key` is what `==` compares — the same text for all but floats, where `0.0` and `-0.0`
      print differently and are equal (IEEE), and a NaN (key `nan`) equals nothing -/
  | opq (hex : String) (key : String)
  | unit
  | recd (fs : Array Val)
  | enm (tag : Nat) (fs : Array Val)
  | list (h : Nat)
  deriving Inhabited

mutual
inductive Expr where
  | lit (i : Int)
  | str (s : String)
  | opq (hex : String) (key : String)
  | unit
  | var (i : Nat)
  | fld (k : Nat) (e : Expr)
  | recd (fs : Array Expr)
  | enm (tag : Nat) (fs : Array Expr)
  | lst (xs : Array Expr)
  /-- `try(e)`: `let y = e?; Some(y.<path>)` inside a function returning an Option -/
  | try_ (path : Array Nat) (e : Expr)
  | eq (neg : Bool) (a b : Expr)
  | len (e : Expr)
  /-- `list.get(i)`: `Some(copy of the element)` or `None` -/
  | get (i : Nat) (l : Expr)
  | contains (l x : Expr)
  | index (l x : Expr)
  | concat (a b : Expr)
  /-- a callee that assigns the constant `c` to `.path` of ITS copy of the argument and returns it -/
  | passSet (path : Array Nat) (c e : Expr)
  | ite (c a b : Expr)
  /-- `{ let t = x; t.path = f; t }` -/
  | block (path : Array Nat) (x f : Expr)
  /-- `stale_k(l)`: a NEW one-element list `[l.get(l.len())]`, i.e. `[None]`, built by a helper
      whose `l.get(i)` result variable held `Some(l[i])` on the iterations before -/
  | staleNone (l : Expr)
  /-- `{ s₁; …; e }`: a block expression whose statements write to variables of the ENCLOSING
      scope (assignment to a variable / a field path, compound assignment, `push`), then its value.
      Inside a constructor this is where evaluation order shows: the components written before the
      block hold what their expressions were worth BEFORE the block ran -/
  | seq (ss : Array Stmt) (e : Expr)
  /-- record literal whose initialisers are written — and therefore evaluated — in another order
      than the declaration: `fs[i]` (source order) is stored at position `idx[i]` -/
  | recdO (idx : Array Nat) (fs : Array Expr)
  /-- `first_k(a, b)` (`fn first_k(x: T, y: U) -> T { x }`, or the host function of that shape):
      both arguments are evaluated, left to right, then the callee returns its first -/
  | first (a b : Expr)
  /-- integer arithmetic of a compound assignment, wrapping at the width of the type:
      `op` 0 = `+`, 1 = `-`, 2 = `*` -/
  | arith (op : Nat) (signed : Bool) (bits : Nat) (a b : Expr)
  /-- string concatenation `a + b` -/
  | sconcat (a b : Expr)
inductive Arm where
  | mk (tag : Int) (binds : Array Nat) (guard : Option Expr) (body : Array Stmt)
inductive Stmt where
  | let_ (v : Nat) (e : Expr)
  | set (v : Nat) (path : Array Nat) (e : Expr)
  | push (l e : Expr)
  | swap (l : Expr) (i j : Nat)
  | emit (e : Expr)
  | match_ (e : Expr) (arms : Array Arm)
  | for_ (x : Nat) (l : Expr) (body : Array Stmt)
  | iflt (e : Expr) (bound : Int) (a b : Array Stmt)
  /-- a host call without a value the script can observe (`paint_stack(n)`) -/
  | nop
end

instance : Inhabited Expr := ⟨.unit⟩
instance : Inhabited Stmt := ⟨.emit .unit⟩
instance : Inhabited Arm := ⟨.mk 0 #[] none #[]⟩

structure St where
  vars : Array Val := #[]
  heap : Array (Array Val) := #[]
  out : Array String := #[]
  /-- set when the program does something the spec gives no meaning to -/
  stuck : Option String := none

abbrev M := StateM St

def stuck (msg : String) : M Unit := modify fun s => { s with stuck := s.stuck <|> some msg }

def setVar (i : Nat) (v : Val) : M Unit := modify fun s =>
  let vars := if i < s.vars.size then s.vars else s.vars ++ Array.replicate (i + 1 - s.vars.size) Val.unit
  { s with vars := vars.set! i v }

partial def valEq (heap : Array (Array Val)) : Val → Val → Bool
  | .int a, .int b => a == b
  | .str a, .str b => a == b
  | .opq _ a, .opq _ b => a == b && a != "6e616e" -- (the keys arrive hex-encoded: `nan`)
  | .unit, .unit => true
  | .recd a, .recd b => a.size == b.size && (List.range a.size).all fun i => valEq heap a[i]! b[i]!
  | .enm t a, .enm u b =>
    t == u && a.size == b.size && (List.range a.size).all fun i => valEq heap a[i]! b[i]!
  | .list a, .list b =>
    -- one storage is equal to itself (`Arc::ptr_eq`; `list_eq_structural` of Props/C02); this
    -- only differs from the element-wise reading for a list that holds a NaN
    if a == b then true else
    let x := heap[a]!
    let y := heap[b]!
    x.size == y.size && (List.range x.size).all fun i => valEq heap x[i]! y[i]!
  | _, _ => false

def hexByte (b : UInt8) : String :=
  let d := fun (n : Nat) => if n < 10 then Char.ofNat (48 + n) else Char.ofNat (87 + n)
  String.ofList [d (b.toNat / 16), d (b.toNat % 16)]

def hexStr (s : String) : String := String.join (s.toUTF8.toList.map hexByte)

partial def flatten (heap : Array (Array Val)) : Val → Array String
  | .int i => #[s!"i:{i}"]
  | .str s => #[s!"s:{hexStr s}"]
  | .opq h _ => #[s!"o:{h}"]
  | .unit => #["u"]
  | .recd fs => fs.foldl (fun acc v => acc ++ flatten heap v) #[]
  | .enm t fs => fs.foldl (fun acc v => acc ++ flatten heap v) #[s!"t:{t}"]
  | .list h =>
    let xs := heap[h]!
    xs.foldl (fun acc v => acc ++ flatten heap v) #[s!"n:{xs.size}"]

def project (v : Val) (path : Array Nat) : Val :=
  path.foldl (fun v k => match v with
    | .recd fs => fs[k]!
    | other => other) v

partial def update (v : Val) (path : List Nat) (nv : Val) : Val :=
  match path with
  | [] => nv
  | k :: rest =>
    match v with
    | .recd fs => .recd (fs.set! k (update fs[k]! rest nv))
    | other => other

/-- wrap an integer to the range of an integer type -/
def wrapInt (signed : Bool) (bits : Nat) (i : Int) : Int :=
  let m : Int := (2 : Int) ^ bits
  let r := i % m
  if signed && r ≥ m / 2 then r - m else r

mutual
partial def eval : Expr → M Val
  | .lit i => pure (.int i)
  | .str s => pure (.str s)
  | .opq h k => pure (.opq h k)
  | .unit => pure .unit
  | .var i => do
    let s ← get
    if i < s.vars.size then pure s.vars[i]! else do stuck s!"unbound v{i}"; pure .unit
  | .fld k e => do
    match ← eval e with
    | .recd fs => if k < fs.size then pure fs[k]! else do stuck "field index"; pure .unit
    | _ => do stuck "field of a non-record"; pure .unit
  | .recd fs => do
    let mut out := #[]
    for f in fs do
      out := out.push (← eval f)
    pure (.recd out)
  | .enm t fs => do
    let mut out := #[]
    for f in fs do
      out := out.push (← eval f)
    pure (.enm t out)
  | .lst xs => do
    let mut out := #[]
    for x in xs do
      out := out.push (← eval x)
    let s ← get
    set { s with heap := s.heap.push out }
    pure (.list s.heap.size)
  | .try_ path e => do
    match ← eval e with
    | .enm 0 fs => pure (.enm 0 #[project fs[0]! path])
    | .enm _ _ => pure (.enm 1 #[])
    | _ => do stuck "? on a non-option"; pure .unit
  | .eq neg a b => do
    let x ← eval a
    let y ← eval b
    let s ← get
    let r := valEq s.heap x y
    pure (.int (if r != neg then 1 else 0))
  | .len e => do
    match ← eval e with
    | .list h => pure (.int (← get).heap[h]!.size)
    | _ => do stuck "len of a non-list"; pure .unit
  | .contains l x => do
    match ← eval l with
    | .list h =>
      let v ← eval x
      let s ← get
      pure (.int (if s.heap[h]!.any (fun e => valEq s.heap e v) then 1 else 0))
    | _ => do stuck "contains on a non-list"; pure .unit
  | .index l x => do
    match ← eval l with
    | .list h =>
      let v ← eval x
      let s ← get
      match s.heap[h]!.findIdx? (fun e => valEq s.heap e v) with
      | some i => pure (.enm 0 #[.int i])
      | none => pure (.enm 1 #[])
    | _ => do stuck "index on a non-list"; pure .unit
  | .concat a b => do
    match ← eval a with
    | .list ha =>
      match ← eval b with
      | .list hb =>
        let s ← get
        set { s with heap := s.heap.push (s.heap[ha]! ++ s.heap[hb]!) }
        pure (.list s.heap.size)
      | _ => do stuck "concat with a non-list"; pure .unit
    | _ => do stuck "concat on a non-list"; pure .unit
  | .passSet path c e => do
    let v ← eval e
    let nv ← eval c
    pure (update v path.toList nv)
  | .ite c a b => do
    match ← eval c with
    | .int 1 => eval a
    | _ => eval b
  | .block path x f => do
    let v ← eval x
    let nv ← eval f
    pure (update v path.toList nv)
  | .get i l => do
    match ← eval l with
    | .list h =>
      let xs := (← get).heap[h]!
      if i < xs.size then pure (.enm 0 #[xs[i]!]) else pure (.enm 1 #[])
    | _ => do stuck "get on a non-list"; pure .unit
  | .staleNone l => do
    match ← eval l with
    | .list _ =>
      let s ← get
      set { s with heap := s.heap.push #[.enm 1 #[]] }
      pure (.list s.heap.size)
    | _ => do stuck "stale on a non-list"; pure .unit
  | .seq ss e => do
    execBlock ss
    eval e
  | .recdO idx fs => do
    -- evaluated in the order written, stored where declared
    let mut out := Array.replicate fs.size Val.unit
    for i in [0:fs.size] do
      let v ← eval fs[i]!
      let k := idx[i]!
      if k < out.size then out := out.set! k v else stuck "record position"
    pure (.recd out)
  | .first a b => do
    let x ← eval a
    let _ ← eval b
    pure x
  | .arith op signed bits a b => do
    match ← eval a with
    | .int x =>
      match ← eval b with
      | .int y =>
        let r := match op with
          | 0 => x + y
          | 1 => x - y
          | _ => x * y
        pure (.int (wrapInt signed bits r))
      | _ => do stuck "arithmetic on a non-int"; pure .unit
    | _ => do stuck "arithmetic on a non-int"; pure .unit
  | .sconcat a b => do
    match ← eval a with
    | .str x =>
      match ← eval b with
      | .str y => pure (.str (x ++ y))
      | _ => do stuck "+ on a non-string"; pure .unit
    | _ => do stuck "+ on a non-string"; pure .unit
partial def exec : Stmt → M Unit
  | .let_ v e => do setVar v (← eval e)
  | .set v path e => do
    let nv ← eval e
    let s ← get
    if v < s.vars.size then setVar v (update s.vars[v]! path.toList nv) else stuck "set of unbound"
  | .push l e => do
    let lv ← eval l
    let x ← eval e
    match lv with
    | .list h => modify fun s => { s with heap := s.heap.set! h (s.heap[h]!.push x) }
    | _ => stuck "push on a non-list"
  | .swap l i j => do
    match ← eval l with
    | .list h => modify fun s =>
      let xs := s.heap[h]!
      if i < xs.size ∧ j < xs.size then
        { s with heap := s.heap.set! h ((xs.set! i xs[j]!).set! j xs[i]!) }
      else s
    | _ => stuck "swap on a non-list"
  | .emit e => do
    let v ← eval e
    modify fun s => { s with out := s.out ++ flatten s.heap v }
  | .match_ e arms => do
    match ← eval e with
    | .enm t fs => matchArms t fs arms.toList
    | _ => stuck "match on a non-enum"
  | .for_ x l body => do
    match ← eval l with
    | .list h => forLoop x h 0 body 10000
    | _ => stuck "for over a non-list"
  | .iflt e bound a b => do
    match ← eval e with
    | .int n => if n < bound then execBlock a else execBlock b
    | _ => stuck "if on a non-int"
  | .nop => pure ()
partial def execBlock (ss : Array Stmt) : M Unit := do
  for s in ss do
    exec s
partial def matchArms (t : Nat) (fs : Array Val) : List Arm → M Unit
  | [] => stuck "no arm matched"
  | .mk tag binds guard body :: rest => do
    if tag == -1 || tag == (t : Int) then
      for i in [0:binds.size] do
        setVar binds[i]! fs[i]!
      let ok ← match guard with
        | none => pure true
        | some g => do
          match ← eval g with
          | .int 1 => pure true
          | _ => pure false
      if ok then execBlock body else matchArms t fs rest
    else matchArms t fs rest
/-- `idx = 0; loop { match list.get(idx) { Some(x) => body, None => break }; idx += 1 }` -/
partial def forLoop (x h idx : Nat) (body : Array Stmt) (fuel : Nat) : M Unit := do
  if fuel == 0 then stuck "for: out of fuel" else
  let s ← get
  let xs := s.heap[h]!
  if idx < xs.size then
    setVar x xs[idx]!
    execBlock body
    forLoop x h (idx + 1) body (fuel - 1)
  else pure ()
end

/-! ### token-stream parser (`harness/src/c02/beh.rs` `spec_block`) -/

abbrev P := StateT (List String) Option

def tok : P String := do
  match ← get with
  | [] => failure
  | t :: r => set r; pure t

def nat : P Nat := do
  match (← tok).toNat? with
  | some n => pure n
  | none => failure

def int : P Int := do
  match (← tok).toInt? with
  | some n => pure n
  | none => failure

def hexVal (c : Char) : Option Nat :=
  if '0' ≤ c ∧ c ≤ '9' then some (c.toNat - '0'.toNat)
  else if 'a' ≤ c ∧ c ≤ 'f' then some (c.toNat - 'a'.toNat + 10)
  else none

def unhexStr (s : String) : Option String :=
  let rec go : List Char → List UInt8 → Option (List UInt8)
    | [], acc => some acc.reverse
    | a :: b :: rest, acc =>
      match hexVal a, hexVal b with
      | some x, some y => go rest (UInt8.ofNat (x * 16 + y) :: acc)
      | _, _ => none
    | _, _ => none
  match go s.toList [] with
  | some bytes => String.fromUTF8? ⟨bytes.toArray⟩
  | none => none

def times {α} (n : Nat) (p : P α) : P (Array α) := do
  let mut out := #[]
  for _ in [0:n] do
    out := out.push (← p)
  pure out

mutual
partial def pExpr : P Expr := do
  match ← tok with
  | "L" => pure (.lit (← int))
  | "S" => do
    let t ← tok
    if t == "-" then pure (.str "") else
    match unhexStr t with
    | some s => pure (.str s)
    | none => failure
  | "U" => pure .unit
  | "O" => do
    let h ← tok
    pure (.opq h h)
  | "O2" => do
    let h ← tok
    pure (.opq h (← tok))
  | "W" => pure (.staleNone (← pExpr))
  | "V" => pure (.var (← nat))
  | "F" => do
    let k ← nat
    pure (.fld k (← pExpr))
  | "R" => do
    let n ← nat
    pure (.recd (← times n pExpr))
  | "N" => do
    let t ← nat
    let n ← nat
    pure (.enm t (← times n pExpr))
  | "A" => do
    let n ← nat
    pure (.lst (← times n pExpr))
  | "T" => do
    let n ← nat
    let p ← times n nat
    pure (.try_ p (← pExpr))
  | "Q" => do
    let neg ← nat
    let a ← pExpr
    let b ← pExpr
    pure (.eq (neg == 1) a b)
  | "Z" => pure (.len (← pExpr))
  | "G" => do
    let i ← nat
    pure (.get i (← pExpr))
  | "C" => do
    let l ← pExpr
    pure (.contains l (← pExpr))
  | "X" => do
    let l ← pExpr
    pure (.index l (← pExpr))
  | "K" => do
    let a ← pExpr
    pure (.concat a (← pExpr))
  | "M" => do
    let n ← nat
    let p ← times n nat
    let c ← pExpr
    pure (.passSet p c (← pExpr))
  | "I" => do
    let c ← pExpr
    let a ← pExpr
    pure (.ite c a (← pExpr))
  | "B" => do
    let n ← nat
    let p ← times n nat
    let x ← pExpr
    pure (.block p x (← pExpr))
  | "SQ" => do
    let ss ← pBlock
    pure (.seq ss (← pExpr))
  | "RO" => do
    let n ← nat
    let mut idx := #[]
    let mut fs := #[]
    for _ in [0:n] do
      idx := idx.push (← nat)
      fs := fs.push (← pExpr)
    pure (.recdO idx fs)
  | "P1" => do
    let a ← pExpr
    pure (.first a (← pExpr))
  | "AR" => do
    let op ← nat
    let sg ← nat
    let bits ← nat
    let a ← pExpr
    pure (.arith op (sg == 1) bits a (← pExpr))
  | "SC" => do
    let a ← pExpr
    pure (.sconcat a (← pExpr))
  | _ => failure
partial def pBlock : P (Array Stmt) := do
  let n ← nat
  times n pStmt
partial def pArm : P Arm := do
  let tag ← int
  let nb ← nat
  let binds ← times nb nat
  let g ← nat
  let guard ← if g == 1 then some <$> pExpr else pure none
  let body ← pBlock
  pure (.mk tag binds guard body)
partial def pStmt : P Stmt := do
  match ← tok with
  | "let" => do
    let v ← nat
    pure (.let_ v (← pExpr))
  | "set" => do
    let v ← nat
    let k ← nat
    let p ← times k nat
    pure (.set v p (← pExpr))
  | "push" => do
    let l ← pExpr
    pure (.push l (← pExpr))
  | "swap" => do
    let l ← pExpr
    let i ← nat
    pure (.swap l i (← nat))
  | "emit" => pure (.emit (← pExpr))
  | "match" => do
    let e ← pExpr
    let n ← nat
    pure (.match_ e (← times n pArm))
  | "for" => do
    let x ← nat
    let l ← pExpr
    pure (.for_ x l (← pBlock))
  | "iflt" => do
    let e ← pExpr
    let b ← int
    let a ← pBlock
    pure (.iflt e b a (← pBlock))
  | "nop" => pure .nop
  | _ => failure
end

def handle (args : List String) : String :=
  match pBlock.run args with
  | some (prog, []) =>
    let (_, s) := (execBlock prog).run {}
    match s.stuck with
    | some m => s!"bad-stuck {m}"
    | none => ",".intercalate s.out.toList
  | _ => "bad-program"

end RotoV.ValueSpec
