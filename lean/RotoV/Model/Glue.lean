/-
  Drop / clone glue (DESIGN.md §4 C03, T2): the functions
  `::generated::drop_<ty>` and `::generated::clone_<ty>` that
  `src/lir/lower/drops.rs` and `src/lir/lower/clones.rs` emit for records and
  enums, as executable functions over type trees.

  The per-field loops are *interpreted from the statement lists the translator
  extracts* (`Generated/GlueLoops.lean`, `Step`/`Pre`), so the order of
  `builder.add`, the `needs_drop` test, the pointer computation and the call
  is the order the source has today.  What surrounds the loops is modelled by
  hand, following the source:

  * `call_drop_of` and `call_clone_function` are *not* hand-written either: their
    statements are extracted too (`CStmt`: the `needs_drop` / `needs_clone` test, the
    size test around the `memcpy`, the runtime function, the call of the generated
    function) and interpreted by `runCall`; `callDropOf` / `callCloneOf` turn what
    they emit into events (runtime function of a leaf, body of the generated
    function inlined, `memcpy`).  A size test that is hoisted in front of the
    `needs_clone` test is a different statement list, and a zero-sized droppable
    leaf is then no longer cloned.
  * `needs_drop` / `needs_clone` / `get_runtime_drop` / `get_runtime_clone`: the arms of
    their `match ty` are extracted (`KPat × NeedArm`) and evaluated over type trees by
    `needsBy` / `hasRuntimeBy`; `needsDrop` below is the closed form the theorems
    of `Props/C03Glue.lean` prove them equal to.
  * `generate_drop_body_enum`: reads the `u8` discriminant at offset 0 and
    switches; the *last* variant is the default target.
  * `call_clone_of (Pointer, Pointer)` → `call_clone_function`.
  * `generate_clone_body_enum`: copies the discriminant, then switches.
  * `layout_of` (`src/mir/ty.rs`) and `LayoutBuilder` (`src/runtime/layout.rs`).

  A value in memory is seen through `ρ : Nat → Nat`, the discriminant byte
  stored at an address.  The reference placement `leaves` is the one the
  lowering of places uses (`Lowerer::location`, `get_field`): a fresh builder,
  the tag first for variants, every field added in declaration order.

  Uninhabited components (`Ty::Never`) are outside this model: `layout_of` is
  total here, so `layoutOrSkip` never skips.

  Core Lean only.
-/
namespace RotoV.Glue

structure Layout where
  size : Nat
  align : Nat
  deriving DecidableEq, Repr, Inhabited

structure Builder where
  size : Nat
  align : Nat
  deriving DecidableEq, Repr, Inhabited

/-- `usize::next_multiple_of` (alignments are positive; `a = 0` would panic) -/
def nextMultipleOf (n a : Nat) : Nat := if a = 0 then n else ((n + a - 1) / a) * a

/-- `LayoutBuilder::new` -/
def Builder.new : Builder := ⟨0, 1⟩

/-- `LayoutBuilder::add`: the offset at which the layout was added -/
def Builder.addOff (b : Builder) (l : Layout) : Nat := nextMultipleOf b.size l.align

/-- `LayoutBuilder::add`: the builder afterwards -/
def Builder.add (b : Builder) (l : Layout) : Builder :=
  ⟨b.addOff l + l.size, max b.align l.align⟩

/-- `LayoutBuilder::finish` -/
def Builder.finish (b : Builder) : Layout := ⟨nextMultipleOf b.size b.align, b.align⟩

/-- `Layout::union` -/
def Layout.union (a b : Layout) : Layout :=
  let align := max a.align b.align
  ⟨nextMultipleOf (max a.size b.size) align, align⟩

/-- `Layout::of::<u8>()` -/
def tagLayout : Layout := ⟨1, 1⟩

/-! ## Type trees -/

mutual
  inductive GTy where
    /-- primitive, list or registered type: `id` names its drop / clone function,
        `dr` = its movability is `CloneDrop` (String, List, `#[clone]` types) -/
    | leaf (id size align : Nat) (dr : Bool)
    | record (fs : GTys)
    | enum (vs : GVars)
  inductive GTys where
    | nil
    | cons (t : GTy) (ts : GTys)
  inductive GVars where
    | nil
    | cons (fs : GTys) (vs : GVars)
end

mutual
  /-- `Lowerer::needs_drop` = `needs_clone` -/
  def needsDrop : GTy → Bool
    | .leaf _ _ _ dr => dr
    | .record fs => anyDrop fs
    | .enum vs => anyDropV vs
  def anyDrop : GTys → Bool
    | .nil => false
    | .cons t ts => needsDrop t || anyDrop ts
  def anyDropV : GVars → Bool
    | .nil => false
    | .cons fs vs => anyDrop fs || anyDropV vs
end

mutual
  /-- `TyPool::layout_of` -/
  def layoutOf : GTy → Layout
    | .leaf _ s a _ => ⟨s, a⟩
    | .record fs => (addAll fs Builder.new).finish
    | .enum vs => (unionAll vs none).getD ⟨0, 1⟩
  def addAll : GTys → Builder → Builder
    | .nil, b => b
    | .cons t ts, b => addAll ts (b.add (layoutOf t))
  def unionAll : GVars → Option Layout → Option Layout
    | .nil, acc => acc
    | .cons fs vs, acc =>
      let v := (addAll fs (Builder.new.add tagLayout)).finish
      unionAll vs (some (match acc with | some l => l.union v | none => v))
end

/-! ## `needs_drop` / `needs_clone` / `get_runtime_drop` / `get_runtime_clone` as extracted -/

/-- the constructors of `mir::Ty` (`prim` = a primitive other than `String`) -/
inductive Kind where
  | unit | never | record | enum | string | prim | list | runtime
  deriving DecidableEq, Repr, Inhabited

/-- the patterns of the arms of `match ty` -/
inductive KPat where
  | unit | never | record | enum | string
  /-- `Ty::Primitive(_)` -/
  | primAny
  | list | runtime
  /-- `_` -/
  | wild
  deriving DecidableEq, Repr, Inhabited

def KPat.matches : KPat → Kind → Bool
  | .unit, .unit | .never, .never | .record, .record | .enum, .enum | .string, .string
  | .primAny, .string | .primAny, .prim | .list, .list | .runtime, .runtime => true
  | .wild, _ => true
  | _, _ => false

/-- the two predicates (and the two halves of a `CloneDrop` pair) -/
inductive Fn where
  | drop | clone
  deriving DecidableEq, Repr, Inhabited

inductive NeedArm where
  /-- `false` -/
  | no
  /-- `true` -/
  | yes
  /-- `fields.iter().any(|&(_, t)| self.needs_<f>(t))` -/
  | anyField (f : Fn)
  /-- `variants.iter().flat_map(|v| &v.1).any(|&t| self.needs_<f>(t))` -/
  | anyVariantField (f : Fn)
  /-- the movability of the registered type is `CloneDrop` -/
  | cloneDrop
  deriving DecidableEq, Repr, Inhabited

/-- first arm whose pattern matches (Rust's `match`) -/
def armOf : List (KPat × NeedArm) → Kind → Option NeedArm
  | [], _ => none
  | (p, a) :: rest, k => if p.matches k then some a else armOf rest k

/-- is the movability of a type of kind `k` `CloneDrop`?  `String` and `List` are registered
    that way by the runtime itself; for a registered type `cd` says so -/
def cloneDropOf (k : Kind) (cd : Bool) : Bool :=
  match k with
  | .string | .list => true
  | .runtime => cd
  | _ => false

mutual
  /-- `needs_drop` (`f = .drop`) / `needs_clone` (`f = .clone`) evaluated from the extracted arms
      `A`; `κ` gives the kind of a leaf (by its id) and `cd` whether a registered leaf type is
      `CloneDrop` -/
  def needsBy (A : Fn → List (KPat × NeedArm)) (κ : Nat → Kind) (cd : Nat → Bool) :
      Fn → GTy → Bool
    | f, .leaf id _ _ _ =>
      match armOf (A f) (κ id) with
      | some .yes => true
      | some .cloneDrop => cd id
      | _ => false
    | f, .record fs =>
      match armOf (A f) .record with
      | some .yes => true
      | some (.anyField g) => anyBy A κ cd g fs
      | _ => false
    | f, .enum vs =>
      match armOf (A f) .enum with
      | some .yes => true
      | some (.anyVariantField g) => anyVBy A κ cd g vs
      | _ => false
  def anyBy (A : Fn → List (KPat × NeedArm)) (κ : Nat → Kind) (cd : Nat → Bool) :
      Fn → GTys → Bool
    | _, .nil => false
    | g, .cons t ts => needsBy A κ cd g t || anyBy A κ cd g ts
  def anyVBy (A : Fn → List (KPat × NeedArm)) (κ : Nat → Kind) (cd : Nat → Bool) :
      Fn → GVars → Bool
    | _, .nil => false
    | g, .cons fs vs => anyBy A κ cd g fs || anyVBy A κ cd g vs
end

/-- `get_runtime_drop(ty).is_some()` / `get_runtime_clone(ty).is_some()` from the extracted kinds -/
def hasRuntimeBy (pats : List KPat) (κ : Nat → Kind) (cd : Nat → Bool) : GTy → Bool
  | .leaf id _ _ _ => pats.any (·.matches (κ id)) && cloneDropOf (κ id) (cd id)
  | .record _ => pats.any (·.matches .record) && cloneDropOf .record false
  | .enum _ => pats.any (·.matches .enum) && cloneDropOf .enum false

/-! ### Which body a generated function gets, and the vtable of a list element -/

inductive BodyArm where
  /-- `self.emit_return(None);`: the function does nothing -/
  | ret
  /-- `generate_drop_body_record` / `generate_clone_body_record` -/
  | recordLoop
  /-- `generate_drop_body_enum` / `generate_clone_body_enum` -/
  | enumSwitch
  /-- `memcpy` of the whole value, then return (a registered `Copy` type) -/
  | memcpyRet
  /-- `ice!(…)`: must be unreachable -/
  | ice
  deriving DecidableEq, Repr, Inhabited

/-- `generate_drop_body` / `generate_clone_body`: whether
    `if let Some(f) = self.get_runtime_…(ty) { <f on the value>; return }` precedes the match on
    the type, and the arms of that match -/
structure BodyFn where
  runtimeFirst : Bool
  arms : List (KPat × BodyArm)
  deriving Repr, Inhabited

inductive Body where
  /-- the runtime drop / clone function on the value itself -/
  | runtime
  | arm (a : BodyArm)
  /-- no arm matches (the Rust `match` would not compile) -/
  | none
  deriving DecidableEq, Repr, Inhabited

def bodyArmOf : List (KPat × BodyArm) → Kind → Body
  | [], _ => .none
  | (p, a) :: rest, k => if p.matches k then .arm a else bodyArmOf rest k

/-- the body of the generated function of a type of kind `k`; `hasRt` = the runtime lookup succeeds -/
def BodyFn.body (B : BodyFn) (hasRt : Bool) (k : Kind) : Body :=
  if B.runtimeFirst && hasRt then .runtime else bodyArmOf B.arms k

/-- `call_runtime`: the vtable gets the function `fn` of the element type when `needs_<cond>` -/
structure VtFn where
  cond : Fn
  fn : Fn
  deriving DecidableEq, Repr, Inhabited

/-- the kinds a leaf can have -/
def Kind.isLeaf : Kind → Bool
  | .record | .enum => false
  | _ => true

mutual
  /-- the `dr` bit of every leaf is what its kind says: `String`, `List`, registered `CloneDrop` -/
  def Kinded (κ : Nat → Kind) (cd : Nat → Bool) : GTy → Bool
    | .leaf id _ _ dr => (κ id).isLeaf && (dr == cloneDropOf (κ id) (cd id))
    | .record fs => KindedFs κ cd fs
    | .enum vs => KindedVs κ cd vs
  def KindedFs (κ : Nat → Kind) (cd : Nat → Bool) : GTys → Bool
    | .nil => true
    | .cons t ts => Kinded κ cd t && KindedFs κ cd ts
  def KindedVs (κ : Nat → Kind) (cd : Nat → Bool) : GVars → Bool
    | .nil => true
    | .cons fs vs => KindedFs κ cd fs && KindedVs κ cd vs
end

/-! ## The loops as extracted -/

inductive Base where
  /-- `root_var`: the value being dropped / cloned -/
  | root
  /-- `return_var`: the destination of a clone -/
  | ret
  deriving DecidableEq, Repr, Inhabited

inductive LVar where
  | var | to | from
  deriving DecidableEq, Repr, Inhabited

inductive Step where
  /-- `let Some(layout) = self.layout_of(ty) else { continue; };` -/
  | layoutOrSkip
  /-- `let new_offset = builder.add(&layout);` -/
  | add
  /-- `if !self.needs_drop(ty) { continue; }` -/
  | skipUnlessNeedsDrop
  /-- `let x = self.offset(base.clone(), new_offset as u32);` or
      `let x = Location::Pointer { base: base.clone(), offset: new_offset };` -/
  | ptr (x : LVar) (base : Base)
  /-- `self.call_drop_of(x.into(), ty);` -/
  | callDrop (x : LVar)
  /-- `self.call_clone_of(a, b, ty);` (first parameter: destination, second: source) -/
  | callClone (a b : LVar)
  deriving DecidableEq, Repr, Inhabited

inductive Pre where
  /-- `builder.add(&Layout::of::<u8>());` -/
  | addTag
  deriving DecidableEq, Repr, Inhabited

/-! ## `call_drop_of` / `call_clone_function` as extracted -/

inductive CCond where
  /-- `!self.needs_drop(ty)` in `call_drop_of`, `!self.needs_clone(ty)` in `call_clone_function` -/
  | notNeeds
  /-- `size == 0` -/
  | sizeZero
  /-- `size > 0` -/
  | sizePos
  /-- `let Some(f) = self.get_runtime_drop(ty)` / `get_runtime_clone(ty)` -/
  | hasRuntime
  deriving DecidableEq, Repr, Inhabited

inductive CStmt where
  /-- `let size = self.layout_of(ty).unwrap().size() as u32;` -/
  | letSize
  /-- `if c { <the next n statements> }` -/
  | ifc (c : CCond) (n : Nat)
  /-- `return;` -/
  | ret
  /-- `self.emit_memcpy(to.into(), from.into(), size);` -/
  | memcpy
  /-- the runtime drop / clone function of a registered type, String or List -/
  | runtime
  /-- the call of `::generated::drop_<ty>` / `::generated::clone_<ty>` -/
  | callGen
  /-- `self.ctx.drops_to_generate.push_back(ty)` / `clones_to_generate` -/
  | enqueue
  deriving DecidableEq, Repr, Inhabited

/-- what a call decision emits -/
inductive Act where
  | memcpy (n : Nat)
  | runtime
  | callGen
  | enqueue
  /-- `size` is used before `let size` (the Rust would not compile) -/
  | stuck
  deriving DecidableEq, Repr, Inhabited

/-- what the decisions look at: `layout_of(ty).size()`, `needs_drop(ty)` (= `needs_clone(ty)`),
    whether `get_runtime_drop(ty)` (`get_runtime_clone(ty)`) finds a function -/
structure CallEnv where
  size : Nat
  needs : Bool
  hasRt : Bool
  deriving DecidableEq, Repr, Inhabited

def CCond.holds (e : CallEnv) (bound : Bool) : CCond → Option Bool
  | .notNeeds => some (!e.needs)
  | .sizeZero => if bound then some (e.size == 0) else none
  | .sizePos => if bound then some (!(e.size == 0)) else none
  | .hasRuntime => some e.hasRt

/-- Run the statements of a call decision. `skip` = statements of an `if` body still to be
    skipped (its condition was false); `bound` = `let size` has been executed. -/
def runCall (e : CallEnv) : List CStmt → Nat → Bool → List Act → List Act
  | [], _, _, acc => acc
  | _ :: rest, k + 1, b, acc => runCall e rest k b acc
  | .letSize :: rest, 0, _, acc => runCall e rest 0 true acc
  | .ifc c n :: rest, 0, b, acc =>
    match c.holds e b with
    | some true => runCall e rest 0 b acc
    | some false => runCall e rest n b acc
    | none => acc ++ [.stuck]
  | .ret :: _, 0, _, acc => acc
  | .memcpy :: rest, 0, b, acc =>
    if b then runCall e rest 0 b (acc ++ [.memcpy e.size]) else acc ++ [.stuck]
  | .runtime :: rest, 0, b, acc => runCall e rest 0 b (acc ++ [.runtime])
  | .callGen :: rest, 0, b, acc => runCall e rest 0 b (acc ++ [.callGen])
  | .enqueue :: rest, 0, b, acc => runCall e rest 0 b (acc ++ [.enqueue])

def callActs (stmts : List CStmt) (e : CallEnv) : List Act := runCall e stmts 0 false []

/-- does the call make a host function run (the runtime function, or the generated one)? -/
def Act.isHost : Act → Bool
  | .runtime | .callGen => true
  | _ => false

structure Prog where
  dropRecord : List Step
  dropEnumPre : List Pre
  dropEnum : List Step
  cloneRecord : List Step
  cloneEnumPre : List Pre
  cloneEnum : List Step
  /-- `call_drop_of` -/
  dropCall : List CStmt
  /-- `call_clone_function` -/
  cloneCall : List CStmt
  deriving Repr, Inhabited

/-! ## Events -/

inductive Ev where
  /-- the drop function of leaf `id` runs on address `a` -/
  | drop (a id : Nat)
  /-- the clone function of leaf `id` reads `src` and creates a value at `dst` -/
  | clone (src dst id : Nat)
  /-- `memcpy` of `size` bytes -/
  | copy (src dst size : Nat)
  /-- the discriminant byte at `src` is written to `dst` -/
  | tag (src dst : Nat)
  /-- the statement list uses a local before binding it (the Rust would not compile) -/
  | stuck
  deriving DecidableEq, Repr, Inhabited

/-- state of one iteration of a field loop -/
structure Iter where
  b : Builder
  layout : Option Layout
  newOffset : Option Nat
  var : Option Nat
  to : Option Nat
  frm : Option Nat
  out : List Ev
  deriving Repr, Inhabited

def Iter.get (s : Iter) : LVar → Option Nat
  | .var => s.var
  | .to => s.to
  | .from => s.frm

def Iter.set (s : Iter) (x : LVar) (v : Nat) : Iter :=
  match x with
  | .var => { s with var := some v }
  | .to => { s with to := some v }
  | .from => { s with frm := some v }

/-- One iteration: run the statements for a field whose layout is `lay` and whose
    `needs_drop` is `nd`; `root` / `ret` are the addresses the base variables hold;
    `dropOf p` / `cloneOf src dst` are what `call_drop_of` / `call_clone_of` emit. -/
def runSteps (lay : Layout) (nd : Bool) (root ret : Nat)
    (dropOf : Nat → List Ev) (cloneOf : Nat → Nat → List Ev) : List Step → Iter → Iter
  | [], s => s
  | .layoutOrSkip :: rest, s =>
    runSteps lay nd root ret dropOf cloneOf rest { s with layout := some lay }
  | .add :: rest, s =>
    match s.layout with
    | some l =>
      runSteps lay nd root ret dropOf cloneOf rest
        { s with b := s.b.add l, newOffset := some (s.b.addOff l) }
    | none => { s with out := s.out ++ [.stuck] }
  | .skipUnlessNeedsDrop :: rest, s =>
    if nd then runSteps lay nd root ret dropOf cloneOf rest s else s
  | .ptr x base :: rest, s =>
    match s.newOffset with
    | some o =>
      runSteps lay nd root ret dropOf cloneOf rest
        (s.set x ((match base with | .root => root | .ret => ret) + o))
    | none => { s with out := s.out ++ [.stuck] }
  | .callDrop x :: rest, s =>
    match s.get x with
    | some p => runSteps lay nd root ret dropOf cloneOf rest { s with out := s.out ++ dropOf p }
    | none => { s with out := s.out ++ [.stuck] }
  | .callClone a b :: rest, s =>
    match s.get a, s.get b with
    | some dst, some src =>
      runSteps lay nd root ret dropOf cloneOf rest { s with out := s.out ++ cloneOf src dst }
    | _, _ => { s with out := s.out ++ [.stuck] }

/-- a fresh iteration; `bound` = the loop pattern already binds `layout`
    (`for (ty, layout) in layouts`) -/
def Iter.start (b : Builder) (lay : Layout) (bound : Bool) : Iter :=
  ⟨b, if bound then some lay else none, none, none, none, none, []⟩

def runPre : List Pre → Builder → Builder
  | [], b => b
  | .addTag :: rest, b => runPre rest (b.add tagLayout)

/-! ## What a call decision makes happen -/

/-- `get_runtime_drop(ty)` / `get_runtime_clone(ty)` find a function: a leaf whose movability is
    `CloneDrop` (closed form; `hasRuntimeBy` evaluates the extracted arms) -/
def isDrLeaf : GTy → Bool
  | .leaf _ _ _ dr => dr
  | _ => false

def callEnv (t : GTy) : CallEnv := ⟨(layoutOf t).size, needsDrop t, isDrLeaf t⟩

/-- `call_drop_of(p, t)` at run time: `body` is what the generated drop function of `t` does on `p` -/
def callDropOf (P : Prog) (t : GTy) (p : Nat) (body : List Ev) : List Ev :=
  (callActs P.dropCall (callEnv t)).flatMap fun
    | .runtime => (match t with | .leaf id _ _ _ => [.drop p id] | _ => [.stuck])
    | .callGen => body
    | .enqueue => []
    | .memcpy _ => [.stuck]
    | .stuck => [.stuck]

/-- `call_clone_function(src, dst, t)` at run time: `body` is what the generated clone function
    of `t` does -/
def callCloneOf (P : Prog) (t : GTy) (src dst : Nat) (body : List Ev) : List Ev :=
  (callActs P.cloneCall (callEnv t)).flatMap fun
    | .runtime => (match t with | .leaf id _ _ _ => [.clone src dst id] | _ => [.stuck])
    | .callGen => body
    | .enqueue => []
    | .memcpy n => [.copy src dst n]
    | .stuck => [.stuck]

/-! ## The generated drop functions -/

mutual
  /-- body of the drop function of `ty`, running on the value at address `a` -/
  def dropTy (P : Prog) (ρ : Nat → Nat) : GTy → Nat → List Ev
    | .leaf id _ _ dr, a => if dr then [.drop a id] else []
    | .record fs, a => dropFields P ρ fs a Builder.new
    | .enum vs, a => dropVariants P ρ vs a (ρ a)
  /-- `generate_drop_body_record`: the field loop -/
  def dropFields (P : Prog) (ρ : Nat → Nat) : GTys → Nat → Builder → List Ev
    | .nil, _, _ => []
    | .cons t ts, a, b =>
      let s := runSteps (layoutOf t) (needsDrop t) a a
        (fun p => callDropOf P t p (dropTy P ρ t p)) (fun _ _ => [.stuck])
        P.dropRecord (Iter.start b (layoutOf t) false)
      s.out ++ dropFields P ρ ts a s.b
  /-- the switch of `generate_drop_body_enum`: variant `k`, the last one by default -/
  def dropVariants (P : Prog) (ρ : Nat → Nat) : GVars → Nat → Nat → List Ev
    | .nil, _, _ => []
    | .cons fs .nil, a, _ => dropVFields P ρ fs a (runPre P.dropEnumPre Builder.new)
    | .cons fs (.cons _ _), a, 0 => dropVFields P ρ fs a (runPre P.dropEnumPre Builder.new)
    | .cons _ (.cons fs' vs'), a, k + 1 => dropVariants P ρ (.cons fs' vs') a k
  /-- `generate_drop_body_enum`: the field loop of one variant -/
  def dropVFields (P : Prog) (ρ : Nat → Nat) : GTys → Nat → Builder → List Ev
    | .nil, _, _ => []
    | .cons t ts, a, b =>
      let s := runSteps (layoutOf t) (needsDrop t) a a
        (fun p => callDropOf P t p (dropTy P ρ t p)) (fun _ _ => [.stuck])
        P.dropEnum (Iter.start b (layoutOf t) true)
      s.out ++ dropVFields P ρ ts a s.b
end

/-! ## The generated clone functions -/

mutual
  /-- body of the clone function of `ty`: clone the value at `src` into `dst` -/
  def cloneTy (P : Prog) (ρ : Nat → Nat) : GTy → Nat → Nat → List Ev
    | .leaf id _ _ dr, src, dst => if dr then [.clone src dst id] else []
    | .record fs, src, dst => cloneFields P ρ fs src dst Builder.new
    | .enum vs, src, dst => .tag src dst :: cloneVariants P ρ vs src dst (ρ src)
  def cloneFields (P : Prog) (ρ : Nat → Nat) : GTys → Nat → Nat → Builder → List Ev
    | .nil, _, _, _ => []
    | .cons t ts, src, dst, b =>
      let s := runSteps (layoutOf t) (needsDrop t) src dst (fun _ => [.stuck])
        (fun p q => callCloneOf P t p q (cloneTy P ρ t p q))
        P.cloneRecord (Iter.start b (layoutOf t) false)
      s.out ++ cloneFields P ρ ts src dst s.b
  def cloneVariants (P : Prog) (ρ : Nat → Nat) : GVars → Nat → Nat → Nat → List Ev
    | .nil, _, _, _ => []
    | .cons fs .nil, src, dst, _ => cloneVFields P ρ fs src dst (runPre P.cloneEnumPre Builder.new)
    | .cons fs (.cons _ _), src, dst, 0 =>
      cloneVFields P ρ fs src dst (runPre P.cloneEnumPre Builder.new)
    | .cons _ (.cons fs' vs'), src, dst, k + 1 => cloneVariants P ρ (.cons fs' vs') src dst k
  def cloneVFields (P : Prog) (ρ : Nat → Nat) : GTys → Nat → Nat → Builder → List Ev
    | .nil, _, _, _ => []
    | .cons t ts, src, dst, b =>
      let s := runSteps (layoutOf t) (needsDrop t) src dst (fun _ => [.stuck])
        (fun p q => callCloneOf P t p q (cloneTy P ρ t p q))
        P.cloneEnum (Iter.start b (layoutOf t) true)
      s.out ++ cloneVFields P ρ ts src dst s.b
end

/-! ## Reference: where the host values of a value are -/

mutual
  /-- `(address, leaf id)` of every droppable leaf of the value of type `ty` at `a`,
      in declaration order, following the placement of `Lowerer::location` -/
  def leaves (ρ : Nat → Nat) : GTy → Nat → List (Nat × Nat)
    | .leaf id _ _ dr, a => if dr then [(a, id)] else []
    | .record fs, a => leavesFields ρ fs a Builder.new
    | .enum vs, a => leavesVariants ρ vs a (ρ a)
  def leavesFields (ρ : Nat → Nat) : GTys → Nat → Builder → List (Nat × Nat)
    | .nil, _, _ => []
    | .cons t ts, a, b =>
      leaves ρ t (a + b.addOff (layoutOf t)) ++ leavesFields ρ ts a (b.add (layoutOf t))
  def leavesVariants (ρ : Nat → Nat) : GVars → Nat → Nat → List (Nat × Nat)
    | .nil, _, _ => []
    | .cons fs .nil, a, _ => leavesFields ρ fs a (Builder.new.add tagLayout)
    | .cons fs (.cons _ _), a, 0 => leavesFields ρ fs a (Builder.new.add tagLayout)
    | .cons _ (.cons fs' vs'), a, k + 1 => leavesVariants ρ (.cons fs' vs') a k
end

mutual
  /-- the same walk over a source and a destination in parallel (discriminants
      read from the source): `(source address, destination address, leaf id)` -/
  def leaves2 (ρ : Nat → Nat) : GTy → Nat → Nat → List (Nat × Nat × Nat)
    | .leaf id _ _ dr, s, d => if dr then [(s, d, id)] else []
    | .record fs, s, d => leaves2Fields ρ fs s d Builder.new
    | .enum vs, s, d => leaves2Variants ρ vs s d (ρ s)
  def leaves2Fields (ρ : Nat → Nat) : GTys → Nat → Nat → Builder → List (Nat × Nat × Nat)
    | .nil, _, _, _ => []
    | .cons t ts, s, d, b =>
      leaves2 ρ t (s + b.addOff (layoutOf t)) (d + b.addOff (layoutOf t))
        ++ leaves2Fields ρ ts s d (b.add (layoutOf t))
  def leaves2Variants (ρ : Nat → Nat) : GVars → Nat → Nat → Nat → List (Nat × Nat × Nat)
    | .nil, _, _, _ => []
    | .cons fs .nil, s, d, _ => leaves2Fields ρ fs s d (Builder.new.add tagLayout)
    | .cons fs (.cons _ _), s, d, 0 => leaves2Fields ρ fs s d (Builder.new.add tagLayout)
    | .cons _ (.cons fs' vs'), s, d, k + 1 => leaves2Variants ρ (.cons fs' vs') s d k
end

mutual
  /-- `(source, destination)` addresses of the discriminant bytes that decide where the
      host values of a value are: those of the enums reached through fields that need a
      drop (a field that needs none has no leaf, whatever its variants) -/
  def discs2 (ρ : Nat → Nat) : GTy → Nat → Nat → List (Nat × Nat)
    | .leaf _ _ _ _, _, _ => []
    | .record fs, s, d => discs2Fields ρ fs s d Builder.new
    | .enum vs, s, d => (s, d) :: discs2Variants ρ vs s d (ρ s)
  def discs2Fields (ρ : Nat → Nat) : GTys → Nat → Nat → Builder → List (Nat × Nat)
    | .nil, _, _, _ => []
    | .cons t ts, s, d, b =>
      (if needsDrop t then
          discs2 ρ t (s + b.addOff (layoutOf t)) (d + b.addOff (layoutOf t)) else [])
        ++ discs2Fields ρ ts s d (b.add (layoutOf t))
  def discs2Variants (ρ : Nat → Nat) : GVars → Nat → Nat → Nat → List (Nat × Nat)
    | .nil, _, _, _ => []
    | .cons fs .nil, s, d, _ => discs2Fields ρ fs s d (Builder.new.add tagLayout)
    | .cons fs (.cons _ _), s, d, 0 => discs2Fields ρ fs s d (Builder.new.add tagLayout)
    | .cons _ (.cons fs' vs'), s, d, k + 1 => discs2Variants ρ (.cons fs' vs') s d k
end

/-- the `(source, destination)` of the discriminant bytes a clone writes -/
def tags : List Ev → List (Nat × Nat)
  | [] => []
  | .tag s d :: es => (s, d) :: tags es
  | _ :: es => tags es

def Ev.isStuck : Ev → Bool
  | .stuck => true
  | _ => false

/-- the `(source, destination, id)` of the host values a clone creates -/
def cloned : List Ev → List (Nat × Nat × Nat)
  | [] => []
  | .clone s d id :: es => (s, d, id) :: cloned es
  | _ :: es => cloned es

/-- `(address, id)` released by a drop -/
def dropped : List Ev → List (Nat × Nat)
  | [] => []
  | .drop a id :: es => (a, id) :: dropped es
  | _ :: es => dropped es

end RotoV.Glue
