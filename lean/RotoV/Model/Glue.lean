/-
  Drop / clone glue (DESIGN.md §4 C03, T2): the functions
  `::generated::drop_<ty>` and `::generated::clone_<ty>` that
  `src/lir/lower/drops.rs` and `src/lir/lower/clones.rs` emit for records and
  enums, as executable functions over type trees.

  The per-field loops are *interpreted from the statement lists the translator
  extracts* (`Generated/GlueLoops.lean`, `Step`/`Pre`), so the order of
  `builder.add`, the `needs_drop` test, the pointer computation and the call
  is the order the source has today.  What surrounds the loops is modelled by
  hand, following the source:

  * `call_drop_of`: nothing if `!needs_drop(ty)`; the runtime drop function for
    String / List / registered clone types (leaves with `dr = true`); a call of
    the generated function otherwise (inlined here).
  * `generate_drop_body_enum`: reads the `u8` discriminant at offset 0 and
    switches; the *last* variant is the default target.
  * `call_clone_of (Pointer, Pointer)` → `call_clone_function`: `memcpy` of
    `layout_of(ty).size()` bytes if `!needs_clone(ty)`; the runtime clone
    function; or the generated clone function.
  * `generate_clone_body_enum`: copies the discriminant, then switches.
  * `layout_of` (`src/mir/ty.rs`) and `LayoutBuilder` (`src/runtime/layout.rs`).

  A value in memory is seen through `ρ : Nat → Nat`, the discriminant byte
  stored at an address.  The reference placement `leaves` is the one the
  lowering of places uses (`Lowerer::location`, `get_field`): a fresh builder,
  the tag first for variants, every field added in declaration order.

  Uninhabited components (`Ty::Never`) are outside this model: `layout_of` is
  total here, so `layoutOrSkip` never skips.

  Core Lean only.
-/
namespace RotoV.Glue

structure Layout where
  size : Nat
  align : Nat
  deriving DecidableEq, Repr, Inhabited

structure Builder where
  size : Nat
  align : Nat
  deriving DecidableEq, Repr, Inhabited

/-- `usize::next_multiple_of` (alignments are positive; `a = 0` would panic) -/
def nextMultipleOf (n a : Nat) : Nat := if a = 0 then n else ((n + a - 1) / a) * a

/-- `LayoutBuilder::new` -/
def Builder.new : Builder := ⟨0, 1⟩

/-- `LayoutBuilder::add`: the offset at which the layout was added -/
def Builder.addOff (b : Builder) (l : Layout) : Nat := nextMultipleOf b.size l.align

/-- `LayoutBuilder::add`: the builder afterwards -/
def Builder.add (b : Builder) (l : Layout) : Builder :=
  ⟨b.addOff l + l.size, max b.align l.align⟩

/-- `LayoutBuilder::finish` -/
def Builder.finish (b : Builder) : Layout := ⟨nextMultipleOf b.size b.align, b.align⟩

/-- `Layout::union` -/
def Layout.union (a b : Layout) : Layout :=
  let align := max a.align b.align
  ⟨nextMultipleOf (max a.size b.size) align, align⟩

/-- `Layout::of::<u8>()` -/
def tagLayout : Layout := ⟨1, 1⟩

/-! ## Type trees -/

mutual
  inductive GTy where
    /-- primitive, list or registered type: `id` names its drop / clone function,
        `dr` = its movability is `CloneDrop` (String, List, `#[clone]` types) -/
    | leaf (id size align : Nat) (dr : Bool)
    | record (fs : GTys)
    | enum (vs : GVars)
  inductive GTys where
    | nil
    | cons (t : GTy) (ts : GTys)
  inductive GVars where
    | nil
    | cons (fs : GTys) (vs : GVars)
end

mutual
  /-- `Lowerer::needs_drop` = `needs_clone` -/
  def needsDrop : GTy → Bool
    | .leaf _ _ _ dr => dr
    | .record fs => anyDrop fs
    | .enum vs => anyDropV vs
  def anyDrop : GTys → Bool
    | .nil => false
    | .cons t ts => needsDrop t || anyDrop ts
  def anyDropV : GVars → Bool
    | .nil => false
    | .cons fs vs => anyDrop fs || anyDropV vs
end

mutual
  /-- `TyPool::layout_of` -/
  def layoutOf : GTy → Layout
    | .leaf _ s a _ => ⟨s, a⟩
    | .record fs => (addAll fs Builder.new).finish
    | .enum vs => (unionAll vs none).getD ⟨0, 1⟩
  def addAll : GTys → Builder → Builder
    | .nil, b => b
    | .cons t ts, b => addAll ts (b.add (layoutOf t))
  def unionAll : GVars → Option Layout → Option Layout
    | .nil, acc => acc
    | .cons fs vs, acc =>
      let v := (addAll fs (Builder.new.add tagLayout)).finish
      unionAll vs (some (match acc with | some l => l.union v | none => v))
end

/-! ## The loops as extracted -/

inductive Base where
  /-- `root_var`: the value being dropped / cloned -/
  | root
  /-- `return_var`: the destination of a clone -/
  | ret
  deriving DecidableEq, Repr, Inhabited

inductive LVar where
  | var | to | from
  deriving DecidableEq, Repr, Inhabited

inductive Step where
  /-- `let Some(layout) = self.layout_of(ty) else { continue; };` -/
  | layoutOrSkip
  /-- `let new_offset = builder.add(&layout);` -/
  | add
  /-- `if !self.needs_drop(ty) { continue; }` -/
  | skipUnlessNeedsDrop
  /-- `let x = self.offset(base.clone(), new_offset as u32);` or
      `let x = Location::Pointer { base: base.clone(), offset: new_offset };` -/
  | ptr (x : LVar) (base : Base)
  /-- `self.call_drop_of(x.into(), ty);` -/
  | callDrop (x : LVar)
  /-- `self.call_clone_of(a, b, ty);` (first parameter: destination, second: source) -/
  | callClone (a b : LVar)
  deriving DecidableEq, Repr, Inhabited

inductive Pre where
  /-- `builder.add(&Layout::of::<u8>());` -/
  | addTag
  deriving DecidableEq, Repr, Inhabited

structure Prog where
  dropRecord : List Step
  dropEnumPre : List Pre
  dropEnum : List Step
  cloneRecord : List Step
  cloneEnumPre : List Pre
  cloneEnum : List Step
  deriving Repr, Inhabited

/-! ## Events -/

inductive Ev where
  /-- the drop function of leaf `id` runs on address `a` -/
  | drop (a id : Nat)
  /-- the clone function of leaf `id` reads `src` and creates a value at `dst` -/
  | clone (src dst id : Nat)
  /-- `memcpy` of `size` bytes -/
  | copy (src dst size : Nat)
  /-- the discriminant byte at `src` is written to `dst` -/
  | tag (src dst : Nat)
  /-- the statement list uses a local before binding it (the Rust would not compile) -/
  | stuck
  deriving DecidableEq, Repr, Inhabited

/-- state of one iteration of a field loop -/
structure Iter where
  b : Builder
  layout : Option Layout
  newOffset : Option Nat
  var : Option Nat
  to : Option Nat
  frm : Option Nat
  out : List Ev
  deriving Repr, Inhabited

def Iter.get (s : Iter) : LVar → Option Nat
  | .var => s.var
  | .to => s.to
  | .from => s.frm

def Iter.set (s : Iter) (x : LVar) (v : Nat) : Iter :=
  match x with
  | .var => { s with var := some v }
  | .to => { s with to := some v }
  | .from => { s with frm := some v }

/-- One iteration: run the statements for a field whose layout is `lay` and whose
    `needs_drop` is `nd`; `root` / `ret` are the addresses the base variables hold;
    `dropOf p` / `cloneOf src dst` are what `call_drop_of` / `call_clone_of` emit. -/
def runSteps (lay : Layout) (nd : Bool) (root ret : Nat)
    (dropOf : Nat → List Ev) (cloneOf : Nat → Nat → List Ev) : List Step → Iter → Iter
  | [], s => s
  | .layoutOrSkip :: rest, s =>
    runSteps lay nd root ret dropOf cloneOf rest { s with layout := some lay }
  | .add :: rest, s =>
    match s.layout with
    | some l =>
      runSteps lay nd root ret dropOf cloneOf rest
        { s with b := s.b.add l, newOffset := some (s.b.addOff l) }
    | none => { s with out := s.out ++ [.stuck] }
  | .skipUnlessNeedsDrop :: rest, s =>
    if nd then runSteps lay nd root ret dropOf cloneOf rest s else s
  | .ptr x base :: rest, s =>
    match s.newOffset with
    | some o =>
      runSteps lay nd root ret dropOf cloneOf rest
        (s.set x ((match base with | .root => root | .ret => ret) + o))
    | none => { s with out := s.out ++ [.stuck] }
  | .callDrop x :: rest, s =>
    match s.get x with
    | some p => runSteps lay nd root ret dropOf cloneOf rest { s with out := s.out ++ dropOf p }
    | none => { s with out := s.out ++ [.stuck] }
  | .callClone a b :: rest, s =>
    match s.get a, s.get b with
    | some dst, some src =>
      runSteps lay nd root ret dropOf cloneOf rest { s with out := s.out ++ cloneOf src dst }
    | _, _ => { s with out := s.out ++ [.stuck] }

/-- a fresh iteration; `bound` = the loop pattern already binds `layout`
    (`for (ty, layout) in layouts`) -/
def Iter.start (b : Builder) (lay : Layout) (bound : Bool) : Iter :=
  ⟨b, if bound then some lay else none, none, none, none, none, []⟩

def runPre : List Pre → Builder → Builder
  | [], b => b
  | .addTag :: rest, b => runPre rest (b.add tagLayout)

/-! ## The generated drop functions -/

mutual
  /-- body of the drop function of `ty`, running on the value at address `a` -/
  def dropTy (P : Prog) (ρ : Nat → Nat) : GTy → Nat → List Ev
    | .leaf id _ _ dr, a => if dr then [.drop a id] else []
    | .record fs, a => dropFields P ρ fs a Builder.new
    | .enum vs, a => dropVariants P ρ vs a (ρ a)
  /-- `generate_drop_body_record`: the field loop -/
  def dropFields (P : Prog) (ρ : Nat → Nat) : GTys → Nat → Builder → List Ev
    | .nil, _, _ => []
    | .cons t ts, a, b =>
      let s := runSteps (layoutOf t) (needsDrop t) a a
        (fun p => if needsDrop t then dropTy P ρ t p else []) (fun _ _ => [.stuck])
        P.dropRecord (Iter.start b (layoutOf t) false)
      s.out ++ dropFields P ρ ts a s.b
  /-- the switch of `generate_drop_body_enum`: variant `k`, the last one by default -/
  def dropVariants (P : Prog) (ρ : Nat → Nat) : GVars → Nat → Nat → List Ev
    | .nil, _, _ => []
    | .cons fs .nil, a, _ => dropVFields P ρ fs a (runPre P.dropEnumPre Builder.new)
    | .cons fs (.cons _ _), a, 0 => dropVFields P ρ fs a (runPre P.dropEnumPre Builder.new)
    | .cons _ (.cons fs' vs'), a, k + 1 => dropVariants P ρ (.cons fs' vs') a k
  /-- `generate_drop_body_enum`: the field loop of one variant -/
  def dropVFields (P : Prog) (ρ : Nat → Nat) : GTys → Nat → Builder → List Ev
    | .nil, _, _ => []
    | .cons t ts, a, b =>
      let s := runSteps (layoutOf t) (needsDrop t) a a
        (fun p => if needsDrop t then dropTy P ρ t p else []) (fun _ _ => [.stuck])
        P.dropEnum (Iter.start b (layoutOf t) true)
      s.out ++ dropVFields P ρ ts a s.b
end

/-! ## The generated clone functions -/

mutual
  /-- body of the clone function of `ty`: clone the value at `src` into `dst` -/
  def cloneTy (P : Prog) (ρ : Nat → Nat) : GTy → Nat → Nat → List Ev
    | .leaf id _ _ dr, src, dst => if dr then [.clone src dst id] else []
    | .record fs, src, dst => cloneFields P ρ fs src dst Builder.new
    | .enum vs, src, dst => .tag src dst :: cloneVariants P ρ vs src dst (ρ src)
  def cloneFields (P : Prog) (ρ : Nat → Nat) : GTys → Nat → Nat → Builder → List Ev
    | .nil, _, _, _ => []
    | .cons t ts, src, dst, b =>
      let s := runSteps (layoutOf t) (needsDrop t) src dst (fun _ => [.stuck])
        (fun p q => if needsDrop t then cloneTy P ρ t p q else [.copy p q (layoutOf t).size])
        P.cloneRecord (Iter.start b (layoutOf t) false)
      s.out ++ cloneFields P ρ ts src dst s.b
  def cloneVariants (P : Prog) (ρ : Nat → Nat) : GVars → Nat → Nat → Nat → List Ev
    | .nil, _, _, _ => []
    | .cons fs .nil, src, dst, _ => cloneVFields P ρ fs src dst (runPre P.cloneEnumPre Builder.new)
    | .cons fs (.cons _ _), src, dst, 0 =>
      cloneVFields P ρ fs src dst (runPre P.cloneEnumPre Builder.new)
    | .cons _ (.cons fs' vs'), src, dst, k + 1 => cloneVariants P ρ (.cons fs' vs') src dst k
  def cloneVFields (P : Prog) (ρ : Nat → Nat) : GTys → Nat → Nat → Builder → List Ev
    | .nil, _, _, _ => []
    | .cons t ts, src, dst, b =>
      let s := runSteps (layoutOf t) (needsDrop t) src dst (fun _ => [.stuck])
        (fun p q => if needsDrop t then cloneTy P ρ t p q else [.copy p q (layoutOf t).size])
        P.cloneEnum (Iter.start b (layoutOf t) true)
      s.out ++ cloneVFields P ρ ts src dst s.b
end

/-! ## Reference: where the host values of a value are -/

mutual
  /-- `(address, leaf id)` of every droppable leaf of the value of type `ty` at `a`,
      in declaration order, following the placement of `Lowerer::location` -/
  def leaves (ρ : Nat → Nat) : GTy → Nat → List (Nat × Nat)
    | .leaf id _ _ dr, a => if dr then [(a, id)] else []
    | .record fs, a => leavesFields ρ fs a Builder.new
    | .enum vs, a => leavesVariants ρ vs a (ρ a)
  def leavesFields (ρ : Nat → Nat) : GTys → Nat → Builder → List (Nat × Nat)
    | .nil, _, _ => []
    | .cons t ts, a, b =>
      leaves ρ t (a + b.addOff (layoutOf t)) ++ leavesFields ρ ts a (b.add (layoutOf t))
  def leavesVariants (ρ : Nat → Nat) : GVars → Nat → Nat → List (Nat × Nat)
    | .nil, _, _ => []
    | .cons fs .nil, a, _ => leavesFields ρ fs a (Builder.new.add tagLayout)
    | .cons fs (.cons _ _), a, 0 => leavesFields ρ fs a (Builder.new.add tagLayout)
    | .cons _ (.cons fs' vs'), a, k + 1 => leavesVariants ρ (.cons fs' vs') a k
end

mutual
  /-- the same walk over a source and a destination in parallel (discriminants
      read from the source): `(source address, destination address, leaf id)` -/
  def leaves2 (ρ : Nat → Nat) : GTy → Nat → Nat → List (Nat × Nat × Nat)
    | .leaf id _ _ dr, s, d => if dr then [(s, d, id)] else []
    | .record fs, s, d => leaves2Fields ρ fs s d Builder.new
    | .enum vs, s, d => leaves2Variants ρ vs s d (ρ s)
  def leaves2Fields (ρ : Nat → Nat) : GTys → Nat → Nat → Builder → List (Nat × Nat × Nat)
    | .nil, _, _, _ => []
    | .cons t ts, s, d, b =>
      leaves2 ρ t (s + b.addOff (layoutOf t)) (d + b.addOff (layoutOf t))
        ++ leaves2Fields ρ ts s d (b.add (layoutOf t))
  def leaves2Variants (ρ : Nat → Nat) : GVars → Nat → Nat → Nat → List (Nat × Nat × Nat)
    | .nil, _, _, _ => []
    | .cons fs .nil, s, d, _ => leaves2Fields ρ fs s d (Builder.new.add tagLayout)
    | .cons fs (.cons _ _), s, d, 0 => leaves2Fields ρ fs s d (Builder.new.add tagLayout)
    | .cons _ (.cons fs' vs'), s, d, k + 1 => leaves2Variants ρ (.cons fs' vs') s d k
end

mutual
  /-- `(source, destination)` addresses of the discriminant bytes that decide where the
      host values of a value are: those of the enums reached through fields that need a
      drop (a field that needs none has no leaf, whatever its variants) -/
  def discs2 (ρ : Nat → Nat) : GTy → Nat → Nat → List (Nat × Nat)
    | .leaf _ _ _ _, _, _ => []
    | .record fs, s, d => discs2Fields ρ fs s d Builder.new
    | .enum vs, s, d => (s, d) :: discs2Variants ρ vs s d (ρ s)
  def discs2Fields (ρ : Nat → Nat) : GTys → Nat → Nat → Builder → List (Nat × Nat)
    | .nil, _, _, _ => []
    | .cons t ts, s, d, b =>
      (if needsDrop t then
          discs2 ρ t (s + b.addOff (layoutOf t)) (d + b.addOff (layoutOf t)) else [])
        ++ discs2Fields ρ ts s d (b.add (layoutOf t))
  def discs2Variants (ρ : Nat → Nat) : GVars → Nat → Nat → Nat → List (Nat × Nat)
    | .nil, _, _, _ => []
    | .cons fs .nil, s, d, _ => discs2Fields ρ fs s d (Builder.new.add tagLayout)
    | .cons fs (.cons _ _), s, d, 0 => discs2Fields ρ fs s d (Builder.new.add tagLayout)
    | .cons _ (.cons fs' vs'), s, d, k + 1 => discs2Variants ρ (.cons fs' vs') s d k
end

/-- the `(source, destination)` of the discriminant bytes a clone writes -/
def tags : List Ev → List (Nat × Nat)
  | [] => []
  | .tag s d :: es => (s, d) :: tags es
  | _ :: es => tags es

def Ev.isStuck : Ev → Bool
  | .stuck => true
  | _ => false

/-- the `(source, destination, id)` of the host values a clone creates -/
def cloned : List Ev → List (Nat × Nat × Nat)
  | [] => []
  | .clone s d id :: es => (s, d, id) :: cloned es
  | _ :: es => cloned es

/-- `(address, id)` released by a drop -/
def dropped : List Ev → List (Nat × Nat)
  | [] => []
  | .drop a id :: es => (a, id) :: dropped es
  | _ :: es => dropped es

end RotoV.Glue
