/-
  Model for C12 — compiled functions under concurrent use.

  Three parts (core Lean only):

  1. `Sched`: an abstract machine of calls whose atomic steps act on ONE flat
     global store.  Nothing in the machine prevents a step from writing
     anywhere; `LocalStep` is the *hypothesis* that a step of call `i` writes
     only addresses owned by `i` and depends only on addresses owned by `i` or
     by nobody (shared, never written).  Props/C12 proves that under this
     hypothesis every interleaving gives every call its solo result.

  2. `Lir`: a simplified LIR (what the hook `verif_hooks::c12` dumps), its
     step semantics with explicit address provenance (`Region`), the write
     events of every instruction, and the checker `check` that validates a
     provenance certificate.  Reads from memory, results of calls and of
     arithmetic are *nondeterministic* (each executed instruction comes with an
     arbitrary value), and an execution is an arbitrary sequence of the item's
     instructions, so every control-flow path and every memory content is
     covered.

  3. `Bounds`: decision logic over the trait-bound lists the translator
     regenerates from `runtime/func.rs`, `runtime/items.rs`, `runtime/mod.rs`,
     `value/mod.rs` and `codegen/mod.rs`.
-/
namespace RotoV.Conc

/-! ## 1. The interleaving machine -/

section Sched
variable {ι A V : Type} [DecidableEq ι]

/-- a step of some call: a function on the whole global store -/
abbrev Step (A V : Type) := (A → V) → (A → V)

/-- a schedule: which call takes which atomic step, in global order -/
abbrev Sched (ι A V : Type) := List (ι × Step A V)

/-- run a schedule from a store -/
def run : Sched ι A V → (A → V) → (A → V)
  | [], m => m
  | (_, f) :: rest, m => run rest (f m)

/-- run a plain list of steps (one call on its own) -/
def runSolo : List (Step A V) → (A → V) → (A → V)
  | [], m => m
  | f :: rest, m => runSolo rest (f m)

/-- the steps call `i` takes in a schedule, in order -/
def proj (i : ι) : Sched ι A V → List (Step A V)
  | [] => []
  | (j, f) :: rest => if j = i then f :: proj i rest else proj i rest

/-- `owner a = some i`: address `a` is call-local state of call `i` (its frame,
its out-pointer, its argument slots); `none`: shared state. A step `f` of call
`i` is *local* when it leaves every address not owned by `i` untouched and its
effect on `i`'s addresses depends only on `i`'s addresses and shared ones. -/
structure LocalStep (owner : A → Option ι) (i : ι) (f : Step A V) : Prop where
  frame : ∀ m a, owner a ≠ some i → f m a = m a
  reads : ∀ m m', (∀ a, owner a = some i ∨ owner a = none → m a = m' a) →
    ∀ a, owner a = some i → f m a = f m' a

/-- `s` is an interleaving (merge) of the per-call step lists `progs`. -/
inductive Interleaving : (ι → List (Step A V)) → Sched ι A V → Prop
  | nil : Interleaving (fun _ => []) []
  | cons (i : ι) (f : Step A V) (progs : ι → List (Step A V)) (s : Sched ι A V) :
      Interleaving progs s →
      Interleaving (fun j => if j = i then f :: progs j else progs j) ((i, f) :: s)

/-- running the calls one after another in the order `order` (a single thread) -/
def sequential (progs : ι → List (Step A V)) : List ι → Sched ι A V
  | [] => []
  | i :: rest => (progs i).map (fun f => (i, f)) ++ sequential progs rest

/-- atomic counter updates (host-value accounting): each step adds a delta -/
def total : List (ι × Int) → Int
  | [] => 0
  | (_, d) :: rest => d + total rest

def deltasOf (i : ι) : List (ι × Int) → List (ι × Int)
  | [] => []
  | (j, d) :: rest => if j = i then (j, d) :: deltasOf i rest else deltasOf i rest

def deltasNot (i : ι) : List (ι × Int) → List (ι × Int)
  | [] => []
  | (j, d) :: rest => if j = i then deltasNot i rest else (j, d) :: deltasNot i rest

end Sched

/-! ## 2. Simplified LIR, provenance semantics, checker -/

namespace Lir

abbrev Var := Nat

/-- where an address points -/
inductive Region
  | slot (v : Var)      -- a stack slot of the current function
  | ret                 -- the memory behind the return pointer
  | param (v : Var)     -- the memory behind a pointer-typed parameter (owned by the caller's frame)
  | const (name : Nat)  -- a constant of the module (shared by every call)
  | ctx                 -- the context (shared)
  | code                -- a function address
  | foreign (n : Nat)   -- a literal pointer value
  | wild                -- an integer used as an address
  deriving DecidableEq, Repr

def Region.isLocal : Region → Bool
  | .slot _ | .ret | .param _ => true
  | _ => false

inductive Val
  | undef
  | scalar (n : Int)
  | ptr (r : Region) (off : Nat)
  deriving DecidableEq, Repr

inductive Operand
  | var (v : Var)
  | konst             -- a non-pointer literal
  | kptr (n : Nat)    -- a pointer-typed literal
  deriving DecidableEq, Repr

/-- The instructions of `lir::Instruction`, with what matters for provenance.
`isPtr` = the destination is declared with `IrType::Pointer`. -/
inductive Instr
  | assign (to : Var) (val : Operand)
  | constAddr (to : Var) (name : Nat)
  | funcAddr (to : Var)
  | initString (to : Var)
  | call (fn : Nat) (to : Option Var) (isPtr : Bool) (ctx : Option Operand) (retPtr : Option Var)
      (args : List Operand)  -- `fn` = index of the callee in the program
  | callRt (args : List Operand)
  | arith (to : Var) (isPtr : Bool)
  | offset (to : Var) (src : Operand) (n : Nat)
  | initBytes (to : Var)
  | write (to : Operand) (val : Operand)
  | read (to : Var) (isPtr : Bool) (src : Operand)
  | copy (to : Operand) (src : Operand) (size : Nat)
  | clone (to : Operand) (src : Operand)
  | drop (v : Operand) (hasFn : Bool)
  | eq (to : Var) (left : Operand) (right : Operand)  -- `eq_fn(left, right)`: a Rust function handed two read-only pointers
  | ret (v : Option Operand)
  | nop               -- jump, switch
  deriving DecidableEq, Repr

structure Item where
  slots : List Var
  ret : Option Var
  ctx : Option Var
  params : List (Var × Bool)   -- (variable, is pointer-typed)
  instrs : List Instr
  deriving Repr

abbrev Env := Var → Val

def Env.set (env : Env) (v : Var) (x : Val) : Env := fun w => if w = v then x else env w

def evalOp (env : Env) : Operand → Val
  | .var v => env v
  | .konst => .scalar 0
  | .kptr n => .ptr (.foreign n) 0

/-- a value stored into a destination that is not pointer-typed is not an address -/
def coerce (isPtr : Bool) (x : Val) : Val :=
  if isPtr then x else
    match x with
    | .ptr _ _ => .scalar 0
    | v => v

/-- region written when the machine stores through this value -/
def wtarget : Val → List Region
  | .ptr r _ => [r]
  | .scalar _ => [.wild]
  | .undef => []

/-- region a callee may write when it is handed this value -/
def atarget : Val → List Region
  | .ptr r _ => [r]
  | _ => []

def optTargets (env : Env) : Option Var → List Region
  | none => []
  | some v => wtarget (env v)

def argTargets (env : Env) : List Operand → List Region
  | [] => []
  | a :: rest => atarget (evalOp env a) ++ argTargets env rest

def setOpt (env : Env) (to : Option Var) (x : Val) : Env :=
  match to with
  | none => env
  | some v => env.set v x

def offsetVal (x : Val) (n : Nat) : Val :=
  match x with
  | .ptr r o => .ptr r (o + n)
  | v => v

/-- One instruction. `nd` is the nondeterministic input of this step: what a
memory read, a callee or an arithmetic unit hands back. Returns the new
environment and the regions written. A callee (Roto function or runtime
function) is assumed to write at most through the pointers it is handed
(return pointer and pointer arguments) — for Roto callees that is this same
theorem applied to the callee; the context is handed on read-only. -/
def step (env : Env) (nd : Val) : Instr → Env × List Region
  | .assign to val => (env.set to (evalOp env val), [])
  | .constAddr to name => (env.set to (.ptr (.const name) 0), [])
  | .funcAddr to => (env.set to (.ptr .code 0), [])
  | .initString to => (env, wtarget (env to))
  | .call _ to isPtr _ctx retPtr args =>
      (setOpt env to (coerce isPtr nd), optTargets env retPtr ++ argTargets env args)
  | .callRt args => (env, argTargets env args)
  | .arith to isPtr => (env.set to (coerce isPtr nd), [])
  | .offset to src n => (env.set to (offsetVal (evalOp env src) n), [])
  | .initBytes to => (env, wtarget (env to))
  | .write to _ => (env, wtarget (evalOp env to))
  | .read to isPtr _ => (env.set to (coerce isPtr nd), [])
  | .copy to _ _ => (env, wtarget (evalOp env to))
  | .clone to _ => (env, wtarget (evalOp env to))
  | .drop v hasFn => (env, if hasFn then wtarget (evalOp env v) else [])
  | .eq to _ _ => (env.set to (coerce false nd), [])
  | .ret _ => (env, [])
  | .nop => (env, [])

/-- all regions written along an execution -/
def events (env : Env) : List (Instr × Val) → List Region
  | [] => []
  | (i, nd) :: rest => (step env nd i).2 ++ events (step env nd i).1 rest

/-- the environment at function entry: stack slots, return pointer, context,
parameters (scalar parameters carry arbitrary integers `args`) -/
def initEnv (it : Item) (args : Var → Int) : Env := fun v =>
  if v ∈ it.slots then .ptr (.slot v) 0
  else if it.ret = some v then .ptr .ret 0
  else if it.ctx = some v then .ptr .ctx 0
  else match it.params.find? (fun p => p.1 == v) with
    | some (_, true) => .ptr (.param v) 0
    | some (_, false) => .scalar (args v)
    | none => .undef

/-- certificate classes -/
inductive Cls
  | loc   -- undefined, or an address into call-local memory
  | sc    -- undefined, or not an address
  | any
  deriving DecidableEq, Repr

def holds : Cls → Val → Bool
  | .loc, .undef => true
  | .loc, .ptr r _ => r.isLocal
  | .loc, .scalar _ => false
  | .sc, .ptr _ _ => false
  | .sc, _ => true
  | .any, _ => true

def Cls.le (a b : Cls) : Bool := a == b || b == .any

def clsOp (cert : Var → Cls) : Operand → Cls
  | .var v => cert v
  | .konst => .sc
  | .kptr _ => .any

/-- class demanded of a destination that receives a nondeterministic value -/
def okResult (cert : Var → Cls) (to : Var) (isPtr : Bool) : Bool :=
  if isPtr then cert to == .any else cert to != .loc

def okInstr (cert : Var → Cls) : Instr → Bool
  | .assign to val => (clsOp cert val).le (cert to)
  | .constAddr to _ => cert to == .any
  | .funcAddr to => cert to == .any
  | .initString to => cert to == .loc
  | .call _ to isPtr _ retPtr args =>
      (match to with | none => true | some v => okResult cert v isPtr)
      && (match retPtr with | none => true | some r => cert r == .loc)
      && args.all (fun a => clsOp cert a != .any)
  | .callRt args => args.all (fun a => clsOp cert a != .any)
  | .arith to isPtr => okResult cert to isPtr
  | .offset to src _ => (clsOp cert src).le (cert to)
  | .initBytes to => cert to == .loc
  | .write to _ => clsOp cert to == .loc
  | .read to isPtr _ => okResult cert to isPtr
  | .copy to _ _ => clsOp cert to == .loc
  | .clone to _ => clsOp cert to == .loc
  | .drop v hasFn => !hasFn || clsOp cert v == .loc
  | .eq to _ _ => okResult cert to false
  | .ret _ => true
  | .nop => true

def okInit (cert : Var → Cls) (it : Item) : Bool :=
  it.slots.all (fun v => cert v != .sc)
  && (match it.ret with | none => true | some v => cert v != .sc)
  && (match it.ctx with | none => true | some v => cert v == .any)
  && it.params.all (fun p => if p.2 then cert p.1 != .sc else cert p.1 != .loc)

/-- the verified checker: the certificate is consistent with the entry state
and with every instruction of the item -/
def check (cert : Var → Cls) (it : Item) : Bool :=
  okInit cert it && it.instrs.all (okInstr cert)

/-! ### certificate inference (untrusted; `check` validates its output) -/

/-- inference lattice: `none` = no definition seen yet -/
def joinCls : Option Cls → Cls → Option Cls
  | none, c => some c
  | some a, c => if a == c then some a else some .any

def clsOpI (cert : Array (Option Cls)) : Operand → Option Cls
  | .var v => cert.getD v none
  | .konst => some .sc
  | .kptr _ => some .any

def bump (cert : Array (Option Cls)) (v : Var) (c : Option Cls) : Array (Option Cls) :=
  match c with
  | none => cert
  | some c =>
    let cert := if v < cert.size then cert else cert ++ Array.replicate (v + 1 - cert.size) none
    cert.set! v (joinCls (cert.getD v none) c)

def resultCls (isPtr : Bool) : Cls := if isPtr then .any else .sc

def inferInstr (cert : Array (Option Cls)) : Instr → Array (Option Cls)
  | .assign to val => bump cert to (clsOpI cert val)
  | .constAddr to _ => bump cert to (some .any)
  | .funcAddr to => bump cert to (some .any)
  | .call _ (some to) isPtr _ _ _ => bump cert to (some (resultCls isPtr))
  | .eq to _ _ => bump cert to (some .sc)
  | .arith to isPtr => bump cert to (some (resultCls isPtr))
  | .offset to src _ => bump cert to (clsOpI cert src)
  | .read to isPtr _ => bump cert to (some (resultCls isPtr))
  | _ => cert

def inferInit (it : Item) : Array (Option Cls) :=
  let c : Array (Option Cls) := #[]
  let c := it.slots.foldl (fun c v => bump c v (some .loc)) c
  let c := match it.ret with | none => c | some v => bump c v (some .loc)
  let c := match it.ctx with | none => c | some v => bump c v (some .any)
  it.params.foldl (fun c p => bump c p.1 (some (if p.2 then .loc else .sc))) c

def inferRounds (it : Item) : Nat → Array (Option Cls) → Array (Option Cls)
  | 0, c => c
  | n + 1, c =>
    let c' := it.instrs.foldl inferInstr c
    if c' == c then c else inferRounds it n c'

/-- least certificate of the item (joins of all definitions of each variable) -/
def infer (it : Item) : Var → Cls :=
  let c := inferRounds it (2 * it.instrs.length + 4) (inferInit it)
  fun v => (c.getD v none).getD .any

/-- the checker run by the driver on every dumped item -/
def accept (it : Item) : Bool := check (infer it) it

/-- first offending instruction index (diagnostics only) -/
def firstBad (cert : Var → Cls) (is : List Instr) : Option Nat :=
  is.findIdx? (fun i => !okInstr cert i)

end Lir

/-! ## 3. Bounds: what makes `unsafe impl Sync for TypedFunc` justified -/

namespace Bounds

inductive Bound
  | send | sync | static | clone | partialEq | other
  deriving DecidableEq, Repr

/-- types with an `unsafe impl Send/Sync` in the anchored files -/
inductive TyName
  | typedFunc | moduleData | functionDescription | other
  deriving DecidableEq, Repr

/-- Facts regenerated from the sources on every run. -/
structure Facts where
  /-- supertraits of `trait RegisterableFn` -/
  registerableFnSuper : List Bound
  /-- bounds on the closure type `F` in every `impl RegisterableFn for F`
      (one entry per macro invocation) -/
  registerableFnImpls : List (List Bound)
  /-- `T::Transformed: …` in the where-clause of `Constant::new` -/
  constantNew : List Bound
  /-- `T: …` of `ConstantValue::new` -/
  constantValueNew : List Bound
  /-- `Arc<dyn …>` inside `ConstantValue` -/
  constantValueDyn : List Bound
  /-- `type Transformed: …` in `trait Value` -/
  valueTransformed : List Bound
  /-- `impl<T: …> Value for Val<T>` -/
  valImpl : List Bound
  unsafeSend : List TyName
  unsafeSync : List TyName
  deriving Repr

/-- auto traits of a concrete Rust type -/
structure Auto where
  send : Bool
  sync : Bool
  deriving DecidableEq, Repr

/-- does a concrete type pass a bound list (only the auto traits matter here) -/
def admits (bs : List Bound) (t : Auto) : Bool :=
  (!bs.contains .send || t.send) && (!bs.contains .sync || t.sync)

/-- the handle is claimed to be shareable -/
def claimed (f : Facts) : Bool :=
  f.unsafeSync.contains .typedFunc || f.unsafeSync.contains .moduleData

/-- Bound lists of every kind of object that a call made through a shared
`&TypedFunc` on another thread reaches by shared reference (and may drop there
when the last clone of the handle dies): registered closures (each impl, with
the supertraits that the impl must establish), registered constants (both the
public constructor and the erased container), values that live inside
constants and lists (`Value::Transformed`, `Val<T>`). -/
def reachable (f : Facts) : List (List Bound) :=
  f.registerableFnImpls.map (fun bs => bs ++ f.registerableFnSuper)
  ++ [f.constantNew, f.constantValueNew, f.constantValueDyn, f.valueTransformed, f.valImpl]

def hasSendSync (bs : List Bound) : Bool := bs.contains .send && bs.contains .sync

/-- the decision: the claim is justified iff every reachable kind is bounded by
`Send + Sync` (and at least one closure impl was found, so an extraction that
lost the impls cannot pass) -/
def syncJustified (f : Facts) : Bool :=
  !claimed f || (!f.registerableFnImpls.isEmpty && (reachable f).all hasSendSync)

/-- a `move` closure capturing a `Cell<u32>`: `Send`, not `Sync` -/
def cellClosure : Auto := ⟨true, false⟩

/-- the bound lists of the tree before the `+ Sync` fix (recorded witness) -/
def baseFacts : Facts where
  registerableFnSuper := [.send, .static]
  registerableFnImpls := List.replicate 16 [.other, .send, .static]
  constantNew := [.send, .sync, .static]
  constantValueNew := [.send, .sync, .static]
  constantValueDyn := [.send, .sync, .static]
  valueTransformed := [.clone, .send, .sync]
  valImpl := [.static, .clone, .partialEq, .send, .sync]
  unsafeSend := [.functionDescription, .moduleData, .typedFunc]
  unsafeSync := [.functionDescription, .moduleData, .typedFunc]

end Bounds

end RotoV.Conc
