/-
  TcInferSem: what the checker's types MEAN (used by the soundness theorems of
  `Model/TcInfer.lean`, and executable: the driver checks that the store an
  accepted program leaves behind has a solution).

  A valuation `σ` gives every unification variable a type of the declarative
  model (`Typing.Ty`); `den σ t` is the declarative type the checker type `t`
  stands for; `satB σ s` decides whether a list of types solves a store;
  `solve s` proposes the solution the compiler itself uses later (unbound
  integer-literal variables `i32`, float ones `f64`, everything else unbound
  `()`), following the store's pointers with fuel.
  Core Lean only (linked into the driver executable).
-/
import RotoV.Model.TcInfer

namespace RotoV.TcInfer
open RotoV.Typing RotoV.Unify

def ityOf : Nat → ITy
  | 0 => .u8 | 1 => .u16 | 2 => .u32 | 3 => .u64 | 4 => .i8 | 5 => .i16 | 6 => .i32 | _ => .i64

/-- the declarative type a type name stands for -/
def denName (n : Nat) (args : List Ty) : Ty :=
  if n < 8 then .int (ityOf n) else if n == 8 then .f32 else if n == 9 then .f64
  else if n == 10 then .bool else if n == 11 then .string
  else if n == 12 then .opt (args.headD .unit) else if n == 13 then .list (args.headD .unit)
  else if n == 14 then .verdict (args.headD .unit) ((args.drop 1).headD .unit)
  else if n < 32 then .prim (n - 15) else .named (n - 32)

abbrev Val := Nat → Ty

mutual
def den (σ : Val) : MTy → Ty
  | .var n | .intVar n _ | .floatVar n | .recordVar n _ => σ n
  | .unit => .unit
  | .never => .never
  | .name n args => denName n (denL σ args)
  | _ => .unit
def denL (σ : Val) : List MTy → List Ty
  | [] => []
  | t :: ts => den σ t :: denL σ ts
end

def isGInt : Ty → Bool | .int _ => true | _ => false
def isGSigned : Ty → Bool | .int t => t.signed | _ => false
def isGFloat : Ty → Bool | .f32 | .f64 => true | _ => false

/-- the valuation given by a list of types (slot `i` ↦ `σ[i]`, `()` outside) -/
def valOf (σ : List Ty) : Val := fun i => σ[i]?.getD .unit

def kindOkB (v : Ty) : MTy → Bool
  | .intVar _ sg => isGInt v && (!sg || isGSigned v)
  | .floatVar _ => isGFloat v
  | _ => true

/-- does the list of types solve the store? -/
def satB (σ : List Ty) (s : Store) : Bool :=
  (List.range s.length).all fun i =>
    match s[i]? with
    | some t => decide (den (valOf σ) t = valOf σ i) && kindOkB (valOf σ i) t
    | none => true


/-- the declarative type a checker type resolves to, defaults filled in -/
def solveTy (s : Store) : Nat → MTy → Ty
  | 0, _ => .unit
  | f + 1, t =>
    match resolve s t with
    | some (.intVar _ _) => .int .i32
    | some (.floatVar _) => .f64
    | some (.name n args) => denName n (args.map (solveTy s f))
    | _ => .unit

/-- the proposed solution of a store -/
def solve (s : Store) : List Ty :=
  (List.range s.length).map fun i => solveTy s (s.length + 8) (s[i]?.getD .unit)

end RotoV.TcInfer
