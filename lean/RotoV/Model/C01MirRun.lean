/-
  C01MirRun: an *executable* semantics of the structured MIR of `Model/LowerS`
  on the scalar fragment, whose operators are the GENERATED table composition:
  `binop` is `lower_binop` (src/lir/lower.rs, generated) followed by the
  generated codegen arm on CLIF semantics (`runInstr`); `neg` / `not` are the
  generated `cg_Negate` / `cg_Not`.  The C01 driver runs it on the lowering
  model's output for every generated program of the fragment (second oracle
  of the correspondence run); `Lemmas/C01MirOps.exec_sound` proves that whatever
  it returns is an execution of the relational semantics `LowerS.ExecC`, so by
  T5 (`Props/C01Lower`) it can only return the value `Spec` defines.

  Values: an `i32` value `n` (in range) is the SSA value `⟨I32, BitVec.ofInt 32 n⟩`,
  a boolean is `⟨I8, 0 | 1⟩` (`cvOf` / `decode`).  `none` = outside the scalar
  fragment (another statement or operand kind, an out-of-range integer), a trap
  of the instruction, or out of fuel.

  Imports `Lemmas/ScalarBase` (core Lean only, no Mathlib) for `runInstr`, `cvInt`.
-/
import RotoV.Model.LowerS
import RotoV.Lemmas.ScalarBase

namespace RotoV.C01MirRun
open RotoV RotoV.LowerS RotoV.Gen RotoV.Gen.OpTables
open RotoV.TraceSpec (Val Trace)

/-- a MIR binary operator as the `ast::BinOp` the generated tables are indexed by -/
def genOp : TraceSpec.BinOp → BinOp
  | .add => .Add | .sub => .Sub | .mul => .Mul | .eq => .Eq | .ne => .Ne
  | .lt => .Lt | .le => .Le | .gt => .Gt | .ge => .Ge

/-- the SSA value of an `i32` -/
def cvI32 (n : Int) : CVal := cvInt (wrap .Signed .I32 n)

/-- the SSA value the JIT holds for a scalar MIR value -/
def cvOf : Val → Option CVal
  | .int n => some (cvI32 n)
  | .bool b => some (CVal.ofBool b)
  | _ => none

/-- the scalar MIR value an SSA value stands for -/
def decode (c : CVal) : Option Val :=
  match c.ty with
  | .I32 => some (.int (BitVec.ofNat 32 c.bits).toInt)
  | .I8 => if c.bits = 0 then some (.bool false) else if c.bits = 1 then some (.bool true) else none
  | _ => none

/-- the value is an `i32` -/
def inI32 (n : Int) : Bool := RInt.inRange true 32 n

section
variable [FloatOps]

/-- `binop` through the generated tables (release profile): instruction selection by
    `lower_binop` at the operands' type, then the generated codegen arm on CLIF semantics. -/
def tableBinop (op : TraceSpec.BinOp) (a b : Val) : Option Val :=
  match a, b with
  | .int x, .int y =>
    if inI32 x && inI32 y then
      match lower_binop false (genOp op) (.Primitive (.Int .Signed .I32)) with
      | .ok i =>
        match runInstr false i (operands (cvI32 x) (cvI32 y)) with
        | .ok c => decode c
        | .panic => none
      | .panic => none
    else none
  | .bool x, .bool y =>
    match op with
    | .eq | .ne =>
      match lower_binop false (genOp op) (.Primitive .Bool) with
      | .ok i =>
        match runInstr false i (operands (CVal.ofBool x) (CVal.ofBool y)) with
        | .ok c => decode c
        | .panic => none
      | .panic => none
    | _ => none
  | _, _ => none

/-- unary `-` through the generated `Negate` arm -/
def tableNeg (a : Val) : Option Val :=
  match a with
  | .int x =>
    if inI32 x then
      match cg_Negate false (cvI32 x) with
      | .ok c => decode c
      | .panic => none
    else none
  | _ => none

/-- `!` through the generated `Not` arm -/
def tableNot (a : Val) : Option Val :=
  match a with
  | .bool b =>
    match cg_Not false (CVal.ofBool b) with
    | .ok c => decode c
    | .panic => none
  | _ => none

mutual
/-- an assignment's operand (scalar fragment; a script-function call runs the callee) -/
def evalV (P : Prog) : Nat → Store → Value → Option (Trace × Val)
  | 0, _, _ => none
  | n + 1, σ, v =>
    match v with
    | .const c => some ([], c)
    | .clone x => some ([], σ x)
    | .move x => some ([], σ x)
    | .binop l op r => (tableBinop op (σ l) (σ r)).map (fun w => ([], w))
    | .not x => (tableNot (σ x)).map (fun w => ([], w))
    | .neg x => (tableNeg (σ x)).map (fun w => ([], w))
    | .call f args =>
      match P[f]? with
      | some (params, code) =>
        match TraceSpec.bindParams params (args.map σ) [] with
        | some cenv =>
          match execC P n (storeOfEnv cenv) code with
          | some (t, .returned w) => some (t, w)
          | _ => none
        | none => none
      | none => none
    | _ => none

/-- one structured statement -/
def execS (P : Prog) : Nat → Store → Stm → Option (Trace × Outcome)
  | 0, _, _ => none
  | n + 1, σ, s =>
    match s with
    | .assign x v =>
      match evalV P n σ v with
      | some (t, w) => some (t, .normal (σ.set x w))
      | none => none
    | .ret x => some ([], .returned (σ x))
    | .ite x k thn els =>
      match σ x with
      | .bool b => if b = k then execC P n σ thn else execC P n σ els
      | _ => none
    | .whl cond ex body =>
      match execC P n σ cond with
      | some (t1, .returned w) => some (t1, .returned w)
      | some (t1, .normal σ1) =>
        match σ1 ex with
        | .bool false => some (t1, .normal σ1)
        | .bool true =>
          match execC P n σ1 body with
          | some (t2, .returned w) => some (t1 ++ t2, .returned w)
          | some (t2, .normal σ2) =>
            match execS P n σ2 (.whl cond ex body) with
            | some (t3, o) => some (t1 ++ t2 ++ t3, o)
            | none => none
          | none => none
        | _ => none
      | none => none
    | _ => none

/-- a sequence: a `return` ends it -/
def execC (P : Prog) : Nat → Store → Code → Option (Trace × Outcome)
  | 0, _, _ => none
  | _ + 1, σ, [] => some ([], .normal σ)
  | n + 1, σ, s :: rest =>
    match execS P n σ s with
    | some (t, .returned w) => some (t, .returned w)
    | some (t1, .normal σ1) =>
      match execC P n σ1 rest with
      | some (t2, o) => some (t1 ++ t2, o)
      | none => none
    | none => none
end

/-- One call of `main` (the last function of the lowered program `P` of `fns`): the value its
    structured MIR returns when run from the store that holds exactly the arguments. -/
def runMain (fns : List TraceSpec.FnDef) (P : Prog) (fuel : Nat) (args : List Val) : Option Val :=
  match fns.getLast?, P[fns.length - 1]? with
  | some fd, some (_, code) =>
    match TraceSpec.bindParams fd.params args [] with
    | some cenv =>
      match execC P fuel (storeOfEnv cenv) code with
      | some (_, .returned w) => some w
      | _ => none
    | none => none
  | _, _ => none

end

end RotoV.C01MirRun
