/-
  Vocabulary of the register model of C20 (core Lean only).

  `RMap κ α`: a `std::collections::HashMap<κ, α>` as far as `insert` and `get` go — an association
  list in which `insert` puts the new entry in front and `get` takes the first entry with an equal
  key (`==` of the key type: for the generated `Var` the derived, field-wise one).

  `Scopes`: the part of the type checker's scope graph that decides which declaration a name in an
  expression refers to — a chain of block scopes, innermost first, and the set of declared
  (scope, name) pairs. `resolve` walks the chain outwards and stops at the first scope that
  declares the name (src/typechecker/scope.rs `resolve_name`: modelled, not generated).
-/
namespace RotoV

structure RMap (κ : Type) (α : Type) where
  entries : List (κ × α)
  deriving Repr

namespace RMap
variable {κ α : Type} [DecidableEq κ]

def empty : RMap κ α := ⟨[]⟩

def insert (m : RMap κ α) (k : κ) (v : α) : RMap κ α := ⟨(k, v) :: m.entries⟩

def get (m : RMap κ α) (k : κ) : Option α :=
  (m.entries.find? (fun e => decide (e.1 = k))).map (·.2)

/-- a run of writes, oldest first -/
def insertAll (m : RMap κ α) (ws : List (κ × α)) : RMap κ α :=
  ws.foldl (fun m w => m.insert w.1 w.2) m

/-- the value of the last write to `k` in `ws` (oldest first) -/
def lastWrite (ws : List (κ × α)) (k : κ) : Option α :=
  (ws.reverse.find? (fun e => decide (e.1 = k))).map (·.2)

end RMap

/-- the declaration a name refers to: the innermost scope of the chain that declares it -/
def resolveName (chain : List Nat) (decls : List (Nat × Nat)) (name : Nat) : Option Nat :=
  chain.find? (fun s => decide ((s, name) ∈ decls))

end RotoV
