/-
  C01MatchLower: which arm of a `match` runs — as the language defines it (first match)
  and as the compiler's MIR lowering arranges it (`src/mir/lower/match_expr.rs`,
  `Lowerer::match` / `match_case`): a `switch` on the discriminant of the examinee with
  one case per discriminant that has an arm of its own, each case a *guard chain* of the
  arms kept for that discriminant, in source order, and a default chain.

  The decisions that fix what the chains contain are NOT written here: they are the
  definitions of `Generated/C01Match.lean`, re-translated from the source on every run
  (`chainKeeps`, `defaultKeeps`, `needsDefault`, `guardCase`; the translator also checks
  the shape of the two functions that this model transliterates).

  Abstraction: an arm is its pattern's discriminant (`none` = `_`) and its guard; a guard
  is any function from the state to a new state and a truth value (guards may assign to
  outer variables), so the statements hold for every guard semantics. The model answers
  "which arm's block is jumped to, in which state"; binding the pattern's variables,
  drops, labels and the arms' blocks are outside it.

  Core Lean only.
-/
import RotoV.Generated.C01Match

namespace RotoV.C01MatchLower
open RotoV.Gen.C01Match

/-- One arm: the discriminant its pattern names (`none`: `_`) and its guard. -/
structure Arm (σ : Type) where
  pat : Option Nat
  guard : Option (σ → σ × Bool)

/-- Does the arm's pattern select a value with discriminant `d`? -/
def Arm.selects {σ} (a : Arm σ) (d : Nat) : Bool :=
  match a.pat with
  | none => true
  | some k => k == d

/-- The language: the arms are tried in the order written; the first one whose pattern
    selects the value and whose guard (evaluated then, in the current state) holds is
    taken. Result: the index of the arm taken and the state its block starts in. -/
def firstMatch {σ} (d : Nat) : List (Nat × Arm σ) → σ → Option (Nat × σ)
  | [], _ => none
  | (i, a) :: rest, s =>
    if a.selects d then
      match a.guard with
      | none => some (i, s)
      | some g => if (g s).2 then some (i, (g s).1) else firstMatch d rest (g s).1
    else firstMatch d rest s

/-- `match_case`: a guard chain. Every arm of the chain in order: an unguarded arm jumps to
    its block; a guarded one evaluates the guard and switches on it — case `guardCase`
    goes to the arm's block, the default to the next arm of the chain. Falling off the end
    of the chain is a jump to a label without a block (`none`). -/
def runChain {σ} : List (Nat × Arm σ) → σ → Option (Nat × σ)
  | [], _ => none
  | (i, a) :: rest, s =>
    match a.guard with
    | none => some (i, s)
    | some g => if (if (g s).2 then 1 else 0) = guardCase then some (i, (g s).1) else runChain rest (g s).1

/-- The distinct discriminants that have an arm of their own (`all_discriminants`, a
    `HashSet`); every discriminant is a `position` in `variants`, hence below `nVariants`. -/
def discriminants {σ} (nVariants : Nat) (arms : List (Nat × Arm σ)) : List Nat :=
  (List.range nVariants).filter fun k => arms.any fun a => a.2.pat == some k

/-- `Lowerer::match`: switch on the discriminant `d` of the examinee. A discriminant with
    an arm of its own goes to its chain; any other goes to the default chain if the
    switch has a default; otherwise the switch has no target for it (`none`). -/
def compiled {σ} (nVariants : Nat) (arms : List (Nat × Arm σ)) (d : Nat) (s : σ) : Option (Nat × σ) :=
  let dflt := arms.filter fun a => defaultKeeps a.2.pat
  if (discriminants nVariants arms).contains d then
    runChain (arms.filter fun a => chainKeeps a.2.pat d) s
  else if needsDefault dflt.length (discriminants nVariants arms).length nVariants then
    runChain dflt s
  else none

end RotoV.C01MatchLower
