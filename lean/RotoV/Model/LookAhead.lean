/-
  LookAhead: hand-written executable model of the interaction between the
  parser's token look-ahead and the lexer's two modes (property C09).

  `Lexer` (src/parser/lexer.rs) keeps a queue `peeked` of tokens that were
  lexed ahead of the parser in NORMAL mode; `Lexer::f_string_part` — the second
  lexer mode, called by `Parser::f_string` right after it has consumed `f"` and
  after every hole — scans the raw input and ignores that queue. A look-ahead
  that runs past `f"` therefore lexes f-string text as if it were program text
  and the f-string scanner then starts in the wrong place.

  The model keeps exactly that state (`raw`, `peeked`) and the operations the
  parser uses (`next`, `peek`, `peek_many::<N>`, `f_string_part`), and on top of
  it the recursive-descent functions that decide, by look-ahead, what a
  bracketed construct is: `atom` (parenthesised expression / unit, list
  literal, `{`: anonymous record or block, typed record, f-string, literal),
  `access` (calls, fields), a one-level operator loop, `block` (let / expression
  statements / last expression), `record`, `separated`, `f_string`.

  What is generated (`Generated/LookAhead.lean`, regenerated from the source on
  every run) and a parameter here (`Cfg`): the tokens after which
  `Lexer::peek_many` refuses to lex on (`stops`), and the token windows `atom`
  tries on a `{` (`windows`).

  Source text is a list of `Sym`: the text of one normal-mode token, or — inside
  an f-string — a text run up to the `{` of a hole (`ftext`) or up to the
  closing quote (`fend`). Lexing a symbol in the wrong mode yields `junk` /
  no f-string part: an abstraction (on the real lexer the outcome depends on
  the text), used only by the refutation of the unguarded look-ahead; under the
  theorems of Props/C09 it never happens.

  Core Lean only (no Mathlib): linked into the driver executable.
-/
import RotoV.Model.LookAheadBase

set_option linter.unusedVariables false

namespace RotoV.LookAhead

/-- One lexical unit of the source text. `ftext k` / `fend k`: f-string text
(`k = 0`: empty, otherwise a label) ended by a hole's `{` (not consumed) / by
the closing quote (consumed). -/
inductive Sym where
  | n (t : Tok)
  | ftext (k : Nat)
  | fend (k : Nat)
  deriving DecidableEq, Repr, Inhabited

/-- `Lexer`: the unread input and the queue of tokens lexed ahead. -/
structure Lx where
  raw : List Sym
  peeked : List Tok
  deriving DecidableEq, Repr, Inhabited

/-- What the look-ahead depends on, generated from the source. -/
structure Cfg where
  /-- `Lexer::peek_many` does not lex past a queued token of these kinds -/
  stops : List Tok
  /-- `Parser::atom` on `{`: windows tried in order; a match = anonymous record -/
  windows : List (List Tok)

/-- Parse trees, sequences included (one non-nested type keeps equality
decidable by `deriving`): expressions; `nil`/`cons` for comma-separated
items; `part k e rest` / `fin k` for f-string parts (text `k`, hole `e`, …,
final text); `slet`/`stmt`/`last`/`nil` for block items. -/
inductive T where
  | id | lit | unit
  | paren (e : T)
  | bin (l r : T)
  | field (e : T)
  | call (f args : T)
  | fstr (parts : T)
  | list (items : T)
  | recd (fields : T)
  | trec (path fields : T)
  | block (items : T)
  | nil
  | cons (h t : T)
  | part (k : Nat) (e rest : T)
  | fin (k : Nat)
  | slet (e rest : T)
  | stmt (e rest : T)
  | last (e : T)
  deriving DecidableEq, Repr, Inhabited

/-- Result of a parser function: value and new lexer state, a parse error, a
Rust panic (`N - self.peeked.len()` underflow in `peek_many`), or out of fuel. -/
inductive R (α : Type) where
  | ok (a : α) (s : Lx)
  | err
  | panic
  | fuel
  deriving DecidableEq, Repr

@[inline] def R.bind (x : R α) (f : α → Lx → R β) : R β :=
  match x with
  | .ok a s => f a s
  | .err => .err
  | .panic => .panic
  | .fuel => .fuel

/-! ## The lexer interface -/

/-- `Lexer::next_inner` (normal mode). Run on f-string text it produces junk. -/
def nextInner : List Sym → Option (Tok × List Sym)
  | [] => none
  | .n t :: r => some (t, r)
  | _ :: r => some (.junk, r)

/-- `Lexer::next` -/
def Lx.next (s : Lx) : Option (Tok × Lx) :=
  match s.peeked with
  | t :: p => some (t, { s with peeked := p })
  | [] =>
    match nextInner s.raw with
    | some (t, r) => some (t, ⟨r, []⟩)
    | none => none

/-- `Lexer::peek` (fills the queue with one token when it is empty) -/
def Lx.peek (s : Lx) : Option Tok × Lx :=
  match s.peeked with
  | t :: _ => (some t, s)
  | [] =>
    match nextInner s.raw with
    | some (t, r) => (some t, ⟨r, [t]⟩)
    | none => (none, s)

/-- the guard of `peek_many`'s fill loop -/
def stopped (stops : List Tok) (peeked : List Tok) : Bool :=
  match peeked.getLast? with
  | some t => stops.contains t
  | none => false

/-- the fill loop of `Lexer::peek_many`: `k` more tokens; `false` = gave up
(what was lexed stays queued) -/
def fill (stops : List Tok) : Nat → Lx → Bool × Lx
  | 0, s => (true, s)
  | k + 1, s =>
    if stopped stops s.peeked then (false, s)
    else
      match nextInner s.raw with
      | none => (false, s)
      | some (t, r) => fill stops k ⟨r, s.peeked ++ [t]⟩

/-- `Lexer::peek_many::<N>` -/
def peekMany (stops : List Tok) (n : Nat) (s : Lx) : R (Option (List Tok)) :=
  if s.peeked.length > n then .panic
  else
    match fill stops (n - s.peeked.length) s with
    | (true, s') => .ok (some (s'.peeked.take n)) s'
    | (false, s') => .ok none s'

/-- f-string tokens (`FStringToken`) -/
inductive FTok where
  | mid (k : Nat)
  | endp (k : Nat)
  deriving DecidableEq, Repr

/-- `Lexer::f_string_part`: scans the RAW input; the queue is not consulted. -/
def fPart (s : Lx) : Option (FTok × Lx) :=
  match s.raw with
  | .ftext k :: r => some (.mid k, { s with raw := r })
  | .fend k :: r => some (.endp k, { s with raw := r })
  | _ => none

/-! ## Parser helpers (src/parser/mod.rs) -/

def pNext (s : Lx) : R Tok :=
  match s.next with
  | some (t, s') => .ok t s'
  | none => .err

def peekIs (t : Tok) (s : Lx) : Bool × Lx :=
  match s.peek with
  | (some u, s') => (u == t, s')
  | (none, s') => (false, s')

def take (t : Tok) (s : Lx) : R Unit :=
  match s.next with
  | some (u, s') => if u == t then .ok () s' else .err
  | none => .err

def nextIs (t : Tok) (s : Lx) : Bool × Lx :=
  match peekIs t s with
  | (true, s') =>
    match s'.next with
    | some (_, s'') => (true, s'')
    | none => (true, s')
  | (false, s') => (false, s')

/-- `matches!(self.peek_many::<2>(), …) || matches!(self.peek_many::<3>(), …)`
in `atom`: the windows in order, short-circuit. -/
def isRecord (stops : List Tok) : List (List Tok) → Lx → R Bool
  | [], s => .ok false s
  | w :: ws, s =>
    match peekMany stops w.length s with
    | .ok (some toks) s' => if toks == w then .ok true s' else isRecord stops ws s'
    | .ok none s' => isRecord stops ws s'
    | .err => .err
    | .panic => .panic
    | .fuel => .fuel

/-! ## The recursive-descent functions (src/parser/expr.rs) -/

mutual

/-- `expr` → `binop_expr` (one operator level: left associative loop) -/
def expr (c : Cfg) : Nat → Lx → R T
  | 0, _ => .fuel
  | f + 1, s => (access c f s).bind fun l s => binLoop c f l s

def binLoop (c : Cfg) : Nat → T → Lx → R T
  | 0, _, _ => .fuel
  | f + 1, l, s =>
    match s.peek with
    | (some .binop, s) =>
      (pNext s).bind fun _ s => (access c f s).bind fun r s => binLoop c f (.bin l r) s
    | (_, s) => .ok l s

/-- `access`: atom, then calls and fields -/
def access (c : Cfg) : Nat → Lx → R T
  | 0, _ => .fuel
  | f + 1, s => (atom c f s).bind fun e s => accessLoop c f e s

def accessLoop (c : Cfg) : Nat → T → Lx → R T
  | 0, _, _ => .fuel
  | f + 1, e, s =>
    match s.peek with
    | (some .lparen, s) =>
      (separated c f .lparen .rparen false s).bind fun args s => accessLoop c f (.call e args) s
    | (some .period, s) =>
      (pNext s).bind fun _ s => (take .ident s).bind fun _ s => accessLoop c f (.field e) s
    | (_, s) => .ok e s

/-- `atom` -/
def atom (c : Cfg) : Nat → Lx → R T
  | 0, _ => .fuel
  | f + 1, s =>
    match s.peek with
    | (some .lparen, s) =>
      (take .lparen s).bind fun _ s =>
        match peekIs .rparen s with
        | (true, s) => (take .rparen s).bind fun _ s => .ok .unit s
        | (false, s) => (expr c f s).bind fun e s => (take .rparen s).bind fun _ s => .ok (.paren e) s
    | (some .lsquare, s) =>
      (separated c f .lsquare .rsquare false s).bind fun items s => .ok (.list items) s
    | (some .lcurly, s) =>
      (isRecord c.stops c.windows s).bind fun isRec s =>
        if isRec then (separated c f .lcurly .rcurly true s).bind fun fs s => .ok (.recd fs) s
        else (take .lcurly s).bind fun _ s => (blockItems c f s).bind fun items s => .ok (.block items) s
    | (some .ident, s) =>
      (pNext s).bind fun _ s => pathRest c f .id s
    | (some .fstart, s) =>
      (take .fstart s).bind fun _ s => (fparts c f s).bind fun ps s => .ok (.fstr ps) s
    | (some .lit, s) => (pNext s).bind fun _ s => .ok .lit s
    | (_, _) => .err

/-- `path` (after the first identifier), then `Path RecordExpr?` -/
def pathRest (c : Cfg) : Nat → T → Lx → R T
  | 0, _, _ => .fuel
  | f + 1, p, s =>
    match nextIs .period s with
    | (true, s) => (take .ident s).bind fun _ s => pathRest c f (.field p) s
    | (false, s) =>
      match peekIs .lcurly s with
      | (true, s) => (separated c f .lcurly .rcurly true s).bind fun fs s => .ok (.trec p fs) s
      | (false, s) => .ok p s

/-- one item of `separated`: an expression, or `ident ':' expr` (record field) -/
def item (c : Cfg) : Nat → Bool → Lx → R T
  | 0, _, _ => .fuel
  | f + 1, false, s => expr c f s
  | f + 1, true, s =>
    (take .ident s).bind fun _ s => (take .colon s).bind fun _ s => expr c f s

/-- `separated(open, close, ',', item)` -/
def separated (c : Cfg) : Nat → Tok → Tok → Bool → Lx → R T
  | 0, _, _, _, _ => .fuel
  | f + 1, op, cl, fld, s =>
    (take op s).bind fun _ s =>
      match peekIs cl s with
      | (true, s) => (take cl s).bind fun _ s => .ok .nil s
      | (false, s) =>
        (item c f fld s).bind fun x s => (sepRest c f cl fld s).bind fun rest s => .ok (.cons x rest) s

def sepRest (c : Cfg) : Nat → Tok → Bool → Lx → R T
  | 0, _, _, _ => .fuel
  | f + 1, cl, fld, s =>
    match nextIs .comma s with
    | (true, s) =>
      (match peekIs cl s with
      | (true, s) => (take cl s).bind fun _ s => .ok .nil s
      | (false, s) =>
        (item c f fld s).bind fun x s => (sepRest c f cl fld s).bind fun rest s => .ok (.cons x rest) s)
    | (false, s) => (take cl s).bind fun _ s => .ok .nil s

/-- the loop of `block` (after the `{`) -/
def blockItems (c : Cfg) : Nat → Lx → R T
  | 0, _ => .fuel
  | f + 1, s =>
    match s.peek with
    | (some .rcurly, s) => (take .rcurly s).bind fun _ s => .ok .nil s
    | (some .kwLet, s) =>
      (take .kwLet s).bind fun _ s => (take .ident s).bind fun _ s => (take .eq s).bind fun _ s =>
        (expr c f s).bind fun e s => (take .semi s).bind fun _ s =>
          (blockItems c f s).bind fun rest s => .ok (.slet e rest) s
    | (_, s) =>
      (expr c f s).bind fun e s =>
        match nextIs .semi s with
        | (true, s) => (blockItems c f s).bind fun rest s => .ok (.stmt e rest) s
        | (false, s) => (take .rcurly s).bind fun _ s => .ok (.last e) s

/-- the loop of `f_string` (after the `f"`) -/
def fparts (c : Cfg) : Nat → Lx → R T
  | 0, _ => .fuel
  | f + 1, s =>
    match fPart s with
    | none => .err
    | some (.endp k, s) => .ok (.fin k) s
    | some (.mid k, s) =>
      (take .lcurly s).bind fun _ s => (expr c f s).bind fun e s => (take .rcurly s).bind fun _ s =>
        (fparts c f s).bind fun rest s => .ok (.part k e rest) s

end

/-- `Parser::run_parser(Parser::expr, …)`: one expression, entire input. -/
def parseAll (c : Cfg) (src : List Sym) : R T :=
  (expr c (4 * src.length + 8) ⟨src, []⟩).bind fun e s =>
    match s.next with
    | none => .ok e s
    | some _ => .err

/-! ## The documented grammar, as a printer

`render e` is the source text the grammar assigns to the tree `e`
(docs: block `{ stmt* expr? }`, record `{ id: expr, … }`, list `[ … ]`, call
`f( … )`, f-string `f" text {expr} … "`). -/

mutual

def render : T → List Sym
  | .id => [.n .ident]
  | .lit => [.n .lit]
  | .unit => [.n .lparen, .n .rparen]
  | .paren e => .n .lparen :: render e ++ [.n .rparen]
  | .bin l r => render l ++ .n .binop :: render r
  | .field e => render e ++ [.n .period, .n .ident]
  | .call f args => render f ++ .n .lparen :: renderSeq false args ++ [.n .rparen]
  | .fstr ps => .n .fstart :: renderParts ps
  | .list xs => .n .lsquare :: renderSeq false xs ++ [.n .rsquare]
  | .recd fs => .n .lcurly :: renderSeq true fs ++ [.n .rcurly]
  | .trec p fs => render p ++ .n .lcurly :: renderSeq true fs ++ [.n .rcurly]
  | .block items => .n .lcurly :: renderItems items
  | _ => []

/-- comma-separated items (`fld`: each item is `ident ':' expr`) -/
def renderSeq (fld : Bool) : T → List Sym
  | .cons h .nil => (if fld then [.n .ident, .n .colon] else []) ++ render h
  | .cons h t => (if fld then [.n .ident, .n .colon] else []) ++ render h ++ .n .comma :: renderSeq fld t
  | _ => []

def renderParts : T → List Sym
  | .fin k => [.fend k]
  | .part k e rest => .ftext k :: .n .lcurly :: render e ++ .n .rcurly :: renderParts rest
  | _ => []

def renderItems : T → List Sym
  | .slet e rest => .n .kwLet :: .n .ident :: .n .eq :: render e ++ .n .semi :: renderItems rest
  | .stmt e rest => render e ++ .n .semi :: renderItems rest
  | .last e => render e ++ [.n .rcurly]
  | _ => [.n .rcurly]

end

/-! ## Mode safety of the token queue -/

/-- Only the LAST queued token may be `f"`: nothing was lexed in normal mode
past the start of an f-string. -/
def ModeSafe (s : Lx) : Prop := ∀ t ∈ s.peeked.dropLast, t ≠ Tok.fstart

instance (s : Lx) : Decidable (ModeSafe s) := by unfold ModeSafe; exact inferInstance

/-! ## `return` / `accept` / `reject` with a value

`atom`: after the keyword, `can_start_expression(peek)` decides by ONE token
whether a value follows (documented: `'return' Expr?`). -/

/-- FIRST(Expr) of the documented grammar, as far as a value can follow
`return`: the opening brackets, identifiers and the path keywords, the prefix
operators, every literal kind, `f"`, `if` and `match`. (`while` / `for` and a
second `return` / `accept` / `reject` are unit- or never-typed and left out.) -/
def exprStarts : List Start :=
  [.roundLeft, .curlyLeft, .squareLeft, .ident, .bang, .hyphen,
   .bool, .integer, .float, .hex, .ipV4, .ipV6, .asn, .string, .char, .fStringStart,
   .kwIf, .kwMatch, .kwSuper, .kwPkg, .kwDep, .kwStd]

/-- `can_start_expression` of the tree before the repair -/
def returnStartsOld : List Start :=
  [.roundLeft, .curlyLeft, .squareLeft, .ident, .bang, .bool, .integer, .float, .hyphen,
   .ipV4, .ipV6, .asn, .string]

/-- the look-ahead of the tree before the repair: no stop tokens -/
def windowsDoc : List (List Tok) := [[.lcurly, .rcurly], [.lcurly, .ident, .colon]]

def cfgUnguarded : Cfg := ⟨[], windowsDoc⟩

end RotoV.LookAhead
