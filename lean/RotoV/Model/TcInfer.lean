/-
  TcInfer: executable model of the type checker's inference pass over the core
  language of `Model/Typing.lean` — `TypeChecker::{expr, block, stmt, literal,
  match_expr, binop, check_arguments, record_fields, path_function_call,
  method_call, access_field, resolve_expression_path}` (src/typechecker/expr.rs)
  and `TypeChecker::{function, constant}` + `resolve_obligations`
  (src/typechecker/function.rs, mod.rs) — as written:

    * every expression is checked AGAINST an expected type (`Context::expected_type`,
      here `Cx.expected`), fresh unification variables where the source calls
      `fresh_var` / `fresh_int` / `fresh_float`, `unify(expected, found)` where the
      source does (through `Unify.unifyTop`, the model of `TypeChecker::unify`),
      in the source's order; the result is the `diverges` flag;
    * errors are explicit results (`Err`, one constructor per kind of report the
      real checker produces at that point); `ice!` and "does not return" of the
      unification model are kept (`Res.ice`, `Res.stuck`);
    * scopes are the list-of-scopes of the declarative model (`insert_var` =
      "declared multiple times" when the innermost scope has the name);
    * `resolve_obligations` (the deferred `to_string` of f-string parts) runs at
      the end of each item: integer-literal variables default to `i32`, float
      ones to `f64` there.
  Names are numbers (as in `Typing`); type names are numbered by `nm*` below,
  user types from 32.

  Which helper each arm calls, with which expected type, is pinned to the source
  by the call skeleton `Generated/C07Arms.lean` = `Model/TcInferPinned.lean`
  (Props/C07.lean, `rfl`); the behaviour is compared with the real checker on
  every run (harness phase `infer`).  Core Lean only (linked into the driver).
-/
import RotoV.Model.Typing
import RotoV.Model.UnifyTc

namespace RotoV.TcInfer
open RotoV.Typing RotoV.Unify

/-- the kind of type error reported (one per report text of src/typechecker/error.rs
    that the modelled code can produce) -/
inductive Err
  | mismatched | declaredTwice | notFound | arity | nonExhaustive | unreachable
  | unknownVariant | patternHasFields | patternNeedsArgs | matchNeedsEnum
  | negateUnsigned | notNumeric | notInteger | fieldMismatch | noField | noMethod
  | tryForbidden | cannotDiverge | cannotAssign | expectedValue | ctorNeedsArgs | notARecord
  /-- item level (declarations, cycles): decided by the rules of `Typing`, not modelled here -/
  | item
  deriving DecidableEq, Repr, Inhabited

structure St where
  store : Store
  /-- `TypeChecker::obligations`: receiver types that need a `to_string` -/
  obls : List MTy
  deriving Inhabited

inductive Res (α : Type)
  | ok (a : α) (st : St)
  | err (e : Err)
  | ice
  | stuck
  deriving Inhabited

abbrev M (α : Type) := St → Res α

@[inline] def M.pure {α} (a : α) : M α := fun st => .ok a st
@[inline] def M.bind {α β} (x : M α) (f : α → M β) : M β := fun st =>
  match x st with
  | .ok a st' => f a st'
  | .err e => .err e
  | .ice => .ice
  | .stuck => .stuck

instance : Monad M where
  pure := M.pure
  bind := M.bind

def throw {α} (e : Err) : M α := fun _ => .err e

/-! ### type names -/
def nmF32 : Nat := 8
def nmF64 : Nat := 9
def nmBool : Nat := 10
def nmString : Nat := 11
def nmOption : Nat := 12
def nmList : Nat := 13
def nmVerdict : Nat := 14
def nmChar : Nat := 15
def nmIp : Nat := 16
def nmPrefix : Nat := 17
def nmAsn : Nat := 18
def nmUser (n : Nat) : Nat := 32 + n

def ityNum : ITy → Nat
  | .u8 => 0 | .u16 => 1 | .u32 => 2 | .u64 => 3 | .i8 => 4 | .i16 => 5 | .i32 => 6 | .i64 => 7

def tBool : MTy := .name nmBool []
def tString : MTy := .name nmString []
def tOption (t : MTy) : MTy := .name nmOption [t]
def tList (t : MTy) : MTy := .name nmList [t]
def tVerdict (a r : MTy) : MTy := .name nmVerdict [a, r]

/-- a written type as the checker's `Type` (`evaluate_type_expr`; the flexible
    types of the declarative model are never written) -/
def toM : Ty → MTy
  | .int t => .name (ityNum t) []
  | .f32 => .name nmF32 []
  | .f64 => .name nmF64 []
  | .bool => tBool
  | .string => tString
  | .unit => .unit
  | .opt t => tOption (toM t)
  | .list t => tList (toM t)
  | .named n => .name (nmUser n) []
  | .verdict a r => tVerdict (toM a) (toM r)
  | .prim k => .name (nmChar + k) []
  | .never => .never
  | _ => .unit

def toMFields : List (Nat × Ty) → List (Nat × MTy)
  | [] => []
  | (f, t) :: rest => (f, toM t) :: toMFields rest

def toMList : List Ty → List MTy
  | [] => []
  | t :: rest => toM t :: toMList rest

/-- `TypeDefinition` of a type name, as far as unification asks -/
def mkDefs (env : Env) : Defs := fun n =>
  if n < 4 then .int false else if n < 8 then .int true else if n < 10 then .float
  else if n < 32 then .other
  else match env.types.lookup (n - 32) with
    | some (.record fs) => .record (toMFields fs)
    | _ => .other

def fuel : Nat := 200

/-! ### primitive steps -/

/-- `TypeChecker::unify(expected, found)` → "mismatched types" -/
def unifyM (env : Env) (expected found : MTy) : M Unit := fun st =>
  match unifyTop (mkDefs env) fuel st.store expected found with
  | .ok _ s => .ok () { st with store := s }
  | .fail _ => .err .mismatched
  | .ice => .ice
  | .stuck => .stuck

def freshVar : M MTy := fun st =>
  let (t, s) := fresh st.store .var
  .ok t { st with store := s }

def freshInt : M MTy := fun st =>
  let (t, s) := fresh st.store (fun n => .intVar n false)
  .ok t { st with store := s }

def freshFloat : M MTy := fun st =>
  let (t, s) := fresh st.store .floatVar
  .ok t { st with store := s }

/-- `resolve_type` / `TypeInfo::resolve` -/
def resolveM (t : MTy) : M MTy := fun st =>
  match resolve st.store t with
  | some t' => .ok t' st
  | none => .stuck

def markSignedM (t : MTy) : M Unit := fun st => .ok () { st with store := markSigned st.store t }

def pushObl (t : MTy) : M Unit := fun st => .ok () { st with obls := st.obls ++ [t] }

/-- `TypeInfo::is_numeric_type` on a resolved type -/
def isNumericR (env : Env) : MTy → Bool
  | .intVar _ _ | .floatVar _ => true
  | .name n _ => (mkDefs env).isInt n || (mkDefs env).isFloat n
  | _ => false

/-- `TypeInfo::is_int_type` on a resolved type -/
def isIntR (env : Env) : MTy → Bool
  | .intVar _ _ => true
  | .name n _ => (mkDefs env).isInt n
  | _ => false

def isUnsignedR (env : Env) : MTy → Bool
  | .name n _ => (mkDefs env).isInt n && !(mkDefs env).isSignedInt n
  | _ => false

/-- the context of an expression (`expr::Context`) -/
structure Cx where
  expected : MTy
  /-- `function_return_type` -/
  ret : Option MTy
  deriving Inhabited

def Cx.withTy (cx : Cx) (t : MTy) : Cx := { cx with expected := t }

abbrev MScope := List (Nat × MTy)
/-- innermost scope first -/
abbrev MGamma := List MScope

def lookupM : MGamma → Nat → Option MTy
  | [], _ => none
  | s :: rest, x => match s.lookup x with
    | some t => some t
    | none => lookupM rest x

/-- `insert_var`: "declared multiple times" when the innermost scope has the name -/
def declareM (g : MGamma) (x : Nat) (t : MTy) : M MGamma :=
  match g with
  | [] => pure [[(x, t)]]
  | s :: rest => if (s.lookup x).isSome then throw .declaredTwice else pure (((x, t) :: s) :: rest)

def declareAllM (g : MGamma) : List (Nat × MTy) → M MGamma
  | [] => pure g
  | (x, t) :: rest => do
    let g' ← declareM g x t
    declareAllM g' rest

/-- `evaluate_type_expr`: a type name that is not declared is "cannot find value" -/
def evalTy (env : Env) (t : Ty) : M MTy :=
  if wfTy env t then pure (toM t) else throw .notFound

/-- `access_field` on a type: records (anonymous, variable, named) have fields -/
def accessField (env : Env) (t : MTy) (f : Nat) : M MTy := do
  let t ← resolveM t
  let fields : Option (List (Nat × MTy)) := match t with
    | .record fs | .recordVar _ fs => some fs
    | .name n _ => (mkDefs env).recordFields n
    | _ => none
  match fields with
  | some fs => match fs.lookup f with
    | some ft => pure ft
    | none => throw .noField
  | none => throw .noField

def accessPath (env : Env) (t : MTy) : List Nat → M MTy
  | [] => pure t
  | f :: rest => do
    let t' ← accessField env t f
    accessPath env t' rest

/-- what a written path starts with -/
inductive Root
  | var (x : Nat)
  | const (c : Nat)
  /-- `T.K` / `Option.None` / `Option.Some` used as the start of a longer path -/
  | ctor
  deriving Repr

/-- the expressions the printer writes as ONE path `a.b.c` (a variable or
    constant followed by field names); everything else followed by `.f` is an
    `Access` expression -/
def pathOf : Expr → Option (Root × List Nat)
  | .var x => some (.var x, [])
  | .const c => some (.const c, [])
  | .none => some (.ctor, [])
  | .ctor _ _ [] => some (.ctor, [])
  | .field e f => match pathOf e with
    | some (r, p) => some (r, p ++ [f])
    | none => none
  | _ => none

/-- root type of a path (`resolve_module_part_of_path` + the `Value` arm of
    `resolve_expression_path`); `true` = a local variable -/
def rootTy (env : Env) (g : MGamma) (isConst : Bool) (x : Nat) : M (MTy × Bool) :=
  if isConst then
    match env.consts.lookup x with
    | some t => pure (toM t, false)
    | none => throw .notFound
  else
    match lookupM g x with
    | some t => pure (t, true)
    | none => throw .notFound

/-- the receiver-independent part of a built-in method's signature after
    `instantiate`: parameter types (without the receiver) and result, for a
    receiver `List[elem]` / `String` (`Typing.methodSig` with `elem` a type
    variable) -/
def methodSigM (recvName : Nat) (elem : MTy) (m : Nat) : Option (List MTy × MTy) :=
  let u64 : MTy := .name 3 []
  if recvName == nmList then
    match m with
    | 0 => some ([], u64)
    | 1 => some ([elem], .unit)
    | 2 => some ([u64], tOption elem)
    | 3 => some ([elem], tBool)
    | 4 => some ([], tBool)
    | 12 => some ([tList elem], tList elem)
    | 13 => some ([elem], tOption u64)
    | 14 => some ([u64, u64], .unit)
    | _ => none
  else if recvName == nmString then
    match m with
    | 3 => some ([tString], tBool)
    | 5 => some ([], tString)
    | 6 => some ([tString], tBool)
    | 7 => some ([u64], tString)
    | 8 => some ([tString, tString], tString)
    | 9 => some ([tString], tList tString)
    | 10 => some ([tString], tOption tString)
    | 11 => some ([], tString)
    | _ => none
  else none

/-- `get_method(ty, name)`: the receiver must have resolved to a named type that
    has the method; the signature is instantiated with fresh variables.
    Result: receiver parameter, other parameters, return type. -/
def getMethod (t : MTy) (m : Nat) : M (Option (MTy × List MTy × MTy)) := do
  let t ← resolveM t
  match t with
  | .name n _ =>
    if n == nmList then
      match methodSigM n .unit m with
      | none => pure none
      | some _ => do
        let elem ← freshVar
        match methodSigM n elem m with
        | some (ps, r) => pure (some (tList elem, ps, r))
        | none => pure none
    else
      match methodSigM n .unit m with
      | some (ps, r) => pure (some (t, ps, r))
      | none => pure none
  | _ => pure none

/-- `record_fields`: the name bookkeeping (invalid / duplicate / missing) -/
def recordNamesOk (declared given : List Nat) : Bool :=
  (fieldNamesOk declared given).isNone

/-- does this type have a `to_string` method (`resolve_obligations`)? -/
def hasToString (env : Env) : MTy → Bool
  | .name n _ => n < 12 || (n ≥ nmChar && n < 32 && n ≠ nmUser 0) && (mkDefs env n matches .other)
  | _ => false

/-- the variants one can match on (`TypeDefinition::match_patterns`) -/
def variantsM (env : Env) : MTy → Option (List (PatName × List MTy))
  | .name n args =>
    if n == nmOption then
      match args with
      | [t] => some [(.some, [t]), (.none, [])]
      | _ => none
    else if n ≥ 32 then
      match env.types.lookup (n - 32) with
      | some (.enum vs) => some (vs.map fun (k, tys) => (.user k, toMList tys))
      | _ => none
    else none
  | _ => none

def lookupVariantM (vs : List (PatName × List MTy)) (n : PatName) : Option (List MTy) :=
  match vs with
  | [] => none
  | (m, tys) :: rest => if patNameEq m n then some tys else lookupVariantM rest n

/-- state of the loop over the arms of `match_expr` -/
structure MSt where
  used : List PatName
  dflt : Bool
  allDiverge : Bool

/-- the general arms of `binop` and the special cases tried first, with the
    checks of the two operands as parameters (`CompoundAssign` calls `binop`
    with the assigned path as left operand) -/
def binopWith (env : Env) (expected : MTy) (op : BinOp)
    (left right : MTy → M Bool) : M Bool := do
  -- `if let Div = op`: `IpAddr / u8` builds a prefix
  let checked ← (match op with
    | .div => do
      let v ← freshVar
      let dl ← left v
      let r ← resolveM v
      if r == .name nmIp [] then
        let dr ← right (.name 0 [])
        unifyM env expected (.name nmPrefix [])
        pure (some (Sum.inl (dl || dr)))
      else pure (some (Sum.inr (v, dl)))
    | .add => do
      let v ← freshVar
      let dl ← left v
      let r ← resolveM v
      if r == tString then
        let dr ← right v
        unifyM env expected tString
        pure (some (Sum.inl (dl || dr)))
      else match r with
        | .name n _ =>
          if n == nmList then do
            let dr ← right v
            unifyM env expected v
            pure (some (Sum.inl (dl || dr)))
          else pure (some (Sum.inr (v, dl)))
        | _ => pure (some (Sum.inr (v, dl)))
    | _ => pure none : M (Option (Sum Bool (MTy × Bool))))
  match checked with
  | some (.inl d) => pure d
  | checkedLeft =>
    match op with
    | .and | .or => do
      unifyM env expected tBool
      let dl ← left tBool
      let _ ← right tBool
      pure dl
    | .lt | .le | .gt | .ge => do
      unifyM env expected tBool
      let ty ← freshVar
      let dl ← left ty
      let r ← resolveM ty
      if isNumericR env r then
        let dr ← right ty
        pure (dl || dr)
      else throw .notNumeric
    | .eq | .ne => do
      unifyM env expected tBool
      let ty ← freshVar
      let dl ← left ty
      let dr ← right ty
      pure (dl || dr)
    | .add | .sub | .mul | .div => do
      let (operand, dl) ← (match checkedLeft with
        | some (.inr c) => pure c
        | _ => do
          let v ← freshVar
          let dl ← left v
          pure (v, dl) : M (MTy × Bool))
      let r ← resolveM operand
      if isNumericR env r then
        let dr ← right operand
        unifyM env expected operand
        pure (dl || dr)
      else throw .notNumeric
    | .mod => do
      let operand ← freshVar
      let dl ← left operand
      let r ← resolveM operand
      if isIntR env r then
        let dr ← right operand
        unifyM env expected operand
        pure (dl || dr)
      else throw .notInteger

/-- the left operand of a compound assignment: the assigned path read as an
    expression (`Expr::Path`) against `expected` -/
def pathAsExpr (env : Env) (ty : MTy) (expected : MTy) : M Bool := do
  unifyM env expected ty
  pure false

/-- a constructor path that is followed by more identifiers: resolved first -/
def inferCtorHead (env : Env) : Expr → M Unit
  | .field e _ => inferCtorHead env e
  | .ctor ty k _ =>
    match env.types.lookup ty with
    | some (.enum vs) => if (vs.lookup k).isSome then pure () else throw .notFound
    | _ => throw .notFound
  | _ => pure ()

/-- `check_arguments`: the count first ("… arguments were given") -/
def arityThen (given takes : Nat) (k : M Bool) : M Bool :=
  if given != takes then throw .arity else k

mutual
/-- `TypeChecker::expr` -/
def infer (env : Env) (cx : Cx) (g : MGamma) : Expr → M Bool
  -- `Literal(l) => self.literal(ctx, l)`
  | .intLit none => do
    let t ← freshInt
    unifyM env cx.expected t
    pure false
  | .intLit (some t) => do
    unifyM env cx.expected (.name (ityNum t) [])
    pure false
  | .floatLit none => do
    let t ← freshFloat
    unifyM env cx.expected t
    pure false
  | .floatLit (some false) => do
    unifyM env cx.expected (.name nmF32 [])
    pure false
  | .floatLit (some true) => do
    unifyM env cx.expected (.name nmF64 [])
    pure false
  | .boolLit => do
    unifyM env cx.expected tBool
    pure false
  | .strLit => do
    unifyM env cx.expected tString
    pure false
  | .unitLit => do
    unifyM env cx.expected .unit
    pure false
  -- `Path(p)`: a value
  | .var x => do
    let (t, _) ← rootTy env g false x
    unifyM env cx.expected t
    pure false
  | .const c => do
    let (t, _) ← rootTy env g true c
    unifyM env cx.expected t
    pure false
  | .field e f =>
    match pathOf (.field e f) with
    | some (.var x, path) => do
      let (t, _) ← rootTy env g false x
      let ft ← accessPath env t path
      unifyM env cx.expected ft
      pure false
    | some (.const c, path) => do
      let (t, _) ← rootTy env g true c
      let ft ← accessPath env t path
      unifyM env cx.expected ft
      pure false
    | some (.ctor, _) => do
      -- `Option.None.a` / `T.K.a`: the constructor is resolved, then "no field"
      let _ ← inferCtorHead env e
      throw .noField
    | none => do
      -- `Access(e, field)`
      let ty ← freshVar
      let d ← infer env (cx.withTy ty) g e
      let ft ← accessField env ty f
      unifyM env cx.expected ft
      pure d
  | .neg e => do
    let operand ← freshVar
    let d ← infer env (cx.withTy operand) g e
    let r ← resolveM operand
    if isUnsignedR env r then throw .negateUnsigned
    else if isNumericR env r then do
      markSignedM r
      unifyM env cx.expected r
      pure d
    else throw .notNumeric
  | .not e => do
    unifyM env cx.expected tBool
    infer env (cx.withTy tBool) g e
  | .bin op l r =>
    binopWith env cx.expected op
      (fun t => infer env (cx.withTy t) g l) (fun t => infer env (cx.withTy t) g r)
  | .ite c t e => do
    let _ ← infer env (cx.withTy tBool) g c
    match e with
    | some e => do
      let dt ← inferBlock env cx ([] :: g) t
      let de ← inferBlock env cx ([] :: g) e
      pure (dt && de)
    | none => do
      unifyM env cx.expected .unit
      let _ ← inferBlock env (cx.withTy .unit) ([] :: g) t
      pure false
  | .while c b => do
    let d ← infer env (cx.withTy tBool) g c
    let _ ← inferBlock env cx ([] :: g) b
    unifyM env cx.expected .unit
    pure d
  | .for x e b => do
    let elem ← freshVar
    let d ← infer env (cx.withTy (tList elem)) g e
    let _ ← inferBlock env cx ([(x, elem)] :: g) b
    unifyM env cx.expected .unit
    pure d
  | .block b => inferBlock env cx ([] :: g) b
  | .call f args =>
    -- `path_function_call`, a free function
    match env.fns.lookup f with
    | none => throw .notFound
    | some sig => do
      let d ← arityThen args.length (toMList sig.params).length (inferArgsGo env cx g args (toMList sig.params))
      unifyM env cx.expected (toM sig.ret)
      pure d
  | .mcall e m args =>
    match pathOf e with
    | some (.ctor, _) => do
      let _ ← inferCtorHead env e
      throw .noField
    | some (root, path) => do
      -- one path `v.a.m(args)`: `resolve_expression_path` finds the method
      let (t, _) ← (match root with
        | .var x => rootTy env g false x
        | .const c => rootTy env g true c
        | .ctor => throw .noField)
      let ft ← accessPath env t path
      match ← getMethod ft m with
      | none => throw .noField
      | some (recv, ps, ret) => do
        unifyM env ft recv
        let d ← arityThen args.length ps.length (inferArgsGo env cx g args ps)
        unifyM env cx.expected ret
        pure d
    | none => do
      -- `FunctionCall(Access(e, name), args)`: `method_call`
      let ty ← freshVar
      let d ← infer env (cx.withTy ty) g e
      match ← getMethod ty m with
      | none => throw .noMethod
      | some (recv, ps, ret) => do
        unifyM env recv ty
        let d' ← arityThen args.length ps.length (inferArgsGo env cx g args ps)
        unifyM env cx.expected ret
        pure (d || d')
  | .assign isConst x path e => do
    unifyM env cx.expected .unit
    let (t, isLocal) ← rootTy env g isConst x
    let ft ← accessPath env t path
    if !isLocal then throw .cannotAssign else
    infer env (cx.withTy ft) g e
  | .cassign op isConst x path e => do
    unifyM env cx.expected .unit
    let (t, isLocal) ← rootTy env g isConst x
    let ft ← accessPath env t path
    if !isLocal then throw .cannotAssign else
    binopWith env ft op (pathAsExpr env ft) (fun t => infer env (cx.withTy t) g e)
  | .ret kind e =>
    match cx.ret with
    | none => throw .cannotDiverge
    | some ret => do
      unifyM env cx.expected .never
      let want ← (match kind with
        | .ret => pure ret
        | .accept => do
          let a ← freshVar
          let b ← freshVar
          unifyM env ret (tVerdict a b)
          resolveM a
        | .reject => do
          let a ← freshVar
          let r ← freshVar
          unifyM env ret (tVerdict a r)
          resolveM r : M MTy)
      match e with
      | some e => do
        let _ ← infer env (cx.withTy want) g e
        pure true
      | none => do
        unifyM env want .unit
        pure true
  | .record ty fields =>
    -- `TypedRecord`
    match env.types.lookup ty with
    | none => throw .notFound
    | some (.enum _) => throw .notARecord
    | some (.record decl) =>
      if !recordNamesOk (decl.map (·.1)) (fieldNames fields) then throw .fieldMismatch else do
      let d ← inferFields env cx g fields (toMFields decl)
      unifyM env cx.expected (.name (nmUser ty) [])
      pure d
  | .listLit es => do
    let v ← freshVar
    unifyM env cx.expected (tList v)
    inferList env (cx.withTy v) g es
  | .ctor ty k args =>
    match env.types.lookup ty with
    | none => throw .notFound
    | some (.record _) => throw .notFound
    | some (.enum vs) =>
      match vs.lookup k with
      | none => throw .notFound
      | some tys =>
        match args with
        | [] =>
          -- `Path(p)` naming a constructor
          if !tys.isEmpty then throw .ctorNeedsArgs else do
          unifyM env cx.expected (.name (nmUser ty) [])
          pure false
        | _ => do
          let d ← arityThen args.length (toMList tys).length (inferArgsGo env cx g args (toMList tys))
          unifyM env cx.expected (.name (nmUser ty) [])
          pure d
  | .some e => do
    let v ← freshVar
    let d ← infer env (cx.withTy v) g e
    unifyM env cx.expected (tOption v)
    pure d
  | .none => do
    let v ← freshVar
    unifyM env cx.expected (tOption v)
    pure false
  | .try e => do
    let d ← infer env (cx.withTy (tOption cx.expected)) g e
    match cx.ret with
    | none => throw .tryForbidden
    | some ret => do
      let r ← resolveM ret
      match r with
      | .name n _ => if n == nmOption then pure d else throw .tryForbidden
      | _ => throw .tryForbidden
  | .match e arms => do
    let examinee ← freshVar
    let d ← infer env (cx.withTy examinee) g e
    let t ← resolveM examinee
    if d && !arms.isEmpty then throw .unreachable else
    match variantsM env t with
    | none => throw .matchNeedsEnum
    | some vs => do
      let st ← inferArms env cx g vs arms ⟨[], false, true⟩
      if !st.dflt && st.used.length < vs.length then throw .nonExhaustive
      else pure st.allDiverge
  | .fstr parts => do
    unifyM env cx.expected tString
    inferParts env cx g parts

/-- the loop of `check_arguments` (the count is tested by `arityThen` at the call) -/
def inferArgsGo (env : Env) (cx : Cx) (g : MGamma) : List Expr → List MTy → M Bool
  | e :: es, t :: ts => do
    let d ← infer env (cx.withTy t) g e
    let d' ← inferArgsGo env cx g es ts
    pure (d || d')
  | _, _ => pure false

/-- the second loop of `record_fields` -/
def inferFields (env : Env) (cx : Cx) (g : MGamma) : List Field → List (Nat × MTy) → M Bool
  | [], _ => pure false
  | .mk n e :: rest, decl =>
    match decl.lookup n with
    | none => throw .fieldMismatch
    | some t => do
      let d ← infer env (cx.withTy t) g e
      let d' ← inferFields env cx g rest decl
      pure (d || d')

/-- the elements of a list literal, all against one context -/
def inferList (env : Env) (cx : Cx) (g : MGamma) : List Expr → M Bool
  | [] => pure false
  | e :: es => do
    let d ← infer env cx g e
    let d' ← inferList env cx g es
    pure (d || d')

/-- the parts of an f-string: any type, with a deferred `to_string` obligation -/
def inferParts (env : Env) (cx : Cx) (g : MGamma) : List Expr → M Bool
  | [] => pure false
  | e :: es => do
    let ty ← freshVar
    let d ← infer env (cx.withTy ty) g e
    pushObl ty
    let d' ← inferParts env cx g es
    pure (d || d')

/-- the loop over the arms of `match_expr` -/
def inferArms (env : Env) (cx : Cx) (g : MGamma) (vs : List (PatName × List MTy)) :
    List Arm → MSt → M MSt
  | [], st => pure st
  | .mk pat guard body :: rest, st =>
    if st.dflt then throw .unreachable else
    match pat with
    | .wild => do
      let g' : MGamma := [] :: g
      let dflt ← (match guard with
        | some gd => do
          let _ ← infer env (cx.withTy tBool) g' gd
          pure false
        | none => pure true : M Bool)
      let db ← inferBlock env cx g' body
      inferArms env cx g vs rest { st with dflt := dflt, allDiverge := st.allDiverge && db }
    | .variant n bs =>
      match lookupVariantM vs n with
      | none => throw .unknownVariant
      | some tys =>
        if st.used.any (patNameEq n) then throw .unreachable else do
        let g' ← (match tys, bs with
          | [], none => pure ([] :: g)
          | [], some _ => throw .patternHasFields
          | tys, some xs =>
            if tys.length != xs.length then throw .arity
            else declareAllM ([] :: g) (xs.zip tys)
          | _, none => throw .patternNeedsArgs : M MGamma)
        let used ← (match guard with
          | some gd => do
            let _ ← infer env (cx.withTy tBool) g' gd
            pure st.used
          | none => pure (st.used ++ [n]) : M (List PatName))
        let db ← inferBlock env cx g' body
        inferArms env cx g vs rest { st with used := used, allDiverge := st.allDiverge && db }

/-- the statements of a block (`TypeChecker::stmt`), threading the block's scope -/
def inferStmts (env : Env) (cx : Cx) (g : MGamma) : List Stmt → M (MGamma × Bool)
  | [] => pure (g, false)
  | .let_ x ann e :: rest => do
    let ty ← (match ann with
      | some a => evalTy env a
      | none => freshVar : M MTy)
    let d ← infer env (cx.withTy ty) g e
    let ty' ← resolveM ty
    let g' ← declareM g x ty'
    let (g'', d') ← inferStmts env cx g' rest
    pure (g'', d || d')
  | .expr e :: rest => do
    let v ← freshVar
    let d ← infer env (cx.withTy v) g e
    let (g', d') ← inferStmts env cx g rest
    pure (g', d || d')

/-- `TypeChecker::block`, in the scope `g` whose innermost scope is the block's own -/
def inferBlock (env : Env) (cx : Cx) (g : MGamma) : Block → M Bool
  | .mk stmts last => do
    let (g', d) ← inferStmts env cx g stmts
    match last with
    | none => do
      if !d then unifyM env cx.expected .unit
      pure d
    | some e => do
      let d' ← infer env cx g' e
      pure (d || d')
end

/-- `resolve_obligations`: every f-string part needs a `to_string`; literal
    variables default to `i32` / `f64` first -/
def resolveObligations (env : Env) : List MTy → M Unit
  | [] => pure ()
  | t :: rest => do
    let r ← resolveM t
    (match r with
      | .intVar _ _ => unifyM env r (.name 6 [])
      | .floatVar _ => unifyM env r (.name nmF64 [])
      | _ => pure ())
    let r ← resolveM t
    if hasToString env r then resolveObligations env rest else throw .noMethod

def runObligations (env : Env) : M Unit := fun st =>
  resolveObligations env st.obls { st with obls := [] }

/-- `TypeChecker::function`: parameters into the function's scope, the body
    against the return type, then the obligations -/
def inferFn (env : Env) (params : List (Nat × Ty)) (rt : Ty) (body : Block) : M Unit := do
  let ps ← (fun st => (go params) st : M (List (Nat × MTy)))
  let g ← declareAllM [[]] ps
  let ret ← evalTy env rt
  let _ ← inferBlock env ⟨ret, some ret⟩ g body
  runObligations env
where
  go : List (Nat × Ty) → M (List (Nat × MTy))
    | [] => pure []
    | (x, t) :: rest => do
      let t' ← evalTy env t
      let rest' ← go rest
      pure ((x, t') :: rest')

/-- `TypeChecker::constant` -/
def inferConst (env : Env) (ty : Ty) (e : Expr) : M Unit := do
  let t ← evalTy env ty
  let _ ← infer env ⟨t, none⟩ [[]] e
  runObligations env

/-- the items of a program in source order (`TypeChecker::tree`) -/
def inferDecls (env : Env) : List Decl → M Unit
  | [] => pure ()
  | .fn _ params rt body :: rest => do inferFn env params rt body; inferDecls env rest
  | .const _ ty e :: rest => do inferConst env ty e; inferDecls env rest
  | .type _ _ :: rest => inferDecls env rest

/-- the signatures of all functions are evaluated before any body (`declare_functions`) -/
def sigsWf (env : Env) : List Decl → Bool
  | [] => true
  | .fn _ params rt _ :: rest => params.all (fun q => wfTy env q.2) && wfTy env rt && sigsWf env rest
  | _ :: rest => sigsWf env rest

/-- The whole pass. Item-level rules that are not part of `TypeChecker::expr`
    (duplicate items, type declarations, type cycles, constant cycles) are taken
    from the declarative model and reported as `Err.item`. -/
def checkProgM (p : Prog) : Res Unit :=
  let env := mkEnv p
  if hasDupPair (p.decls.map declName) then .err .item else
  if p.decls.any (fun | .type n d => (typeDefWf env d).isSome || typeIsRecursive env.types n | _ => false) then .err .item else
  if !sigsWf env p.decls then .err .notFound else
  match inferDecls env p.decls ⟨[], []⟩ with
  | .ok _ st =>
    if p.decls.any (fun | .const c _ _ => constIsRecursive p c | _ => false) then .err .item else .ok () st
  | .err e => .err e
  | .ice => .ice
  | .stuck => .stuck

def Err.show : Err → String
  | .mismatched => "mismatched-types" | .declaredTwice => "declared-twice" | .notFound => "not-found"
  | .arity => "arity" | .nonExhaustive => "non-exhaustive" | .unreachable => "unreachable"
  | .unknownVariant => "unknown-variant" | .patternHasFields => "pattern-has-fields"
  | .patternNeedsArgs => "pattern-needs-arguments" | .matchNeedsEnum => "match-needs-enum"
  | .negateUnsigned => "negate-unsigned" | .notNumeric => "not-numeric" | .notInteger => "not-integer"
  | .fieldMismatch => "field-mismatch" | .noField => "no-field" | .noMethod => "no-method"
  | .tryForbidden => "try-forbidden" | .cannotDiverge => "cannot-diverge-here"
  | .cannotAssign => "cannot-assign" | .expectedValue => "expected-value"
  | .ctorNeedsArgs => "ctor-needs-arguments" | .notARecord => "not-a-record" | .item => "item"

end RotoV.TcInfer
