/-
  C05 — which argument a parameter NAME of a script function receives.

  `Lowerer::item` builds `ir_signature.parameters : Vec<(Var, IrType)>` from the
  function's explicit parameters and their MIR types; zero-sized parameters get
  no lowered type and are not passed at all. The code generator binds the k-th
  incoming argument to the name of the k-th pair; a caller (`Lowerer::call`,
  `RotoFunc::invoke`) hands over the arguments whose type is lowered, in order.
  The pairing itself is *generated* (`Gen.BoundaryTables.sigParamsOf`, translated
  adapter by adapter from the iterator chain); this file only states the two
  hand-written sides it is compared with (core Lean only).
-/
import RotoV.Generated.BoundaryTables

namespace RotoV.Boundary

/-- what a caller hands over: the arguments whose type is lowered (not zero-sized), in order -/
def passedArgs {α τ ι : Type} (lower : τ → Option ι) (args : List α) (tys : List τ) : List α :=
  (args.zip tys).filterMap (fun (v, t) => (lower t).map fun _ => v)

/-- the specification: position `i` contributes `((names[i], lower tys[i]), args[i])` iff its type is
    lowered — every parameter that is passed at all receives the argument written in ITS position -/
def keptParams {ν α τ ι : Type} (lower : τ → Option ι) (names : List ν) (tys : List τ) (args : List α) :
    List ((ν × ι) × α) :=
  ((names.zip tys).zip args).filterMap (fun ((n, t), a) => (lower t).map fun it => ((n, it), a))

/-- NOT the tree's code: the names zipped with the already filtered list of lowered types (the same ABI
    types, but a zero-sized parameter in a non-last position shifts every later name) -/
def sigParamsPrefiltered {ν τ ι : Type} (lower : τ → Option ι) (names : List ν) (tys : List τ) : List (ν × ι) :=
  names.zip (tys.filterMap lower)

end RotoV.Boundary
