/-
  C03, variant layer: "no value is read after it was dropped" for reads that go
  *through a variant* (`x.Some.0`, `e.B.1`).

  The token semantics of `RotoV.Model.Mir` knows the active variant `k` of every
  whole value (`CSt.whole t k`), but `clone x.V.i` there does not ask whether
  `x` still holds variant `V`.  The compiler reads fields of a variant only
  behind a switch on the discriminant of the very same variable, and relies on
  nothing writing that variable between the switch and the read (a `match`
  copies its examinee into a private temporary for exactly this reason).  If
  something does write it — e.g. a guard that assigns to the matched variable
  while the arms read from the variable itself — the later arm reads the
  payload bytes of a value that was dropped and replaced: a host value is read
  after its drop although every `Drop` instruction still balances.

  `wrongRead` is that event in the concrete semantics, `varCheck` the static
  check (a forward dataflow of "the active variant of `x` is `k`" facts,
  created on the branches of a discriminant switch, killed by every
  instruction that may change the variable), `RotoV.Lemmas.MirVariant` proves
  it sound.  Core Lean only.
-/
import RotoV.Model.Mir

namespace RotoV.Mir

/-! ## the event -/

/-- number of variants of the type of variable `x` (0 if it is not an enum) -/
def Item.nVar (it : Item) (x : Nat) : Nat :=
  match it.vars[x]? with
  | some ty => it.nVariants ty
  | none => 0

/-- `(x, v)` if the instruction reads a field of variant `v` out of the tracked
    variable `x` (`… = clone x.v.i…`) -/
def variantRead (it : Item) : Instr → Option (Nat × Nat)
  | .assign _ _ (.clone ⟨x, .vfld v _ :: _⟩) =>
    match it.tracked x with
    | .ok true => some (x, v)
    | _ => none
  | _ => none

/-- The instruction, executed in state `c`, reads a field of a variant the
    value does not hold.  (The oracle of the token semantics may produce
    variant numbers beyond the type's variants; those stand for no real value
    and are not flagged.) -/
def wrongRead (it : Item) (c : CState) (i : Instr) : Bool :=
  match variantRead it i with
  | some (x, v) =>
    match cget c x with
    | .whole _ k => k != v && decide (k < it.nVar x)
    | _ => false
  | none => false

/-- some instruction of the list is reached and reads a wrong variant -/
def wrongInRun (it : Item) (ω : Oracle) : CState → List Instr → Bool
  | _, [] => false
  | c, i :: is =>
    wrongRead it c i ||
    match cInstr it ω c i with
    | .ok c' => wrongInRun it ω c' is
    | .error _ => false

def wrongInBlock (it : Item) (ω : Oracle) (l : Nat) (c : CState) : Bool :=
  match it.findBlock l with
  | some b => wrongInRun it ω c b.instrs
  | none => false

/-- a wrong read happens within the first `n` blocks of the execution -/
def wrongWithin (it : Item) (ω : Oracle) : Nat → Nat → CState → Bool
  | 0, _, _ => false
  | n + 1, l, c =>
    wrongInBlock it ω l c ||
    match stepBlock it ω l c with
    | .running l' c' => wrongWithin it ω n l' c'
    | _ => false

/-! ## the static check -/

/-- per variable: the active variant, if known -/
abbrev VState := List (Option Nat)

def vget (a : VState) (x : Nat) : Option Nat := a.getD x none

def vkills (a : VState) : List Nat → VState
  | [] => a
  | x :: xs => vkills (a.set x none) xs

/-- the variables whose status an instruction may change -/
def writes : Instr → List Nat
  | .assign to _ (.move w) => [to.var, w]
  | .assign to _ (.call args) => to.var :: args.map (·.1)
  | .assign to _ _ => [to.var]
  | .setDisc v _ _ => [v]
  | .drop p _ => [p.var]

/-- the instruction reads through a variant below a field (`x.f.V.i`): the semantics knows the
    active variant of whole variables only, so such a read cannot be justified (the compiler
    reads variant fields out of variables only) -/
def deepVariantRead : Instr → Bool
  | .assign _ _ (.clone p) => p.proj.tail.any (fun | .vfld _ _ => true | .fld _ => false)
  | _ => false

def vInstr (it : Item) (a : VState) (i : Instr) : Option VState :=
  if deepVariantRead i then none else
  match variantRead it i with
  | some (x, v) => if vget a x = some v then some (vkills a (writes i)) else none
  | none => some (vkills a (writes i))

def vRun (it : Item) : VState → List Instr → Option VState
  | a, [] => some a
  | a, i :: is =>
    match vInstr it a i with
    | some a' => vRun it a' is
    | none => none

/-- every variant of the type of `x` has a branch -/
def allListed (it : Item) (x : Nat) (brs : List (Nat × Nat)) : Bool :=
  (List.range (it.nVar x)).all (fun k => (brs.map (·.1)).contains k)

/-- state on the branch for discriminant value `k`: if the block ends in
    `d = discriminant(x)` and switches on `d`, `x` holds variant `k` there.
    Without an explicit default the last branch also takes every value that is
    not listed, so all variants must be listed then. -/
def vBranch (it : Item) (a : VState) (is : List Instr) (d : Nat) (brs : List (Nat × Nat))
    (dflt : Option Nat) (k : Nat) : VState :=
  match discOf is d with
  | some x =>
    match it.tracked x with
    | .ok true => if dflt.isSome || allListed it x brs then a.set x (some k) else a
    | _ => a
  | none => a

abbrev VCert := List (Nat × VState)

def vcertAt (cert : VCert) (l : Nat) : Option VState :=
  match cert.find? (fun p => p.1 = l) with
  | some p => some p.2
  | none => none

/-- `a'` claims no more than `a` -/
def vleA (a a' : VState) : Bool :=
  (List.range a'.length).all (fun x => vget a' x == none || vget a x == vget a' x)

def vedgeOk (cert : VCert) (a : VState) (l : Nat) : Bool :=
  match vcertAt cert l with
  | some a' => vleA a a'
  | none => false

def vcheckTerm (it : Item) (cert : VCert) (b : Block) (a : VState) : Bool :=
  match b.term with
  | .jump l => vedgeOk cert a l
  | .switch d brs dflt =>
    brs.all (fun p => vedgeOk cert (vBranch it a b.instrs d brs dflt p.1) p.2) &&
    (match dflt with
     | some l => vedgeOk cert a l
     | none => true)
  | .ret _ => true

def vcheckBlock (it : Item) (cert : VCert) (b : Block) : Bool :=
  match vcertAt cert b.label with
  | none => false
  | some a =>
    match vRun it a b.instrs with
    | some a1 => vcheckTerm it cert b a1
    | none => false

def initV (it : Item) : VState := List.replicate it.vars.length none

/-- The verified variant checker: `cert` proposes the known variants at every
    block entry; every block is validated against it. -/
def varCheck (it : Item) (cert : VCert) : Bool :=
  vedgeOk cert (initV it) (entryLabel it) && it.blocks.all (vcheckBlock it cert)

/-! ## untrusted certificate search -/

def vmeetSt (s s' : Option Nat) : Option Nat := if s = s' then s else none

def vmeet : VState → VState → VState
  | s :: a, s' :: b => vmeetSt s s' :: vmeet a b
  | _, _ => []

inductive VVerdict where
  | ok (cert : VCert)
  /-- `block`, the variable read, the variant read, what is known there -/
  | reject (block : Nat) (x v : Nat) (known : Option Nat)
  deriving Repr, Inhabited

def vcertSet (cert : VCert) (l : Nat) (a : VState) : VCert :=
  (l, a) :: cert.filter (fun p => p.1 ≠ l)

/-- the first instruction of the list whose read is not justified -/
def vFirstBad (it : Item) : VState → List Instr → Option (Nat × Nat × Option Nat)
  | _, [] => none
  | a, i :: is =>
    match vInstr it a i with
    | some a' => vFirstBad it a' is
    | none =>
      match variantRead it i, i with
      | some (x, v), _ => some (x, v, vget a x)
      | none, .assign _ _ (.clone p) => some (p.var, 0, none)
      | none, _ => none

def vpropagate (it : Item) : Nat → List (Nat × VState) → VCert → VVerdict
  | 0, _, cert => .ok cert
  | _, [], cert => .ok cert
  | fuel + 1, (l, a) :: work, cert =>
    let next : Option VState :=
      match vcertAt cert l with
      | some a' => if vleA a a' then none else some (vmeet a a')
      | none => some a
    match next with
    | none => vpropagate it fuel work cert
    | some a =>
      match it.findBlock l with
      | none => vpropagate it fuel work cert
      | some b =>
        match vRun it a b.instrs with
        | none =>
          match vFirstBad it a b.instrs with
          | some (x, v, kn) => .reject l x v kn
          | none => .reject l 0 0 none
        | some a1 =>
          let cert' := vcertSet cert l a
          match b.term with
          | .jump l' => vpropagate it fuel ((l', a1) :: work) cert'
          | .switch d brs dflt =>
            let es := (sortBrs brs).map (fun p => (p.2, vBranch it a1 b.instrs d brs dflt p.1)) ++
              (match dflt with
               | some l' => [(l', a1)]
               | none => [])
            vpropagate it fuel (es ++ work) cert'
          | .ret _ => vpropagate it fuel work cert'

def vanalyse (it : Item) : VVerdict :=
  match vpropagate it (64 * edgeCount it) [(entryLabel it, initV it)] [] with
  | .reject l x v k => .reject l x v k
  | .ok cert => if varCheck it cert then .ok cert else .reject (entryLabel it) 0 0 none

end RotoV.Mir
