/-
  C11 — lifetimes of runtimes, packages, function handles and the resources
  they keep alive (src/codegen/mod.rs, src/pipeline.rs, src/runtime/mod.rs).

  Objects:   Runtime r, Package k, Handle (positional; a handle may have been
             turned into an `impl Fn` closure by `into_func`, or be wrapped in a
             `TestCase` handed out by `get_tests`), Module k (= the
             `Arc<ModuleData>` of compilation k, explicit strong count).
  Resources: Code k (JIT memory), ScriptConst k c (a `RotoConstant`: heap slot +
             JIT-compiled drop function), RegConst r (the `Arc` behind a
             registered constant), Closure r (the `Arc<Box<dyn Any>>` of a
             registered closure and what it captured).

  Everything Rust decides through *declarations* is a parameter (`Facts`,
  regenerated from the source by /verif/extract → Generated/Lifetime.lean):
  the field order of `ModuleData` (Rust drops fields in declaration order),
  whether a handle owns a strong count (`TypedFunc._module` filled with
  `self.inner.clone()`), which registered items are cloned into the module,
  which `Drop` impls call `free_memory`, what the closure made by
  `TypedFunc::into_func` captures, and who owns each kind of out-of-line data
  the emitted code refers to by address (`Holder`).

  Use-after-free is never totalised away: a script constant's drop function
  that runs after `Code k` was freed, a call into freed code/constants and a
  second `free_memory` are recorded in `St.faults`; releases are logged in
  `St.released` (so "exactly once" is a statement about `List.count`).
-/
namespace RotoV.Lifetime

/-- the fields of `ModuleData`, classified by their type -/
inductive Field
  | constants      -- HashMap<ResolvedName, ConstantValue>   (clones of registered constants)
  | rotoConstants  -- HashMap<ResolvedName, RotoConstant>    (script constants, drop fn lives in the JIT code)
  | registeredFns  -- Vec<Arc<Box<dyn Any>>>                 (clones of registered closures)
  | jit            -- JITModuleWrapper                       (its Drop frees the code)
  | plain          -- any other container of plain data (Vec / Box / HashSet / String …): dropping it runs no
                   -- script code and touches nothing else, so its place in the order does not matter
  deriving DecidableEq, Repr, Inhabited

/-- where `free_memory` is called -/
inductive FreeSite
  | wrapperDrop     -- impl Drop for JITModuleWrapper
  | moduleDataDrop  -- impl Drop for ModuleData (runs before its fields are dropped)
  | packageDrop     -- impl Drop for Package / Module<Ctx>
  | handleDrop      -- impl Drop for TypedFunc
  deriving DecidableEq, Repr

/-- who owns, after `ModuleBuilder::finalize`, a piece of out-of-line data that the
    emitted code refers to by address (string-literal bytes, aggregate
    initialisers, interned tables, …) -/
inductive Holder
  | jit         -- a data object inside the JIT module: lives and dies with Code k
  | moduleData  -- a field of `ModuleData` (behind the `Arc` that packages and handles share)
  | package     -- a field of `Module<Ctx>` / `Package`: dies with the package object
  | builder     -- stays in the `ModuleBuilder`: dies when compilation returns
  deriving DecidableEq, Repr

/-- data with this holder is kept alive by every handle -/
def Holder.heldByHandles : Holder → Bool
  | .jit => true
  | .moduleData => true
  | .package => false
  | .builder => false

/-- which script constants a statement of `Drop for RotoConstant` runs for (the
    storage of a constant of a zero-sized type is a zero-byte allocation) -/
inductive SizeGuard
  | always   -- unconditional
  | ifSized  -- only when `size > 0`
  | ifZst    -- only when `size == 0`
  deriving DecidableEq, Repr

/-- what a statement of `Drop for RotoConstant` does -/
inductive DropAct
  | callDropFn  -- `(self.drop_fn)(self.ptr)`: runs the constant's (JIT-compiled) drop function
  | dealloc     -- gives the slot back to the allocator
  | ret         -- `return`
  deriving DecidableEq, Repr

def SizeGuard.applies : SizeGuard → Bool → Bool
  | .always, _ => true
  | .ifSized, zst => !zst
  | .ifZst, zst => zst

/-- how often `Drop for RotoConstant` (its statements, in order, each under its
    guard) calls the constant's drop function for a constant of that size class -/
def dropFnCalls : List (SizeGuard × DropAct) → Bool → Nat
  | [], _ => 0
  | (g, a) :: rest, zst =>
    if g.applies zst then
      match a with
      | .callDropFn => dropFnCalls rest zst + 1
      | .dealloc => dropFnCalls rest zst
      | .ret => 0
    else dropFnCalls rest zst

/-- does the body call the drop function after it gave the slot back (a drop
    function reading freed memory) for a constant of that size class -/
def dropFnAfterDealloc : List (SizeGuard × DropAct) → Bool → Bool
  | [], _ => false
  | (g, a) :: rest, zst =>
    if g.applies zst then
      match a with
      | .callDropFn => dropFnAfterDealloc rest zst
      | .dealloc => decide (0 < dropFnCalls rest zst)
      | .ret => false
    else dropFnAfterDealloc rest zst

/-- how the module's keep-alive collection of registered functions identifies
    its entries: one entry per inserted `Arc` (a `Vec` that is pushed to), or one
    entry per *Rust type* of the registered function (a map keyed by `TypeId`,
    insert-if-absent) — closures made by one closure expression share a type but
    not their captured state -/
inductive KeepKey
  | perArc
  | perRustType
  deriving DecidableEq, Repr

/-- declaration-level facts of the implementation (generated) -/
structure Facts where
  /-- fields of `ModuleData` in declaration (= drop) order -/
  moduleFields : List Field
  /-- `TypedFunc` has a field of type `SharedModuleData` (= `Arc<ModuleData>`) and
      `Module::get_function` initialises it with `self.inner.clone()` -/
  handleHoldsArc : Bool
  /-- `codegen` calls `declare_constant` for every registered constant and that
      inserts `constant.value.clone()` into what becomes `ModuleData._constants` -/
  constsCloned : Bool
  /-- `codegen` pushes `f.func.pointer()` (an `Arc` clone) of every referenced
      registered function into what becomes `ModuleData._registered_fns` -/
  fnsCloned : Bool
  /-- the impls whose `drop` calls `free_memory` -/
  freeSites : List FreeSite
  /-- the closure returned by `TypedFunc::into_func` captures the whole handle
      (or at least its `SharedModuleData` field); otherwise Rust's disjoint
      closure capture leaves that field behind and it is dropped when
      `into_func` returns -/
  closureKeepsArc : Bool
  /-- a `TestCase` (what `Package::get_tests` hands out) stores the `TypedFunc`
      that `Module::get_function` returned, and runs the test through it -/
  testHoldsHandle : Bool
  /-- the holder of every kind of out-of-line data the emitted code refers to by
      address, other than constants and registered closures -/
  dataHolders : List Holder
  /-- the statements of `Drop for RotoConstant::drop`, in order, each with the
      size class of constants it runs for -/
  constDrop : List (SizeGuard × DropAct)
  /-- how `ModuleData`'s keep-alive collection of registered functions is keyed
      (see Model/LifetimeKeep.lean for the machine that uses it) -/
  fnsKeep : KeepKey
  deriving Repr

inductive Res
  | code (k : Nat)
  | scriptConst (k c : Nat)
  | regConst (r : Nat)
  | closure (r : Nat)
  deriving DecidableEq, Repr

inductive Fault
  | dropFnUnmapped (k c : Nat)  -- drop function of ScriptConst k c executed after Code k was freed
  | callFreed (k : Nat)         -- a call reached freed code / a freed constant / a freed closure
  | doubleFree (k : Nat)        -- `free_memory` of Code k twice
  deriving DecidableEq, Repr

inductive CallRes
  | ok (v : Nat)
  | uaf
  deriving DecidableEq, Repr

/-- what compilation `k` produced -/
structure ModInfo where
  rt : Nat := 0          -- the runtime it was compiled against
  nconst : Nat := 0      -- number of script constants
  nzst : Nat := 0        -- the constants `c < nzst` are of a zero-sized type (with drop glue)
  keepConst : Bool := false  -- the module holds a clone of RegConst rt
  keepClos : Bool := false   -- the module holds a clone of Closure rt
  useConst : Bool := false   -- `main` reads RegConst rt
  useClos : Bool := false    -- `main` calls Closure rt
  useData : Bool := false    -- the result of `main` depends on out-of-line data emitted with the code
  dataHolders : List Holder := []  -- where that data lives (copied from the facts at compile time)
  value : Nat := 0       -- what `main()` returns
  deriving Repr, Inhabited

structure Handle where
  k : Nat
  holds : Bool       -- owns one strong count of Module k
  expect : CallRes   -- what a call returned when the handle was created
  isFn : Bool := false  -- a closure made by `into_func`, or a `TestCase`: wraps a handle, cannot be cloned
  deriving Repr

def upd {α : Type} (f : Nat → α) (k : Nat) (v : α) : Nat → α :=
  fun x => if x = k then v else f x

structure St where
  rts : List Nat := []         -- live Runtime objects
  built : List Nat := []       -- runtime ids ever built
  rtConst : List Nat := []     -- runtimes holding (their `Arc` of) RegConst r
  rtClos : List Nat := []      -- runtimes holding Closure r
  constEver : List Nat := []   -- RegConst r was created
  closEver : List Nat := []    -- Closure r was created
  constRc : Nat → Nat := fun _ => 0   -- strong count of RegConst r
  closRc : Nat → Nat := fun _ => 0    -- strong count of Closure r
  compiled : List Nat := []    -- versions ever compiled
  info : Nat → ModInfo := fun _ => {}
  strong : Nat → Nat := fun _ => 0    -- strong count of Module k
  alive : List Nat := []       -- modules whose `ArcInner<ModuleData>` is allocated
  mapped : Nat → Bool := fun _ => false  -- Code k is mapped
  pkgs : List Nat := []        -- live Package objects (by version)
  hs : List Handle := []       -- live handles (positional identity)
  released : List Res := []    -- log of release events, newest first
  faults : List Fault := []    -- log of use-after-free / double-free events

def St.relCount (s : St) (x : Res) : Nat := s.released.count x

inductive Op
  | buildRuntime (r : Nat)
  | registerConst (r : Nat)
  | registerClosure (r : Nat)
  | compile (r k nconst nzst : Nat) (useConst useClos useData : Bool) (value : Nat)
  | getHandle (k : Nat)
  | getTest (k : Nat)
  | cloneHandle (i : Nat)
  | intoFunc (i : Nat)
  | call (i : Nat)
  | dropHandle (i : Nat)
  | dropPackage (k : Nat)
  | dropRuntime (r : Nat)
  deriving Repr, DecidableEq

/-! ### primitive effects -/

def release (x : Res) (s : St) : St := { s with released := x :: s.released }

def fault (f : Fault) (s : St) : St := { s with faults := f :: s.faults }

/-- drop one `Arc` of RegConst r -/
def decConst (r : Nat) (s : St) : St :=
  let s' := { s with constRc := upd s.constRc r (s.constRc r - 1) }
  if s.constRc r - 1 = 0 then release (.regConst r) s' else s'

/-- drop one `Arc` of Closure r -/
def decClos (r : Nat) (s : St) : St :=
  let s' := { s with closRc := upd s.closRc r (s.closRc r - 1) }
  if s.closRc r - 1 = 0 then release (.closure r) s' else s'

/-- `RotoConstant::drop` of the script constants `0 … n-1` of module k: each
    calls its JIT-compiled drop function, which needs Code k mapped -/
def dropScriptConsts (k : Nat) : Nat → St → St
  | 0, s => s
  | c + 1, s =>
    let s := dropScriptConsts k c s
    let s := if s.mapped k then s else fault (.dropFnUnmapped k c) s
    release (.scriptConst k c) s

/-- `n` release events of `x` (a drop function that ran `n` times) -/
def releaseN (x : Res) : Nat → St → St
  | 0, s => s
  | n + 1, s => release x (releaseN x n s)

/-- the drop of the `HashMap<_, RotoConstant>` of module k as the generated
    `Drop for RotoConstant` does it: constant c's drop function is called as
    often as the body's statements say for its size class (once, on the
    unchanged tree; not at all for a zero-sized constant if the body returns
    early for `size == 0`) -/
def dropRotoConstants (F : Facts) (k : Nat) : Nat → St → St
  | 0, s => s
  | c + 1, s =>
    let s := dropRotoConstants F k c s
    let n := dropFnCalls F.constDrop (decide (c < (s.info k).nzst))
    let s := if s.mapped k || n == 0 then s else fault (.dropFnUnmapped k c) s
    releaseN (.scriptConst k c) n s

/-- `free_memory` on Code k -/
def freeCode (k : Nat) (s : St) : St :=
  if s.mapped k then release (.code k) { s with mapped := upd s.mapped k false }
  else fault (.doubleFree k) s

def dropField (F : Facts) (k : Nat) : Field → St → St
  | .constants, s => if (s.info k).keepConst then decConst (s.info k).rt s else s
  | .rotoConstants, s => dropRotoConstants F k (s.info k).nconst s
  | .registeredFns, s => if (s.info k).keepClos then decClos (s.info k).rt s else s
  | .jit, s => if FreeSite.wrapperDrop ∈ F.freeSites then freeCode k s else s
  | .plain, s => s

def dropFields (F : Facts) (k : Nat) : List Field → St → St
  | [], s => s
  | f :: fs, s => dropFields F k fs (dropField F k f s)

/-- the strong count of Module k reached zero: `Drop for ModuleData` (if any),
    then the fields **in declaration order**, then the allocation -/
def dropModule (F : Facts) (k : Nat) (s : St) : St :=
  let s := if FreeSite.moduleDataDrop ∈ F.freeSites then freeCode k s else s
  let s := dropFields F k F.moduleFields s
  { s with alive := s.alive.erase k }

/-- drop one `Arc<ModuleData>` of module k -/
def decModule (F : Facts) (k : Nat) (s : St) : St :=
  let s' := { s with strong := upd s.strong k (s.strong k - 1) }
  if s.strong k - 1 = 0 then dropModule F k s' else s'

/-! ### calls -/

def unreleased (s : St) (x : Res) : Bool := !(s.released.contains x)

/-- is data of module k with holder `h` still there -/
def holderAlive (s : St) (k : Nat) : Holder → Bool
  | .jit => s.mapped k
  | .moduleData => s.alive.contains k
  | .package => s.pkgs.contains k
  | .builder => false

/-- all out-of-line data the code of module k refers to is still there -/
def dataAlive (s : St) (k : Nat) : Bool := (s.info k).dataHolders.all (holderAlive s k)

/-- what `main()` of version k does in state s: it runs Code k, reads the
    script constants, and (if the script does) RegConst / Closure of its runtime
    and the out-of-line data emitted with the code -/
def callRes (s : St) (k : Nat) : CallRes :=
  let m := s.info k
  if s.mapped k
      && (List.range m.nconst).all (fun c => unreleased s (.scriptConst k c))
      && (!m.useConst || unreleased s (.regConst m.rt))
      && (!m.useClos || unreleased s (.closure m.rt))
      && (!m.useData || dataAlive s k)
  then .ok m.value else .uaf

/-! ### operations -/

def valid (s : St) : Op → Bool
  | .buildRuntime r => !(s.built.contains r)
  | .registerConst r => s.rts.contains r && !(s.constEver.contains r)
  | .registerClosure r => s.rts.contains r && !(s.closEver.contains r)
  | .compile r k _ _ useConst useClos _ _ =>
    s.rts.contains r && !(s.compiled.contains k)
      && (!useConst || s.rtConst.contains r) && (!useClos || s.rtClos.contains r)
  | .getHandle k => s.pkgs.contains k
  | .getTest k => s.pkgs.contains k
  | .cloneHandle i => (s.hs[i]?).any (fun h => !h.isFn)
  | .intoFunc i => (s.hs[i]?).any (fun h => !h.isFn)
  | .call i => i < s.hs.length
  | .dropHandle i => i < s.hs.length
  | .dropPackage k => s.pkgs.contains k
  | .dropRuntime r => s.rts.contains r

def step (F : Facts) (s : St) : Op → St
  | .buildRuntime r => { s with rts := r :: s.rts, built := r :: s.built }
  | .registerConst r =>
    { s with rtConst := r :: s.rtConst, constEver := r :: s.constEver, constRc := upd s.constRc r 1 }
  | .registerClosure r =>
    { s with rtClos := r :: s.rtClos, closEver := r :: s.closEver, closRc := upd s.closRc r 1 }
  | .compile r k nconst nzst useConst useClos useData value =>
    -- every registered constant is cloned, only referenced functions are
    let keepConst := F.constsCloned && s.rtConst.contains r
    let keepClos := F.fnsCloned && useClos
    { s with
      compiled := k :: s.compiled
      info := upd s.info k { rt := r, nconst, nzst, keepConst, keepClos, useConst, useClos, useData,
                             dataHolders := F.dataHolders, value }
      strong := upd s.strong k 1
      alive := k :: s.alive
      mapped := upd s.mapped k true
      pkgs := k :: s.pkgs
      constRc := if keepConst then upd s.constRc r (s.constRc r + 1) else s.constRc
      closRc := if keepClos then upd s.closRc r (s.closRc r + 1) else s.closRc }
  | .getHandle k =>
    let h : Handle := { k, holds := F.handleHoldsArc, expect := callRes s k }
    { s with
      hs := s.hs ++ [h]
      strong := if h.holds then upd s.strong k (s.strong k + 1) else s.strong }
  | .getTest k =>
    -- `Package::get_tests`: a `TestCase` wraps the handle `get_function` made for the test function
    let h : Handle := { k, holds := F.handleHoldsArc && F.testHoldsHandle, expect := callRes s k, isFn := true }
    { s with
      hs := s.hs ++ [h]
      strong := if h.holds then upd s.strong k (s.strong k + 1) else s.strong }
  | .cloneHandle i =>
    match s.hs[i]? with
    | none => s
    | some h =>
      { s with
        hs := s.hs ++ [h]
        strong := if h.holds then upd s.strong h.k (s.strong h.k + 1) else s.strong }
  | .intoFunc i =>
    -- `move |args| self.call(args)`: the closure owns the whole handle.  If it only
    -- captured `self.func` / `self.return_by_ref`, the `_module` field would be
    -- dropped at the end of `into_func`.
    match s.hs[i]? with
    | none => s
    | some h =>
      if F.closureKeepsArc then { s with hs := s.hs.set i { h with isFn := true } }
      else
        let s := { s with hs := s.hs.set i { h with isFn := true, holds := false } }
        if h.holds then decModule F h.k s else s
  | .call i =>
    match s.hs[i]? with
    | none => s
    | some h => if callRes s h.k = .uaf then fault (.callFreed h.k) s else s
  | .dropHandle i =>
    match s.hs[i]? with
    | none => s
    | some h =>
      let s := { s with hs := s.hs.eraseIdx i }
      let s := if FreeSite.handleDrop ∈ F.freeSites then freeCode h.k s else s
      if h.holds then decModule F h.k s else s
  | .dropPackage k =>
    let s := { s with pkgs := s.pkgs.erase k }
    let s := if FreeSite.packageDrop ∈ F.freeSites then freeCode k s else s
    decModule F k s
  | .dropRuntime r =>
    let s := { s with rts := s.rts.erase r }
    let s := if s.rtConst.contains r then decConst r { s with rtConst := s.rtConst.erase r } else s
    if s.rtClos.contains r then decClos r { s with rtClos := s.rtClos.erase r } else s

/-- invalid operations (precondition false) are skipped -/
def stepV (F : Facts) (s : St) (op : Op) : St := if valid s op then step F s op else s

def run (F : Facts) (ops : List Op) : St := ops.foldl (stepV F) {}

/-! ### what the harness compares after every step -/

/-- result of calling handle i now -/
def callHandle (s : St) (i : Nat) : Option CallRes := (s.hs[i]?).map (fun h => callRes s h.k)

/-- the field orders under which script constants are dropped while their
    drop code is still mapped -/
def constsBeforeCode (fs : List Field) : Bool :=
  match fs.idxOf? Field.rotoConstants, fs.idxOf? Field.jit with
  | some i, some j => i < j
  | _, _ => false

end RotoV.Lifetime
