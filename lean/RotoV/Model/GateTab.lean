/-
  C04 — where the table comes from that `Package::get_function` consults.

  `Module::get_function` (modelled in `RotoV/Model/Gate.lean`) looks a name up
  in `Module::functions`. The gate theorems take that table as given. This file
  models how it is *built*, so that "a name that is no function of the script
  is refused" can be stated about programs and not about tables:

    declaration (`ast::Declaration`)
      --`Mir::lower` (src/mir/lower.rs: `match d { … }` in `tree`)-->
    MIR item (`mir::ItemKind::{Function, Constant}`), named
      `full_name(resolved_name(ident))` — `pkg.f`, `pkg.sub.f`, `pkg.test#t`
      --`lir::lower` (src/lir/lower.rs `item`: `match item.ty`)-->
    LIR item (`lir::ItemKind::{Function { signature: Some(_) }, Constant}`),
      plus the generated `::generated::{clone,drop,eq}_<n>` items
      (`ItemKind::Function { signature: None }`)
      --`ModuleBuilder::declare_function` (src/codegen/mod.rs)-->
    entry of `functions` (only for `ItemKind::Function`; the initialiser of a
      constant is compiled and run once, and never enters the table).

  The facts about the source are not written down here: they are a `Pipeline`
  value the translator regenerates on every run (`RotoV.Gen.GateTab.pipeline`,
  target `gatetab`); this file only says what such a value *means*.
-/
import RotoV.Model.Gate
namespace RotoV.GateTab
open RotoV.Gate

/-- what the source says about the way from a declaration to `functions` -/
structure Pipeline where
  /-- `Mir::lower`: (variant of `ast::Declaration`, lowering method its arm calls);
      a variant without an arm falls to `_ => {}` and yields no item -/
  mirArms : List (Ident × Ident)
  /-- (lowering method, variant of `mir::ItemKind` it builds, prefix it puts
      before the identifier: `test#` for tests) -/
  mirKinds : List (Ident × Ident × Ident)
  /-- `lir::lower`, `match item.ty`: (variant of `mir::ItemKind`, variant of
      `lir::ItemKind`, the LIR item carries `signature: Some(signature)` of the MIR item) -/
  lirArms : List (Ident × Ident × Bool)
  /-- generated helpers: (name prefix, carries a signature) -/
  helperItems : List (Ident × Bool)
  /-- variants of `lir::ItemKind` the `let … else { return; }` of
      `declare_function` lets through to `self.functions.insert(…)` -/
  declareAccepts : List Ident

/-- `ast::Declaration` -/
inductive DeclKind
  | filterMap | const | record | enum | function | test | import
  deriving DecidableEq, Repr

def DeclKind.variant : DeclKind → Ident
  | .filterMap => id% "FilterMap"
  | .const => id% "Const"
  | .record => id% "Record"
  | .enum => id% "Enum"
  | .function => id% "Function"
  | .test => id% "Test"
  | .import => id% "Import"

/-- the declarations whose body becomes a retrievable function -/
def DeclKind.functionLike : DeclKind → Bool
  | .filterMap | .function | .test => true
  | _ => false

/-- A declaration of a script, as far as retrieval is concerned. -/
structure Decl where
  kind : DeclKind
  /-- the full name of the module it stands in, with the separator: `pkg.`, `pkg.sub.` -/
  modpath : Ident
  ident : Ident
  /-- function, filtermap, test: the signature the type checker gives it;
      constant: `fn() -> T` for its type `T` (what a careless compiler would
      hand its initialiser out as); types, imports: irrelevant -/
  sig : Signature

/-- the name a test is registered under (`typechecker`: `test#<ident>`) -/
def testPrefix : Ident := id% "test#"

/-- the key under which a declaration's item is known: `pkg.f`, `pkg.sub.test#t` -/
def Decl.key (d : Decl) : Ident :=
  d.modpath ++ ((if d.kind = .test then testPrefix else []) ++ d.ident)

def lookup2 {β} (l : List (Ident × β)) (k : Ident) : Option β :=
  (l.find? (fun e => e.1 == k)).map (·.2)

/-- The entry (if any) a declaration leaves in `Module::functions`, by the
    stages of the pipeline as the source has them. -/
def Pipeline.entry (p : Pipeline) (d : Decl) : Option (Ident × Option Signature) :=
  match lookup2 p.mirArms d.kind.variant with
  | none => none
  | some method =>
    match lookup2 p.mirKinds method with
    | none => none
    | some (mirKind, pre) =>
      match lookup2 p.lirArms mirKind with
      | none => none
      | some (lirKind, hasSig) =>
        if p.declareAccepts.contains lirKind then
          some (d.modpath ++ (pre ++ d.ident), if hasSig then some d.sig else none)
        else none

/-- The entry of a generated helper: `prefix ++ suffix` (`::generated::drop_` ++ `12`);
    a prefix the source does not know yields nothing. -/
def Pipeline.helperEntries (p : Pipeline) (helpers : List (Ident × Ident)) : Functions :=
  helpers.filterMap (fun h =>
    match lookup2 p.helperItems h.1 with
    | some false => some (h.1 ++ h.2, none)
    | _ => none)

/-- `Module::functions` of a package with the declarations `decls` (of all its
    modules) for which the compiler generated the helpers `helpers`
    ((prefix, suffix) pairs). `lir::lower` puts the helpers first; the order is
    immaterial as long as keys are distinct. -/
def Pipeline.table (p : Pipeline) (decls : List Decl) (helpers : List (Ident × Ident)) : Functions :=
  p.helperEntries helpers ++ decls.filterMap p.entry

end RotoV.GateTab
