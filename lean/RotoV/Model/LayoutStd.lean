/-
  LayoutStd: the meaning of the `usize` std methods the C02 translator target
  (`extract/src/targets/c02.rs`) may emit.  `usize` is rendered as `Nat`
  (no wrap-around; layouts of real types are far below 2^64 — an assumption of
  C02 recorded in the evidence).

  Core Lean only: linked into the driver.
-/
namespace RotoV.LayoutStd

/-- `usize::next_multiple_of`. Rust panics (division by zero) for `b = 0`;
    every caller is shown to pass `b > 0` (`C02.layout_wf` gives `align > 0`
    for every layout that can reach a builder), so the value chosen for
    `b = 0` is never observed. -/
def nextMultipleOf (a b : Nat) : Nat :=
  if a % b = 0 then a else a + (b - a % b)

/-- `usize::is_multiple_of` (`b = 0` ↦ `a == 0`, as in std). -/
def isMultipleOf (a b : Nat) : Bool :=
  if b = 0 then decide (a = 0) else decide (a % b = 0)

/-- `usize::is_power_of_two`: exactly one bit set, i.e. `n = 2 ^ ⌊log2 n⌋`. -/
def isPowerOfTwo (n : Nat) : Bool := n != 0 && n == 2 ^ n.log2

end RotoV.LayoutStd
