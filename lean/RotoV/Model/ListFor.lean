/-
  ListFor: the script `for x in <e> { body }` over a list, as the MIR lowering
  (`Lowerer::for`, src/mir/lower.rs) makes it — a sequence of operations of
  the list model `RotoV.ListM` (property C15).

  What the lowering does is *generated* from the source on every run
  (Generated/ListFor): the iterated expression is evaluated exactly once,
  before the first iteration, into a variable of the loop's own; every
  iteration calls `List.get` on a clone of that variable with an index that
  starts at `indexStart` and grows by `indexStep`; `None` ends the loop.

  Core Lean only (linked into the driver).
-/
import RotoV.Model.ListM
import RotoV.Generated.ListFor

namespace RotoV.ListM
open RotoV

/-- the handle variable the `get`s of the loop read: the loop's own variable
    `tmp`, when the source evaluates the iterable once into a fresh variable and
    calls `get` on a clone of it; otherwise the variable `h` the loop was
    written over is read again -/
def forWalkVar (tmp h : Nat) : Nat :=
  if Gen.ListFor.iterableInOwnVar && Gen.ListFor.getOnCloneOfOwnVar && Gen.ListFor.iterableEvaluations == 1
  then tmp else h

/-- the iterations: `get(i)`, the body's operations, `get(i + step)`, …; the
    last `get` is the one that answers `None` -/
def forIters (w : Nat) : Nat → List (List Op) → List Op
  | i, [] => [.get w i]
  | i, b :: bs => .get w i :: (b ++ forIters w (i + Gen.ListFor.indexStep) bs)

/-- `for x in <variable h> { body₀ } { body₁ } …` (one body per iteration that
    takes place), `tmp` the loop's own variable -/
def forOps (tmp h : Nat) (bodies : List (List Op)) : List Op :=
  .cloneH tmp h :: (forIters (forWalkVar tmp h) Gen.ListFor.indexStart bodies ++ [.dropH tmp])

/-- the operation assigns to (or drops) the handle variable `v` -/
def Op.writes (v : Nat) : Op → Bool
  | .new d => d == v
  | .fromVec d _ => d == v
  | .cloneH d _ => d == v
  | .concat d _ _ => d == v
  | .dropH h => h == v
  | _ => false

end RotoV.ListM
