/-
  C04 — a compiled function is only obtainable under its true Rust signature.

  All statements are about `RotoV.Gen.Gate.checkRotoType`, the function the
  translator regenerates from `src/codegen/check.rs` on every run (a swapped
  leaf name, a dropped arm, swapped Result/Verdict arguments change that
  definition and break these proofs), composed with the hand-written
  `checkArgs`/`getFunction`/`forceFiltermap` of `RotoV/Model/Gate.lean`, which
  are tied to the code by the translator's shape assertions
  (`Gen.Gate.funcArities`, `Gen.Gate.getFunctionSteps`) and by the
  correspondence run (`harness/src/bin/c04.rs`).
-/
import RotoV.Lemmas.Gate
open RotoV.Gate
namespace RotoV.C04

/-- the gate as the source has it today -/
abbrev gate (ti : TypeInfo) : RustTy → RotoTy → Res := Gen.Gate.checkRotoType ti

/-- a small type environment for the non-vacuity examples: one registered
    type `Foo` (a `Val<Foo>` with `TypeId` 7), everything else a script enum -/
def ti0 : TypeInfo :=
  ⟨fun n => if n = ⟨.other 1, id% "Foo"⟩ then .runtime n (.opaque 7) else .enum⟩

theorem ti0_wf : ti0.WF := by
  intro i hi n id
  have : (⟨.GLOBAL, i⟩ : ResolvedName) ≠ ⟨.other 1, id% "Foo"⟩ := by simp
  simp [ti0, this]

/-! ### T0 — the generated function is the modelled gate -/

theorem generated_gate_is_model (ti : TypeInfo) (r : RustTy) (t : RotoTy) :
    Gen.Gate.checkRotoType ti r t = checkRotoType tables ti r t :=
  generated_gate_eq_model ti r t

/-! ### T1 — `gate_iff`: accepted ⇔ the Rust type is the documented image -/

/-- For every registry description `r` and every script type `t` (unbounded
    nesting): `check_roto_type` answers `Ok(())` iff `r` is exactly the Rust
    type the documented mapping assigns to `t`. -/
theorem gate_iff (ti : TypeInfo) (hwf : ti.WF) (r : RustTy) (t : RotoTy) :
    gate ti r t = .ok ↔ mapping ti t = some r := by
  unfold gate
  rw [generated_gate_eq_model]
  exact gate_iff_model ti hwf r t

example : gate ti0 (.result (.option (.leaf (.prim (id% "u16")))) (.val (.opaque 7)))
    (.named (id% "Result") [.named (id% "Option") [.named (id% "u16") []], .name ⟨.other 1, id% "Foo"⟩ []]) = .ok := by decide
example : gate ti0 (.result (.val (.opaque 7)) (.option (.leaf (.prim (id% "u16")))))
    (.named (id% "Result") [.named (id% "Option") [.named (id% "u16") []], .name ⟨.other 1, id% "Foo"⟩ []]) = .err := by decide
example : gate ti0 (.leaf (.prim (id% "i16"))) (.named (id% "u16") []) = .err := by decide

/-- Rust types built from the public leaves never make the gate panic: every
    refusal is an `Err`. -/
def RustTy.Public : RustTy → Prop
  | .leaf tid => tid ∈ Gen.Gate.typeIdConsts
  | .option r => RustTy.Public r
  | .list r => RustTy.Public r
  | .result a b => RustTy.Public a ∧ RustTy.Public b
  | .verdict a b => RustTy.Public a ∧ RustTy.Public b
  | .val _ => True
  | .unknown => True

theorem consts_in_table : ∀ k ∈ Gen.Gate.typeIdConsts,
    k = Gen.Gate.UNIT ∨ (lookupFirst Gen.Gate.leafNames k).isSome = true := by decide

theorem ok_err_ne_panic (c : Prop) [Decidable c] : (if c then Res.ok else Res.err) ≠ Res.panic := by
  split <;> simp

theorem seq_ne_panic {a b : Res} (ha : a ≠ .panic) (hb : b ≠ .panic) : a.seq b ≠ .panic := by
  cases a <;> simp_all [Res.seq]

theorem gate_never_panics (ti : TypeInfo) (r : RustTy) (hp : RustTy.Public r) (t : RotoTy) :
    gate ti r t ≠ .panic := by
  unfold gate
  rw [generated_gate_eq_model]
  induction r generalizing t with
  | leaf tid =>
    simp only [checkRotoType]
    split
    · exact ok_err_ne_panic _
    · rename_i hne
      rcases consts_in_table tid hp with rfl | h
      · simp [tables] at hne
      · cases hl : lookupFirst tables.leafNames tid with
        | none => simp [tables] at hl; simp [hl] at h
        | some n => exact ok_err_ne_panic _
  | unknown => simp [checkRotoType]
  | val tid =>
    simp only [checkRotoType]
    split
    · split
      · split <;> simp
      · simp
    · simp
  | option r ih =>
    simp only [checkRotoType]
    split
    · split
      · simp
      · split
        · exact ih hp _
        · simp
    · simp
  | list r ih =>
    simp only [checkRotoType]
    split
    · split
      · simp
      · split
        · exact ih hp _
        · simp
    · simp
  | result a b iha ihb =>
    simp only [checkRotoType]
    split
    · split
      · simp
      · split
        · exact seq_ne_panic (iha hp.1 _) (ihb hp.2 _)
        · simp
    · simp
  | verdict a b iha ihb =>
    simp only [checkRotoType]
    split
    · split
      · simp
      · split
        · exact seq_ne_panic (iha hp.1 _) (ihb hp.2 _)
        · simp
    · simp

example : RustTy.Public (.verdict (.leaf Gen.Gate.U16) (.list (.leaf Gen.Gate.STRING))) := by
  simp [RustTy.Public, Gen.Gate.typeIdConsts]

/-- …whereas an internal leaf outside the table (`StringBytes`, `VTable`, … —
    not nameable through the public API) hits the `panic!()` arm. -/
theorem gate_panics_on_unlisted_leaf (ti : TypeInfo) (n : Nat) (t : RotoTy) :
    gate ti (.leaf (.opaque n)) t = .panic := by
  cases t <;> rfl

/-! ### T3 — `mapping_injective`: one signature, one Rust type -/

/-- No two Rust types are accepted for the same script type. -/
theorem mapping_injective (ti : TypeInfo) (hwf : ti.WF) (r₁ r₂ : RustTy) (t : RotoTy)
    (h₁ : gate ti r₁ t = .ok) (h₂ : gate ti r₂ t = .ok) : r₁ = r₂ := by
  rw [gate_iff ti hwf] at h₁ h₂
  rw [h₁] at h₂
  exact Option.some.inj h₂

/-- Distinct primitive names denote distinct Rust types (width and
    signedness are never conflated), and none of them is `()`. -/
theorem leaf_mapping_injective :
    ∀ p ∈ docLeaves, ∀ q ∈ docLeaves, p.2 = q.2 → p.1 = q.1 := by decide

example : gate ti0 (.leaf (.prim (id% "u16"))) (.named (id% "u16") []) = .ok
    ∧ gate ti0 (.leaf (.prim (id% "u16"))) (.named (id% "i16") []) = .err
    ∧ gate ti0 (.leaf (.prim (id% "u32"))) (.named (id% "u16") []) = .err := by decide

/-! ### T2 — `get_function_iff` -/

theorem checkEach_ok_iff (g : RustTy → RotoTy → Res) (i : Nat) (rust : List RustTy) (ty : List RotoTy)
    (hlen : ty.length = rust.length) :
    checkEach g i rust ty = .ok ↔ Forall2 (fun t r => g r t = .ok) ty rust := by
  induction rust generalizing ty i with
  | nil =>
    cases ty with
    | nil => simp [checkEach]; exact Forall2.nil
    | cons _ _ => simp at hlen
  | cons r rs ih =>
    cases ty with
    | nil => simp at hlen
    | cons t ts =>
      simp only [List.length_cons, Nat.add_right_cancel_iff] at hlen
      simp only [checkEach, forall2_cons]
      cases hg : g r t <;> simp [ih (i + 1) ts hlen]

theorem checkArgs_ok_iff (g : RustTy → RotoTy → Res) (rust : List RustTy) (ty : List RotoTy) :
    checkArgs g rust ty = .ok ↔ Forall2 (fun t r => g r t = .ok) ty rust := by
  unfold checkArgs
  by_cases hlen : ty.length = rust.length
  · simp [hlen, checkEach_ok_iff g 0 rust ty hlen]
  · have : ¬ Forall2 (fun t r => g r t = .ok) ty rust := fun h => hlen h.length_eq
    simp [hlen, this]

/-- Retrieval succeeds iff `pkg.<name>` denotes a script function that kept its
    signature (a public function, filtermap or test — not a generated helper),
    the arities agree, and every parameter position and the return type carry
    exactly the Rust type the documented mapping assigns. -/
theorem get_function_iff (ti : TypeInfo) (hwf : ti.WF) (fns : Functions) (name : Ident) (f : RustFn) :
    getFunction (gate ti) fns name f = .ok ↔
      ∃ sig, lookupFn fns (pkgPrefix ++ name) = some (some sig) ∧
        sig.parameter_types.length = f.args.length ∧
        Forall2 (fun t r => mapping ti t = some r) sig.parameter_types f.args ∧
        mapping ti sig.return_type = some f.ret := by
  unfold getFunction
  cases hl : lookupFn fns (pkgPrefix ++ name) with
  | none => simp
  | some o =>
    cases o with
    | none => simp
    | some sig =>
      simp only [Option.some.injEq, exists_eq_left']
      have hargs := checkArgs_ok_iff (gate ti) f.args sig.parameter_types
      simp only [gate_iff ti hwf] at hargs
      cases hc : checkArgs (gate ti) f.args sig.parameter_types with
      | ok =>
        have hf := hargs.1 hc
        cases hr : gate ti f.ret sig.return_type with
        | ok => simp [hf, hf.length_eq, (gate_iff ti hwf _ _).1 hr]
        | err =>
          have : ¬ mapping ti sig.return_type = some f.ret := fun h => by
            rw [← gate_iff ti hwf, hr] at h; cases h
          simp [this]
        | panic =>
          have : ¬ mapping ti sig.return_type = some f.ret := fun h => by
            rw [← gate_iff ti hwf, hr] at h; cases h
          simp [this]
      | _ =>
        have : ¬ Forall2 (fun t r => mapping ti t = some r) sig.parameter_types f.args := fun h => by
          have := hargs.2 h; rw [hc] at this; cases this
        simp [this]

/-- wrong arity is refused with `IncorrectNumberOfArguments`, whatever the types -/
theorem wrong_arity_refused (ti : TypeInfo) (fns : Functions) (name : Ident) (f : RustFn) (sig : Signature)
    (hl : lookupFn fns (pkgPrefix ++ name) = some (some sig))
    (hlen : sig.parameter_types.length ≠ f.args.length) :
    getFunction (gate ti) fns name f =
      .incorrectNumberOfArguments sig.parameter_types.length f.args.length := by
  simp [getFunction, hl, checkArgs, hlen]

/-- an unknown name and a generated helper (no signature) are refused with
    `DoesNotExist`, whatever the requested type -/
theorem unknown_or_helper_refused (ti : TypeInfo) (fns : Functions) (name : Ident) (f : RustFn)
    (hl : lookupFn fns (pkgPrefix ++ name) = none ∨ lookupFn fns (pkgPrefix ++ name) = some none) :
    getFunction (gate ti) fns name f = .doesNotExist := by
  rcases hl with hl | hl <;> simp [getFunction, hl]

/-- `Module::get_function` as the source has it today consists of exactly the
    eight gate steps of the model, each an unconditional top-level statement,
    in the model's order (translator: anything nested, conditional, missing,
    repeated or out of order is an extraction failure), and `func!` implements
    `RotoFunc` — with the arity test and the per-argument loop of `checkArgs` —
    for the arities 0 to 7 and no others. -/
theorem get_function_shape :
    Gen.Gate.getFunctionSteps =
      ["prefix", "lookup", "bind", "requireSignature", "checkArgs", "checkReturn", "funcPtr", "finish"] ∧
    Gen.Gate.funcArities = [0, 1, 2, 3, 4, 5, 6, 7] :=
  ⟨rfl, rfl⟩

example : Gen.Gate.getFunctionSteps.length = 8 := rfl

/-- a key that does not start with `pkg.` (`::generated::clone_7`) is not
    reachable by any requested name -/
theorem generated_key_unreachable (key name : Ident) (h : ¬ pkgPrefix <+: key) :
    pkgPrefix ++ name ≠ key :=
  fun e => h ⟨name, e⟩

def fns0 : Functions :=
  [(id% "pkg.f", some ⟨[.named (id% "u16") [], .named (id% "Option") [.named (id% "i16") []]], .unit⟩),
   (id% "::generated::clone_7", none), (id% "pkg.helper", none)]

example : getFunction (gate ti0) fns0 (id% "f")
    ⟨[.leaf (.prim (id% "u16")), .option (.leaf (.prim (id% "i16")))], rustUnit⟩ = .ok := by decide
example : getFunction (gate ti0) fns0 (id% "f")
    ⟨[.option (.leaf (.prim (id% "i16"))), .leaf (.prim (id% "u16"))], rustUnit⟩ = .argMismatch 1 := by decide
example : getFunction (gate ti0) fns0 (id% "f") ⟨[.leaf (.prim (id% "u16"))], rustUnit⟩
    = .incorrectNumberOfArguments 2 1 := by decide
example : getFunction (gate ti0) fns0 (id% "helper") ⟨[], rustUnit⟩ = .doesNotExist := by decide
example : getFunction (gate ti0) fns0 (id% "::generated::clone_7") ⟨[], rustUnit⟩ = .doesNotExist := by decide
example : ¬ pkgPrefix <+: (id% "::generated::clone_7") := by decide

/-! ### T4 — `filtermap_sig` -/

/-- what a side of the verdict must be on the Rust side: the image of the
    payload type, or `()` for a side the filtermap never uses -/
def sideOk (ti : TypeInfo) (o : Option RotoTy) (x : RustTy) : Prop :=
  match o with
  | none => x = rustUnit
  | some t => mapping ti t = some x

def isVar : RotoTy → Bool
  | .var _ => true
  | _ => false

theorem mapping_forceSide (ti : TypeInfo) (o : Option RotoTy) (k : Nat) (x : RustTy)
    (h : ∀ t, o = some t → isVar t = false) :
    mapping ti (forceSide (o.getD (.var k))) = some x ↔ sideOk ti o x := by
  cases o with
  | none => simp [forceSide, sideOk, mapping, eq_comm]
  | some t =>
    have := h t rfl
    cases t <;> simp_all [forceSide, sideOk, isVar]

/-- A filtermap whose accept/reject payloads have types `a`/`r` (`none`: the
    side is never used) is retrievable exactly as
    `fn(params…) -> Verdict<A, R>` with `()` for an unused side. -/
theorem filtermap_sig (ti : TypeInfo) (hwf : ti.WF) (fns : Functions) (name : Ident)
    (params : List RotoTy) (a r : Option RotoTy)
    (ha : ∀ t, a = some t → isVar t = false) (hr : ∀ t, r = some t → isVar t = false)
    (hl : lookupFn fns (pkgPrefix ++ name) = some (filtermapSignature (id% "Verdict") params a r))
    (f : RustFn) :
    getFunction (gate ti) fns name f = .ok ↔
      Forall2 (fun t x => mapping ti t = some x) params f.args ∧
      ∃ ra rr, f.ret = .verdict ra rr ∧ sideOk ti a ra ∧ sideOk ti r rr := by
  rw [get_function_iff ti hwf]
  simp only [hl, filtermapSignature, forceFiltermap, RotoTy.named, Option.some.injEq, exists_eq_left']
  have hm : ∀ x, mapping ti (.name ⟨.GLOBAL, id% "Verdict"⟩ [forceSide (a.getD (.var 0)), forceSide (r.getD (.var 1))]) = some x ↔
      ∃ ra rr, x = .verdict ra rr ∧ sideOk ti a ra ∧ sideOk ti r rr := by
    intro x
    have e1 := fun y => mapping_forceSide ti a 0 y ha
    have e2 := fun y => mapping_forceSide ti r 1 y hr
    have hne : nVerdict ≠ nResult := by decide
    have heq : (⟨.GLOBAL, id% "Verdict"⟩ : ResolvedName) = nVerdict := rfl
    simp only [mapping, hne, heq, if_false, if_true]
    cases h1 : mapping ti (forceSide (a.getD (.var 0))) with
    | none =>
      simp only []
      constructor
      · intro h; cases h
      · rintro ⟨ra, rr, _, h, _⟩; rw [← e1, h1] at h; cases h
    | some y1 =>
      cases h2 : mapping ti (forceSide (r.getD (.var 1))) with
      | none =>
        simp only []
        constructor
        · intro h; cases h
        · rintro ⟨ra, rr, _, _, h⟩; rw [← e2, h2] at h; cases h
      | some y2 =>
        simp only [Option.some.injEq]
        constructor
        · rintro rfl; exact ⟨y1, y2, rfl, (e1 _).1 h1, (e2 _).1 h2⟩
        · rintro ⟨ra, rr, rfl, h1', h2'⟩
          rw [← e1, h1] at h1'; rw [← e2, h2] at h2'
          cases h1'; cases h2'; rfl
  rw [hm]
  constructor
  · rintro ⟨_, h, h'⟩; exact ⟨h, h'⟩
  · rintro ⟨h, h'⟩; exact ⟨h.length_eq, h, h'⟩

/-- `test name { … }` is retrievable as `fn() -> Verdict<(), ()>` and as
    nothing else. -/
theorem test_sig (ti : TypeInfo) (hwf : ti.WF) (fns : Functions) (name : Ident)
    (hl : lookupFn fns (pkgPrefix ++ name) = some (some (testSignature (id% "Verdict"))))
    (f : RustFn) :
    getFunction (gate ti) fns name f = .ok ↔ f = ⟨[], .verdict rustUnit rustUnit⟩ := by
  rw [get_function_iff ti hwf]
  simp only [hl, Option.some.injEq, exists_eq_left', testSignature]
  have hm : mapping ti (RotoTy.named (id% "Verdict") [.unit, .unit]) = some (.verdict rustUnit rustUnit) := by
    simp [mapping, RotoTy.named, nVerdict, nResult]
  obtain ⟨args, ret⟩ := f
  constructor
  · rintro ⟨hlen, _, hret⟩
    simp only [List.length_nil] at hlen
    have : args = [] := List.length_eq_zero_iff.1 hlen.symm
    subst this
    rw [hm] at hret
    cases hret; rfl
  · intro h
    cases h
    exact ⟨rfl, Forall2.nil, hm⟩

def fmFns : Functions :=
  [(id% "pkg.fm", filtermapSignature (id% "Verdict") [.named (id% "u32") []] (some (.named (id% "u32") [])) none),
   (id% "pkg.test#t", some (testSignature (id% "Verdict")))]

example : getFunction (gate ti0) fmFns (id% "fm")
    ⟨[.leaf (.prim (id% "u32"))], .verdict (.leaf (.prim (id% "u32"))) rustUnit⟩ = .ok := by decide
example : getFunction (gate ti0) fmFns (id% "fm")
    ⟨[.leaf (.prim (id% "u32"))], .verdict rustUnit (.leaf (.prim (id% "u32")))⟩ = .retMismatch := by decide
example : getFunction (gate ti0) fmFns (id% "fm")
    ⟨[.leaf (.prim (id% "u32"))], .result (.leaf (.prim (id% "u32"))) rustUnit⟩ = .retMismatch := by decide
example : getFunction (gate ti0) fmFns (id% "test#t") ⟨[], .verdict rustUnit rustUnit⟩ = .ok := by decide
example : getFunction (gate ti0) fmFns (id% "test#t") ⟨[], rustUnit⟩ = .retMismatch := by decide

/-! ### T5 — type identity is scope + name

  A type of the script's own (`record i64 { … }`, `enum Option[T] { … }` —
  `pkg.i64`, `pkg.Option[u32]`) or one the host registered inside a module
  (`mod foo { type u32 = Val<Pair> }` — `foo.u32`) lives in a non-global scope.
  Bearing the identifier of a primitive or of a constructor does not make it
  that primitive or constructor. -/

theorem mapping_nonglobal (ti : TypeInfo) (n : ResolvedName) (args : List RotoTy)
    (hs : n.scope ≠ .GLOBAL) :
    mapping ti (.name n args) =
      match ti.resolve_type_name n with
      | .runtime _ id => some (.val id)
      | _ => none := by
  have h1 : n ≠ nOption := fun h => hs (by rw [h]; rfl)
  have h2 : n ≠ nList := fun h => hs (by rw [h]; rfl)
  have h3 : n ≠ nResult := fun h => hs (by rw [h]; rfl)
  have h4 : n ≠ nVerdict := fun h => hs (by rw [h]; rfl)
  match args with
  | [] =>
    simp only [mapping]
    split
    · rename_i h _; exact absurd h hs
    · rfl
  | [a] => simp only [mapping, h1, h2, if_false]; split <;> simp_all
  | [a, b] => simp only [mapping, h3, h4, if_false]; split <;> simp_all
  | _ :: _ :: _ :: _ => simp only [mapping]; split <;> simp_all

/-- A named type outside the global scope — whatever its identifier and
    arguments — is retrievable exactly as the `Val<T>` the host registered it
    as; if it is not a host-registered type, under no Rust type at all. -/
theorem nonglobal_name_iff (ti : TypeInfo) (hwf : ti.WF) (n : ResolvedName) (args : List RotoTy)
    (hs : n.scope ≠ .GLOBAL) (r : RustTy) :
    gate ti r (.name n args) = .ok ↔
      ∃ nm id, ti.resolve_type_name n = .runtime nm id ∧ r = .val id := by
  rw [gate_iff ti hwf, mapping_nonglobal ti n args hs]
  cases hd : ti.resolve_type_name n with
  | runtime nm id =>
    simp only [Option.some.injEq, TypeDefinition.runtime.injEq]
    constructor
    · rintro rfl; exact ⟨nm, id, ⟨rfl, rfl⟩, rfl⟩
    · rintro ⟨_, _, ⟨_, rfl⟩, rfl⟩; rfl
  | _ => simp

/-- a script-declared record or enum is refused under every Rust type, also
    when it is named like a primitive (`pkg.i64` is not `i64`) or like a
    constructor (`pkg.Option[u32]` is not `Option<u32>`) -/
theorem script_type_refused (ti : TypeInfo) (hwf : ti.WF) (n : ResolvedName) (args : List RotoTy)
    (hs : n.scope ≠ .GLOBAL) (hd : ∀ nm id, ti.resolve_type_name n ≠ .runtime nm id) (r : RustTy) :
    gate ti r (.name n args) ≠ .ok := by
  intro h
  obtain ⟨nm, id, h1, _⟩ := (nonglobal_name_iff ti hwf n args hs r).1 h
  exact hd nm id h1

/-- a type registered in a runtime module is never retrievable as a leaf or
    under a constructor, also when it is named like one (`foo.u32` is not
    `u32`): only as its `Val<T>` -/
theorem module_type_only_as_val (ti : TypeInfo) (hwf : ti.WF) (n : ResolvedName) (args : List RotoTy)
    (hs : n.scope ≠ .GLOBAL) (nm : ResolvedName) (id : TypeId)
    (hd : ti.resolve_type_name n = .runtime nm id) (r : RustTy) :
    gate ti r (.name n args) = .ok ↔ r = .val id := by
  rw [nonglobal_name_iff ti hwf n args hs, hd]
  constructor
  · rintro ⟨_, _, h, rfl⟩; cases h; rfl
  · rintro rfl; exact ⟨nm, id, rfl, rfl⟩

/-- a host with `mod foo { type u32 = Val<…> }` (scope 2) next to `Foo`; the
    script declares `record i64 { … }` and `enum Option[T] { … }` (scope 1) -/
def ti1 : TypeInfo :=
  ⟨fun n =>
    if n = ⟨.other 2, id% "u32"⟩ then .runtime n (.opaque 8)
    else if n = ⟨.other 1, id% "i64"⟩ then .record
    else .enum⟩

theorem ti1_wf : ti1.WF := by
  intro i hi n id
  have h1 : (⟨.GLOBAL, i⟩ : ResolvedName) ≠ ⟨.other 2, id% "u32"⟩ := by simp
  have h2 : (⟨.GLOBAL, i⟩ : ResolvedName) ≠ ⟨.other 1, id% "i64"⟩ := by simp
  simp only [ti1, h1, h2, if_false]
  simp

example : gate ti1 (.leaf (.prim (id% "i64"))) (.name ⟨.other 1, id% "i64"⟩ []) = .err
    ∧ gate ti1 (.leaf (.prim (id% "i64"))) (.named (id% "i64") []) = .ok := by decide
example : gate ti1 (.leaf (.prim (id% "u32"))) (.name ⟨.other 2, id% "u32"⟩ []) = .err
    ∧ gate ti1 (.val (.opaque 8)) (.name ⟨.other 2, id% "u32"⟩ []) = .ok
    ∧ gate ti1 (.val (.opaque 8)) (.named (id% "u32") []) = .err := by decide
example : gate ti1 (.option (.leaf (.prim (id% "u32")))) (.name ⟨.other 1, id% "Option"⟩ [.named (id% "u32") []]) = .err
    ∧ gate ti1 (.option (.leaf (.prim (id% "u32")))) (.named (id% "Option") [.named (id% "u32") []]) = .ok := by decide
example : getFunction (gate ti1) [(id% "pkg.first", some ⟨[.name ⟨.other 1, id% "i64"⟩ []], .named (id% "u64") []⟩)]
    (id% "first") ⟨[.leaf (.prim (id% "i64"))], .leaf (.prim (id% "u64"))⟩ = .argMismatch 1 := by decide

/-- the source compares named types with the derived, field-by-field `==`
    (scope, identifier, arguments) on every type involved, and `Type::named`
    builds a name in the GLOBAL scope (both read off the source by the
    translator; a hand-written `impl PartialEq` or another body is an
    extraction failure) -/
theorem type_equality_is_structural :
    Gen.Gate.derivedEq = [id% "Type", id% "TypeName", id% "ResolvedName", id% "ScopeRef", id% "Identifier"] := by
  decide

/-! ### T6 — the answer does not depend on what was asked before -/

/-- `get_function` reads `self.functions` and `self.inner` and passes
    `&mut self.type_info` to the checkers; it writes nothing else (translator:
    every `self.<field>` it mentions, every `&mut self.<field>`, every method
    it calls on a field). A memo of earlier verdicts would be a new field or a
    mutating call, and breaks this. -/
theorem get_function_state_footprint :
    (∀ f ∈ Gen.Gate.getFunctionSelfFields, f ∈ [id% "functions", id% "inner", id% "type_info"]) ∧
    (∀ f ∈ Gen.Gate.getFunctionMutFields, f = id% "type_info") ∧
    (∀ c ∈ Gen.Gate.getFunctionSelfCalls,
      c ∈ [(id% "functions", id% "get"), (id% "functions", id% "keys"),
           (id% "inner", id% "clone"), (id% "inner", id% "get_finalized_function")]) := by
  decide

theorem run_eq_map (pk : Package) (qs : List Request) :
    pk.run gate qs = qs.map (fun q => getFunction (gate pk.ti) pk.fns q.name q.f) := by
  induction qs with
  | nil => rfl
  | cons q qs ih => simp only [Package.run, Package.get, List.map_cons, ih]

/-- In every history of requests on one package, the answer to a request is
    the answer it would get on its own: asking before — the same wrong type,
    the right type, another function under this type — changes nothing. -/
theorem history_independent (pk : Package) (before after : List Request) (q : Request) :
    (pk.run gate (before ++ q :: after))[before.length]? =
      some (getFunction (gate pk.ti) pk.fns q.name q.f) := by
  rw [run_eq_map]
  simp

/-- … so a request is granted at any point of any history iff it names a
    function that kept its signature and is the image of that signature. -/
theorem history_get_function_iff (pk : Package) (hwf : pk.ti.WF) (before after : List Request) (q : Request) :
    (pk.run gate (before ++ q :: after))[before.length]? = some .ok ↔
      ∃ sig, lookupFn pk.fns (pkgPrefix ++ q.name) = some (some sig) ∧
        sig.parameter_types.length = q.f.args.length ∧
        Forall2 (fun t r => mapping pk.ti t = some r) sig.parameter_types q.f.args ∧
        mapping pk.ti sig.return_type = some q.f.ret := by
  rw [history_independent, Option.some.injEq, get_function_iff pk.ti hwf]

/-- a refusal is stable: the same request asked twice in one history gets the
    same answer both times -/
theorem refusal_is_stable (pk : Package) (a b c : List Request) (q : Request) :
    (pk.run gate (a ++ q :: b ++ q :: c))[a.length]? =
      (pk.run gate (a ++ q :: b ++ q :: c))[a.length + 1 + b.length]? := by
  have h1 := history_independent pk a (b ++ q :: c) q
  have h2 := history_independent pk (a ++ q :: b) c q
  simp only [List.append_assoc, List.cons_append, List.length_append, List.length_cons] at h1 h2 ⊢
  rw [h1]
  have : a.length + 1 + b.length = a.length + (b.length + 1) := by omega
  rw [this, h2]

example : (Package.run gate ⟨fns0, ti0⟩
    [⟨id% "f", ⟨[.leaf (.prim (id% "u16"))], rustUnit⟩⟩,
     ⟨id% "f", ⟨[.leaf (.prim (id% "u16"))], rustUnit⟩⟩,
     ⟨id% "f", ⟨[.leaf (.prim (id% "u16")), .option (.leaf (.prim (id% "i16")))], rustUnit⟩⟩,
     ⟨id% "f", ⟨[.leaf (.prim (id% "u16"))], rustUnit⟩⟩]) =
    [.incorrectNumberOfArguments 2 1, .incorrectNumberOfArguments 2 1, .ok, .incorrectNumberOfArguments 2 1] := by decide

/-- Across packages too: whatever a process asked before — of this package or
    of any other, granted or refused, mentioning the same type constructors or
    not — the answer to a request is the answer it gets from a cold start. (The
    process-wide `TypeRegistry` is not state of the model; that its entry for a
    type is the structure of the type, for every instantiation and whatever
    was resolved first, is `RotoV.C04Reg.registry_describes_the_type`.) -/
theorem process_history_independent (before after : List (Package × Request)) (pk : Package) (q : Request) :
    (processRun gate (before ++ (pk, q) :: after))[before.length]? =
      some (getFunction (gate pk.ti) pk.fns q.name q.f) := by
  induction before with
  | nil => simp [processRun, Package.get]
  | cons b bs ih => simp [processRun, ih]

example : processRun gate
    [(⟨fns0, ti0⟩, ⟨id% "f", ⟨[.leaf (.prim (id% "u16"))], rustUnit⟩⟩),
     (⟨fmFns, ti0⟩, ⟨id% "fm", ⟨[.leaf (.prim (id% "u32"))], .verdict (.leaf (.prim (id% "u32"))) rustUnit⟩⟩),
     (⟨fns0, ti0⟩, ⟨id% "f", ⟨[.leaf (.prim (id% "u16")), .option (.leaf (.prim (id% "i16")))], rustUnit⟩⟩)]
    = [.incorrectNumberOfArguments 2 1, .ok, .ok] := by decide

/-! ### T7 — the defaults of literal types reach every depth

  The signature of a filtermap is inferred, so at retrieval time it can still
  carry literal type variables: `accept Some(70000)` leaves the accept side
  at `Option[{integer}]`, `reject [[0.5]]` the reject side at
  `List[List[{float}]]`. The code is compiled with `i32` / `f64` at those
  positions (`TypeInfo::convert`; tied in `RotoV.C04Sig`), so that is the
  function's true signature, and the gate has to apply the same defaults
  wherever the variable sits — not only at the top of a payload. -/

/-- The gate's answer for a type is its answer for the type the code is
    compiled at: every literal type variable, at any depth, replaced by its
    default. -/
theorem gate_deep_default (ti : TypeInfo) (r : RustTy) (t : RotoTy) :
    gate ti r (deepDefault tables t) = gate ti r t := by
  unfold gate
  rw [generated_gate_eq_model, generated_gate_eq_model]
  exact checkRotoType_deepDefault tables ti r t

/-- … and so is the documented image. -/
theorem mapping_deep_default (ti : TypeInfo) (hwf : ti.WF) (t : RotoTy) :
    mapping ti (deepDefault tables t) = mapping ti t := by
  apply Option.ext
  intro r
  rw [← gate_iff ti hwf, ← gate_iff ti hwf, gate_deep_default]

/-- A type with a literal variable below `Option` / `List` / `Result` /
    `Verdict` is accepted under exactly one Rust type: the image of its
    compiled form. -/
theorem nested_literal_iff (ti : TypeInfo) (hwf : ti.WF) (r : RustTy) (t : RotoTy) :
    gate ti r t = .ok ↔ mapping ti (deepDefault tables t) = some r := by
  rw [mapping_deep_default ti hwf, gate_iff ti hwf]

theorem sideOk_deep_default (ti : TypeInfo) (hwf : ti.WF) (o : Option RotoTy) (x : RustTy) :
    sideOk ti (o.map (deepDefault tables)) x ↔ sideOk ti o x := by
  cases o with
  | none => rfl
  | some t => simp only [Option.map_some, sideOk, mapping_deep_default ti hwf]

/-- A filtermap whose payloads are built from unconstrained literals
    (`accept Some(70000)`, `reject [[0.5]]`, `accept Ok(1)` next to
    `accept Err(0.5)`) is retrievable exactly as the verdict of the compiled
    payload types. -/
theorem filtermap_literal_payload (ti : TypeInfo) (hwf : ti.WF) (fns : Functions) (name : Ident)
    (params : List RotoTy) (a r : Option RotoTy)
    (ha : ∀ t, a = some t → isVar t = false) (hr : ∀ t, r = some t → isVar t = false)
    (hl : lookupFn fns (pkgPrefix ++ name) = some (filtermapSignature (id% "Verdict") params a r))
    (f : RustFn) :
    getFunction (gate ti) fns name f = .ok ↔
      Forall2 (fun t x => mapping ti t = some x) params f.args ∧
      ∃ ra rr, f.ret = .verdict ra rr ∧
        sideOk ti (a.map (deepDefault tables)) ra ∧ sideOk ti (r.map (deepDefault tables)) rr := by
  rw [filtermap_sig ti hwf fns name params a r ha hr hl f]
  simp only [sideOk_deep_default ti hwf]

/-- `filtermap some() { accept Some(70000) }`, `filtermap many() { accept [1, 2, 3] }`,
    `filtermap deep(x: bool) { if x { accept Some([70000]) } else { reject Ok(0.5) } }`
    (the `Err` side of the reject payload is never resolved) -/
def litFns : Functions :=
  [(id% "pkg.some", filtermapSignature (id% "Verdict") [] (some (.named (id% "Option") [.intVar])) none),
   (id% "pkg.many", filtermapSignature (id% "Verdict") [] (some (.named (id% "List") [.intVar])) none),
   (id% "pkg.deep", filtermapSignature (id% "Verdict") [.named (id% "bool") []]
      (some (.named (id% "Option") [.named (id% "List") [.intVar]]))
      (some (.named (id% "Result") [.floatVar, .var 7])))]

example : getFunction (gate ti0) litFns (id% "some") ⟨[], .verdict (.option (.leaf (.prim (id% "i32")))) rustUnit⟩ = .ok := by decide
example : getFunction (gate ti0) litFns (id% "some") ⟨[], .verdict (.option (.leaf (.prim (id% "i64")))) rustUnit⟩ = .retMismatch := by decide
example : getFunction (gate ti0) litFns (id% "some") ⟨[], .verdict (.option (.leaf (.prim (id% "u32")))) rustUnit⟩ = .retMismatch := by decide
example : getFunction (gate ti0) litFns (id% "many") ⟨[], .verdict (.list (.leaf (.prim (id% "i32")))) rustUnit⟩ = .ok := by decide
example : getFunction (gate ti0) litFns (id% "many") ⟨[], .verdict (.list (.leaf (.prim (id% "f64")))) rustUnit⟩ = .retMismatch := by decide
/-- a payload with a component nothing resolves has no Rust type at all -/
example : getFunction (gate ti0) litFns (id% "deep")
    ⟨[.leaf (.prim (id% "bool"))], .verdict (.option (.list (.leaf (.prim (id% "i32"))))) (.result (.leaf (.prim (id% "f64"))) rustUnit)⟩ = .retMismatch := by decide
example : deepDefault tables (.named (id% "Option") [.named (id% "List") [.intVar]])
    = .named (id% "Option") [.named (id% "List") [.named (id% "i32") []]] := by
  simp [deepDefault, deepDefaultList, tables, RotoTy.named]
example : gate ti0 (.option (.list (.leaf (.prim (id% "i32"))))) (.named (id% "Option") [.named (id% "List") [.intVar]]) = .ok := by decide

end RotoV.C04
