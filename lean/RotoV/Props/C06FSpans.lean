/-
  C06 — compilation is total: the LOCATION of an escape error inside the text
  part of an f-string (`unescape_f_string_part`, src/parser/expr.rs).

  The part `src[sp]` is cut into pieces at every brace escape (`{{` / `}}`);
  piece `j` = `piece_start_j .. end_j` is decoded by `unescape_str(piece,
  Span { start: span.start + piece_start_j, .. })`, which reports the escaper's
  range `a..b` (relative to the piece) at `span.start + piece_start_j + a ..
  span.start + piece_start_j + b` (`Model/Parse.fText`).

  PROVED, for EVERY text (any characters, any number of brace escapes):

   * `fstring_piece_starts`      `piece_start_{j+1} = end_j + 2`, and the two
                                 bytes in between are `{{` or `}}`;
   * `fstring_first_piece`, `fstring_last_piece`   the first piece starts at
                                 byte 0 of the part, the last ends at its end;
   * `fstring_piece_start_sum`   closed form: `piece_start_j` = the lengths of
                                 the pieces before it + TWO bytes for each of
                                 the `j` brace escapes before it (an offset
                                 that advances by the one byte the escape
                                 decodes to is wrong by one byte per escape);
   * `fstring_error_span_exact`  the reported location is a span of the source
                                 on character boundaries AND the text under it
                                 is exactly the text the escaper pointed at —
                                 the offending escape, not a neighbour;
   * `fText_error_cites_escape`  the same for the parser model's `fText`: when
                                 it fails, the `ParseError` cites exactly the
                                 bytes of the escape (for every oracle whose
                                 ranges lie inside the piece: `LitOk`).

   * `fstring_pieces_cover`      the pieces and the brace escapes between them,
                                 put together in order, are the whole text of the
                                 part: no byte is skipped, none is decoded twice
                                 (`pieces_eq`: those ranges are `pieces t`);
   * `string_error_span_exact`, `decodeLit_string_error_cites_escape`   the same
                                 for a string literal `"m"`: `span.start + 1 + range`
                                 (`simple_literal` + `unescape_str`) designates
                                 exactly the escape inside the content `m`;
   * `char_error_span`, `decodeLit_char_error_span`   a character literal's escape
                                 error cites `token.start + 1 .. token.end`: the
                                 content and the closing quote, on boundaries;
   * `source_piece_start_constants`, `uScan_brace_arm_uses_source_step`,
     `pieces_start_from_source_init`, `source_arith_unescape_*`   the constants of
                                 the scan (`let mut piece_start = 0`, `piece_start =
                                 i + 2`) and every `+`/`-`/`*`/assignment on byte
                                 positions in the three decoders are GENERATED from
                                 the source (target `fspanfacts`) and are the ones
                                 the model is written with: `Props/C06FSpansSource`.

  The scan itself is tied to the source by the generated call skeleton of
  `unescape_f_string_part` (`Props/C06ParseSource`) and by the differential run
  (the harness asks the MODEL for the pieces, runs the real escaper on each —
  hook `escape_range` — and compares the location the model computes with the
  one the real parser reports; class `escape-span`).
-/
import RotoV.Lemmas.ParseFSpans
import RotoV.Lemmas.ParsePaths

namespace RotoV.C06FSpans
open RotoV RotoV.Lex RotoV.Parse

/-- bytes piece `r` and the brace escape that ends it occupy in the source -/
def pieceBytes (r : Span) : Nat := r.2 - r.1 + 2

/-- `piece_start_{j+1} = end_j + 2`, and `{{` / `}}` stands at `end_j` -/
theorem fstring_piece_starts (t : List Char) (j : Nat) (r r' : Span)
    (h1 : (pieces t)[j]? = some r) (h2 : (pieces t)[j + 1]? = some r') :
    r'.1 = r.2 + 2 ∧ BraceAt t r.2 :=
  chain_step _ _ _ (scan_chain t) j r r' h1 h2

/-- the first piece starts at byte 0 of the part -/
theorem fstring_first_piece (t : List Char) : ((pieces t)[0]?).map (·.1) = some 0 :=
  chain_head (scan_chain t)

/-- the last piece ends at the end of the part -/
theorem fstring_last_piece (t : List Char) : (pieces t).getLast?.map (·.2) = some (blen t) := by
  simp [pieces]

/-- in a chain from `ps`, entry `j` starts at `ps` + the bytes of the entries before it -/
theorem chain_start_sum {t : List Char} {e : Nat} : ∀ (rs : List Span) (ps ps' : Nat), ChainFrom t ps rs ps' →
    ∀ j r, (rs ++ [(ps', e)])[j]? = some r →
      r.1 = ps + (((rs ++ [(ps', e)]).take j).map pieceBytes).sum := by
  intro rs
  induction rs with
  | nil =>
    intro ps ps' hc j r h
    simp only [ChainFrom] at hc
    cases j with
    | zero => simp at h; subst h; simp [hc]
    | succ j => simp at h
  | cons x xs ih =>
    intro ps ps' hc j r h
    obtain ⟨hx1, hx2, _, hrest⟩ := hc
    cases j with
    | zero => simp at h; subst h; simp [hx1]
    | succ j =>
      simp only [List.cons_append, List.getElem?_cons_succ] at h
      have := ih _ _ hrest j r h
      have hx : pieceBytes x = x.2 - x.1 + 2 := rfl
      simp only [List.cons_append, List.take_succ_cons, List.map_cons, List.sum_cons, hx]
      omega

/-- closed form of `piece_start`: the pieces before it, and two bytes per brace escape -/
theorem fstring_piece_start_sum (t : List Char) (j : Nat) (r : Span) (h : (pieces t)[j]? = some r) :
    r.1 = (((pieces t).take j).map pieceBytes).sum := by
  have := chain_start_sum _ _ _ (scan_chain t) (e := blen t) j r h
  simpa [pieces] using this

/-- `fstring_error_span_exact`: the location `span.start + piece_start + range`
is a span of the source, and the text under it is the text the escaper's range
designates inside the piece. -/
theorem fstring_error_span_exact (src : List Char) (sp : Span) (hsp : SpanOk src sp) (j a b : Nat)
    (hab : SpanOk (textOf (textOf src sp) (pieceOf (textOf src sp) j)) (a, b)) :
    SpanOk src (sp.1 + (pieceOf (textOf src sp) j).1 + a, sp.1 + (pieceOf (textOf src sp) j).1 + b) ∧
    textOf src (sp.1 + (pieceOf (textOf src sp) j).1 + a, sp.1 + (pieceOf (textOf src sp) j).1 + b)
      = textOf (textOf (textOf src sp) (pieceOf (textOf src sp) j)) (a, b) := by
  have hp := pieceOf_spanOk (textOf src sp) j
  refine ⟨spanOk_in2 hsp hp hab, ?_⟩
  have h1 := textOf_textOf hp hab
  have h2 := textOf_textOf hsp (spanOk_in hp hab)
  rw [h1, h2]
  simp only [Nat.add_assoc]

/-- `fText_error_cites_escape`: when the model of `unescape_f_string_part` +
`f_string`'s text branch fails, the error's location designates exactly the
bytes the escaper pointed at in piece `j`. -/
theorem fText_error_cites_escape (c : Ctx) (hl : LitOk c) (sp : Span) (hsp : SpanOk c.src sp)
    (parts : List Sx) (s s' : PState) (e : PErr) (h : fText c sp parts s = .err e s') :
    ∃ k j a b, c.lit true sp.1 sp.2 = some (k, j, a, b) ∧ e.kind = k ∧ SpanOk c.src e.span ∧
      textOf c.src e.span = textOf (textOf (textOf c.src sp) (pieceOf (textOf c.src sp) j)) (a, b) := by
  unfold fText at h
  split at h
  · rw [fPieces_ok] at h
    dsimp only at h
    cases hlit : c.lit true sp.1 sp.2 with
    | none => rw [hlit] at h; simp [addNode] at h
    | some v =>
      obtain ⟨k, j, a, b⟩ := v
      rw [hlit] at h
      simp only [fail, PR.err.injEq] at h
      obtain ⟨he, _⟩ := h
      have hab := (hl true sp.1 sp.2 k j a b hlit).1 rfl
      obtain ⟨h1, h2⟩ := fstring_error_span_exact c.src sp hsp j a b hab
      refine ⟨k, j, a, b, rfl, ?_, ?_, ?_⟩
      · rw [← he]
      · rw [← he]; exact h1
      · rw [← he]; exact h2
  · cases h

/-! ## non-vacuity -/


/-- the part `{{€\q` (the class the check had missed: a brace escape, a 3-byte
character, a fatal escape): pieces `0..0` and `2..7` … -/
example : pieces ['{', '{', '€', '\\', 'q'] = [(0, 0), (2, 7)] := by decide

/-- … piece 1 starts at 0 + (0 + 2): the brace escape counts TWO bytes … -/
example : (([(0, 0), (2, 7)] : List Span).take 1).map pieceBytes = [2] := by decide

/-- … and the escaper's range `3..5` inside the piece `€\q` is reported at bytes `5..7` of the part: `\q` -/
example : textOf ['{', '{', '€', '\\', 'q'] (0 + 2 + 3, 0 + 2 + 5) = ['\\', 'q'] := by decide

/-- one byte less (an offset that advanced by the decoded brace only) is inside `€` -/
example : ¬ ∃ pre post, ['{', '{', '€', '\\', 'q'] = pre ++ post ∧ blen pre = 0 + 1 + 3 := by
  rintro ⟨pre, post, h, hb⟩
  match pre, h, hb with
  | [], _, hb => simp [blen] at hb
  | [_], h, hb => simp at h; obtain ⟨rfl, _⟩ := h; revert hb; decide
  | [_, _], h, hb => simp at h; obtain ⟨rfl, rfl, _⟩ := h; revert hb; decide
  | [_, _, _], h, hb => simp at h; obtain ⟨rfl, rfl, rfl, _⟩ := h; revert hb; decide
  | [_, _, _, _], h, hb => simp at h; obtain ⟨rfl, rfl, rfl, rfl, _⟩ := h; revert hb; decide
  | [_, _, _, _, _], h, hb => simp at h; obtain ⟨rfl, rfl, rfl, rfl, rfl, _⟩ := h; revert hb; decide
  | _ :: _ :: _ :: _ :: _ :: _ :: _, h, _ => simp at h

/-- three brace escapes with text between them: `}}é}}b}}` then `x` -/
example : pieces ['}', '}', 'é', '}', '}', 'b', '}', '}', 'x'] = [(0, 0), (2, 4), (6, 7), (9, 10)] := by decide

/-- an escaped brace is not half of a brace escape: in `\{{a` the scan consumes `\{` as an escape, the second `{` stands alone -/
example : pieces ['\\', '{', '{', 'a'] = [(0, 4)] := by decide

/-- `\u{…}` is skipped as a whole, closing brace included: in `\u{41}}}` only the last two braces are a brace escape -/
example : pieces ['\\', 'u', '{', '4', '1', '}', '}', '}'] = [(0, 6), (8, 8)] := by decide

/-- the hypotheses of `fText_error_cites_escape` are satisfiable: source `f"{{€\q"` (part = bytes 2..9),
the oracle reports `3..5` in piece 1; the model cites bytes 7..9 -/
example : fText ⟨['f', '"', '{', '{', '€', '\\', 'q', '"'], ⟨fun _ => false, fun _ => false, fun _ => false⟩,
      fun f s e => if f = true ∧ s = 2 ∧ e = 9 then some (.custom, 1, 3, 5) else none, []⟩ (2, 9) []
      ⟨Lexer.new [], [], [], none⟩ = .err ⟨.custom, (7, 9), none⟩ ⟨Lexer.new [], [], [], none⟩ := by
  rfl

/-! ## string literals: `span.start + 1 + range` (`simple_literal` + `unescape_str`) -/

/-- the content `&s[1..s.len() - 1]` of a quoted token text -/
theorem content_text (q : Char) (hq : sz q = 1) (m : List Char) :
    textOf (q :: (m ++ [q])) (1, blen (q :: (m ++ [q])) - 1) = m := by
  have hb : blen (q :: (m ++ [q])) = 1 + blen m + 1 := by simp only [blen, blen_append, hq]; omega
  refine textOf_decomp (a := [q]) (b := [q]) (by simp) (by simp [blen, hq]) ?_
  show blen (q :: (m ++ [q])) - 1 = blen [q] + blen m
  rw [hb]; simp [blen, hq]

/-- `string_error_span_exact`: for a string token `"m"` at `sp`, the location
`span.start + 1 + range` of an escape error is a span of the source on character
boundaries and the text under it is the text the escaper's range designates in
the content `m`. -/
theorem string_error_span_exact (src : List Char) (sp : Span) (hsp : SpanOk src sp) (m : List Char)
    (ht : textOf src sp = '"' :: (m ++ ['"'])) (a b : Nat) (hab : SpanOk m (a, b)) :
    SpanOk src (sp.1 + 1 + a, sp.1 + 1 + b) ∧ textOf src (sp.1 + 1 + a, sp.1 + 1 + b) = textOf m (a, b) := by
  have hq : sz '"' = 1 := by decide
  have hc : SpanOk (textOf src sp) (1, blen (textOf src sp) - 1) := by rw [ht]; exact content_spanOk hq m
  have hm : textOf (textOf src sp) (1, blen (textOf src sp) - 1) = m := by rw [ht]; exact content_text '"' hq m
  have hab' : SpanOk (textOf (textOf src sp) (1, blen (textOf src sp) - 1)) (a, b) := by rw [hm]; exact hab
  refine ⟨spanOk_in2 hsp hc hab', ?_⟩
  have h1 := textOf_textOf hc hab'
  have h2 := textOf_textOf hsp (spanOk_in hc hab')
  rw [hm] at h1
  rw [h1, h2]
  simp only [Nat.add_assoc]

/-- `decodeLit_string_error_cites_escape`: when the model of `simple_literal` fails on a string token `"m"`
with an escape error, the `ParseError` cites exactly the bytes the escaper pointed at inside `m`. -/
theorem decodeLit_string_error_cites_escape (c : Ctx) (hl : LitOk c) (sp : Span) (hsp : SpanOk c.src sp)
    (m : List Char) (ht : textOf c.src sp = '"' :: (m ++ ['"'])) (s s' : PState) (e : PErr)
    (h : decodeLit c .string sp s = .err e s') :
    ∃ k j a b, c.lit false sp.1 sp.2 = some (k, j, a, b) ∧ e.kind = k ∧ SpanOk c.src e.span ∧
      textOf c.src e.span = textOf m (a, b) := by
  unfold decodeLit at h
  cases hlit : c.lit false sp.1 sp.2 with
  | none => rw [hlit] at h; simp [addNode] at h
  | some v =>
    obtain ⟨k, j, a, b⟩ := v
    rw [hlit] at h
    simp only [fail, PR.err.injEq] at h
    obtain ⟨he, _⟩ := h
    have hq : sz '"' = 1 := by decide
    have hm : textOf (textOf c.src sp) (1, blen (textOf c.src sp) - 1) = m := by rw [ht]; exact content_text '"' hq m
    have hab := (hl false sp.1 sp.2 k j a b hlit).2 rfl (by show (textOf c.src sp).head? = _; rw [ht]; rfl)
    have hab' : SpanOk m (a, b) := by
      have : SpanOk (textOf (textOf c.src sp) (1, blen (textOf c.src sp) - 1)) (a, b) := hab
      rwa [hm] at this
    obtain ⟨h1, h2⟩ := string_error_span_exact c.src sp hsp m ht a b hab'
    refine ⟨k, j, a, b, rfl, ?_, ?_, ?_⟩
    · rw [← he]
    · rw [← he]; exact h1
    · rw [← he]; exact h2

/-- non-vacuity: `"€\q"` at bytes 0..7 — the escaper's range `3..5` in the content `€\q` is cited at 4..6: `\q` -/
example : textOf ['"', '€', '\\', 'q', '"'] (0 + 1 + 3, 0 + 1 + 5) = textOf ['€', '\\', 'q'] (3, 5) := by decide

example : decodeLit ⟨['"', '€', '\\', 'q', '"'], ⟨fun _ => false, fun _ => false, fun _ => false⟩,
      fun f s e => if f = false ∧ s = 0 ∧ e = 7 then some (.custom, 0, 3, 5) else none, []⟩ .string (0, 7)
      ⟨Lexer.new [], [], [], none⟩ = .err ⟨.custom, (4, 6), none⟩ ⟨Lexer.new [], [], [], none⟩ := by
  rfl

/-! ## nothing is lost, nothing is decoded twice -/

/-- the text put together again: every piece, the two bytes of the brace escape behind it, …, the last piece -/
def rebuildFrom (t : List Char) : List Span → Span → List Char
  | [], last => textOf t last
  | r :: rs, last => textOf t r ++ textOf t (r.2, r.2 + 2) ++ rebuildFrom t rs last

theorem chain_rebuild {t : List Char} : ∀ (rs : List Span) (ps ps' : Nat) (pre rest : List Char),
    t = pre ++ rest → blen pre = ps → ChainFrom t ps rs ps' → rebuildFrom t rs (ps', blen t) = rest := by
  intro rs
  induction rs with
  | nil =>
    intro ps ps' pre rest ht hp hc
    simp only [ChainFrom] at hc
    subst hc
    show textOf t (ps, blen t) = rest
    refine textOf_decomp (a := pre) (b := []) (by simpa using ht) hp.symm ?_
    show blen t = blen pre + blen rest
    rw [ht, blen_append]
  | cons r rs ih =>
    intro ps ps' pre rest ht hp hc
    obtain ⟨h1, h2, ⟨pre2, c, post, ht2, hb2, hc2⟩, hrest⟩ := hc
    obtain ⟨m, rfl⟩ := prefix_of_blen_le (ht.symm.trans ht2) (by omega)
    have hsz : sz c = 1 := by rcases hc2 with rfl | rfl <;> decide
    have hrest' : rest = m ++ c :: c :: post := by
      have := ht.symm.trans ht2
      simpa [List.append_assoc] using this
    have hbm : r.2 = blen pre + blen m := by rw [← hb2, blen_append]
    have e1 : textOf t r = m :=
      textOf_decomp (a := pre) (b := c :: c :: post) (by rw [ht2]) (by omega) hbm
    have e2 : textOf t (r.2, r.2 + 2) = [c, c] := by
      refine textOf_decomp (a := pre ++ m) (b := post) (by rw [ht2]; simp) hb2.symm ?_
      show r.2 + 2 = blen (pre ++ m) + blen [c, c]
      simp [blen, hsz, hb2]
    have e3 := ih (r.2 + 2) ps' (pre ++ m ++ [c, c]) post (by rw [ht2]; simp)
      (by rw [blen_append, hb2]; simp [blen, hsz]) hrest
    show textOf t r ++ textOf t (r.2, r.2 + 2) ++ rebuildFrom t rs (ps', blen t) = rest
    rw [e1, e2, e3, hrest']
    simp

/-- `fstring_pieces_cover`: the pieces `unescape_f_string_part` decodes and the brace escapes between them, put
together in order, are the whole text of the part — no byte is skipped and none is decoded twice. -/
theorem fstring_pieces_cover (t : List Char) :
    rebuildFrom t (uScan .normal 0 0 t []).1 ((uScan .normal 0 0 t []).2, blen t) = t :=
  chain_rebuild _ 0 _ [] t rfl rfl (scan_chain t)

/-- … and those ranges followed by that last range are `pieces t` -/
theorem pieces_eq (t : List Char) :
    pieces t = (uScan .normal 0 0 t []).1 ++ [((uScan .normal 0 0 t []).2, blen t)] := rfl

example : rebuildFrom ['a', '{', '{', '€', '}', '}', 'b'] [(0, 1), (3, 6)] (8, 9) = ['a', '{', '{', '€', '}', '}', 'b'] := by
  decide

/-! ## character literals: the whole `token.start + 1 .. token.end` -/

/-- `char_error_span`: for a character token `'m'` at `sp` the location of an escape error
(`unescape_char(trimmed, Span { start: span.start + 1, ..span })` cites the span it was given) is a span of the
source on character boundaries; the text under it is the content AND the closing quote (`..span` keeps the
token's end) — one byte more than the content, never off a boundary. -/
theorem char_error_span (src : List Char) (sp : Span) (hsp : SpanOk src sp) (m : List Char)
    (ht : textOf src sp = '\'' :: (m ++ ['\''])) :
    SpanOk src (sp.1 + 1, sp.2) ∧ textOf src (sp.1 + 1, sp.2) = m ++ ['\''] := by
  have hq : sz '\'' = 1 := by decide
  obtain ⟨pre, post, hsrc, hpre, hlen⟩ := textOf_of_spanOk hsp
  have hb : blen (textOf src sp) = 1 + blen m + 1 := by rw [ht]; simp only [blen, blen_append, hq]; omega
  have ha : SpanOk (textOf src sp) (1, blen (textOf src sp)) := by rw [ht]; exact afterQuote_spanOk hq m
  have h1 := spanOk_in hsp ha
  have e : sp.1 + blen (textOf src sp) = sp.2 := hlen
  have h2 := textOf_textOf hsp ha
  simp only [e] at h1 h2
  refine ⟨h1, ?_⟩
  rw [← h2, ht]
  refine textOf_decomp (a := ['\'']) (b := []) (by simp) (by simp [blen, hq]) ?_
  show blen ('\'' :: (m ++ ['\''])) = blen ['\''] + blen (m ++ ['\''])
  simp [blen]

/-- the model's `decodeLit` cites that span for a character token -/
theorem decodeLit_char_error_span (c : Ctx) (sp : Span) (s s' : PState) (e : PErr)
    (h : decodeLit c .char sp s = .err e s') : e.span = (sp.1 + 1, sp.2) := by
  unfold decodeLit at h
  cases hlit : c.lit false sp.1 sp.2 with
  | none => rw [hlit] at h; simp [addNode] at h
  | some v =>
    obtain ⟨k, j, a, b⟩ := v
    rw [hlit] at h
    simp only [fail, PR.err.injEq] at h
    rw [← h.1]

example : textOf ['x', '\'', '\\', '€', '\''] (1 + 1, 7) = ['\\', '€'] ++ ['\''] := by decide

end RotoV.C06FSpans
