/-
  C01 — `match`: which arm runs.

  1. The reference interpreter (`Model/Spec.evalArms`, C01's oracle) implements FIRST-MATCH:
     arms that do not select the value's constructor, and arms that select it but whose guard
     evaluates to `false`, are passed over in order (`spec_match_skips_prefix`), and the first
     arm that selects the value and has no guard, or a guard that evaluates to `true`, is the
     one whose block gives the value of the `match` — no later arm is consulted
     (`spec_match_takes_first`).

  2. The compiler's arrangement (`src/mir/lower/match_expr.rs`: a switch on the discriminant,
     one guard chain per discriminant, a default chain) takes the same arm in the same state as
     first-match, for every list of arms, every guard semantics, every discriminant below the
     number of variants (`match_chains_first_match_partial`) — over the chain filters and
     `needs_default` as RE-TRANSLATED from the source on every run (`Generated/C01Match`).

  Full statement of 2 (not proved): the MIR `Lowerer::match` emits for a `match`, run by a MIR
  semantics, evaluates the examinee once, binds the pattern's variables, and runs the block of
  the arm `Spec.evalArms` selects, with the drops the frames demand. Proved here is the part
  that decides WHICH arm: the chain structure is a hand model (`Model/C01MatchLower`; its shape
  is checked fragment by fragment by the translator, its behaviour by the differential run on
  the arm-order class representatives), guards are abstract state transformers, and the
  statement is not composed with T5 (whose fragment has no `match`).
-/
import RotoV.Model.Spec
import RotoV.Model.C01MatchLower

namespace RotoV.C01Match
open RotoV RotoV.Spec

section spec
variable [F : FloatOps]

/-- Arm `a` is passed over for a value built with `variant` / `fields`, evaluated with fuel `k`
    in `env`, leaving `env'`: its pattern does not select the constructor (and nothing is
    evaluated), or it does, the guard evaluates to `false`, and `env'` is what the guard left
    of the outer variables. -/
def PassedOver (fns : List FnDef) (k : Nat) (env : Env) (variant : String) (fields : List Val)
    (a : Arm) (env' : Env) : Prop :=
  match a with
  | .mk pat guard _ =>
    (pat.selects variant = false ∧ env' = env) ∨
    (pat.selects variant = true ∧ ∃ envB g env1, pat.bind fields env = some envB ∧ guard = some g ∧
      evalExpr fns k envB g = .ok (env1, .bool false) ∧ env' = env1.drop (env1.length - env.length))

/-- Every arm of `pre` is passed over in turn, the first with fuel `k + pre.length - 1`, the
    last with fuel `k`; `env'` is the environment after the last. -/
def AllPassedOver (fns : List FnDef) (variant : String) (fields : List Val) :
    Nat → Env → List Arm → Env → Prop
  | _, env, [], env' => env' = env
  | k, env, a :: rest, env' =>
    ∃ env1, PassedOver fns (k + rest.length) env variant fields a env1 ∧
      AllPassedOver fns variant fields k env1 rest env'

/-- **First match, part 1.** Arms that are passed over do not contribute: evaluating
    `pre ++ rest` is evaluating `rest` in the environment the guards of `pre` left. -/
theorem spec_match_skips_prefix (fns : List FnDef) (variant : String) (fields : List Val) (rest : List Arm) :
    ∀ (pre : List Arm) (k : Nat) (env env' : Env),
      AllPassedOver fns variant fields k env pre env' →
      evalArms fns (k + pre.length) env variant fields (pre ++ rest) = evalArms fns k env' variant fields rest := by
  intro pre
  induction pre with
  | nil => intro k env env' h; simp only [AllPassedOver] at h; subst h; rfl
  | cons a pre ih =>
    intro k env env' h
    obtain ⟨env1, h1, h2⟩ := h
    have ih' := ih k env1 env' h2
    obtain ⟨pat, guard, body⟩ := a
    have hlen : k + (Arm.mk pat guard body :: pre).length = (k + pre.length) + 1 := by
      simp only [List.length_cons]; omega
    rw [hlen, List.cons_append]
    rcases h1 with ⟨hsel, rfl⟩ | ⟨hsel, envB, g, e1, hb, rfl, hg, rfl⟩
    · simp only [evalArms, hsel, Bool.not_false, if_true]
      exact ih'
    · simp only [evalArms, hsel, Bool.not_true, Bool.false_eq_true, if_false, hb]
      show (evalExpr fns (k + pre.length) envB g >>= _) = _
      rw [hg]
      exact ih'

/-- **First match, part 2.** The first arm whose pattern selects the value and which has no
    guard, or whose guard evaluates to `true`, gives the value of the `match`: its block runs
    with the pattern's variables bound (and, for a guard, in the environment the guard left),
    the variables are dropped afterwards — and the arms after it (`rest`) are never consulted:
    the right-hand sides do not mention them. -/
theorem spec_match_takes_first (fns : List FnDef) (k : Nat) (env envB : Env) (variant : String)
    (fields : List Val) (pat : Pat) (guard : Option Expr) (body : Block) (rest : List Arm)
    (hsel : pat.selects variant = true) (hb : pat.bind fields env = some envB) :
    (guard = none →
      evalArms fns (k + 1) env variant fields (.mk pat guard body :: rest)
        = (do let (env', v) ← evalBlock fns k envB body
              pure (env'.drop (env'.length - env.length), v)))
    ∧ (∀ g env1, guard = some g → evalExpr fns k envB g = .ok (env1, .bool true) →
      evalArms fns (k + 1) env variant fields (.mk pat guard body :: rest)
        = (do let (env', v) ← evalBlock fns k env1 body
              pure (env'.drop (env'.length - env.length), v))) := by
  constructor
  · intro hg; subst hg
    simp only [evalArms, hsel, Bool.not_true, Bool.false_eq_true, if_false, hb]
  · intro g env1 hg he; subst hg
    simp only [evalArms, hsel, Bool.not_true, Bool.false_eq_true, if_false, hb]
    show (evalExpr fns k envB g >>= _) = _
    rw [he]
    rfl

/-- non-vacuity (both parts, on `match Shape.Line(7) { Dot => 1, Line(x) if false => 2,
    Line(x) => x, _ => 4 }`): `Dot` does not select the value, the first `Line` arm's guard is
    `false`: both are passed over; the second `Line` arm is taken and yields `x = 7`; the `_`
    arm after it plays no role. -/
example :
    let dot : Arm := .mk (.ctor "Dot" []) none (.mk [] (some (.lit (.int .i32 1))))
    let lineF : Arm := .mk (.ctor "Line" ["x"]) (some (.lit (.bool false))) (.mk [] (some (.lit (.int .i32 2))))
    let line : Arm := .mk (.ctor "Line" ["x"]) none (.mk [] (some (.var "x")))
    let wild : Arm := .mk .wild none (.mk [] (some (.lit (.int .i32 4))))
    AllPassedOver [] "Line" [.int .i32 7] 3 [] [dot, lineF] []
    ∧ evalArms [] 5 [] "Line" [.int .i32 7] [dot, lineF, line, wild] = .ok ([], .int .i32 7) := by
  refine ⟨⟨[], .inl ⟨by decide, rfl⟩, [], .inr ⟨by decide, [("x", .int .i32 7)], _, [("x", .int .i32 7)], rfl, rfl, rfl, rfl⟩, rfl⟩, ?_⟩
  rfl

end spec

section chains
open RotoV.C01MatchLower RotoV.Gen.C01Match
variable {σ : Type}

/-- the generated chain filter keeps exactly the arms whose pattern selects the discriminant -/
theorem chainKeeps_eq_selects (a : Arm σ) (d : Nat) : chainKeeps a.pat d = a.selects d := by
  unfold chainKeeps Arm.selects
  cases a.pat <;> simp

/-- the generated default filter keeps exactly the `_` arms -/
theorem defaultKeeps_eq_wild (a : Arm σ) : defaultKeeps a.pat = a.pat.isNone := rfl

/-- a guard chain over the arms that select `d`, in source order, is first-match -/
theorem runChain_filter_selects (d : Nat) : ∀ (arms : List (Nat × Arm σ)) (s : σ),
    runChain (arms.filter fun a => a.2.selects d) s = firstMatch d arms s := by
  intro arms
  induction arms with
  | nil => intro s; rfl
  | cons ia rest ih =>
    intro s
    obtain ⟨i, a⟩ := ia
    by_cases hsel : a.selects d = true
    · rw [List.filter_cons_of_pos (by simpa using hsel)]
      simp only [runChain, firstMatch, hsel, if_true]
      cases hg : a.guard with
      | none => rfl
      | some g =>
        by_cases hb : (g s).2 = true
        · simp [hb, guardCase]
        · simp only [Bool.not_eq_true] at hb
          simp only [hb, Bool.false_eq_true, if_false, guardCase]
          simpa using ih (g s).1
    · rw [List.filter_cons_of_neg (by simpa using hsel)]
      simp only [firstMatch, hsel, Bool.false_eq_true, if_false]
      exact ih s

/-- a discriminant without an arm of its own is selected by the `_` arms only -/
theorem selects_of_not_own {nVariants : Nat} {arms : List (Nat × Arm σ)} {d : Nat} (hd : d < nVariants)
    (hnot : (discriminants nVariants arms).contains d = false) :
    ∀ a ∈ arms, a.2.selects d = a.2.pat.isNone := by
  intro a ha
  unfold Arm.selects
  cases hp : a.2.pat with
  | none => rfl
  | some k =>
    simp only [Option.isNone_some, beq_eq_false_iff_ne, ne_eq]
    intro hk; subst hk
    have hmem : k ∈ discriminants nVariants arms := by
      unfold discriminants
      exact List.mem_filter.mpr ⟨List.mem_range.mpr hd, List.any_eq_true.mpr ⟨a, ha, by simp [hp]⟩⟩
    rw [List.contains_eq_mem] at hnot
    simp [hmem] at hnot

/-- pigeonhole: a discriminant below `nVariants` without an arm of its own leaves fewer than
    `nVariants` distinct discriminants -/
theorem discriminants_length_lt {nVariants : Nat} {arms : List (Nat × Arm σ)} {d : Nat} (hd : d < nVariants)
    (hnot : (discriminants nVariants arms).contains d = false) :
    (discriminants nVariants arms).length < nVariants := by
  have h := (List.length_filter_lt_length_iff_exists
    (p := fun k => arms.any fun a => a.2.pat == some k) (l := List.range nVariants)).mpr
    ⟨d, List.mem_range.mpr hd, by
      intro hp
      have : d ∈ discriminants nVariants arms := List.mem_filter.mpr ⟨List.mem_range.mpr hd, hp⟩
      rw [List.contains_eq_mem] at hnot
      simp [this] at hnot⟩
  simpa [discriminants, List.length_range] using h

/-- **The chains are first-match.** For every list of arms (numbered in source order), every
    guard semantics, every discriminant `d` of an enum with `nVariants` variants and every
    state: the arm the compiled arrangement reaches — switch on `d`, guard chain of `d` built by
    the GENERATED filter `chainKeeps`, default chain built by the generated `defaultKeeps` and
    present iff the generated `needsDefault` says so, guards switching on the generated
    `guardCase` — and the state it reaches it in are those of first-match; in particular where
    first-match takes no arm (a non-exhaustive `match`, which the type checker rejects) the
    compiled code has no target either.
    PARTIAL (see the head of this file): the chain structure is a hand model of
    `Lowerer::match` / `match_case`; binding of pattern variables, drops and the arms' blocks
    are outside it; not composed with T5. -/
theorem match_chains_first_match_partial (nVariants : Nat) (arms : List (Nat × Arm σ)) (d : Nat)
    (hd : d < nVariants) (s : σ) :
    compiled nVariants arms d s = firstMatch d arms s := by
  unfold compiled
  by_cases hown : (discriminants nVariants arms).contains d = true
  · simp only [hown, if_true]
    rw [List.filter_congr (q := fun a => a.2.selects d) (fun a _ => chainKeeps_eq_selects a.2 d)]
    exact runChain_filter_selects d arms s
  · simp only [Bool.not_eq_true] at hown
    simp only [hown, Bool.false_eq_true, if_false]
    have hsel := selects_of_not_own hd hown
    have hfilter : (arms.filter fun a => defaultKeeps a.2.pat) = arms.filter fun a => a.2.selects d :=
      List.filter_congr (fun a ha => by rw [defaultKeeps_eq_wild, hsel a ha])
    rw [hfilter, ← runChain_filter_selects d arms s]
    have hlt := discriminants_length_lt hd hown
    by_cases hempty : (arms.filter fun a => a.2.selects d) = []
    · simp [hempty, needsDefault, runChain]
    · have hpos : (arms.filter fun a => a.2.selects d).length ≠ 0 := by
        intro h; exact hempty (List.eq_nil_of_length_eq_zero h)
      simp [needsDefault, hpos, hlt]

/-- non-vacuity, on the arms `[Some(x) if g₀, _ if g₁, Some(y), None]` of an enum with two
    variants (`None` = 0, `Some` = 1) — a guarded `_` BEFORE the unguarded arm of `Some`: for
    the value `Some(..)` with `g₀` false and `g₁` true the arrangement takes arm 1 (the `_`
    arm), as first-match does — not arm 2. -/
example :
    let arms : List (Nat × Arm Unit) :=
      [(0, ⟨some 1, some fun s => (s, false)⟩), (1, ⟨none, some fun s => (s, true)⟩), (2, ⟨some 1, none⟩), (3, ⟨some 0, none⟩)]
    compiled 2 arms 1 () = some (1, ()) ∧ firstMatch 1 arms () = some (1, ())
    ∧ compiled 2 arms 0 () = some (1, ()) := by
  decide

end chains

end RotoV.C01Match
