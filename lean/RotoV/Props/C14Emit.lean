/-
  C14, theorems over the *generated* definitions `RotoV/Generated/C14Emit.lean`
  (translator target `c14emit`): the statement-level facts of
  `src/lir/lower.rs` / `src/codegen/mod.rs` that the model's item loop over the
  lowered list (`Model/TarjanLir`, theorem `init_runs_closed` in `Props/C14`)
  rests on.  Kept in a module of their own so that a change of those facts
  breaks exactly these obligations.
-/
import RotoV.Model.TarjanLir
import RotoV.Generated.C14Emit

namespace RotoV.C14
open RotoV.Tarjan

/-! ## T7 — the source facts the item loop rests on (regenerated from `src/lir/lower.rs` and `src/codegen/mod.rs` on every run) -/

/-- `Lowerer::program` emits every group of generated functions (clone, drop,
eq) exactly once and before the script's own items — the first of which may be
a constant whose initialiser needs any of them. -/
theorem helpers_emitted_first : helpersFirst RotoV.Gen.C14Emit.programOrder = true := by decide

/-- `codegen` declares every item before it defines the first one, its define
loop does for a constant / a function exactly what `lStep` models, in that
order (define; finalize; fetch the finalized drop function and initialiser;
run; store), and it ends with a `finalize_definitions`. -/
theorem codegen_loop_shape :
    RotoV.Gen.C14Emit.declareAllFirst = true ∧
    RotoV.Gen.C14Emit.constantArm = modelConstantArm ∧
    RotoV.Gen.C14Emit.functionArm = modelFunctionArm ∧
    RotoV.Gen.C14Emit.finalizeAtEnd = true := by decide

/-- the checker is not trivially true: clone functions after the items, a group
missing, a group twice -/
example : helpersFirst [.drops, .eqs, .items, .clones] = false := by decide
example : helpersFirst [.clones, .eqs, .items] = false := by decide
example : helpersFirst [.clones, .drops, .eqs, .items, .drops] = false := by decide
example : helpersFirst [.drops, .clones, .eqs, .items] = true := by decide

end RotoV.C14
