/-
  C05 — values cross the host boundary unchanged.

  Statements are over the *generated* tables (`Gen.BoundaryTables`, regenerated
  from the Rust sources on every run) interpreted by `Model/Boundary.lean`.
-/
import RotoV.Model.Boundary

namespace RotoV.C05
open RotoV RotoV.Boundary RotoV.Gen.BoundaryTables

/-- **T3 `variant_order_agrees`.**  The three mirror enums are `#[repr(u8)]`; their declaration
    order (names *and* payload parameters) is the order of `default_types()`; and every place that
    hard-codes a discriminant uses the index of the variant it means: `?` continues on `Some` and
    returns `None`, `for` runs its body on `Some`, `ffi::list_get` writes `Some`'s index for a hit
    and `None`'s index for a miss and provisionally. -/
theorem variant_order_agrees :
    rotoOptionVariants = defaultOption ∧ rotoResultVariants = defaultResult
    ∧ verdictVariants = defaultVerdict
    ∧ rotoOptionReprU8 = true ∧ rotoResultReprU8 = true ∧ verdictReprU8 = true
    ∧ indexOf questionMarkPayload defaultOption 0 = some questionMarkContinue
    ∧ (indexOf questionMarkReturn defaultOption 0).isSome
    ∧ indexOf questionMarkReturn defaultOption 0 ≠ some questionMarkContinue
    ∧ questionMarkPayload = .Some ∧ questionMarkReturn = .None
    ∧ indexOf .Some defaultOption 0 = some forBodyDiscriminant
    ∧ indexOf .Some rotoOptionVariants 0 = some listGetSome
    ∧ indexOf .None rotoOptionVariants 0 = some listGetNone
    ∧ listGetProvisional = listGetNone := by
  decide

/-- non-vacuity: the tables are not empty and the two views name the same variant at each
    discriminant. -/
example : nameAt rotoOptionVariants 0 = some .Some ∧ nameAt defaultOption 1 = some .None := by decide

/-- **Refutation on the pinned tree (T5 is false there).**  With the compiler-side decisions as
    pinned, the signature `fn(Val<Z>, i32) -> i32` with a zero-sized registered `Z` is declared by
    Roto with *one* visible parameter, while `RotoFunc::invoke` calls through an `extern "C"` type
    with *two* (a pointer for `Val<Z>`): the `i32` is read from the wrong register.  The same
    happens when a script calls a registered `fn(Val<Z>, i32)`. -/
theorem abi_disagrees_when_pinned :
    let s : BSig := ⟨[.val ⟨0, 1⟩, .prim (.Int .Signed .I32)], .prim (.Int .Signed .I32)⟩
    rotoSig Cfg.pinned HostLayouts.x64 s = .ok (⟨[.I64, .I32], some .I32⟩, false)
    ∧ rustSig HostLayouts.x64 s false = .ok ⟨[.I64, .I64, .I32], some .I32⟩
    ∧ rotoRuntimeCall Cfg.pinned HostLayouts.x64 s = .ok ⟨[.I64, .I64, .I32], none⟩
    ∧ rustTrampoline s = .ok ⟨[.I64, .I64, .I64, .I32], none⟩ := by
  decide

end RotoV.C05
