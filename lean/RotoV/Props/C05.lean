/-
  C05 — values cross the host boundary unchanged.

  Every statement is over the *generated* tables (`Gen.BoundaryTables`,
  regenerated from the Rust sources on every run: layout arithmetic, enum
  tables, declaration orders, `AsParam` kinds, `lower_type` steps, slot orders,
  hard-coded discriminants) interpreted by `Model/Boundary.lean`; the Rust side
  (`rustLayout`, `rustSig`, `rustTrampoline`) is the Rust reference's
  `#[repr(u8)]` rule and the platform C ABI, written independently.

  `HostLayouts` (layouts of `char`, `RotoString`, `IpAddr`, `Prefix`,
  `ErasedList`, which both sides take from `Layout::of::<T>()`) and the layouts
  of registered types are universally quantified over well-formed layouts
  (alignment a power of two dividing the size — `Layout::new`'s assertions).
-/
import RotoV.Lemmas.BoundaryPlace
import RotoV.Lemmas.BoundaryPinned
import RotoV.Lemmas.BoundaryValues
import RotoV.Model.BoundaryParams

namespace RotoV.C05
open RotoV RotoV.Boundary RotoV.Gen.BoundaryTables

/-! ## T1 — layouts -/

/-- **T1 `enum_layout_matches_repr_u8`** (∀ variant lists, ∀ payload layouts).  Roto's
    `layout_of` of an enum — per variant a `LayoutBuilder` fed with the `u8` tag and the fields,
    `finish`ed, the variants folded with the re-rounding `Layout::union` — is the layout the Rust
    reference prescribes for a `#[repr(u8)]` enum: `align = max` over all fields and the tag,
    `size =` the largest `repr(C)` struct `(u8, fields…)` rounded up to that alignment. -/
theorem enum_layout_matches_repr_u8 (vs : List (List Layout)) (hne : vs ≠ [])
    (hwf : ∀ fs ∈ vs, ∀ l ∈ fs, l.WF) :
    rotoEnumLayout vs = some (reprU8 vs) :=
  rotoEnumLayout_eq_reprU8 vs hne hwf

/-- non-vacuity: `Option<u128-aligned 16 bytes>` next to a unit variant — 32 bytes, align 16 -/
example : rotoEnumLayout [[⟨16, 16⟩], []] = some ⟨32, 16⟩ ∧ reprU8 [[⟨16, 16⟩], []] = ⟨32, 16⟩ := by decide

/-- the hypothesis `WF` is necessary: with an alignment that is not a power of two the pairwise,
    re-rounding union differs from rounding once (a 3-aligned field after a 2-aligned one:
    6 bytes against 3). -/
example : rotoEnumLayout [[⟨2, 1⟩], [⟨0, 2⟩], [⟨0, 3⟩]] = some ⟨6, 3⟩
    ∧ reprU8 [[⟨2, 1⟩], [⟨0, 2⟩], [⟨0, 3⟩]] = ⟨3, 3⟩ := by decide

/-- **T1 on types `layout_agrees`** (∀ boundary types, any nesting).  `Pool::layout_of` of the MIR
    type of a boundary type is rustc's layout of its transformed Rust type. -/
theorem layout_agrees (h : HostLayouts) (hh : h.WF) (t : BTy) (ht : t.WF) :
    rotoLayout h t = some (rustLayout h t) :=
  layout_agrees' h hh t ht

/-- non-vacuity: `Result<Option<u16>, String>` on x86-64 is 24 bytes on both sides -/
example : rotoLayout .x64 (.result (.option (.prim (.Int .Unsigned .I16))) (.prim .String)) = some ⟨24, 8⟩ := by
  decide

/-- **`payload_in_bounds`** (∀ variant lists, ∀ well-formed layouts): in a `#[repr(u8)]` enum the
    payload of a single-field variant starts behind the tag byte and ends inside the enum — so the
    tag and the payload never overlap and, by `layout_agrees`, the stack slot Roto reserves for a
    boundary value (`layout_of`) holds everything Rust writes through an out-pointer
    (`size_of::<T::Transformed>()` bytes). -/
theorem payload_in_bounds (vs : List (List Layout)) (l : Layout) (hmem : [l] ∈ vs)
    (hwf : ∀ fs ∈ vs, ∀ x ∈ fs, x.WF) :
    1 ≤ payloadOffset l ∧ payloadOffset l + l.size ≤ (reprU8 vs).size :=
  payload_in_bounds' vs l hmem hwf

/-- … and the slot Roto reserves is exactly as large and as aligned as the Rust value. -/
theorem out_slot_fits (h : HostLayouts) (hh : h.WF) (t : BTy) (ht : t.WF) :
    ∃ l, rotoLayout h t = some l ∧ (rustLayout h t).size ≤ l.size ∧ (rustLayout h t).align ∣ l.align :=
  ⟨_, layout_agrees' h hh t ht, Nat.le_refl _, Nat.dvd_refl _⟩

/-- non-vacuity of `out_slot_fits`: `Verdict<IpAddr, u32>` needs the re-rounding union — 20 bytes -/
example : rotoLayout .x64 (.verdict (.prim .IpAddr) (.prim (.Int .Unsigned .I32))) = some ⟨20, 4⟩
    ∧ rustLayout .x64 (.verdict (.prim .IpAddr) (.prim (.Int .Unsigned .I32))) = ⟨20, 4⟩ := by decide

example : payloadOffset ⟨17, 1⟩ + 17 ≤ (reprU8 [[⟨17, 1⟩], [⟨4, 4⟩]]).size ∧ (reprU8 [[⟨17, 1⟩], [⟨4, 4⟩]]).size = 20 := by
  decide

/-! ## T2 — `ffi::list_get` -/

/-- **T2 `list_get_offset`.**  The offset `1usize.next_multiple_of(alignment)` at which
    `ffi::list_get` writes the element into its `out: *mut RotoOption<T>` is the offset at which Roto
    places the field of `Some` (`VariantField("Some", 0)`: tag, then the field), and is the payload
    offset of the `#[repr(u8)]` mirror — for every element layout. -/
theorem list_get_offset (l : Layout) (hl : 0 < l.align) :
    listGetOffset l.align = (LayoutBuilder.add tagBuilder l).2
    ∧ listGetOffset l.align = payloadOffset l := by
  -- robust against equivalent spellings of the offset (`1.next_multiple_of(a)`, `a`, `a.max(1)`)
  have h1 : roundUp 1 l.align = l.align := roundUp_one hl
  have hg : listGetOffset l.align = l.align := by
    simp [listGetOffset, nextMultipleOf_eq_roundUp _ _ hl, h1] <;> omega
  refine ⟨?_, by rw [hg, payloadOffset, h1]⟩
  rw [hg, tagBuilder_eq, add_snd _ _ hl, h1]

/-- … and on types: the `Some` field of `Option[T]` as `Lowerer::location` addresses it. -/
theorem list_get_offset_typed (h : HostLayouts) (hh : h.WF) (t : BTy) (ht : t.WF) :
    variantFieldOffset h [toMTy t] 0 = some (listGetOffset (rustLayout h t).align) := by
  rw [variantFieldOffset_single h hh t ht, (list_get_offset _ (rustLayout_wf h hh t ht).align_pos).2]

example : listGetOffset 8 = 8 ∧ listGetOffset 1 = 1 ∧ listGetOffset 16 = 16 := by decide

/-- non-vacuity of `list_get_offset_typed`: the `u64` of `Option[u64]` sits at 8, a `bool` at 1 -/
example : variantFieldOffset .x64 [toMTy (.prim (.Int .Unsigned .I64))] 0 = some 8
    ∧ variantFieldOffset .x64 [toMTy (.prim .Bool)] 0 = some 1 := by decide

/-! ## T3 — variant order and discriminants -/

/-- **T3 `variant_order_agrees`.**  The three mirror enums are `#[repr(u8)]`; their declaration
    order (names *and* payload parameters) is the order of `default_types()`; and every place that
    hard-codes a discriminant uses the index of the variant it means: `?` continues on `Some` and
    returns `None`, `for` runs its body on `Some`, `ffi::list_get` writes `Some`'s index for a hit
    and `None`'s index for a miss and provisionally. -/
theorem variant_order_agrees :
    rotoOptionVariants = defaultOption ∧ rotoResultVariants = defaultResult
    ∧ verdictVariants = defaultVerdict
    ∧ rotoOptionReprU8 = true ∧ rotoResultReprU8 = true ∧ verdictReprU8 = true
    ∧ indexOf questionMarkPayload defaultOption 0 = some questionMarkContinue
    ∧ (indexOf questionMarkReturn defaultOption 0).isSome
    ∧ indexOf questionMarkReturn defaultOption 0 ≠ some questionMarkContinue
    ∧ questionMarkPayload = .Some ∧ questionMarkReturn = .None
    ∧ indexOf .Some defaultOption 0 = some forBodyDiscriminant
    ∧ indexOf .Some rotoOptionVariants 0 = some listGetSome
    ∧ indexOf .None rotoOptionVariants 0 = some listGetNone
    ∧ listGetProvisional = listGetNone := by
  decide

example : nameAt rotoOptionVariants 0 = some .Some ∧ nameAt defaultOption 1 = some .None := by decide

/-! ## T4 — values -/

/-- **T4 `roundtrip`** (∀ values of the boundary grammar: any nesting, any list length).
    `transform` succeeds, `untransform (transform v) = v`, and the script — which reads the same
    bytes with the `default_types()` tables — sees `v` as well (constructing or matching
    `Option`/`Result`/`Verdict` in the script agrees with Rust's view). -/
theorem roundtrip (v : RVal) (sh : Shape) (hs : v.hasShape sh = true) :
    ∃ t, transform v = some t ∧ untransform sh t = some v ∧ scriptView sh t = some v := by
  obtain ⟨t, h1, h2⟩ := decode_transform rustTables goodTables_rust v sh hs
  obtain ⟨t', h1', h2'⟩ := decode_transform scriptTables goodTables_script v sh hs
  rw [h1] at h1'; cases h1'
  exact ⟨t, h1, h2, h2'⟩

/-- non-vacuity: `Some(Err(()))` is tag 0 around tag 1 and comes back on both sides -/
example : (RVal.some (.err .unit)).hasShape (.option (.result .leaf .unit)) = true
    ∧ transform (.some (.err .unit)) = some (.tagged 0 (some (.tagged 1 (some .unit)))) :=
  ⟨by simp [RVal.hasShape], rfl⟩

/-- what the theorem excludes: were `RotoOption` declared `None` first, the script would read
    Rust's `Some(x)` as the other variant. -/
example : decode (fun _ => [(.None, []), (.Some, [0])]) (.option .leaf) (.tagged 0 none) = some .none := rfl

/-! ## T4′ — the same bytes -/

/-- **`placement_agrees`** (∀ boundary types of any nesting, ∀ transformed values, ∀ base offsets,
    ∀ host and registered layouts).  Every discriminant byte and every leaf of a value lies at the
    same offset whether one follows rustc's `#[repr(u8)]` layout in the mirror enums' declaration
    order (`rustPlace`: tag at 0, payload at `roundUp 1 align`) or the offsets a script computes
    (`rotoPlace`: `Discriminant` at 0, `VariantField(_, 0)` through `layout_of`, variants numbered by
    `default_types()`).  With `roundtrip` (the discriminants mean the same variant) this is
    "structurally equal" at the level of memory. -/
theorem placement_agrees (h : HostLayouts) (hh : h.WF) (t : BTy) (ht : t.WF) (v : TVal) (b : Nat) :
    rotoPlace h t v b = rustPlace h t v b :=
  placement_agrees' h hh t ht v b

/-- non-vacuity: `Some(Err("…"))` of `Option<Result<u16, String>>` on x86-64 — outer tag at 0, inner
    tag at 8, the string at 16 -/
example :
    rustPlace .x64 (.option (.result (.prim (.Int .Unsigned .I16)) (.prim .String)))
      (.tagged 0 (some (.tagged 1 (some (.leaf 7))))) 0 = some [(0, .tag 0), (8, .tag 1), (16, .leaf 7)] := by
  decide

/-! ## T5 — calling conventions -/

/-- **T5 `abi_agree`** (∀ boundary signatures of any arity, ∀ host layouts, ∀ registered layouts —
    zero-sized ones included).  The Cranelift signature Roto declares for a script function (hidden
    return pointer iff `is_reference_type`, context pointer, then the parameters whose `lower_type`
    is `Some`, each in its Cranelift class) is the `extern "C"` type `RotoFunc::invoke` calls
    through for the `return_by_ref` flag Roto hands out (`AsParam` of every argument: scalars by
    value, `()` not at all, everything else a pointer; `Transformed` returned in a register only
    without return pointer). -/
theorem abi_agree (h : HostLayouts) (hh : h.WF) (s : BSig) (hp : ∀ p ∈ s.params, p.WF) (hr : s.ret.WF) :
    ∃ a rptr, rotoSig Cfg.current h s = .ok (a, rptr) ∧ rustSig h s rptr = .ok a := by
  have hk := keepArgs_boundary h hh s.params hp
  have hret := returnRule_boundary h hh s.ret hr
  have hcur : Cfg.current.sigFilter = .lowerType := rfl
  have hroto : rotoSig Cfg.current h s
      = .ok (⟨declareSlots.flatMap (slotTypes (retByRef s.ret) sigContext ((s.params.filterMap paramIr).map craneliftType)),
              (retIr s.ret).map craneliftType⟩, retByRef s.ret) := by
    simp only [rotoSig, hcur, hk, hret]
  refine ⟨_, _, hroto, ?_⟩
  simp only [rustSig, asParamAbis_boundary]
  cases hb : retByRef s.ret
  · simp [transformedRetAbi_boundary h hh s.ret hb, declareSlots, rustWithoutReturnPointer, slotTypes, sigContext,
      rustWithoutReturnPointerRet]
  · have : retIr s.ret = none := by
      cases hs : s.ret with
      | prim p => simp [hs, retByRef] at hb; simp [retIr, hb]
      | unit => simp [hs, retByRef] at hb
      | _ => rfl
    simp [declareSlots, rustWithReturnPointer, slotTypes, sigContext, this]

/-- non-vacuity, and the witness of the defect on the pinned tree now agreeing:
    `fn(Val<Z>, i32) -> i32` with a zero-sized `Z`. -/
example :
    let s : BSig := ⟨[.val ⟨0, 1⟩, .prim (.Int .Signed .I32)], .prim (.Int .Signed .I32)⟩
    rotoSig Cfg.current .x64 s = .ok (⟨[.I64, .I64, .I32], some .I32⟩, false)
    ∧ rustSig .x64 s false = .ok ⟨[.I64, .I64, .I32], some .I32⟩ := by decide

/-- **T5, script → Rust `runtime_call_agree`.**  What `call_runtime` and the `CallRuntime`
    instruction pass to a registered function (closure address, out pointer, arguments whose
    `lower_type` is `Some`) is the `extern "C"` type of its `registerable_fn!` trampoline. -/
theorem runtime_call_agree (h : HostLayouts) (hh : h.WF) (s : BSig) (hp : ∀ p ∈ s.params, p.WF) :
    ∃ a, rotoRuntimeCall Cfg.current h s = .ok a ∧ rustTrampoline s = .ok a := by
  have hk := keepArgs_boundary h hh s.params hp
  have hcur : Cfg.current.callRuntimeFilter = .lowerType := rfl
  have hroto : rotoRuntimeCall Cfg.current h s
      = .ok ⟨(callRuntimePrefix ++ callRuntimeSlots).flatMap
              (slotTypes true false ((s.params.filterMap paramIr).map craneliftType)), none⟩ := by
    simp only [rotoRuntimeCall, hcur, hk]
  refine ⟨_, hroto, ?_⟩
  simp [rustTrampoline, asParamAbis_boundary, callRuntimePrefix, callRuntimeSlots, trampolineSlots, slotTypes]

/-- non-vacuity of `runtime_call_agree`: a registered `fn(Val<Z>, (), f32, String)`: closure, out
    pointer, pointer for the zero-sized `Z`, nothing for `()`, the float, a pointer for the string -/
example :
    let s : BSig := ⟨[.val ⟨0, 1⟩, .unit, .prim (.Float .F32), .prim .String], .unit⟩
    rotoRuntimeCall Cfg.current .x64 s = .ok ⟨[.I64, .I64, .I64, .F32, .I64], none⟩
    ∧ rustTrampoline s = .ok ⟨[.I64, .I64, .I64, .F32, .I64], none⟩ := by decide

/-- **T5, script → script `call_site_agree`.**  A call site inside a script passes exactly what
    the callee declares (both filter zero-sized arguments with the same predicate). -/
theorem call_site_agree (h : HostLayouts) (hh : h.WF) (s : BSig) (hp : ∀ p ∈ s.params, p.WF) (hr : s.ret.WF) :
    ∃ a rptr, rotoSig Cfg.current h s = .ok (a, rptr) ∧ rotoCallSite Cfg.current h s = .ok a := by
  have hk := keepArgs_boundary h hh s.params hp
  have hret := returnRule_boundary h hh s.ret hr
  have h1 : Cfg.current.sigFilter = .lowerType := rfl
  have h2 : Cfg.current.callFilter = .lowerType := rfl
  have hroto : rotoSig Cfg.current h s
      = .ok (⟨declareSlots.flatMap (slotTypes (retByRef s.ret) sigContext ((s.params.filterMap paramIr).map craneliftType)),
              (retIr s.ret).map craneliftType⟩, retByRef s.ret) := by
    simp only [rotoSig, h1, hk, hret]
  refine ⟨_, _, hroto, ?_⟩
  simp only [rotoCallSite, h2, hk, hret]
  rfl

/-- non-vacuity of `call_site_agree`: an `Option[u8]`-returning callee (hidden return pointer) -/
example :
    let s : BSig := ⟨[.prim (.Int .Signed .I16), .val ⟨0, 8⟩], .option (.prim (.Int .Unsigned .I8))⟩
    rotoCallSite Cfg.current .x64 s = .ok ⟨[.I64, .I64, .I16, .I64], none⟩
    ∧ rotoSig Cfg.current .x64 s = .ok (⟨[.I64, .I64, .I16, .I64], none⟩, true) := by decide

/-- **Refutation on the pinned tree (T5 was false there).**  With the compiler-side decisions as
    pinned, the signature `fn(Val<Z>, i32) -> i32` with a zero-sized registered `Z` is declared by
    Roto with *one* visible parameter, while `RotoFunc::invoke` calls through an `extern "C"` type
    with *two* (a pointer for `Val<Z>`): the `i32` is read from the wrong register.  The same
    happens when a script calls a registered `fn(Val<Z>, i32)`.  Replayed on the real code by the
    harness (`value-changed:… zero-sized parameter`), repaired by `fix:` commit 0b0d33a. -/
theorem abi_disagrees_when_pinned :
    let s : BSig := ⟨[.val ⟨0, 1⟩, .prim (.Int .Signed .I32)], .prim (.Int .Signed .I32)⟩
    rotoSig Cfg.pinned HostLayouts.x64 s = .ok (⟨[.I64, .I32], some .I32⟩, false)
    ∧ rustSig HostLayouts.x64 s false = .ok ⟨[.I64, .I64, .I32], some .I32⟩
    ∧ rotoRuntimeCall Cfg.pinned HostLayouts.x64 s = .ok ⟨[.I64, .I64, .I32], none⟩
    ∧ rustTrampoline s = .ok ⟨[.I64, .I64, .I64, .I32], none⟩ := by
  decide

/-- **The defect, characterised (`abi_agree_when_pinned_iff`).**  On the tree as pinned, for *every*
    boundary signature (any arity, any host and registered layouts): the signature Roto declares
    and the `extern "C"` type Rust calls through agree **iff** no parameter is a zero-sized
    registered type.  (A zero-sized registered *return* type is harmless: neither side passes or
    returns anything for it.) -/
theorem abi_agree_when_pinned_iff (h : HostLayouts) (hh : h.WF) (s : BSig) (hp : ∀ p ∈ s.params, p.WF)
    (hr : s.ret.WF) :
    (∃ a rptr, rotoSig Cfg.pinned h s = .ok (a, rptr) ∧ rustSig h s rptr = .ok a)
      ↔ ∀ p ∈ s.params, p.isZstVal = false := by
  have hk := keepArgs_boundary_pinned h hh s.params hp
  have hret := returnRule_boundary_pinned h hh s.ret hr
  have hcur : Cfg.pinned.sigFilter = .lowerType := rfl
  have hroto : rotoSig Cfg.pinned h s
      = .ok (⟨declareSlots.flatMap (slotTypes (retByRefPinned s.ret) sigContext ((s.params.filterMap paramIrPinned).map craneliftType)),
              (retIr s.ret).map craneliftType⟩, retByRefPinned s.ret) := by
    simp only [rotoSig, hcur, hk, hret]
  constructor
  · rintro ⟨a, rptr, h1, h2⟩
    rw [hroto] at h1
    cases h1
    have hlen := rustSig_params_length h s _ _ h2
    have hcount := filterMap_pinned_length s.params
    have : (s.params.filter BTy.isZstVal).length = 0 := by
      simp [declareSlots, slotTypes, sigContext] at hlen
      cases hb : retByRefPinned s.ret <;> simp [hb] at hlen <;> omega
    intro p hp'
    cases hz : p.isZstVal with
    | false => rfl
    | true =>
      have hm : p ∈ s.params.filter BTy.isZstVal := List.mem_filter.mpr ⟨hp', hz⟩
      have hpos := List.length_pos_of_mem hm
      omega
  · intro hno
    refine ⟨_, _, hroto, ?_⟩
    rw [filterMap_pinned_eq s.params hno]
    simp only [rustSig, asParamAbis_boundary]
    by_cases hz : s.ret.isZstVal = true
    · -- a zero-sized registered return value: no return pointer, nothing in registers
      have hb : retByRefPinned s.ret = false := by simp [retByRefPinned, hz]
      obtain ⟨l, hl⟩ : ∃ l, s.ret = .val l := by
        cases hs : s.ret <;> simp [hs, BTy.isZstVal] at hz
        exact ⟨_, rfl⟩
      have hsz : (rustLayout h s.ret).size = 0 := by
        rw [hl] at hz ⊢; simpa [BTy.isZstVal, rustLayout] using hz
      rw [hl] at hb hsz
      simp [hb, transformedRetAbi, hsz, hl, retIr, declareSlots, rustWithoutReturnPointer, slotTypes, sigContext,
        rustWithoutReturnPointerRet]
    · have hz' : s.ret.isZstVal = false := by simpa using hz
      have hb' : retByRefPinned s.ret = retByRef s.ret := by simp [retByRefPinned, hz']
      rw [hb']
      cases hb : retByRef s.ret
      · simp [transformedRetAbi_boundary h hh s.ret hb, declareSlots, rustWithoutReturnPointer, slotTypes, sigContext,
          rustWithoutReturnPointerRet]
      · have : retIr s.ret = none := by
          cases hs : s.ret with
          | prim p => simp [hs, retByRef] at hb; simp [retIr, hb]
          | unit => simp [hs, retByRef] at hb
          | _ => rfl
        simp [declareSlots, rustWithReturnPointer, slotTypes, sigContext, this]

/-- non-vacuity of both directions -/
example : BTy.isZstVal (.val ⟨0, 8⟩) = true ∧ BTy.isZstVal (.val ⟨4, 4⟩) = false
    ∧ BTy.isZstVal (.option (.val ⟨0, 1⟩)) = false := by decide

/-! ### Parameter names and lowered types stay aligned (`ir_signature.parameters` of `Lowerer::item`)

`sigParamsOf` is GENERATED from the iterator chain in `Lowerer::item` (adapter by adapter; a chain that zips the
names with an already filtered list of types is translated too, and then `sig_params_aligned` stops checking).
All statements are for every parameter list (any length, any types, zero-sized ones anywhere), every `lower_type`
(any function `τ → Option ι`; `none` = zero-sized) and every list of argument values. -/

/-- the bindings the callee makes (k-th incoming argument ↦ name and type of the k-th pair of the lowered
    signature) are exactly the kept positions' `((name, lowered type), argument)`: a zero-sized parameter in any
    position shifts nothing -/
theorem sig_params_aligned {ν α τ ι : Type} (lower : τ → Option ι) (names : List ν) (tys : List τ) (args : List α) :
    (sigParamsOf lower names tys).zip (passedArgs lower args tys) = keptParams lower names tys args := by
  induction tys generalizing names args with
  | nil => simp [sigParamsOf, passedArgs, keptParams]
  | cons t ts ih =>
    cases names with
    | nil => simp [sigParamsOf, keptParams]
    | cons n ns =>
      cases args with
      | nil => simp [passedArgs, keptParams]
      | cons a as =>
        have ih' := ih ns as
        simp only [sigParamsOf, passedArgs, keptParams] at ih' ⊢
        cases hl : lower t <;> simp [List.zip_cons_cons, hl, ih']

/-- non-vacuity: a zero-sized parameter in the middle; the third name receives the third argument -/
example : (sigParamsOf (fun b => if b then some () else none) [0, 1, 2] [true, false, true]).zip
      (passedArgs (fun b => if b then some () else none) [10, 11, 12] [true, false, true])
    = [((0, ()), 10), ((2, ()), 12)] := by decide

/-- the lowered types of the signature are `filter_map(lower_type)` of the parameter types — what the
    emitted constant `sigParamFilter = .lowerType` says and the ABI theorems (`abi_agree`, `call_site_agree`) use -/
theorem sig_params_types {ν τ ι : Type} (lower : τ → Option ι) (names : List ν) (tys : List τ)
    (hn : names.length = tys.length) :
    (sigParamsOf lower names tys).map Prod.snd = tys.filterMap lower := by
  induction tys generalizing names with
  | nil => simp [sigParamsOf]
  | cons t ts ih =>
    cases names with
    | nil => simp at hn
    | cons n ns =>
      have ih' := ih ns (by simpa using hn)
      simp only [sigParamsOf] at ih' ⊢
      cases hl : lower t <;> simp [List.zip_cons_cons, hl, ih']

example : (sigParamsOf (fun n => if n = 0 then none else some n) ["u", "x"] [0, 4]).map Prod.snd = [4] := by decide

/-- … and they are the parameter types of the model's declared signature (`rotoSig` uses
    `keepArgs c h c.sigFilter`): for every `lower` that agrees with the model's `lowerType` on the parameter types -/
theorem sig_params_types_model {ν : Type} (c : Cfg) (h : HostLayouts) (lo : MTy → Option IrType) (names : List ν)
    (tys : List MTy) (hn : names.length = tys.length) (hlo : ∀ t ∈ tys, lowerType c h t = .ok (lo t)) :
    keepArgs c h sigParamFilter tys = .ok ((sigParamsOf lo names tys).map Prod.snd) := by
  rw [sig_params_types lo names tys hn]
  clear hn
  induction tys with
  | nil => rfl
  | cons t ts ih =>
    have h1 := hlo t (by simp)
    have h2 := ih (fun t ht => hlo t (by simp [ht]))
    simp only [sigParamFilter] at h2 ⊢
    cases hl : lo t <;> simp [keepArgs, keepArg, h1, h2, hl]

/-- non-vacuity: `fn f(u: (), x: i32)` — the hypotheses hold for the model's own `lowerType` and one type is kept -/
example :
    let tys := [toMTy .unit, toMTy (.prim (.Int .Signed .I32))]
    let lo : MTy → Option IrType := fun t => match lowerType Cfg.current .x64 t with | .ok x => x | .panic => none
    (∀ t ∈ tys, lowerType Cfg.current .x64 t = .ok (lo t))
    ∧ ((sigParamsOf lo [0, 1] tys).map Prod.snd).length = 1 := by decide

/-- every parameter whose type is lowered receives the argument written in its own position -/
theorem sig_param_receives_own_argument {ν α τ ι : Type} (lower : τ → Option ι) (names : List ν) (tys : List τ)
    (args : List α) (i : Nat) (hn : i < names.length) (ht : i < tys.length) (ha : i < args.length) (it : ι)
    (hk : lower tys[i] = some it) :
    ((names[i], it), args[i]) ∈ (sigParamsOf lower names tys).zip (passedArgs lower args tys) := by
  rw [sig_params_aligned]
  simp only [keptParams, List.mem_filterMap]
  refine ⟨((names[i], tys[i]), args[i]), ?_, by simp [hk]⟩
  refine List.mem_iff_getElem.mpr ⟨i, by simp; omega, by simp⟩

example : ((1, 4), 7) ∈ (sigParamsOf (fun n => if n = 0 then none else some n) [0, 1] [0, 4]).zip
    (passedArgs (fun n => if n = 0 then none else some n) [0, 7] [0, 4]) := by decide

/-- … and nothing else is bound: every binding is `(names[i], args[i])` of a position whose type is lowered -/
theorem sig_params_bind_nothing_else {ν α τ ι : Type} (lower : τ → Option ι) (names : List ν) (tys : List τ)
    (args : List α) (n : ν) (it : ι) (a : α)
    (hb : ((n, it), a) ∈ (sigParamsOf lower names tys).zip (passedArgs lower args tys)) :
    ∃ (i : Nat) (_ : i < names.length) (_ : i < tys.length) (_ : i < args.length),
      n = names[i] ∧ a = args[i] ∧ lower tys[i] = some it := by
  rw [sig_params_aligned] at hb
  simp only [keptParams, List.mem_filterMap] at hb
  obtain ⟨⟨⟨n', t'⟩, a'⟩, hm, he⟩ := hb
  obtain ⟨i, hi, hget⟩ := List.mem_iff_getElem.mp hm
  simp at hi
  simp at hget
  obtain ⟨⟨h1, h2⟩, h3⟩ := hget
  cases hl : lower t' with
  | none => simp [hl] at he
  | some it' =>
    simp [hl] at he
    refine ⟨i, by omega, by omega, by omega, ?_, ?_, ?_⟩
    · rw [h1]; exact he.1.1.symm
    · rw [h3]; exact he.2.symm
    · rw [h2, hl]; simp [he.1.2]

/-- the alternative "zip the names with the already filtered types" declares the same ABI types but binds the
    argument after a zero-sized parameter to the wrong name: `fn f(u: (), x: u32)`, `f((), 11)` binds `u ↦ 11` -/
theorem prefiltered_zip_misaligns :
    ∃ (lower : Bool → Option Unit) (names : List Nat) (tys : List Bool) (args : List Nat),
      names.length = tys.length ∧ args.length = tys.length ∧
      (sigParamsPrefiltered lower names tys).map Prod.snd = tys.filterMap lower ∧
      (sigParamsPrefiltered lower names tys).zip (passedArgs lower args tys) ≠ keptParams lower names tys args :=
  ⟨fun b => if b then some () else none, [0, 1], [false, true], [10, 11], by decide⟩

end RotoV.C05
