/-
  C04 — only the functions a script declares are retrievable.

  Own module (own regenerated definitions, `RotoV.Gen.GateTab`, translator
  target `gatetab`), so that a change to the way items reach
  `Module::functions` — `Mir::lower`, `lir::lower`, the helper generators,
  `ModuleBuilder::declare_function` — breaks exactly these obligations.

  The gate theorems (`RotoV.Props.C04`) are about a *given* function table.
  Here the table is the one the compiler builds for a package
  (`Pipeline.table`, `RotoV/Model/GateTab.lean`, interpreted over the stages
  as the source has them today): the statements are about declarations, for
  every gate `g` (in particular the generated one), every list of
  declarations in any number of modules, every set of generated helpers,
  every requested name and every requested Rust function type.
-/
import RotoV.Model.GateTab
import RotoV.Generated.GateTab
open RotoV.Gate RotoV.GateTab
namespace RotoV.C04Tab

/-- the pipeline as the source has it today -/
abbrev pipeline : Pipeline := Gen.GateTab.pipeline

/-! ### What a declaration leaves in the table -/

/-- A function, a filtermap and a test leave exactly one entry: their key
    (`pkg.f`, `pkg.sub.f`, `pkg.test#t`) with the signature of the type
    checker. A constant, a record, an enum and an import leave nothing — the
    initialiser of a constant is compiled, run once, and never enters the table. -/
theorem entry_iff_function_like (d : Decl) :
    pipeline.entry d = if d.kind.functionLike then some (d.key, some d.sig) else none := by
  obtain ⟨kind, modpath, ident, sig⟩ := d
  cases kind <;> rfl

example : pipeline.entry ⟨.const, id% "pkg.", id% "LIMIT", ⟨[], .named (id% "u32") []⟩⟩ = none := rfl
example : pipeline.entry ⟨.record, id% "pkg.", id% "R0", ⟨[], .unit⟩⟩ = none := rfl
example : pipeline.entry ⟨.test, id% "pkg.sub.", id% "t", testSignature (id% "Verdict")⟩
    = some (id% "pkg.sub.test#t", some (testSignature (id% "Verdict"))) := rfl
example : pipeline.entry ⟨.function, id% "pkg.", id% "f", ⟨[.unit], .unit⟩⟩
    = some (id% "pkg.f", some ⟨[.unit], .unit⟩) := rfl

/-- The signature a test carries into the table is the one the gate theorems
    assume (`RotoV.C04.test_sig`): `Mir::lower` hands `function_like` no
    parameters and `Type::verdict(Type::unit(), Type::unit())`; a function and
    a filtermap carry the return type of their declared / inferred signature. -/
theorem test_signature_as_modelled :
    Gen.GateTab.testSig = testSignature (id% "Verdict") ∧
    Gen.GateTab.returnTypeSources =
      [(id% "filter_map", id% "function_signature(ident).return_type"),
       (id% "function", id% "declaration.signature.return_type"),
       (id% "test", id% "verdict(unit,unit)")] :=
  ⟨rfl, by decide⟩

example : pipeline.entry ⟨.test, id% "pkg.", id% "t", Gen.GateTab.testSig⟩
    = some (id% "pkg.test#t", some (testSignature (id% "Verdict"))) := rfl

/-- every variant of `ast::Declaration` is one the model knows -/
theorem decl_kinds_covered :
    Gen.GateTab.declVariants = [DeclKind.filterMap, .const, .record, .enum, .function, .test, .import].map DeclKind.variant := by
  decide

/-- `declare_function` admits `ItemKind::Function` and nothing else of `lir::ItemKind`,
    and the only items that carry a signature are the lowered MIR functions. -/
theorem only_function_items_declared :
    Gen.GateTab.declareAccepts = [id% "Function"] ∧
    Gen.GateTab.lirItemKinds = [id% "Constant", id% "Function"] ∧
    (∀ h ∈ Gen.GateTab.helperItems, h.2 = false) := by
  decide

/-- the table is written at one place only: every other mention of the field
    `functions` in src/codegen/mod.rs reads it (or moves it into the finished module) -/
theorem table_written_once :
    ∀ u ∈ Gen.GateTab.functionsFieldUses,
      u.1 ∈ ["field", "new", "insert", "get", "index", "keys", "move", "moved"] ∧ (u.1 = "insert" → u.2 = 1) := by
  decide

/-! ### Lookups in the compiled table -/

theorem lookupFn_mem {fns : Functions} {k : Ident} {v : Option Signature}
    (h : lookupFn fns k = some v) : (k, v) ∈ fns := by
  induction fns with
  | nil => cases h
  | cons e rest ih =>
    obtain ⟨k', v'⟩ := e
    unfold lookupFn at h
    split at h
    · rename_i heq
      have : k = k' := by simpa using heq
      cases h; subst this; exact List.mem_cons_self
    · exact List.mem_cons_of_mem _ (ih h)

theorem helperEntries_unsigned (helpers : List (Ident × Ident)) :
    ∀ e ∈ pipeline.helperEntries helpers, e.2 = none := by
  intro e he
  unfold Pipeline.helperEntries at he
  rw [List.mem_filterMap] at he
  obtain ⟨h, _, hh⟩ := he
  split at hh
  · cases hh; rfl
  · cases hh

theorem lookup2_mem {β} {l : List (Ident × β)} {k : Ident} {v : β} (h : lookup2 l k = some v) :
    (k, v) ∈ l := by
  unfold lookup2 at h
  cases hf : l.find? (fun e => e.1 == k) with
  | none => rw [hf] at h; cases h
  | some e =>
    rw [hf] at h
    have hm := List.mem_of_find?_eq_some hf
    have hp := List.find?_some hf
    have hk : e.1 = k := by simpa using hp
    have hv : e.2 = v := by simpa using h
    obtain ⟨a, b⟩ := e
    simp only at hk hv
    subst hk; subst hv
    exact hm

/-- a generated helper's key never begins with `pkg.`: no requested name reaches it -/
theorem helper_keys_unreachable (helpers : List (Ident × Ident)) :
    ∀ e ∈ pipeline.helperEntries helpers, ∀ name : Ident, e.1 ≠ pkgPrefix ++ name := by
  intro e he name
  unfold Pipeline.helperEntries at he
  rw [List.mem_filterMap] at he
  obtain ⟨h, _, hh⟩ := he
  split at hh
  · rename_i hl
    cases hh
    have hm := lookup2_mem hl
    have hhead : ∀ p ∈ pipeline.helperItems, p.1.head? = some 58 := by decide
    have := hhead _ hm
    intro heq
    obtain ⟨h1, h2⟩ := h
    simp only at this heq
    cases h1 with
    | nil => cases this
    | cons c cs =>
      simp only [List.head?_cons, Option.some.injEq] at this
      subst this
      simp [pkgPrefix] at heq
  · cases hh

/-- An entry with a signature is the entry of a declared function, filtermap
    or test: its key is that declaration's key and its signature that
    declaration's signature. -/
theorem signed_entry_is_declared (decls : List Decl) (helpers : List (Ident × Ident)) (k : Ident) (sig : Signature)
    (h : lookupFn (pipeline.table decls helpers) k = some (some sig)) :
    ∃ d ∈ decls, d.kind.functionLike = true ∧ d.key = k ∧ d.sig = sig := by
  have hm := lookupFn_mem h
  unfold Pipeline.table at hm
  rw [List.mem_append] at hm
  rcases hm with hm | hm
  · have := helperEntries_unsigned helpers _ hm
    cases this
  · rw [List.mem_filterMap] at hm
    obtain ⟨d, hd, he⟩ := hm
    rw [entry_iff_function_like] at he
    refine ⟨d, hd, ?_⟩
    cases hf : d.kind.functionLike with
    | false => rw [hf] at he; cases he
    | true =>
      rw [hf] at he
      simp only [if_true, Option.some.injEq, Prod.mk.injEq] at he
      exact ⟨rfl, he.1, he.2⟩

/-! ### The property: names that are no function of the script -/

/-- **Only declared functions are retrievable.** If no function, filtermap or
    test of the package has the key `pkg.<name>`, then `get_function::<F>(name)`
    answers `DoesNotExist` for *every* requested Rust function type `F` —
    whatever else bears that name: a constant (its initialiser is a compiled
    function of type `fn() -> T`), a record or enum, the bare name of a test, a
    generated clone/drop/eq helper, a function of another module. -/
theorem not_a_function_refused (g : RustTy → RotoTy → Res) (decls : List Decl) (helpers : List (Ident × Ident))
    (name : Ident) (f : RustFn)
    (h : ∀ d ∈ decls, d.kind.functionLike = true → d.key ≠ pkgPrefix ++ name) :
    getFunction g (pipeline.table decls helpers) name f = .doesNotExist := by
  unfold getFunction
  cases hl : lookupFn (pipeline.table decls helpers) (pkgPrefix ++ name) with
  | none => rfl
  | some o =>
    cases o with
    | none => rfl
    | some sig =>
      obtain ⟨d, hd, hf, hk, _⟩ := signed_entry_is_declared decls helpers _ sig hl
      exact absurd hk (h d hd hf)

/-- the constant of seeded change C04-6: `LIMIT` is refused as `fn() -> u32`, as `fn()`, as anything -/
example (g : RustTy → RotoTy → Res) (f : RustFn) :
    getFunction g (pipeline.table
      [⟨.const, id% "pkg.", id% "LIMIT", ⟨[], .named (id% "u32") []⟩⟩,
       ⟨.function, id% "pkg.", id% "below_limit", ⟨[.named (id% "u32") []], .named (id% "bool") []⟩⟩]
      [(id% "::generated::drop_", id% "12")]) (id% "LIMIT") f = .doesNotExist := by
  apply not_a_function_refused
  decide

/-- A granted request names a declared function, filtermap or test, and its
    arguments and return type passed the gate against *that declaration's*
    signature. -/
theorem granted_only_as_declared (g : RustTy → RotoTy → Res) (decls : List Decl) (helpers : List (Ident × Ident))
    (name : Ident) (f : RustFn)
    (hok : getFunction g (pipeline.table decls helpers) name f = .ok) :
    ∃ d ∈ decls, d.kind.functionLike = true ∧ d.key = pkgPrefix ++ name ∧
      checkArgs g f.args d.sig.parameter_types = .ok ∧ g f.ret d.sig.return_type = .ok := by
  unfold getFunction at hok
  cases hl : lookupFn (pipeline.table decls helpers) (pkgPrefix ++ name) with
  | none => rw [hl] at hok; cases hok
  | some o =>
    cases o with
    | none => rw [hl] at hok; cases hok
    | some sig =>
      rw [hl] at hok
      obtain ⟨d, hd, hf, hk, hs⟩ := signed_entry_is_declared decls helpers _ sig hl
      refine ⟨d, hd, hf, hk, ?_⟩
      subst hs
      simp only at hok
      cases ha : checkArgs g f.args d.sig.parameter_types <;> rw [ha] at hok <;> try cases hok
      refine ⟨rfl, ?_⟩
      cases hr : g f.ret d.sig.return_type <;> rw [hr] at hok <;> first | rfl | cases hok

theorem lookupFn_append_left_none {a b : Functions} {k : Ident}
    (h : ∀ e ∈ a, e.1 ≠ k) : lookupFn (a ++ b) k = lookupFn b k := by
  induction a with
  | nil => rfl
  | cons e rest ih =>
    obtain ⟨k', v'⟩ := e
    have hne : k' ≠ k := h (k', v') List.mem_cons_self
    have : (k == k') = false := by simpa using fun heq => hne heq.symm
    simp only [List.cons_append, lookupFn, this, Bool.false_eq_true, if_false]
    exact ih (fun e he => h e (List.mem_cons_of_mem _ he))

theorem lookupFn_filterMap_entry (decls : List Decl) (k : Ident) (sig : Signature)
    (hex : ∃ d ∈ decls, d.kind.functionLike = true ∧ d.key = k)
    (huniq : ∀ d ∈ decls, d.kind.functionLike = true → d.key = k → d.sig = sig) :
    lookupFn (decls.filterMap pipeline.entry) k = some (some sig) := by
  induction decls with
  | nil => obtain ⟨d, hd, _⟩ := hex; cases hd
  | cons d rest ih =>
    rw [List.filterMap_cons, entry_iff_function_like]
    cases hf : d.kind.functionLike with
    | false =>
      simp only [Bool.false_eq_true, if_false]
      apply ih
      · obtain ⟨d', hd', hf', hk'⟩ := hex
        rcases List.mem_cons.1 hd' with rfl | hm
        · rw [hf] at hf'; cases hf'
        · exact ⟨d', hm, hf', hk'⟩
      · exact fun d' hd' => huniq d' (List.mem_cons_of_mem _ hd')
    | true =>
      simp only [if_true]
      unfold lookupFn
      by_cases hk : d.key = k
      · have : (k == d.key) = true := by simpa using hk.symm
        simp only [this, if_true]
        rw [huniq d List.mem_cons_self hf hk]
      · have : (k == d.key) = false := by simpa using fun h => hk h.symm
        simp only [this, Bool.false_eq_true, if_false]
        apply ih
        · obtain ⟨d', hd', hf', hk'⟩ := hex
          rcases List.mem_cons.1 hd' with rfl | hm
          · exact absurd hk' hk
          · exact ⟨d', hm, hf', hk'⟩
        · exact fun d' hd' => huniq d' (List.mem_cons_of_mem _ hd')

/-- **Retrieval, in terms of the program.** In a package whose function-like
    declarations with the key `pkg.<name>` agree on their signature (the type
    checker refuses an item declared twice), `get_function::<F>(name)` succeeds
    iff such a declaration exists and `F`'s parameters and return type pass the
    gate against its signature. With `RotoV.C04.gate_iff` the gate passes iff
    the Rust types are the documented images: the true signature, and only it. -/
theorem retrieval_iff_declared (g : RustTy → RotoTy → Res) (decls : List Decl) (helpers : List (Ident × Ident))
    (name : Ident) (f : RustFn) (sig : Signature)
    (huniq : ∀ d ∈ decls, d.kind.functionLike = true → d.key = pkgPrefix ++ name → d.sig = sig) :
    getFunction g (pipeline.table decls helpers) name f = .ok ↔
      (∃ d ∈ decls, d.kind.functionLike = true ∧ d.key = pkgPrefix ++ name) ∧
        checkArgs g f.args sig.parameter_types = .ok ∧ g f.ret sig.return_type = .ok := by
  constructor
  · intro hok
    obtain ⟨d, hd, hf, hk, ha, hr⟩ := granted_only_as_declared g decls helpers name f hok
    have := huniq d hd hf hk
    subst this
    exact ⟨⟨d, hd, hf, hk⟩, ha, hr⟩
  · rintro ⟨hex, ha, hr⟩
    have hl : lookupFn (pipeline.table decls helpers) (pkgPrefix ++ name) = some (some sig) := by
      unfold Pipeline.table
      rw [lookupFn_append_left_none (fun e he => helper_keys_unreachable helpers e he name)]
      exact lookupFn_filterMap_entry decls _ sig hex huniq
    unfold getFunction
    rw [hl]
    simp only [ha, hr]

/-- non-vacuity: a package with a function, a constant of the same type, a test and a helper -/
def decls0 : List Decl :=
  [⟨.function, id% "pkg.", id% "f", ⟨[], .unit⟩⟩,
   ⟨.const, id% "pkg.", id% "K", ⟨[], .unit⟩⟩,
   ⟨.test, id% "pkg.", id% "t", ⟨[], .unit⟩⟩,
   ⟨.function, id% "pkg.sub.", id% "inner", ⟨[], .unit⟩⟩]

example : (pipeline.table decls0 [(id% "::generated::drop_", id% "3")]).map (·.1)
    = [id% "::generated::drop_3", id% "pkg.f", id% "pkg.test#t", id% "pkg.sub.inner"] := by decide
example (g : RustTy → RotoTy → Res) (h : g (.leaf (.prim (id% "()"))) .unit = .ok) :
    getFunction g (pipeline.table decls0 []) (id% "f") ⟨[], .leaf (.prim (id% "()"))⟩ = .ok := by
  simp [getFunction, Pipeline.table, Pipeline.helperEntries, decls0, entry_iff_function_like, DeclKind.functionLike,
    Decl.key, lookupFn, pkgPrefix, checkArgs, checkEach, h]
example (g : RustTy → RotoTy → Res) (f : RustFn) :
    getFunction g (pipeline.table decls0 []) (id% "K") f = .doesNotExist := by
  apply not_a_function_refused; decide
example (g : RustTy → RotoTy → Res) (f : RustFn) :
    getFunction g (pipeline.table decls0 []) (id% "inner") f = .doesNotExist := by
  apply not_a_function_refused; decide
example (g : RustTy → RotoTy → Res) (f : RustFn) :
    getFunction g (pipeline.table decls0 []) (id% "t") f = .doesNotExist := by
  apply not_a_function_refused; decide

/-! ### Keys are unambiguous

  What makes "the function `pkg.<name>`" well defined: the key of a
  declaration determines its module, its identifier and whether it is a test. -/

/-- an identifier of the language contains neither `.` (46) nor `#` (35) -/
def IdentOK (i : Ident) : Prop := 46 ∉ i ∧ 35 ∉ i

/-- a module path with its separator: empty, or ending in `.` -/
def ModPathOK (m : Ident) : Prop := m = [] ∨ m.getLast? = some 46

/-- the part of a key after its last `.` -/
def lastSeg (k : Ident) : Ident := (k.reverse.takeWhile (· != 46)).reverse

theorem lastSeg_append (m s : Ident) (hm : ModPathOK m) (hs : 46 ∉ s) : lastSeg (m ++ s) = s := by
  unfold lastSeg
  rw [List.reverse_append]
  have hall : ∀ a ∈ s.reverse, (a != 46) = true := by
    intro a ha
    have : a ∈ s := List.mem_reverse.1 ha
    simp only [bne_iff_ne, ne_eq]
    intro h; subst h; exact hs this
  rw [List.takeWhile_append_of_pos hall]
  have : m.reverse.takeWhile (· != 46) = [] := by
    rcases hm with rfl | hl
    · rfl
    · cases hr : m.reverse with
      | nil => rfl
      | cons c cs =>
        have : m.getLast? = some c := by
          rw [← List.head?_reverse, hr]; rfl
        rw [hl] at this
        cases this
        simp [List.takeWhile]
  rw [this, List.append_nil, List.reverse_reverse]

theorem test_prefix_no_dot : 46 ∉ testPrefix := by decide

/-- **Keys are unambiguous.** Two declarations with the same key stand in the
    same module, bear the same identifier, and are both tests or both not: a
    test `t` and a function `t`, a function `f` of module `sub` and a function
    `sub.f` (no identifier contains a `.`) never share an entry of the table. -/
theorem key_injective (d d' : Decl)
    (hm : ModPathOK d.modpath) (hm' : ModPathOK d'.modpath)
    (hi : IdentOK d.ident) (hi' : IdentOK d'.ident)
    (hk : d.key = d'.key) :
    d.modpath = d'.modpath ∧ d.ident = d'.ident ∧ (d.kind = .test ↔ d'.kind = .test) := by
  unfold Decl.key at hk
  have hs : ∀ (k : DeclKind) (i : Ident), 46 ∉ i → 46 ∉ (if k = .test then testPrefix else []) ++ i := by
    intro k i hi
    split
    · intro h
      rcases List.mem_append.1 h with h | h
      · exact test_prefix_no_dot h
      · exact hi h
    · simpa using hi
  have h1 := lastSeg_append d.modpath _ hm (hs d.kind d.ident hi.1)
  have h2 := lastSeg_append d'.modpath _ hm' (hs d'.kind d'.ident hi'.1)
  rw [hk, h2] at h1
  -- the suffixes agree, hence the module paths
  have hmod : d.modpath = d'.modpath := by
    rw [← h1] at hk
    exact List.append_cancel_right hk
  refine ⟨hmod, ?_⟩
  by_cases ht : d.kind = .test <;> by_cases ht' : d'.kind = .test <;>
    simp only [ht, ht', if_true, if_false, List.nil_append] at h1
  · exact ⟨(List.append_cancel_left h1).symm, by simp [ht, ht']⟩
  · -- `ident = test# ++ ident'` would put a `#` into an identifier
    exfalso
    have : (35 : Nat) ∈ d'.ident := by rw [h1]; simp [testPrefix]
    exact hi'.2 this
  · exfalso
    have : (35 : Nat) ∈ d.ident := by rw [← h1]; simp [testPrefix]
    exact hi.2 this
  · exact ⟨h1.symm, by simp [ht, ht']⟩

example : IdentOK (id% "below_limit") := by constructor <;> decide
example : ModPathOK (id% "pkg.sub.") := by right; decide
/-- a test `t` and a function `t` of one module; `f` of `sub` and `sub.f` (were it an identifier) of the root -/
example : (⟨.test, id% "pkg.", id% "t", ⟨[], .unit⟩⟩ : Decl).key ≠ (⟨.function, id% "pkg.", id% "t", ⟨[], .unit⟩⟩ : Decl).key := by decide
example : (⟨.function, id% "pkg.sub.", id% "f", ⟨[], .unit⟩⟩ : Decl).key = (⟨.function, id% "pkg.", id% "sub.f", ⟨[], .unit⟩⟩ : Decl).key := by decide


/-- … so in a package whose declarations are pairwise distinct as (module,
    identifier, test or not) — what the type checker enforces per scope — no two
    function-like declarations share a key, and the side condition of
    `retrieval_iff_declared` holds with the signature of *the* declaration. -/
theorem unique_signature_of_distinct_names (decls : List Decl) (d : Decl) (hd : d ∈ decls)
    (hok : ∀ x ∈ decls, ModPathOK x.modpath ∧ IdentOK x.ident)
    (hdist : ∀ x ∈ decls, ∀ y ∈ decls, x.modpath = y.modpath → x.ident = y.ident →
      (x.kind = .test ↔ y.kind = .test) → x.kind.functionLike = true → y.kind.functionLike = true → x.sig = y.sig) :
    ∀ x ∈ decls, x.kind.functionLike = true → d.kind.functionLike = true → x.key = d.key → x.sig = d.sig := by
  intro x hx hfx hfd hk
  obtain ⟨hm, hi, ht⟩ := key_injective x d (hok x hx).1 (hok d hd).1 (hok x hx).2 (hok d hd).2 hk
  exact hdist x hx d hd hm hi ht hfx hfd

end RotoV.C04Tab
