/-
  C10 — well-typed scripts and built-ins cannot kill the host (arithmetic part, T1).

  Over the *generated* `lower_binop` table and codegen arms (`Gen.OpTables`, from
  src/lir/lower.rs and src/codegen/mod.rs) composed with the documented CLIF
  semantics (`Model/Clif`), where a hardware trap is `Res.panic`.

  The full-strength statement

      theorem arith_no_trap (dbg) (k : IntKind) (sz : IntSize) (op : BinOp)
          (hop : op ≠ .And ∧ op ≠ .Or) (a b : PInt k sz) :
          ∃ i, lower_binop dbg op (.Primitive (.Int k sz)) = .ok i
            ∧ runInstr dbg i (operands (cvInt a) (cvInt b)) ≠ .panic

  is REFUTED on this tree: integer `/` and `%` are lowered to the trapping
  `sdiv`/`udiv`/`srem`/`urem` with no guard (src/codegen/mod.rs, `Div`/`Mod` arms).
  What is proved instead:
    (a) `arith_traps_iff`      — the exact set of trapping (type, operator, operands);
    (b) `arith_no_trap_partial` — no trap for `+ - *`, all comparisons, unary `-` and `!`, and
        for `/` `%` under the guard (what is missing for the full statement: `x / 0`, `x % 0`,
        `MIN / -1`);
    (c) `arith_no_trap_refuted` and concrete witnesses `1i32 / 0`, `1u8 % 0`, `i64::MIN / -1`.
  Note `MIN % -1` does not trap (`srem` yields 0), so it is not in the set.
  Built-ins (T2), the check script and known findings are owned elsewhere.
-/
import RotoV.Lemmas.ScalarTrap

namespace RotoV.C10
open RotoV RotoV.Gen RotoV.Gen.OpTables

/-- the operand points at which integer arithmetic traps on this tree. -/
def TrapPoint {k : IntKind} {sz : IntSize} (op : BinOp) (a b : PInt k sz) : Prop :=
  (op = .Div ∨ op = .Mod) ∧ (b.val = 0 ∨ (op = .Div ∧ isMinDivNegOne a b))

instance {k sz} (op : BinOp) (a b : PInt k sz) : Decidable (TrapPoint op a b) := by
  unfold TrapPoint; infer_instance

/-- the binary operators that go through `Lowerer::binop` (`&&`, `||` are control flow). -/
def IsBinop (op : BinOp) : Prop := op ≠ .And ∧ op ≠ .Or

instance (op : BinOp) : Decidable (IsBinop op) := by unfold IsBinop; infer_instance

/-- instruction kinds whose compiled sequence cannot trap on same-typed integer operands, whatever
    their condition code, destination or operand order. -/
def NoTrapKind : Instruction → Prop
  | .IntCmp .. | .Add .. | .Sub .. | .Mul .. | .CallEq .. => True
  | _ => False

/-- the generated `lower_binop` emits such an instruction for every operator but `/` and `%`
    (deliberately coarse: a changed condition code is C01's business, not a trap). -/
theorem lower_nontrapping (dbg : Bool) (k : IntKind) (sz : IntSize) (op : BinOp) (hop : IsBinop op)
    (h1 : op ≠ .Div) (h2 : op ≠ .Mod) :
    ∃ i, lower_binop dbg op (.Primitive (.Int k sz)) = .ok i ∧ NoTrapKind i := by
  cases op <;> simp [IsBinop] at hop h1 h2 <;> cases k <;> cases sz <;> exact ⟨_, rfl, trivial⟩

/-- for `/` and `%` the exact instruction matters: divisor on the right, `signed` flag of the type. -/
theorem lower_div_mod (dbg : Bool) (k : IntKind) (sz : IntSize) :
    lower_binop dbg .Div (.Primitive (.Int k sz)) = .ok (.Div (irTypeOf k sz) .lhs .rhs k.signed)
    ∧ lower_binop dbg .Mod (.Primitive (.Int k sz)) = .ok (.Mod (irTypeOf k sz) .lhs .rhs k.signed) := by
  cases k <;> cases sz <;> exact ⟨rfl, rfl⟩

section
variable [FloatOps]

/-- a `NoTrapKind` instruction completes on integer operands of one type. -/
theorem noTrapKind_runs (dbg : Bool) {k : IntKind} {sz : IntSize} (i : Instruction) (h : NoTrapKind i)
    (a b : PInt k sz) : ∃ v, runInstr dbg i (operands (cvInt a) (cvInt b)) = .ok v := by
  have hf := sz.cty_notFloat
  have hop : ∀ s : Side, ∃ x : PInt k sz, operands (cvInt a) (cvInt b) s = cvInt x := by
    intro s; cases s
    · exact ⟨a, rfl⟩
    · exact ⟨b, rfl⟩
  cases i <;> simp only [NoTrapKind] at h
  case IntCmp t cmp l r =>
    obtain ⟨x, hx⟩ := hop l; obtain ⟨y, hy⟩ := hop r
    obtain ⟨c, hc⟩ := cg_IntCmp_completes dbg cmp sz.cty hf rfl x.bv y.bv
    exact ⟨_, by simp only [runInstr]; rw [hx, hy]; exact hc⟩
  case Add t l r =>
    obtain ⟨x, hx⟩ := hop l; obtain ⟨y, hy⟩ := hop r
    obtain ⟨c, hc⟩ := cg_Add_completes dbg sz.cty hf rfl x.bv y.bv
    exact ⟨_, by simp only [runInstr]; rw [hx, hy]; exact hc⟩
  case Sub t l r =>
    obtain ⟨x, hx⟩ := hop l; obtain ⟨y, hy⟩ := hop r
    obtain ⟨c, hc⟩ := cg_Sub_completes dbg sz.cty hf rfl x.bv y.bv
    exact ⟨_, by simp only [runInstr]; rw [hx, hy]; exact hc⟩
  case Mul t l r =>
    obtain ⟨x, hx⟩ := hop l; obtain ⟨y, hy⟩ := hop r
    obtain ⟨c, hc⟩ := cg_Mul_completes dbg sz.cty hf rfl x.bv y.bv
    exact ⟨_, by simp only [runInstr]; rw [hx, hy]; exact hc⟩
  case CallEq n l r =>
    obtain ⟨x, hx⟩ := hop l; obtain ⟨y, hy⟩ := hop r
    have hxf : (cvInt x).ty.isFloat = false := hf
    obtain ⟨c, hc⟩ := cg_IntCmp_completes dbg (if n then .Ne else .Eq) sz.cty hf rfl x.bv y.bv
    exact ⟨_, by
      simp only [runInstr]
      rw [hx, hy]; simp only [hxf, Bool.false_eq_true, if_false]
      exact hc⟩

/-- **(a)** For every integer type, every operator and all operands: `lower_binop` emits an
    instruction, and its compiled sequence traps iff the operator is `/` or `%` and the divisor is
    zero, or the operator is `/` on a signed type with `MIN / -1`. -/
theorem arith_traps_iff (dbg : Bool) (k : IntKind) (sz : IntSize) (op : BinOp) (hop : IsBinop op)
    (a b : PInt k sz) :
    ∃ i, lower_binop dbg op (.Primitive (.Int k sz)) = .ok i
      ∧ (runInstr dbg i (operands (cvInt a) (cvInt b)) = .panic ↔ TrapPoint op a b) := by
  by_cases hd : op = .Div
  · subst hd
    refine ⟨_, (lower_div_mod dbg k sz).1, ?_⟩
    simp only [runInstr, operands]
    rw [cg_Div_pint]
    by_cases h : b.val = 0 ∨ isMinDivNegOne a b
    · simp only [if_pos h, TrapPoint, true_or, true_and, true_iff]
      rcases h with h | h
      · exact Or.inl h
      · exact Or.inr h
    · simp only [if_neg h, TrapPoint, true_or, true_and, reduceCtorEq, false_iff]
      intro h'; exact h h'
  by_cases hm : op = .Mod
  · subst hm
    refine ⟨_, (lower_div_mod dbg k sz).2, ?_⟩
    simp only [runInstr, operands]
    rw [cg_Mod_pint]
    by_cases h : b.val = 0
    · simp [TrapPoint, h]
    · simp [TrapPoint, h]
  obtain ⟨i, hl, hk⟩ := lower_nontrapping dbg k sz op hop hd hm
  obtain ⟨v, hv⟩ := noTrapKind_runs dbg i hk a b
  refine ⟨i, hl, ?_⟩
  rw [hv]
  constructor
  · intro h; cases h
  · intro h; rcases h.1 with h | h
    · exact absurd h hd
    · exact absurd h hm

/-- non-vacuity: trap points exist and non-trap points exist (`1i32 / 0` vs `1i32 / 1`);
    `i8::MIN % -1` is not a trap point. -/
example : TrapPoint (k := .Signed) (sz := .I32) .Div (.ofInt _ _ 1) (.ofInt _ _ 0)
    ∧ ¬ TrapPoint (k := .Signed) (sz := .I32) .Div (.ofInt _ _ 1) (.ofInt _ _ 1)
    ∧ ¬ TrapPoint (k := .Signed) (sz := .I8) .Mod (.ofInt _ _ (-128)) (.ofInt _ _ (-1)) := by decide

/-- **(b)** no trap: `+ - *` and all comparisons on every integer type and all operands; `/` and
    `%` under the guard; unary `-` on every integer type; `!` on a boolean.
    (Missing for the full `arith_no_trap`: exactly the `TrapPoint`s.) -/
theorem arith_no_trap_partial (dbg : Bool) :
    (∀ (k : IntKind) (sz : IntSize) (op : BinOp) (a b : PInt k sz), IsBinop op → ¬ TrapPoint op a b →
        ∃ i v, lower_binop dbg op (.Primitive (.Int k sz)) = .ok i
          ∧ runInstr dbg i (operands (cvInt a) (cvInt b)) = .ok v)
    ∧ (∀ (k : IntKind) (sz : IntSize) (op : BinOp) (a b : PInt k sz), IsBinop op →
        op ≠ .Div → op ≠ .Mod → ¬ TrapPoint op a b)
    ∧ (∀ (k : IntKind) (sz : IntSize) (x : PInt k sz), ∃ v, cg_Negate dbg (cvInt x) = .ok v)
    ∧ (∀ b : Bool, ∃ v, cg_Not dbg (CVal.ofBool b) = .ok v) := by
  refine ⟨?_, ?_, ?_, ?_⟩
  · intro k sz op a b hop hnt
    obtain ⟨i, hl, hiff⟩ := arith_traps_iff dbg k sz op hop a b
    cases hr : runInstr dbg i (operands (cvInt a) (cvInt b)) with
    | ok v => exact ⟨i, v, hl, hr⟩
    | panic => exact absurd (hiff.mp hr) hnt
  · intro k sz op a b _ h1 h2 h
    rcases h.1 with h | h
    · exact h1 h
    · exact h2 h
  · intro k sz x
    obtain ⟨c, hc⟩ := cg_Negate_completes dbg sz.cty sz.cty_notFloat rfl x.bv
    exact ⟨_, hc⟩
  · intro b
    obtain ⟨r, hr⟩ := cg_Not_completes dbg b
    exact ⟨_, hr⟩

/-- non-vacuity of the guard: `7u16 / 2u16` is not a trap point. -/
example : ¬ TrapPoint (k := .Unsigned) (sz := .I16) .Div (.ofInt _ _ 7) (.ofInt _ _ 2)
    ∧ IsBinop .Div := by decide

/-- **(c)** the full-strength statement is false on this tree. -/
theorem arith_no_trap_refuted (dbg : Bool) :
    ¬ (∀ (k : IntKind) (sz : IntSize) (op : BinOp), IsBinop op → ∀ (a b : PInt k sz),
        ∃ i, lower_binop dbg op (.Primitive (.Int k sz)) = .ok i
          ∧ runInstr dbg i (operands (cvInt a) (cvInt b)) ≠ .panic) := by
  intro h
  obtain ⟨i, hl, hne⟩ := h .Signed .I32 .Div (by decide) (.ofInt _ _ 1) (.ofInt _ _ 0)
  obtain ⟨i', hl', hiff⟩ := arith_traps_iff dbg .Signed .I32 .Div (by decide) (.ofInt _ _ 1) (.ofInt _ _ 0)
  rw [hl] at hl'; cases hl'
  exact hne (hiff.mpr (by decide))

end

/-! ### concrete witnesses, evaluated on the generated definitions (replayable on the real code) -/

/-- `1i32 / 0`: `lower_binop` emits `Div {signed: true}` and `sdiv 1, 0` traps. -/
theorem witness_i32_div_zero [FloatOps] :
    lower_binop false .Div (.Primitive (.Int .Signed .I32)) = .ok (.Div .I32 .lhs .rhs true)
    ∧ cg_Div false true ⟨.I32, 1⟩ ⟨.I32, 0⟩ = .panic := by
  exact ⟨by decide, by decide⟩

/-- `1u8 % 0`: `Mod {signed: false}` and `urem 1, 0` traps. -/
theorem witness_u8_mod_zero [FloatOps] :
    lower_binop false .Mod (.Primitive (.Int .Unsigned .I8)) = .ok (.Mod .U8 .lhs .rhs false)
    ∧ cg_Mod false false ⟨.I8, 1⟩ ⟨.I8, 0⟩ = .panic := by
  exact ⟨by decide, by decide⟩

/-- `i64::MIN / -1`: `sdiv 0x8000000000000000, 0xFFFFFFFFFFFFFFFF` traps (overflow). -/
theorem witness_i64_min_div_neg_one [FloatOps] :
    lower_binop false .Div (.Primitive (.Int .Signed .I64)) = .ok (.Div .I64 .lhs .rhs true)
    ∧ cg_Div false true ⟨.I64, 0x8000000000000000⟩ ⟨.I64, 0xFFFFFFFFFFFFFFFF⟩ = .panic
    ∧ jitRepr (.I64 (.ofInt _ _ (-9223372036854775808))) = some ⟨.I64, 0x8000000000000000⟩
    ∧ jitRepr (.I64 (.ofInt _ _ (-1))) = some ⟨.I64, 0xFFFFFFFFFFFFFFFF⟩ := by
  exact ⟨by decide, by decide, by decide, by decide⟩

/-- and the non-witness: `i64::MIN % -1` yields 0 without a trap. -/
theorem min_rem_neg_one_no_trap [FloatOps] :
    cg_Mod false true ⟨.I64, 0x8000000000000000⟩ ⟨.I64, 0xFFFFFFFFFFFFFFFF⟩ = .ok ⟨.I64, 0⟩ := by
  decide

end RotoV.C10
