/-
  C06, part 5b — the obligations on the GENERATED lists of
  `Generated/TcListOps.lean` (target `tclistops`, regenerated from
  `src/typechecker/*.rs` on every run). What they mean is proved in
  `Props/C06TcLists.lean` (`site_runs`, `call_establishes`, `joinQuoted_total`,
  `complement_nonempty`, `match_end_total`); they live in their own module so
  that a change of the source breaks these obligations only.
-/
import RotoV.Generated.TcListOps
import RotoV.Props.C06TcLists

namespace RotoV.C06
open RotoV.TcList RotoV.Gen.TcListOps

/-- OBLIGATION on the generated lists: every length-partial operation of the
type checker stands under evidence that covers what it needs, and every call
of a partial helper under evidence that covers what the helper needs. A new
`x[0]` / `pop().unwrap()` on a list of unknown length, or a new call of
`join_quoted` (directly or through an `error_…` constructor) with a list
nothing says is non-empty, has evidence `none` and breaks this theorem. -/
theorem tc_list_ops_audited :
    (∀ s ∈ sites, s.ok helpers = true) ∧ (∀ c ∈ calls, c.ok helpers = true) := by
  decide

/-- the helpers the model below is about are still partial helpers of the
source, and each is called somewhere (the audit is about the code as it is) -/
theorem tc_list_helpers_present :
    "join_quoted" ∈ helperNames ∧ helpers ≠ [] ∧ calls ≠ [] ∧
    (∀ h ∈ helpers, (calls.any fun c => c.callee == h.fn && c.param == h.param) = true) := by
  refine ⟨?_, ?_, ?_, ?_⟩ <;> decide

/-- OBLIGATION on the generated list: the constructors of type errors are the
ones the oracle has representatives for (harness table `ERROR_KINDS`: for each
of them the kinds of report the boundary stream must produce on every run —
measured there, a kind that is not reached breaks the tie;
`error_constant_uses_context` needs a runtime with a context type: the
oracle's second runtime). A new constructor breaks this theorem until a representative — with
every list it prints empty, too — is added. -/
theorem error_constructors_represented :
    errorFns =
      ["error_can_only_match_on_enum", "error_cannot_assign_to_this_expression", "error_cannot_diverge_here",
       "error_constant_uses_context", "error_declared_twice", "error_duplicate_fields", "error_expected_function",
       "error_expected_int_value", "error_expected_module", "error_expected_numeric_value", "error_expected_type",
       "error_expected_value", "error_expected_value_path", "error_field_mismatch", "error_mismatched_types",
       "error_need_arguments_on_pattern", "error_no_field_on_type", "error_no_field_or_method_on_type",
       "error_no_method_on_type", "error_nonexhaustive_match", "error_not_defined",
       "error_number_of_arguments_dont_match", "error_recursive_constant", "error_simple",
       "error_unreachable_expression", "error_variant_does_not_exist", "error_variant_does_not_have_fields"] := rfl

/-- non-vacuity of the audit: the site of the UNCHANGED tree this part found —
`function.signature.parameter_types[0]` in `method_call`, on the signature of
whatever `get_method` returned (a static method has no parameters:
`StringBuf.new().new()` panicked the compiler) — has no evidence and is
rejected; with a guard it is accepted -/
example :
    (Site.mk "src/typechecker/expr.rs" "method_call" "function.signature.parameter_types[0]" (.index 0) .none).ok [] = false ∧
    (Site.mk "src/typechecker/expr.rs" "method_call" "function.signature.parameter_types[0]" (.index 0) (.guard 0)).ok [] = true ∧
    (Call.mk "src/typechecker/error.rs" "error_variant_does_not_exist" 0 0 "join_quoted(variants.iter().map(|v|v.name))" .none).ok
      [⟨0, 0, 1⟩] = false := by
  refine ⟨by decide, by decide, by decide⟩

end RotoV.C06
