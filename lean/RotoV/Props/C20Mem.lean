/-
  C20, second part — the evaluator's memory is checked, and its `Switch` takes the arm the
  compiled code takes.

  Every definition the statements are about (`Memory.read_slice`, `Memory.write`, `Memory.copy`,
  `Memory.allocate`, `Memory.offset_by`, `Memory.push_frame`, `Memory.pop_frame`,
  `Allocation.read/write`, `StackFrame.read/write`, `eval_Switch`, `cg_Switch`) is GENERATED from
  src/lir/eval.rs and src/codegen/mod.rs on every run (`Gen.EvalMem`); the data types and the
  meanings of `Vec`/slice/`usize` operations are in `Model/EvalMem`.

  **T2 `memory_checked`**: an access through the evaluator's memory that COMPLETES went through a
  pointer the memory handed out, into the frame that pointer was created in (the frame at the
  pointer's stack index still carries the pointer's frame id, and ids are never reused:
  `dead_stays_dead`), inside the bytes that were REQUESTED for that allocation (`allocate_exact`),
  at an offset that is a multiple of the access size; and it reads / replaces exactly those bytes.
  Everything else is `Res.panic`.  For all memories, pointers, sizes, frames — no bounds.

  **T3 `switch_agrees`**: for EVERY branch table (any order, duplicate keys included) the evaluator's
  `Switch` arm goes to the first entry with the examinee's key, else to the default; Cranelift's
  `Switch` (which rejects duplicate keys when the function is built) goes to the same block for
  every table it accepts.
-/
import RotoV.Lemmas.ScalarEval
import RotoV.Generated.EvalMem

namespace RotoV.C20
open RotoV RotoV.Gen.EvalMem

/-! ### vocabulary -/

/-- pointer `p` of memory `m` designates `size` bytes at a checked position: `lp` is what the
    memory handed out, `fr` is the live frame it was created in, `al` the allocation. -/
def Checked (m : Memory) (p size : Nat) (lp : LocalPointer) (fr : StackFrame) (al : Allocation) : Prop :=
  m.pointers[p]? = some (.Local lp)
  ∧ m.stack[lp.stack_index]? = some fr ∧ fr.id = lp.stack_id
  ∧ fr.allocations[lp.allocation_index]? = some al
  ∧ lp.allocation_offset + size ≤ al.inner.length
  ∧ Usize.is_multiple_of lp.allocation_offset size = true

/-- the bytes `[off, off+n)` of an allocation replaced by `val` -/
def Allocation.patched (al : Allocation) (off : Nat) (val : List UInt8) : Allocation :=
  ⟨al.inner.take off ++ val ++ al.inner.drop (off + val.length)⟩

/-- memory `m` with allocation `lp` of frame `fr` replaced by `al'` -/
def Memory.withAlloc (m : Memory) (lp : LocalPointer) (fr : StackFrame) (al' : Allocation) : Memory :=
  { m with stack := (m.stack.set lp.stack_index { fr with allocations := (fr.allocations.set lp.allocation_index al') }) }

/-! ### helpers about the vocabulary of `Model/EvalMem` -/

theorem index_ok {α} {xs : List α} {i : Nat} {x : α} (h : RIndex.index xs i = .ok x) : xs[i]? = some x := by
  unfold RIndex.index at h; split at h <;> simp_all

theorem index_of_get {α} {xs : List α} {i : Nat} {x : α} (h : xs[i]? = some x) : RIndex.index xs i = .ok x := by
  unfold RIndex.index; rw [h]

theorem slice_ok {α} {xs ys : List α} {a b : Nat} (h : RIndex.slice xs a b = .ok ys) :
    a ≤ b ∧ b ≤ xs.length ∧ ys = (xs.drop a).take (b - a) := by
  unfold RIndex.slice at h; split at h
  · next hc => simp at h; exact ⟨hc.1, hc.2, h.symm⟩
  · cases h

theorem splice_ok {α} {xs ys v : List α} {a b : Nat} (h : Vec.splice xs a b v = .ok ys) :
    a ≤ b ∧ b ≤ xs.length ∧ v.length = b - a ∧ ys = xs.take a ++ v ++ xs.drop b := by
  unfold Vec.splice at h; split at h
  · next hc => simp only [Res.ok.injEq] at h; exact ⟨hc.1, hc.2.1, hc.2.2, h.symm⟩
  · cases h

theorem Res.ite_panic_eq_ok {α} {c : Prop} [Decidable c] {x : Res α} {v : α} :
    (if c then x else Res.panic) = .ok v ↔ c ∧ x = .ok v := by
  split <;> simp [*]

/-- unfold one generated function in `h : f … = .ok v` into the conjunction of everything that had
    to succeed -/
local macro "res_unfold" "[" ds:Lean.Parser.Tactic.simpLemma,* "]" "at" h:ident : tactic =>
  `(tactic| simp only [$ds,*, RArith.add, RArith.sub, ROrd.le, REq.eq, Vec.len, Vec.push, Vec.set, Vec.pop,
    Vec.new, Vec.zeros, Res.pure_eq, Res.bind_ok, Res.ite_panic_eq_ok, Res.bind_eq_ok_iff, decide_eq_true_eq,
    Res.ok.injEq, Prod.mk.injEq, exists_and_left, exists_eq_left', exists_eq_left] at $h:ident)


/-! ### allocations -/

/-- `Allocation::read` completes only inside the allocation's bytes, aligned, with those bytes. -/
theorem alloc_read_checked {dbg : Bool} {al : Allocation} {off size : Nat} {bs : List UInt8}
    (h : Allocation.read dbg al off size = .ok bs) :
    off + size ≤ al.inner.length ∧ Usize.is_multiple_of off size = true
      ∧ bs = (al.inner.drop off).take size := by
  res_unfold [Allocation.read] at h
  -- the bound is taken from the slice itself (Rust's own check), so that a differently worded
  -- assertion that still stops every out-of-bounds access keeps the proof
  obtain ⟨_, ha, hs⟩ := h
  obtain ⟨_, hb, rfl⟩ := slice_ok hs
  exact ⟨hb, ha, by simp⟩

/-- `Allocation::write` completes only inside the allocation's bytes, aligned, and replaces exactly
    those bytes. -/
theorem alloc_write_checked {dbg : Bool} {al al' : Allocation} {off : Nat} {val : List UInt8}
    (h : Allocation.write dbg al off val = .ok al') :
    off + val.length ≤ al.inner.length ∧ Usize.is_multiple_of off val.length = true
      ∧ al' = Allocation.patched al off val := by
  res_unfold [Allocation.write] at h
  obtain ⟨_, ha, ys, hs, rfl⟩ := h
  obtain ⟨_, hb, _, rfl⟩ := splice_ok hs
  exact ⟨hb, ha, rfl⟩

/-! ### T2: reads, writes and copies through `Memory` -/

/-- **T2 (read).** A read that completes went through a pointer the memory handed out; for a local
    pointer: into the live frame the pointer was created in, inside the requested bytes of the
    allocation, aligned — and it returns exactly those bytes.  (A `Pointer::Global` refers to a
    constant owned by the runtime; what lies behind it is outside the model.) -/
theorem read_checked {dbg : Bool} {m : Memory} {p size : Nat} {bs : List UInt8}
    (h : Memory.read_slice dbg m p size = .ok bs) :
    (∃ g, m.pointers[p]? = some (.Global g))
    ∨ ∃ lp fr al, Checked m p size lp fr al
        ∧ bs = (al.inner.drop lp.allocation_offset).take size := by
  res_unfold [Memory.read_slice] at h
  obtain ⟨ptr, hp, h⟩ := h
  have hp := index_ok hp
  cases ptr with
  | Global g => exact Or.inl ⟨g, hp⟩
  | Local lp =>
    right
    res_unfold [StackFrame.read] at h
    obtain ⟨fr, hf, hid, al, ha, hr⟩ := h
    obtain ⟨hb, hal, rfl⟩ := alloc_read_checked hr
    exact ⟨lp, fr, al, ⟨hp, index_ok hf, hid, index_ok ha, hb, hal⟩, rfl⟩

/-- **T2 (write).** A write that completes went through a local pointer into the live frame the
    pointer was created in, inside the requested bytes, aligned; the new memory differs from the
    old one in exactly those bytes. -/
theorem write_checked {dbg : Bool} {m m' : Memory} {p : Nat} {val : List UInt8}
    (h : Memory.write dbg m p val = .ok m') :
    ∃ lp fr al, Checked m p val.length lp fr al
      ∧ m' = Memory.withAlloc m lp fr (Allocation.patched al lp.allocation_offset val) := by
  res_unfold [Memory.write] at h
  obtain ⟨ptr, hp, h⟩ := h
  have hp := index_ok hp
  cases ptr with
  | Global g => simp at h
  | Local lp =>
    res_unfold [StackFrame.write] at h
    obtain ⟨fr, hf, hid, fr', ⟨al, ha, al', hw, rfl⟩, rfl⟩ := h
    obtain ⟨hb, hal, rfl⟩ := alloc_write_checked hw
    exact ⟨lp, fr, al, ⟨hp, index_ok hf, hid, index_ok ha, hb, hal⟩, rfl⟩

/-- **T2 (copy).** A copy that completes is a checked read followed by a checked write of the
    bytes read. -/
theorem copy_checked {dbg : Bool} {m m' : Memory} {to from_ size : Nat}
    (h : Memory.copy dbg m to from_ size = .ok m') :
    ∃ bs, Memory.read_slice dbg m from_ size = .ok bs ∧ Memory.write dbg m to bs = .ok m' := by
  res_unfold [Memory.copy] at h
  obtain ⟨bs, hr, m1, hw, rfl⟩ := h
  exact ⟨bs, hr, hw⟩

/-- the loud stops, stated positively: a local pointer whose access is out of bounds, misaligned
    or into a frame that is gone makes `read_slice` panic. -/
theorem read_unchecked_panics {dbg : Bool} {m : Memory} {p size : Nat} {lp : LocalPointer}
    (hp : m.pointers[p]? = some (.Local lp))
    (hbad : ∀ fr al, m.stack[lp.stack_index]? = some fr → fr.id = lp.stack_id →
        fr.allocations[lp.allocation_index]? = some al →
        ¬ (lp.allocation_offset + size ≤ al.inner.length
            ∧ Usize.is_multiple_of lp.allocation_offset size = true)) :
    Memory.read_slice dbg m p size = .panic := by
  cases h : Memory.read_slice dbg m p size with
  | panic => rfl
  | ok bs =>
    exfalso
    rcases read_checked h with ⟨g, hg⟩ | ⟨lp', fr, al, ⟨hp', hf, hid, ha, hb, hal⟩, _⟩
    · rw [hp] at hg; cases hg
    · rw [hp] at hp'; cases hp'
      exact hbad fr al hf hid ha ⟨hb, hal⟩

theorem write_unchecked_panics {dbg : Bool} {m : Memory} {p : Nat} {val : List UInt8} {lp : LocalPointer}
    (hp : m.pointers[p]? = some (.Local lp))
    (hbad : ∀ fr al, m.stack[lp.stack_index]? = some fr → fr.id = lp.stack_id →
        fr.allocations[lp.allocation_index]? = some al →
        ¬ (lp.allocation_offset + val.length ≤ al.inner.length
            ∧ Usize.is_multiple_of lp.allocation_offset val.length = true)) :
    Memory.write dbg m p val = .panic := by
  cases h : Memory.write dbg m p val with
  | panic => rfl
  | ok m' =>
    exfalso
    obtain ⟨lp', fr, al, ⟨hp', hf, hid, ha, hb, hal⟩, _⟩ := write_checked h
    rw [hp] at hp'; cases hp'
    exact hbad fr al hf hid ha ⟨hb, hal⟩

/-! ### raw addresses (`Memory::get`) -/

/-- **T2 (get).** The raw address handed to clone / drop / eq and runtime functions is only produced
    for a pointer the memory handed out, into the live frame it was created in, at a byte that
    exists in its allocation.  (The extent of the native access behind the address is not known to
    the evaluator and is outside the model.) -/
theorem get_checked {dbg : Bool} {m : Memory} {p : Nat} {r : RawPtr}
    (h : Memory.get dbg m p = .ok r) :
    (∃ g, m.pointers[p]? = some (.Global g))
    ∨ ∃ lp fr al, m.pointers[p]? = some (.Local lp)
        ∧ m.stack[lp.stack_index]? = some fr ∧ fr.id = lp.stack_id
        ∧ fr.allocations[lp.allocation_index]? = some al
        ∧ lp.allocation_offset < al.inner.length := by
  res_unfold [Memory.get] at h
  obtain ⟨ptr, hp, h⟩ := h
  have hp := index_ok hp
  cases ptr with
  | Global g => exact Or.inl ⟨g, hp⟩
  | Local lp =>
    right
    res_unfold [StackFrame.get, Allocation.get] at h
    obtain ⟨fr, hf, hid, al, ha, b, hb, _⟩ := h
    have hb := index_ok hb
    have hlt : lp.allocation_offset < al.inner.length := by
      rcases Nat.lt_or_ge lp.allocation_offset al.inner.length with h | h
      · exact h
      · rw [List.getElem?_eq_none h] at hb; cases hb
    exact ⟨lp, fr, al, hp, index_ok hf, hid, index_ok ha, hlt⟩

/-- The tree as it was before `fix: Memory::get …`: `get` went to the frame at the pointer's stack
    index without comparing frame ids (frozen transliteration of the old source, kept for the
    refutation below; the generated `Memory.get` above is the current source). -/
def getBeforeFix (dbg : Bool) (self_ : Memory) (p : Nat) : Res RawPtr := do
  let p ← RIndex.index self_.pointers p
  match p with
  | .Local p => do
    let frame ← RIndex.index self_.stack p.stack_index
    StackFrame.get dbg frame p
  | .Global p => pure p.ptr

/-- push a frame, allocate 8 bytes (pointer 0), pop, push again, allocate 8 bytes -/
def danglingDemo : Res Memory := do
  let m ← Memory.default true
  let m ← Memory.push_frame true m 0 none
  let (m, _) ← Memory.allocate true m 8
  let (m, _) ← Memory.pop_frame true m
  let m ← Memory.push_frame true m 0 none
  let (m, _) ← Memory.allocate true m 8
  pure m

/-- **Refutation on the tree before the fix** (replayed on the real code by the harness, key
    `mem get dangling`, history `u a8 p u a8 g0`): pointer 0 refers to a frame that was popped, a new
    frame sits at the same depth, and `get` handed out an address inside the NEW frame's allocation
    instead of stopping.  With the fix it panics. -/
theorem get_before_fix_hands_out_dangling :
    (danglingDemo >>= fun m => getBeforeFix true m 0) = .ok (.byte 0)
    ∧ (danglingDemo >>= fun m => Memory.get true m 0) = .panic
    ∧ (danglingDemo >>= fun m => Memory.read_slice true m 0 1) = .panic := by
  decide

/-! ### allocation, pointer arithmetic -/

/-- **T2 (allocate).** `allocate n` appends an allocation of EXACTLY `n` zero bytes to the newest
    frame and hands out a pointer to its start carrying that frame's index and id; nothing else
    changes.  (So the bound of `read_checked` / `write_checked` is the requested size.) -/
theorem allocate_exact {dbg : Bool} {m m' : Memory} {n p : Nat}
    (h : Memory.allocate dbg m n = .ok (m', p)) :
    ∃ fr, m.stack[m.stack.length - 1]? = some fr ∧ 1 ≤ m.stack.length
      ∧ p = m.pointers.length
      ∧ m'.pointers = m.pointers ++ [.Local ⟨m.stack.length - 1, fr.id, fr.allocations.length, 0⟩]
      ∧ m'.stack = m.stack.set (m.stack.length - 1)
          { fr with allocations := fr.allocations ++ [⟨List.replicate n 0⟩] }
      ∧ m'.id_counter = m.id_counter := by
  res_unfold [Memory.allocate] at h
  obtain ⟨a, ha, fr, hf, q, hq, rfl, rfl⟩ := h
  have hf := index_ok hf
  have hlen : 1 ≤ m.stack.length := by
    by_cases hl : 1 ≤ m.stack.length
    · exact hl
    · exfalso
      have hnil : m.stack = [] := by
        cases hm : m.stack with
        | nil => rfl
        | cons x xs => simp [hm] at hl
      rw [hnil] at hf; simp at hf
  rw [if_pos hlen, Res.ok.injEq] at ha; subst ha
  simp only [List.length_append, List.length_cons, List.length_nil, Nat.le_add_left, if_true,
    Nat.add_sub_cancel, Res.ok.injEq, Nat.zero_add] at hq
  exact ⟨fr, hf, hlen, hq.symm, rfl, rfl, rfl⟩

/-- **T2 (offset).** `offset_by` performs no access: it hands out a new pointer into the same
    frame and allocation, `offset` bytes further — checked when it is used. -/
theorem offset_by_spec {dbg : Bool} {m m' : Memory} {p off q : Nat}
    (h : Memory.offset_by dbg m p off = .ok (m', q)) :
    ∃ lp, m.pointers[p]? = some (.Local lp) ∧ q = m.pointers.length
      ∧ m' = { m with pointers := m.pointers ++
                [.Local { lp with allocation_offset := lp.allocation_offset + off }] } := by
  res_unfold [Memory.offset_by] at h
  obtain ⟨ptr, hp, h⟩ := h
  have hp := index_ok hp
  cases ptr with
  | Global g => simp at h
  | Local lp =>
    res_unfold [LocalPointer.offset_by] at h
    obtain ⟨a, ha, rfl, rfl⟩ := h
    simp only [List.length_append, List.length_cons, List.length_nil, Nat.le_add_left, if_true,
      Nat.add_sub_cancel, Res.ok.injEq, Nat.zero_add] at ha
    exact ⟨lp, hp, ha.symm, rfl⟩

/-! ### frames: ids are never reused, so a dangling pointer stays dangling -/

/-- `push_frame` puts a frame with the next unused id on the stack. -/
theorem push_frame_spec {dbg : Bool} {m m' : Memory} {ra : Nat} {rp : Option Nat}
    (h : Memory.push_frame dbg m ra rp = .ok m') :
    m' = { m with id_counter := m.id_counter + 1,
                  stack := m.stack ++ [⟨m.id_counter, ra, rp, []⟩] } := by
  res_unfold [Memory.push_frame] at h
  exact h.symm

/-- `pop_frame` removes the newest frame, except the root frame. -/
theorem pop_frame_spec {dbg : Bool} {m m' : Memory} {r : Option StackFrame}
    (h : Memory.pop_frame dbg m = .ok (m', r)) :
    (m.stack.length = 1 ∧ m' = m ∧ r = none)
    ∨ (m.stack.length ≠ 1 ∧ m' = { m with stack := m.stack.dropLast } ∧ r = m.stack.getLast?) := by
  simp only [Memory.pop_frame, REq.eq, Vec.len, Vec.pop, Res.pure_eq, Res.bind_ok] at h
  by_cases hl : m.stack.length = 1
  · simp [hl] at h; exact Or.inl ⟨hl, h.1.symm, h.2.symm⟩
  · simp [hl] at h; exact Or.inr ⟨hl, h.1.symm, h.2.symm⟩

/-- frame ids are distinct, increase along the stack and lie below the counter -/
def FramesOk (m : Memory) : Prop :=
  m.stack.Pairwise (fun a b => a.id < b.id) ∧ ∀ f ∈ m.stack, f.id < m.id_counter

/-- an id that was handed out and whose frame is gone -/
def DeadId (m : Memory) (id : Nat) : Prop :=
  id < m.id_counter ∧ ∀ f ∈ m.stack, f.id ≠ id

theorem framesOk_default {dbg : Bool} {m : Memory} (h : Memory.default dbg = .ok m) : FramesOk m := by
  simp only [Memory.default, Res.pure_eq, Res.ok.injEq] at h
  subst h
  simp [FramesOk]

/-- one step of the evaluator's memory interface -/
inductive Step (dbg : Bool) : Memory → Memory → Prop
  | write {m m' p val} : Memory.write dbg m p val = .ok m' → Step dbg m m'
  | copy {m m' t f n} : Memory.copy dbg m t f n = .ok m' → Step dbg m m'
  | allocate {m m' n p} : Memory.allocate dbg m n = .ok (m', p) → Step dbg m m'
  | offset {m m' p o q} : Memory.offset_by dbg m p o = .ok (m', q) → Step dbg m m'
  | push {m m' ra rp} : Memory.push_frame dbg m ra rp = .ok m' → Step dbg m m'
  | pop {m m' r} : Memory.pop_frame dbg m = .ok (m', r) → Step dbg m m'

/-- ids of the frames and the counter after a step: the ids are those of before, minus the popped
    frame or plus the old counter, and the counter never decreases. -/
theorem step_ids {dbg : Bool} {m m' : Memory} (h : Step dbg m m') :
    (m'.stack.map (·.id) = m.stack.map (·.id) ∧ m'.id_counter = m.id_counter)
    ∨ (m'.stack.map (·.id) = (m.stack.map (·.id)).dropLast ∧ m'.id_counter = m.id_counter)
    ∨ (m'.stack.map (·.id) = m.stack.map (·.id) ++ [m.id_counter] ∧ m'.id_counter = m.id_counter + 1) := by
  have set_ids : ∀ (st : List StackFrame) (i : Nat) (fr fr' : StackFrame), st[i]? = some fr → fr'.id = fr.id →
      (st.set i fr').map (·.id) = st.map (·.id) := by
    intro st i fr fr' hi hid
    apply List.ext_getElem?
    intro k
    simp only [List.getElem?_map, List.getElem?_set]
    by_cases hk : i = k
    · subst hk
      have : i < st.length := by
        rcases Nat.lt_or_ge i st.length with h | h
        · exact h
        · rw [List.getElem?_eq_none h] at hi; cases hi
      have hget : st[i] = fr := by
        have := List.getElem?_eq_getElem this
        rw [this] at hi; exact Option.some.inj hi
      simp [this, hid, hget]
    · simp [hk]
  cases h with
  | write h =>
    obtain ⟨lp, fr, al, ⟨_, hf, _⟩, rfl⟩ := write_checked h
    exact Or.inl ⟨set_ids _ _ fr _ hf rfl, rfl⟩
  | copy h =>
    obtain ⟨bs, _, hw⟩ := copy_checked h
    obtain ⟨lp, fr, al, ⟨_, hf, _⟩, rfl⟩ := write_checked hw
    exact Or.inl ⟨set_ids _ _ fr _ hf rfl, rfl⟩
  | allocate h =>
    obtain ⟨fr, hf, _, _, _, hs, hc⟩ := allocate_exact h
    exact Or.inl ⟨by rw [hs]; exact set_ids _ _ fr _ hf rfl, hc⟩
  | offset h =>
    obtain ⟨lp, _, _, rfl⟩ := offset_by_spec h
    exact Or.inl ⟨rfl, rfl⟩
  | push h =>
    rw [push_frame_spec h]
    exact Or.inr (Or.inr ⟨by simp, rfl⟩)
  | pop h =>
    rcases pop_frame_spec h with ⟨_, rfl, _⟩ | ⟨_, rfl, _⟩
    · exact Or.inl ⟨rfl, rfl⟩
    · exact Or.inr (Or.inl ⟨by simp [List.map_dropLast], rfl⟩)



theorem framesOk_step {dbg : Bool} {m m' : Memory} (h : Step dbg m m') (ok : FramesOk m) : FramesOk m' := by
  obtain ⟨hp, hlt⟩ := ok
  have hp' : (m.stack.map (·.id)).Pairwise (· < ·) := List.pairwise_map.mpr hp
  have hlt' : ∀ i ∈ m.stack.map (·.id), i < m.id_counter := by
    intro i hi; obtain ⟨f, hf, rfl⟩ := List.mem_map.mp hi; exact hlt f hf
  suffices hs : (m'.stack.map (·.id)).Pairwise (· < ·) ∧ ∀ i ∈ m'.stack.map (·.id), i < m'.id_counter from
    ⟨List.pairwise_map.mp hs.1, fun f hf => hs.2 _ (List.mem_map.mpr ⟨f, hf, rfl⟩)⟩
  rcases step_ids h with ⟨hs, hc⟩ | ⟨hs, hc⟩ | ⟨hs, hc⟩
  · rw [hs, hc]; exact ⟨hp', hlt'⟩
  · rw [hs, hc]
    exact ⟨hp'.sublist (List.dropLast_sublist _), fun i hi => hlt' i ((List.dropLast_sublist _).mem hi)⟩
  · rw [hs, hc]
    refine ⟨List.pairwise_append.mpr ⟨hp', List.pairwise_singleton _ _, ?_⟩, ?_⟩
    · intro a ha b hb; simp only [List.mem_singleton] at hb; subst hb; exact hlt' a ha
    · intro i hi
      rcases List.mem_append.mp hi with hi | hi
      · exact Nat.lt_succ_of_lt (hlt' i hi)
      · simp only [List.mem_singleton] at hi; subst hi; exact Nat.lt_succ_self _

/-- the id of a popped frame is dead from then on -/
theorem pop_makes_dead {dbg : Bool} {m m' : Memory} {fr : StackFrame} (ok : FramesOk m)
    (h : Memory.pop_frame dbg m = .ok (m', some fr)) : DeadId m' fr.id := by
  obtain ⟨hp, hlt⟩ := ok
  rcases pop_frame_spec h with ⟨_, _, hr⟩ | ⟨_, rfl, hr⟩
  · cases hr
  · have hmem : fr ∈ m.stack := List.mem_of_getLast? hr.symm
    refine ⟨hlt fr hmem, ?_⟩
    intro f hf heq
    -- `fr` is the last frame, `f` is among the others: its id is strictly smaller
    have hsplit : m.stack = m.stack.dropLast ++ [fr] := by
      obtain ⟨ys, hys⟩ := List.getLast?_eq_some_iff.mp hr.symm
      rw [hys, List.dropLast_concat]
    rw [hsplit] at hp
    have := (List.pairwise_append.mp hp).2.2 f hf fr (List.mem_singleton.mpr rfl)
    omega

/-- **ids are never reused**: a dead id stays dead through every step. -/
theorem dead_stays_dead {dbg : Bool} {m m' : Memory} {id : Nat} (h : Step dbg m m')
    (hd : DeadId m id) : DeadId m' id := by
  obtain ⟨hlt, hne⟩ := hd
  have hne' : id ∉ m.stack.map (·.id) := by
    intro hi; obtain ⟨f, hf, rfl⟩ := List.mem_map.mp hi; exact hne f hf rfl
  suffices hs : id < m'.id_counter ∧ id ∉ m'.stack.map (·.id) from
    ⟨hs.1, fun f hf heq => hs.2 (List.mem_map.mpr ⟨f, hf, heq⟩)⟩
  rcases step_ids h with ⟨hs, hc⟩ | ⟨hs, hc⟩ | ⟨hs, hc⟩
  · rw [hs, hc]; exact ⟨hlt, hne'⟩
  · rw [hs, hc]; exact ⟨hlt, fun hi => hne' ((List.dropLast_sublist _).mem hi)⟩
  · rw [hs, hc]
    refine ⟨Nat.lt_succ_of_lt hlt, ?_⟩
    intro hi
    rcases List.mem_append.mp hi with hi | hi
    · exact hne' hi
    · simp only [List.mem_singleton] at hi; omega

/-- **T2 (dangling).** Through a pointer whose frame id is dead, reads, writes and raw addresses panic — now and
    after any further steps (`dead_stays_dead`). -/
theorem dangling_panics {dbg : Bool} {m : Memory} {p : Nat} {lp : LocalPointer}
    (hp : m.pointers[p]? = some (.Local lp)) (hd : DeadId m lp.stack_id) (size : Nat) (val : List UInt8) :
    Memory.read_slice dbg m p size = .panic ∧ Memory.write dbg m p val = .panic
      ∧ Memory.get dbg m p = .panic := by
  have hbad : ∀ (n : Nat) (fr : StackFrame) (al : Allocation), m.stack[lp.stack_index]? = some fr → fr.id = lp.stack_id →
      fr.allocations[lp.allocation_index]? = some al →
      ¬ (lp.allocation_offset + n ≤ al.inner.length ∧ Usize.is_multiple_of lp.allocation_offset n = true) := by
    intro n fr al hf hid _ _
    exact hd.2 fr (List.mem_of_getElem? hf) hid
  refine ⟨read_unchecked_panics hp (hbad size), write_unchecked_panics hp (hbad val.length), ?_⟩
  cases h : Memory.get dbg m p with
  | panic => rfl
  | ok r =>
    exfalso
    rcases get_checked h with ⟨g, hg⟩ | ⟨lp', fr, al, hp', hf, hid, _⟩
    · rw [hp] at hg; cases hg
    · rw [hp] at hp'; cases hp'
      exact hd.2 fr (List.mem_of_getElem? hf) hid


/-! ### T3: `Switch` -/

/-- the arm both sides must take: the FIRST entry whose key is the examinee, else the default -/
def firstMatch (branches : List (Nat × Nat)) (default x : Nat) : Nat :=
  match branches.find? (·.1 == x) with
  | some e => e.2
  | none => default

/-- the evaluator's `Switch` arm (generated), for EVERY branch table — any order, duplicate keys
    included — and every way of reading the examinee: first entry with that key, else default. -/
theorem eval_switch_first (dbg : Bool) (sw : IrValue → Res Nat) (v : IrValue)
    (branches : List (Nat × Nat)) (default : Nat) :
    eval_Switch dbg sw v branches default = (sw v >>= fun x => .ok (firstMatch branches default x)) := by
  simp only [eval_Switch, Res.pure_eq, RCast.cast, id]
  cases sw v with
  | panic => rfl
  | ok x =>
    simp only [Res.bind_ok, Res.ok.injEq, ROpt.unwrap_or, Vec.find_map, RBool.then_some, firstMatch]
    induction branches with
    | nil => rfl
    | cons e rest ih =>
      obtain ⟨k, l⟩ := e
      by_cases hk : k = x
      · subst hk; simp [List.findSome?, List.find?]
      · have hb : Nat.beq k x = false := by
          cases h : Nat.beq k x with
          | false => rfl
          | true => exact absurd (Nat.eq_of_beq_eq_true h) hk
        have hb' : (k == x) = false := by simpa using hk
        simpa [List.findSome?, List.find?, hb, hb'] using ih


theorem set_entry_ok {s s' : ClifSwitch} {k b : Nat} (h : s.set_entry k b = .ok s') :
    s'.cases = s.cases ++ [(k, b)] ∧ k ∉ s.cases.map (·.1) := by
  unfold ClifSwitch.set_entry at h
  split at h
  · cases h
  · next hn =>
    simp only [Res.ok.injEq] at h
    subst h
    refine ⟨rfl, ?_⟩
    intro hm
    apply hn
    obtain ⟨e, he, rfl⟩ := List.mem_map.mp hm
    exact List.any_eq_true.mpr ⟨e, he, by simp⟩

theorem foldl_set_entry {branches : List (Nat × Nat)} {s0 s : ClifSwitch}
    (h : branches.foldlM (fun s (e : Nat × Nat) => s.set_entry e.1 e.2) s0 = .ok s)
    (h0 : (s0.cases.map (·.1)).Nodup) :
    s.cases = s0.cases ++ branches ∧ (s.cases.map (·.1)).Nodup := by
  induction branches generalizing s0 with
  | nil =>
    simp only [List.foldlM, Res.pure_eq, Res.ok.injEq] at h
    subst h; exact ⟨by simp, h0⟩
  | cons e rest ih =>
    simp only [List.foldlM, Res.bind_eq_ok_iff] at h
    obtain ⟨s1, h1, h2⟩ := h
    obtain ⟨hc, hk⟩ := set_entry_ok h1
    have h1nd : (s1.cases.map (·.1)).Nodup := by
      rw [hc, List.map_append, List.nodup_append]
      refine ⟨h0, by simp, ?_⟩
      intro a ha b hb
      simp only [List.map_cons, List.map_nil, List.mem_singleton] at hb
      subst hb; intro heq; subst heq; exact hk ha
    obtain ⟨hs, hnd⟩ := ih h2 h1nd
    exact ⟨by rw [hs, hc]; simp, hnd⟩

/-- the code generator's `Switch` arm (generated shape) builds a Cranelift switch exactly when the
    keys of the table are distinct, and its cases are the table. -/
theorem cg_switch_ok {branches : List (Nat × Nat)} {s : ClifSwitch} (h : cg_Switch branches = .ok s) :
    s.cases = branches ∧ (branches.map (·.1)).Nodup := by
  have := foldl_set_entry (s0 := ClifSwitch.new) (by simpa [cg_Switch] using h) (by simp [ClifSwitch.new])
  simp only [ClifSwitch.new, List.nil_append] at this
  exact ⟨this.1, this.1 ▸ this.2⟩

/-- **T3.** For EVERY branch table the evaluator takes the first entry with the examinee's key or
    the default; whenever the compiled code exists (Cranelift accepts the table: distinct keys) the
    block it jumps to is the same.  `sw` is how the examinee is read (`switch_on`, see
    `switch_on_operand_bits`); `x` the value the compiled code switches on. -/
theorem switch_agrees (dbg : Bool) (sw : IrValue → Res Nat) (v : IrValue) (x : Nat)
    (branches : List (Nat × Nat)) (default : Nat) (s : ClifSwitch)
    (hx : sw v = .ok x) (hs : cg_Switch branches = .ok s) :
    eval_Switch dbg sw v branches default = .ok (s.target default x) := by
  rw [eval_switch_first, hx, Res.bind_ok]
  obtain ⟨hc, _⟩ := cg_switch_ok hs
  simp only [ClifSwitch.target, firstMatch, hc]
  rfl

theorem find_key_nodup {b : List (Nat × Nat)} (hnd : (b.map (·.1)).Nodup) {e : Nat × Nat} (he : e ∈ b) :
    b.find? (·.1 == e.1) = some e := by
  induction b with
  | nil => cases he
  | cons a rest ih =>
    simp only [List.map_cons, List.nodup_cons] at hnd
    by_cases ha : a.1 = e.1
    · have : e = a := by
        rcases List.mem_cons.mp he with h | h
        · exact h
        · exact absurd (List.mem_map.mpr ⟨e, h, ha.symm⟩) hnd.1
      subst this; simp [List.find?]
    · have her : e ∈ rest := by
        rcases List.mem_cons.mp he with h | h
        · subst h; exact absurd rfl ha
        · exact h
      have hb : (a.1 == e.1) = false := by simpa using ha
      simp only [List.find?, hb]
      exact ih hnd.2 her

/-- order does not matter to the compiled code, so it must not matter to the evaluator: for two
    tables with distinct keys that are permutations of each other the evaluator goes to the same
    label. -/
theorem switch_order_irrelevant (dbg : Bool) (sw : IrValue → Res Nat) (v : IrValue)
    (b1 b2 : List (Nat × Nat)) (default : Nat) (hp : b1.Perm b2) (hnd : (b1.map (·.1)).Nodup) :
    eval_Switch dbg sw v b1 default = eval_Switch dbg sw v b2 default := by
  rw [eval_switch_first, eval_switch_first]
  congr 1; funext x; congr 1
  have hnd2 : (b2.map (·.1)).Nodup := (hp.map _).nodup_iff.mp hnd
  unfold firstMatch
  cases h1 : b1.find? (·.1 == x) with
  | some e =>
    have he : e ∈ b1 := List.mem_of_find?_eq_some h1
    have hk : e.1 = x := by simpa using List.find?_some h1
    have := find_key_nodup hnd2 (hp.subset he)
    rw [hk] at this; rw [this]
  | none =>
    have hn : b2.find? (·.1 == x) = none := by
      rw [List.find?_eq_none] at h1 ⊢
      intro e he; exact h1 e (hp.symm.subset he)
    rw [hn]


/-- A branch table with ONE entry `[(k, l)]` (`if`/`while`/`&&`/`||` with k = 1 on a bool; a `match`
    with one explicit arm and `_` with k = the variant's discriminant): both sides test the examinee
    for EQUALITY with `k` — the evaluator's generated arm, and the Cranelift switch the code generator's
    (shape-checked) arm builds, which exists for every such table. -/
theorem switch_single_entry (dbg : Bool) (sw : IrValue → Res Nat) (v : IrValue) (x k l default : Nat)
    (hx : sw v = .ok x) :
    eval_Switch dbg sw v [(k, l)] default = .ok (if x = k then l else default)
    ∧ ∃ s, cg_Switch [(k, l)] = .ok s ∧ s.target default x = (if x = k then l else default) := by
  have hs : cg_Switch [(k, l)] = .ok ⟨[(k, l)]⟩ := by
    simp [cg_Switch, List.foldlM, ClifSwitch.set_entry, ClifSwitch.new]
  have hfm : firstMatch [(k, l)] default x = (if x = k then l else default) := by
    unfold firstMatch
    by_cases h : k = x
    · subst h; simp [List.find?]
    · have h' : ¬ x = k := fun e => h e.symm
      have hb : (k == x) = false := by simpa using h
      simp [List.find?, hb, h']
  refine ⟨?_, ⟨[(k, l)]⟩, hs, ?_⟩
  · rw [eval_switch_first, hx, Res.bind_ok, hfm]
  · have := switch_agrees dbg sw v x [(k, l)] default ⟨[(k, l)]⟩ hx hs
    rw [eval_switch_first, hx, Res.bind_ok, hfm] at this
    exact (Res.ok.inj this).symm

/-- the block a CLIF `brif x, then, else` reaches: a test for NON-ZERO -/
def brifTarget (x then_ else_ : Nat) : Nat := if x ≠ 0 then then_ else else_

/-- on a bool examinee (0 / 1) the one-entry table `[(1, l)]` and a `brif` coincide … -/
theorem brif_is_switch_on_bools (x l default : Nat) (hx : x ≤ 1) :
    brifTarget x l default = firstMatch [(1, l)] default x := by
  have : x = 0 ∨ x = 1 := by omega
  rcases this with h | h <;> subst h <;> simp [brifTarget, firstMatch, List.find?]

/-- … but NOT on a discriminant: for the examinee 2 (third variant of an enum matched with one explicit arm
    for the second variant and `_`) the table `[(1, l)]` selects the default, a `brif` the arm. A code
    generator that emits `brif` for this table disagrees with the evaluator (which is why the `Switch` arm
    of `FuncGen::instruction` is tied to the `set_entry`/`emit` shape). -/
theorem brif_is_not_switch_on_discriminants (l default : Nat) (h : l ≠ default) :
    brifTarget 2 l default ≠ firstMatch [(1, l)] default 2 := by
  simp [brifTarget, firstMatch, List.find?, h]

example : brifTarget 2 7 9 = 7 ∧ firstMatch [(1, 7)] 9 2 = 9 := by decide


/-- the examinee as the evaluator reads it (`switch_on`, generated in `EvalArms`) is the bit pattern
    of the operand the compiled code switches on; values `switch_on` does not support are a loud
    stop. -/
theorem switch_on_operand_bits (dbg : Bool) (v : IrValue) (x : U32)
    (h : Gen.EvalArms.IrValue.switch_on dbg v = .ok x) :
    ∃ cv, jitRepr v = some cv ∧ cv.bits = x.bv.toNat := by
  cases v <;> simp [Gen.EvalArms.IrValue.switch_on] at h
  case Bool b =>
    subst h
    exact ⟨_, jitRepr_Bool b, by cases b <;> decide⟩
  case U8 y =>
    subst h
    refine ⟨_, jitRepr_U8 y, ?_⟩
    have h1 := y.bv.isLt
    simp only [CVal.ofBv, RCast.cast, RInt.cast, RInt.ofInt, RInt.val, Bool.false_eq_true, if_false,
      BitVec.ofInt_natCast, BitVec.toNat_ofNat]
    rw [Nat.mod_eq_of_lt (by omega)]
  case U16 y =>
    subst h
    refine ⟨_, jitRepr_U16 y, ?_⟩
    have h1 := y.bv.isLt
    simp only [CVal.ofBv, RCast.cast, RInt.cast, RInt.ofInt, RInt.val, Bool.false_eq_true, if_false,
      BitVec.ofInt_natCast, BitVec.toNat_ofNat]
    rw [Nat.mod_eq_of_lt (by omega)]
  case U32 y =>
    subst h
    exact ⟨_, jitRepr_U32 y, rfl⟩
/-- T3 with the generated `switch_on`: when the evaluator reads the examinee as `x` and the compiled
    code exists, the evaluator's label is the block Cranelift's switch reaches on the operand's
    bits. -/
theorem switch_agrees_operand (dbg : Bool) (v : IrValue) (x : U32) (branches : List (Nat × Nat))
    (default : Nat) (s : ClifSwitch)
    (hx : Gen.EvalArms.IrValue.switch_on dbg v = .ok x) (hs : cg_Switch branches = .ok s) :
    ∃ cv, jitRepr v = some cv
      ∧ eval_Switch dbg (fun v => Gen.EvalArms.IrValue.switch_on dbg v >>= fun x => .ok x.bv.toNat) v
          branches default = .ok (s.target default cv.bits) := by
  obtain ⟨cv, hcv, hb⟩ := switch_on_operand_bits dbg v x hx
  refine ⟨cv, hcv, ?_⟩
  rw [hb]
  exact switch_agrees dbg _ v _ branches default s (by rw [hx]; rfl) hs

/-! ### access widths -/

/-- **Access width.** For every IR type the evaluator's `Read` takes `IrType::bytes` bytes (generated
    from value.rs) — exactly the width of the `load` the code generator emits for that type
    (`cranelift_type`, generated from codegen/mod.rs).  (Both `Read` arms are shape-checked: the
    evaluator reads `ty.bytes()` bytes and decodes them with `from_slice(ty, …)`, the code generator
    loads a `cranelift_type(ty)`.) -/
theorem read_width_is_load_width (dbg : Bool) (ty : IrType) :
    ∃ n c, IrType.bytes dbg ty = .ok n ∧ Gen.OpTables.cranelift_type dbg ty = .ok c ∧ 8 * n = c.bits := by
  cases ty <;> exact ⟨_, _, rfl, rfl, by decide⟩

/-- non-vacuity: a `u16` is read as 2 bytes and loaded as an `i16`. -/
example : IrType.bytes true .U16 = .ok 2 ∧ Gen.OpTables.cranelift_type true .U16 = .ok .I16 := by decide

/-! ### calls: arguments are bound positionally, like the CLIF call -/

/-- **Call argument passing.** The evaluator's `Call` arm binds the callee's i-th parameter to the
    i-th argument operand — exactly the pairs the compiled call binds (the code generator pushes the
    arguments in order; a CLIF call is positional) — for every parameter list and argument list. -/
theorem call_binds_positionally {α : Type} (params : List Nat) (args : List α) :
    eval_Call_bindings (some params) args = cg_Call_bindings params args
    ∧ ∀ i (hp : i < params.length) (ha : i < args.length),
        (eval_Call_bindings (some params) args)[i]? = some (params[i], args[i]) := by
  refine ⟨rfl, ?_⟩
  intro i hp ha
  simp [eval_Call_bindings, ROpt.flatten_iter, List.getElem?_zip_eq_some, hp, ha]

/-- non-vacuity: three parameters, three distinct arguments. -/
example : eval_Call_bindings (some [10, 11, 12]) ["a", "b", "c"] = [(10, "a"), (11, "b"), (12, "c")] := by
  decide

/-! ### call / return: frames are balanced and execution resumes after the call -/

/-- **Call/Return.** A `Return` that follows a `Call` made at program counter `pc` with destination
    `to` (whatever the callee allocated in its frame in between is gone with the frame): the caller's
    stack is back, execution continues at `pc + 1`, and the returned value goes to `to` — as the
    compiled `call` instruction falls through with the result.  In the root frame `Return` ends the
    evaluation with the value. -/
theorem call_then_return (dbg : Bool) (m m1 : Memory) (pc : Nat) (to : Option Nat) (val : Option IrValue)
    (hne : m.stack ≠ [])
    (hc : eval_Call_frame dbg m pc to = .ok m1) :
    ∃ m2, m2.stack = m.stack ∧ m2.pointers = m1.pointers ∧
      (match val, to with
        | some _, none => eval_Return dbg m1 val = .panic
        | some v, some t => eval_Return dbg m1 val = .ok (m2, .resume (pc + 1) (some (t, v)))
        | none, _ => eval_Return dbg m1 val = .ok (m2, .resume (pc + 1) none)) := by
  have h1 := push_frame_spec hc
  subst h1
  have hlen : m.stack.length ≠ 0 := by
    cases hs : m.stack with
    | nil => exact absurd hs hne
    | cons a rest => simp
  refine ⟨{ m with id_counter := m.id_counter + 1 }, rfl, rfl, ?_⟩
  cases val with
  | none =>
    simp [eval_Return, Memory.pop_frame, REq.eq, Vec.len, Vec.pop, hlen]
  | some v =>
    cases to with
    | none => simp [eval_Return, Memory.pop_frame, REq.eq, Vec.len, Vec.pop, hlen]
    | some t => simp [eval_Return, Memory.pop_frame, REq.eq, Vec.len, Vec.pop, hlen]

/-- in the root frame `Return` ends the evaluation with the value -/
theorem return_from_root (dbg : Bool) (m : Memory) (val : Option IrValue) (h1 : m.stack.length = 1) :
    eval_Return dbg m val = .ok (m, .finish val) := by
  have hpop : Memory.pop_frame dbg m = .ok (m, none) := by
    simp [Memory.pop_frame, REq.eq, Vec.len, h1]
  simp [eval_Return, hpop]

/-- non-vacuity: a call at program counter 41 into `to = 7`, returning `u32 5`. -/
example :
    (do let m ← Memory.default true
        let m ← eval_Call_frame true m 41 (some 7)
        let (_, fl) ← eval_Return true m (some (.U32 ⟨5⟩))
        pure fl) = .ok (.resume 42 (some (7, .U32 ⟨5⟩))) := by
  decide

/-! ### summary and non-vacuity -/

/-- **T2 `memory_checked`.** Every access through the evaluator's memory either panics or is
    checked: through a pointer that was handed out, into the live frame it was created in, within
    the requested bytes of its allocation, aligned to the access size — reading exactly those bytes
    / replacing exactly those bytes.  For all memories, pointers, sizes and values. -/
theorem memory_checked (dbg : Bool) (m : Memory) (p size : Nat) (val : List UInt8) (to from_ : Nat) :
    (Memory.read_slice dbg m p size = .panic
      ∨ (∃ g, m.pointers[p]? = some (.Global g))
      ∨ ∃ lp fr al bs, Memory.read_slice dbg m p size = .ok bs ∧ Checked m p size lp fr al
          ∧ bs = (al.inner.drop lp.allocation_offset).take size)
    ∧ (Memory.write dbg m p val = .panic
      ∨ ∃ lp fr al, Checked m p val.length lp fr al
          ∧ Memory.write dbg m p val
              = .ok (Memory.withAlloc m lp fr (Allocation.patched al lp.allocation_offset val)))
    ∧ (Memory.copy dbg m to from_ size = .panic
      ∨ ∃ bs m', Memory.read_slice dbg m from_ size = .ok bs ∧ Memory.write dbg m to bs = .ok m'
          ∧ Memory.copy dbg m to from_ size = .ok m') := by
  refine ⟨?_, ?_, ?_⟩
  · cases h : Memory.read_slice dbg m p size with
    | panic => exact Or.inl rfl
    | ok bs =>
      rcases read_checked h with hg | ⟨lp, fr, al, hc, hb⟩
      · exact Or.inr (Or.inl hg)
      · exact Or.inr (Or.inr ⟨lp, fr, al, bs, rfl, hc, hb⟩)
  · cases h : Memory.write dbg m p val with
    | panic => exact Or.inl rfl
    | ok m' =>
      obtain ⟨lp, fr, al, hc, rfl⟩ := write_checked h
      exact Or.inr ⟨lp, fr, al, hc, rfl⟩
  · cases h : Memory.copy dbg m to from_ size with
    | panic => exact Or.inl rfl
    | ok m' =>
      obtain ⟨bs, hr, hw⟩ := copy_checked h
      exact Or.inr ⟨bs, m', hr, hw, rfl⟩

/-- a memory with one 12-byte allocation in the root frame and a pointer to its offset 8 and one
    to its end -/
def demo : Res Memory := do
  let m ← Memory.default true
  let (m, p) ← Memory.allocate true m 12
  let (m, _) ← Memory.offset_by true m p 8
  let (m, _) ← Memory.offset_by true m p 12
  let (m, _) ← Memory.offset_by true m p 6
  pure m

/-- non-vacuity of `memory_checked` / `read_checked` / `write_checked`: on the 12-byte allocation the
    4-byte read at offset 8 completes, the one at offset 12 (just past the end, inside the next
    8-byte boundary) panics, an 8-byte read at 8 panics, a 4-byte read at 6 (misaligned) panics, and
    a 16-byte read of the whole allocation panics; the write at 8 completes and is read back. -/
example :
    (demo >>= fun m => Memory.read_slice true m 1 4) = .ok [0, 0, 0, 0]
    ∧ (demo >>= fun m => Memory.read_slice true m 2 4) = .panic
    ∧ (demo >>= fun m => Memory.read_slice true m 1 8) = .panic
    ∧ (demo >>= fun m => Memory.read_slice true m 3 4) = .panic
    ∧ (demo >>= fun m => Memory.read_slice true m 0 16) = .panic
    ∧ (demo >>= fun m => Memory.write true m 2 [1]) = .panic
    ∧ (demo >>= fun m => Memory.write true m 1 [1, 2, 3, 4] >>= fun m => Memory.read_slice true m 0 12)
        = .ok [0, 0, 0, 0, 0, 0, 0, 0, 1, 2, 3, 4] := by
  decide

/-- non-vacuity of the frame theorems: a pointer into a popped frame panics, also after a new frame
    was pushed at the same depth with an allocation at the same index. -/
example :
    (do let m ← Memory.default true
        let m ← Memory.push_frame true m 0 none
        let (m, p) ← Memory.allocate true m 8
        let (m, _) ← Memory.pop_frame true m
        let m ← Memory.push_frame true m 0 none
        let (m, q) ← Memory.allocate true m 8
        pure (Memory.read_slice true m p 8, Memory.read_slice true m q 8, (Memory.write true m p [7]).isPanic))
      = .ok (.panic, .ok [0, 0, 0, 0, 0, 0, 0, 0], true) := by
  decide

/-- non-vacuity of T3: an unsorted table with a duplicate key — the evaluator takes the first
    entry; Cranelift rejects that table, and accepts the duplicate-free one with the same answer. -/
example :
    eval_Switch true (fun _ => .ok 3) (.U32 ⟨3⟩) [(5, 50), (3, 30), (1, 10), (3, 31)] 99 = .ok 30
    ∧ cg_Switch [(5, 50), (3, 30), (1, 10), (3, 31)] = .panic
    ∧ (cg_Switch [(5, 50), (3, 30), (1, 10)]).map' (fun s => s.target 99 3) = .ok 30
    ∧ eval_Switch true (fun _ => .ok 7) (.U32 ⟨7⟩) [(5, 50), (3, 30), (1, 10)] 99 = .ok 99 := by
  decide

end RotoV.C20
