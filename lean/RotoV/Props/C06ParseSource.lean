/-
  C06, parser: the decision tables and call skeletons of the parser regenerated from
  src/parser/{mod,expr,filter_map,signature,lexer,meta}.rs on every run (translator target
  `parsefacts`, `Generated/ParseFacts.lean`) are the ones the hand-written parser model
  (`Model/ParseBase.lean`, `Model/Parse.lean`) was written against. One obligation per Rust
  function: a reordered / removed / added call, a changed token, `?` turned into `.unwrap()`,
  a new index or slice, a changed condition changes the generated definition and the `rfl`
  below stops checking. Renaming a local, reformatting, comments and items under
  `#[cfg(feature = "verif-hooks")]` change nothing.

  WRITTEN BY tools/pin_parse_facts.py — regenerate it only together with the model.
-/
import RotoV.Generated.ParseFacts

namespace RotoV.C06ParseSource
open RotoV.Gen

/-- decision table `canStartExpression` -/
theorem source_canStartExpression : ParseFacts.canStartExpression = ["RoundLeft", "CurlyLeft", "SquareLeft", "Ident", "Keyword(Super)", "Keyword(Pkg)", "Keyword(Dep)", "Keyword(Std)", "Bang", "Bool", "Integer", "Float", "Hyphen", "IpV4", "IpV6", "Asn", "String", "Char", "Hex", "FStringStart", "Keyword(If)", "Keyword(Match)", "Keyword(Super)", "Keyword(Pkg)", "Keyword(Dep)", "Keyword(Std)"] := rfl

/-- decision table `rootItems` -/
theorem source_rootItems : ParseFacts.rootItems = [("Keyword(FilterMap)", "filter_map"), ("Keyword(Filter)", "filter_map"), ("Keyword(Const)", "constant"), ("Keyword(Record)", "record_type_assignment"), ("Keyword(Enum)", "enum_declaration"), ("Keyword(Fn)", "function"), ("Keyword(Test)", "test"), ("Keyword(Import)", "import")] := rfl

/-- decision table `blockStmtKeywords` -/
theorem source_blockStmtKeywords : ParseFacts.blockStmtKeywords = ["Import", "Let", "If", "Match", "While", "For"] := rfl

/-- decision table `atomChecks` -/
theorem source_atomChecks : ParseFacts.atomChecks = ["RoundLeft", "SquareLeft", "CurlyLeft", "peek:Keyword(Accept)|Keyword(Reject)|Keyword(Return)", "Keyword(If)", "Keyword(Match)", "Keyword(While)", "Keyword(For)", "matches:Ident|Keyword(Super)|Keyword(Pkg)|Keyword(Dep)|Keyword(Std)", "FStringStart"] := rfl

/-- decision table `atomPathStarts` -/
theorem source_atomPathStarts : ParseFacts.atomPathStarts = ["Ident", "Keyword(Super)", "Keyword(Pkg)", "Keyword(Dep)", "Keyword(Std)"] := rfl

/-- decision table `returnKinds` -/
theorem source_returnKinds : ParseFacts.returnKinds = [("Keyword(Accept)", "Accept"), ("Keyword(Reject)", "Reject"), ("Keyword(Return)", "Return")] := rfl

/-- decision table `recordWindows` -/
theorem source_recordWindows : ParseFacts.recordWindows = [["CurlyLeft", "CurlyRight"], ["CurlyLeft", "Ident", "Colon"]] := rfl

/-- decision table `peekManyStops` -/
theorem source_peekManyStops : ParseFacts.peekManyStops = ["FStringStart"] := rfl

/-- decision table `pathItemArms` -/
theorem source_pathItemArms : ParseFacts.pathItemArms = ["Keyword(Pkg)", "Keyword(Dep)", "Keyword(Super)", "Ident"] := rfl

/-- decision table `literalIpStarts` -/
theorem source_literalIpStarts : ParseFacts.literalIpStarts = ["IpV4", "IpV6"] := rfl

/-- decision table `ipAddressArms` -/
theorem source_ipAddressArms : ParseFacts.ipAddressArms = ["IpV4", "IpV6"] := rfl

/-- decision table `simpleLiteralArms` -/
theorem source_simpleLiteralArms : ParseFacts.simpleLiteralArms = ["String", "Char", "Integer", "Float", "Hex", "Asn", "Bool"] := rfl

/-- decision table `identifierArms` -/
theorem source_identifierArms : ParseFacts.identifierArms = ["Ident", "Keyword", "_"] := rfl

/-- decision table `peekBinopTokens` -/
theorem source_peekBinopTokens : ParseFacts.peekBinopTokens = [("AmpAmp", "And"), ("PipePipe", "Or"), ("EqEq", "Eq"), ("BangEq", "Ne"), ("AngleLeftEq", "Le"), ("AngleRightEq", "Ge"), ("AngleLeft", "Lt"), ("AngleRight", "Gt"), ("Plus", "Add"), ("Hyphen", "Sub"), ("Star", "Mul"), ("Slash", "Div"), ("Percent", "Mod")] := rfl

/-- decision table `compoundAssignTokens` -/
theorem source_compoundAssignTokens : ParseFacts.compoundAssignTokens = [("PlusEq", "Add"), ("MinusEq", "Sub"), ("StarEq", "Mul"), ("SlashEq", "Div"), ("PercentEq", "Mod")] := rfl

/-- decision table `assignToken` -/
theorem source_assignToken : ParseFacts.assignToken = "Eq" := rfl

/-- decision table `filterMapArms` -/
theorem source_filterMapArms : ParseFacts.filterMapArms = [("Keyword(FilterMap)", "FilterMap"), ("Keyword(Filter)", "Filter")] := rfl

/-- decision table `almostKeywords` -/
theorem source_almostKeywords : ParseFacts.almostKeywords = ["loop", "struct", "class", "data", "use", "switch", "var", "local", "function", "fun", "func", "def"] := rfl

/-- decision table `prefixOps` -/
theorem source_prefixOps : ParseFacts.prefixOps = [("Bang", "Not"), ("Hyphen", "Negate")] := rfl

/-- decision table `parserMethods` -/
theorem source_parserMethods : ParseFacts.parserMethods = ["access", "add_span", "args", "assign_expr", "atom", "binop_expr", "block", "can_start_expression", "compound_assign_expr", "constant", "enum_declaration", "enum_variant", "expr", "expr_inner", "expr_no_records", "f_string", "filter_map", "for_expr", "function", "get_span", "identifier", "if_else", "import", "ip_address", "literal", "match_expr", "merge_spans", "negation", "next", "next_is", "params", "parse", "parse_signature", "path", "path_expr", "path_item", "path_list", "peek", "peek_binop", "peek_is", "peek_many", "record", "record_field", "record_type", "record_type_assignment", "root", "run_parser", "separated", "signature", "simple_literal", "take", "test", "tree", "type_expr", "type_expr_atom", "type_ident_field", "type_parameters", "while_expr"] := rfl

/-- `next` — model: pnext -/
theorem source_skel_next : ParseFacts.skel_next = [
  "self.lexer.next()",
  "match",
  "arm(None)",
  "Span::new",
  "error:EndOfInput",
  "arm(Some((Err(()),v0)))",
  "Span::new",
  "error:InvalidToken",
  "arm(Some((Ok(v1),v0)))",
  "Span::new",
  "endmatch"
] := rfl

/-- `next_is` — model: nextIs -/
theorem source_skel_next_is : ParseFacts.skel_next_is = [
  "self.peek_is(v0)",
  "if",
  "self.next()",
  ".unwrap()",
  "else",
  "endif"
] := rfl

/-- `peek` — model: ppeek -/
theorem source_skel_peek : ParseFacts.skel_peek = [
  "self.lexer.peek()",
  "match",
  "arm(Some((Ok(v0),v1)))",
  "arm(_)",
  "endmatch"
] := rfl

/-- `peek_many` — model: peekMany (ParseBase) / isRecord -/
theorem source_skel_peek_many : ParseFacts.skel_peek_many = [
  "self.lexer.peek_many()"
] := rfl

/-- `peek_is` — model: peekIs -/
theorem source_skel_peek_is : ParseFacts.skel_peek_is = [
  "self.peek()",
  "letelse(Some(v1))",
  "return",
  "endletelse"
] := rfl

/-- `take` — model: take -/
theorem source_skel_take : ParseFacts.skel_take = [
  "self.next()",
  "?",
  "cond:v1==v0",
  "if",
  "else",
  "error:expected",
  "endif"
] := rfl

/-- `separated` — model: separated / sepLoop -/
theorem source_skel_separated : ParseFacts.skel_separated = [
  "self.take(v0)",
  "?",
  "self.peek_is(v1)",
  "if",
  "self.take(v1)",
  "?",
  ".merge",
  "self.add_span(v6,v4)",
  "return",
  "endif",
  "call:parser(self)",
  "?",
  "self.next_is(v2)",
  "while",
  "self.peek_is(v1)",
  "if",
  "break",
  "endif",
  "call:parser(self)",
  "?",
  "endwhile",
  "self.take(v1)",
  "?",
  ".merge",
  "self.add_span(v6,v4)"
] := rfl

/-- `parse` — model: parse -/
theorem source_skel_parse : ParseFacts.skel_parse = [
  "call:Self::run_parser(Self::tree,v0,v1,v2)"
] := rfl

/-- `run_parser` — model: parseWith -/
theorem source_skel_run_parser : ParseFacts.skel_run_parser = [
  "call:parser(p)",
  "cond:parser(&mutp)",
  "match",
  "arm(Ok(v3))",
  "arm(Err(mutv4))",
  "cond:p.lexer.almost_keyword",
  "iflet(Some(v5))",
  "cond:v5.2",
  "match",
  "arm(Some(v10))",
  "arm(None)",
  "endmatch",
  "endif",
  "return",
  "endmatch",
  "p.lexer.next()",
  "iflet(Some((_,v11)))",
  "Span::new",
  "error:FailedToParseEntireInput",
  "return",
  "endif"
] := rfl

/-- `tree` — model: treeLoop -/
theorem source_skel_tree : ParseFacts.skel_tree = [
  "self.lexer.skip_shebang()",
  "self.peek()",
  "cond:self.peek().is_some()",
  "while",
  "self.root()",
  "?",
  "endwhile"
] := rfl

/-- `root` — model: root -/
theorem source_skel_root : ParseFacts.skel_root = [
  "Span::new",
  "error:EndOfInput",
  "self.peek()",
  "?",
  "cond:self.peek().ok_or(v0)?",
  "match",
  "arm(Token::Keyword(Keyword::FilterMap|Keyword::Filter))",
  "self.filter_map()",
  "?",
  "arm(Token::Keyword(Keyword::Const))",
  "self.constant()",
  "?",
  "arm(Token::Keyword(Keyword::Record))",
  "self.record_type_assignment()",
  "?",
  "arm(Token::Keyword(Keyword::Enum))",
  "self.enum_declaration()",
  "?",
  "arm(Token::Keyword(Keyword::Fn))",
  "self.function()",
  "?",
  "arm(Token::Keyword(Keyword::Test))",
  "self.test()",
  "?",
  "arm(Token::Keyword(Keyword::Import))",
  "self.import()",
  "?",
  "arm(_)",
  "self.next()",
  "?",
  "error:expected",
  "return",
  "endmatch"
] := rfl

/-- `constant` — model: constant -/
theorem source_skel_constant : ParseFacts.skel_constant = [
  "self.take(Token::Keyword(Keyword::Const))",
  "?",
  "self.identifier()",
  "?",
  "self.take(Token::Colon)",
  "?",
  "self.type_expr()",
  "?",
  "self.take(Token::Eq)",
  "?",
  "self.expr()",
  "?",
  "self.take(Token::SemiColon)",
  "?"
] := rfl

/-- `function` — model: function -/
theorem source_skel_function : ParseFacts.skel_function = [
  "self.take(Token::Keyword(Keyword::Fn))",
  "?",
  "self.identifier()",
  "?",
  "self.params()",
  "?",
  "self.next_is(Token::Arrow)",
  "if",
  "self.type_expr()",
  "?",
  "else",
  "endif",
  "self.block()",
  "?"
] := rfl

/-- `test` — model: test -/
theorem source_skel_test : ParseFacts.skel_test = [
  "self.take(Token::Keyword(Keyword::Test))",
  "?",
  "self.identifier()",
  "?",
  "self.block()",
  "?"
] := rfl

/-- `import` — model: importStmt -/
theorem source_skel_import : ParseFacts.skel_import = [
  "self.take(Token::Keyword(Keyword::Import))",
  "?",
  "self.path_expr()",
  "?",
  "self.take(Token::SemiColon)",
  "?"
] := rfl

/-- `identifier` — model: identifier -/
theorem source_skel_identifier : ParseFacts.skel_identifier = [
  "self.next()",
  "?",
  "cond:v0",
  "match",
  "arm(Token::Ident(v3))",
  "arm(Token::Keyword(_))",
  "error:expected",
  "return",
  "arm(_)",
  "error:expected",
  "return",
  "endmatch",
  "self.add_span(v1,v2)"
] := rfl

/-- `add_span` — model: addNode -/
theorem source_skel_add_span : ParseFacts.skel_add_span = [
  "self.spans.add(v0,v1)"
] := rfl

/-- `get_span` — model: getSpan -/
theorem source_skel_get_span : ParseFacts.skel_get_span = [
  "self.spans.get(v0)"
] := rfl

/-- `merge_spans` — model: mergeSpans -/
theorem source_skel_merge_spans : ParseFacts.skel_merge_spans = [
  "self.spans.merge(v0,v1)"
] := rfl

/-- `block` — model: block / blockLoop / blockKw -/
theorem source_skel_block : ParseFacts.skel_block = [
  "self.take(Token::CurlyLeft)",
  "?",
  "loop",
  "self.peek_is(Token::CurlyRight)",
  "if",
  "self.take(Token::CurlyRight)",
  "?",
  ".merge",
  "self.spans.add(v0.merge(v3),Block{imports:v1,stmts:v2,last:None})",
  "return",
  "endif",
  "self.peek_is(Token::Keyword(Keyword::Import))",
  "if",
  "self.import()",
  "?",
  "else",
  "self.peek_is(Token::Keyword(Keyword::Let))",
  "if",
  "self.take(Token::Keyword(Keyword::Let))",
  "?",
  "self.identifier()",
  "?",
  "self.peek_is(Token::Colon)",
  "if",
  "self.take(Token::Colon)",
  "?",
  "self.type_expr()",
  "?",
  "else",
  "endif",
  "self.take(Token::Eq)",
  "?",
  "self.expr()",
  "?",
  "self.take(Token::SemiColon)",
  "?",
  ".merge",
  "self.spans.add(v0.merge(v3),Stmt::Let(v5,v6,v7))",
  "else",
  "self.peek_is(Token::Keyword(Keyword::If))",
  "if",
  "self.if_else()",
  "?",
  "self.peek_is(Token::CurlyRight)",
  "if",
  "self.take(Token::CurlyRight)",
  "?",
  ".merge",
  "self.spans.add(v8,Block{imports:v1,stmts:v2,last:Some(Box::new(v7))})",
  "return",
  "endif",
  "self.next_is(Token::SemiColon)",
  "else",
  "self.peek_is(Token::Keyword(Keyword::Match))",
  "if",
  "self.match_expr()",
  "?",
  "self.peek_is(Token::CurlyRight)",
  "if",
  "self.take(Token::CurlyRight)",
  "?",
  ".merge",
  "self.spans.add(v8,Block{imports:v1,stmts:v2,last:Some(Box::new(v7))})",
  "return",
  "endif",
  "self.next_is(Token::SemiColon)",
  "else",
  "self.peek_is(Token::Keyword(Keyword::While))",
  "if",
  "self.while_expr()",
  "?",
  "self.peek_is(Token::CurlyRight)",
  "if",
  "self.take(Token::CurlyRight)",
  "?",
  ".merge",
  "self.spans.add(v8,Block{imports:v1,stmts:v2,last:Some(Box::new(v7))})",
  "return",
  "endif",
  "self.next_is(Token::SemiColon)",
  "else",
  "self.peek_is(Token::Keyword(Keyword::For))",
  "if",
  "self.for_expr()",
  "?",
  "self.peek_is(Token::CurlyRight)",
  "if",
  "self.take(Token::CurlyRight)",
  "?",
  ".merge",
  "self.spans.add(v8,Block{imports:v1,stmts:v2,last:Some(Box::new(v7))})",
  "return",
  "endif",
  "self.next_is(Token::SemiColon)",
  "else",
  "self.expr()",
  "?",
  "self.next_is(Token::SemiColon)",
  "if",
  "else",
  "self.take(Token::CurlyRight)",
  "?",
  ".merge",
  "self.spans.add(v8,Block{imports:v1,stmts:v2,last:Some(Box::new(v7))})",
  "return",
  "endif",
  "endif",
  "endif",
  "endif",
  "endif",
  "endif",
  "endif",
  "endloop"
] := rfl

/-- `expr` — model: assignExpr _ false -/
theorem source_skel_expr : ParseFacts.skel_expr = [
  "self.expr_inner(Restrictions{forbid_records:false})"
] := rfl

/-- `expr_no_records` — model: assignExpr _ true -/
theorem source_skel_expr_no_records : ParseFacts.skel_expr_no_records = [
  "self.expr_inner(Restrictions{forbid_records:true})"
] := rfl

/-- `expr_inner` — model: assignExpr -/
theorem source_skel_expr_inner : ParseFacts.skel_expr_inner = [
  "self.assign_expr(v0)"
] := rfl

/-- `assign_expr` — model: assignExpr -/
theorem source_skel_assign_expr : ParseFacts.skel_assign_expr = [
  "self.binop_expr(None,v0)",
  "?",
  "self.next_is(Token::Eq)",
  "if",
  "cond:&*v1",
  "letelse(Expr::Path(v2))",
  "self.get_span(v1)",
  "error:custom",
  "return",
  "endletelse",
  "self.binop_expr(None,v0)",
  "?",
  "self.merge_spans(v1,v3)",
  "self.spans.add(v4,Expr::Assign(v2.clone(),Box::new(v3)))",
  "else",
  "self.next_is(Token::PlusEq)",
  "if",
  "self.compound_assign_expr(v1,CompoundAssignOp::Add,v0)",
  "else",
  "self.next_is(Token::MinusEq)",
  "if",
  "self.compound_assign_expr(v1,CompoundAssignOp::Sub,v0)",
  "else",
  "self.next_is(Token::StarEq)",
  "if",
  "self.compound_assign_expr(v1,CompoundAssignOp::Mul,v0)",
  "else",
  "self.next_is(Token::SlashEq)",
  "if",
  "self.compound_assign_expr(v1,CompoundAssignOp::Div,v0)",
  "else",
  "self.next_is(Token::PercentEq)",
  "if",
  "self.compound_assign_expr(v1,CompoundAssignOp::Mod,v0)",
  "else",
  "endif",
  "endif",
  "endif",
  "endif",
  "endif",
  "endif"
] := rfl

/-- `compound_assign_expr` — model: compoundAssign -/
theorem source_skel_compound_assign_expr : ParseFacts.skel_compound_assign_expr = [
  "self.binop_expr(None,v2)",
  "?",
  "self.merge_spans(v0,v3)",
  "cond:v0.node",
  "letelse(Expr::Path(v5))",
  "self.get_span(v0)",
  "error:custom",
  "return",
  "endletelse",
  "self.add_span(v4,())",
  "self.spans.add(v4,Expr::CompoundAssign(CompoundAssign{binop_id:v6,path_expr_id:v0.id,path:…"
] := rfl

/-- `binop_expr` — model: binopExpr / binopLoop -/
theorem source_skel_binop_expr : ParseFacts.skel_binop_expr = [
  "self.negation(v1)",
  "?",
  "self.peek_binop()",
  "whilelet(Some(v3))",
  "cond:v0",
  "iflet(Some(v0))",
  "cond:v4",
  "match",
  "arm(Associativity::Right)",
  "arm(Associativity::Left)",
  "break",
  "arm(Associativity::Not)",
  "self.next()",
  "?",
  "error:custom",
  "return",
  "endmatch",
  "endif",
  "self.next()",
  "?",
  "self.binop_expr(Some(v3),v1)",
  "?",
  "self.spans.merge(v2,v7)",
  "self.spans.add(v5,v8)",
  "endwhile"
] := rfl

/-- `peek_binop` — model: peekBinop -/
theorem source_skel_peek_binop : ParseFacts.skel_peek_binop = [
  "self.peek()",
  "?",
  "match",
  "arm(Token::AmpAmp)",
  "arm(Token::PipePipe)",
  "arm(Token::EqEq)",
  "arm(Token::BangEq)",
  "arm(Token::AngleLeftEq)",
  "arm(Token::AngleRightEq)",
  "arm(Token::AngleLeft)",
  "arm(Token::AngleRight)",
  "arm(Token::Plus)",
  "arm(Token::Hyphen)",
  "arm(Token::Star)",
  "arm(Token::Slash)",
  "arm(Token::Percent)",
  "arm(_)",
  "return",
  "endmatch"
] := rfl

/-- `negation` — model: negation -/
theorem source_skel_negation : ParseFacts.skel_negation = [
  "self.peek_is(Token::Bang)",
  "if",
  "self.take(Token::Bang)",
  "?",
  "self.negation(v0)",
  "?",
  "self.get_span(v2)",
  ".merge",
  "self.spans.add(v1,Expr::Not(Box::new(v2)))",
  "else",
  "self.peek_is(Token::Hyphen)",
  "if",
  "self.take(Token::Hyphen)",
  "?",
  "self.negation(v0)",
  "?",
  "self.get_span(v2)",
  ".merge",
  "self.spans.add(v1,Expr::Negate(Box::new(v2)))",
  "else",
  "self.access(v0)",
  "endif",
  "endif"
] := rfl

/-- `access` — model: access / accessLoop -/
theorem source_skel_access : ParseFacts.skel_access = [
  "self.atom(v0)",
  "?",
  "loop",
  "self.peek_is(Token::QuestionMark)",
  "if",
  "self.take(Token::QuestionMark)",
  "?",
  "self.get_span(v1)",
  ".merge",
  "self.spans.add(v2,Expr::QuestionMark(Box::new(v1)))",
  "else",
  "self.peek_is(Token::RoundLeft)",
  "if",
  "self.args()",
  "?",
  "self.merge_spans(v1,v3)",
  "self.spans.add(v2,Expr::FunctionCall(Box::new(v1),v3))",
  "else",
  "self.next_is(Token::Period)",
  "if",
  "self.identifier()",
  "?",
  "self.merge_spans(v1,v4)",
  "self.spans.add(v2,Expr::Access(Box::new(v1),v4))",
  "else",
  "break",
  "endif",
  "endif",
  "endif",
  "endloop"
] := rfl

/-- `atom` — model: atom -/
theorem source_skel_atom : ParseFacts.skel_atom = [
  "self.peek_is(Token::RoundLeft)",
  "if",
  "self.take(Token::RoundLeft)",
  "?",
  "self.peek_is(Token::RoundRight)",
  "if",
  "self.take(Token::RoundRight)",
  "?",
  ".merge",
  "self.spans.add(v3,Literal::Unit)",
  "return",
  "endif",
  "self.expr()",
  "?",
  "self.take(Token::RoundRight)",
  "?",
  "return",
  "endif",
  "self.peek_is(Token::SquareLeft)",
  "if",
  "self.separated(Token::SquareLeft,Token::SquareRight,Token::Comma,Self::expr)",
  "?",
  "return",
  "endif",
  "self.peek_is(Token::CurlyLeft)",
  "if",
  "self.peek_many::<2>()",
  "matches(Some([Token::CurlyLeft,Token::CurlyRight]))",
  "self.peek_many::<3>()",
  "matches(Some([Token::CurlyLeft,Token::Ident(_),Token::Colon]))",
  "cond:v7",
  "if",
  "self.record()",
  "?",
  "self.spans.get(v8)",
  "self.spans.add(v3,Expr::Record(v8))",
  "return",
  "else",
  "self.block()",
  "?",
  "self.get_span(v9)",
  "self.spans.add(v3,Expr::Block(v9))",
  "return",
  "endif",
  "endif",
  "self.peek()",
  "iflet(Some(Token::Keyword(Keyword::Accept|Keyword::Reject|Keyword::Return)))",
  "self.next()",
  "?",
  "cond:v10",
  "match",
  "arm(Token::Keyword(Keyword::Accept))",
  "arm(Token::Keyword(Keyword::Reject))",
  "arm(Token::Keyword(Keyword::Return))",
  "arm(_)",
  "unreachable!",
  "endmatch",
  "self.peek()",
  "match",
  "arm(Some(v13)ifSelf::can_start_expression(v13))",
  "call:Self::can_start_expression(v13)",
  "self.expr()",
  "?",
  "self.spans.get(v5.id)",
  ".merge",
  "arm(_)",
  "endmatch",
  "self.spans.add(v3,Expr::Return(v11,v12))",
  "return",
  "endif",
  "self.peek_is(Token::Keyword(Keyword::If))",
  "if",
  "self.if_else()",
  "return",
  "endif",
  "self.peek_is(Token::Keyword(Keyword::Match))",
  "if",
  "self.match_expr()",
  "return",
  "endif",
  "self.peek_is(Token::Keyword(Keyword::While))",
  "if",
  "self.while_expr()",
  "return",
  "endif",
  "self.peek_is(Token::Keyword(Keyword::For))",
  "if",
  "self.for_expr()",
  "return",
  "endif",
  "self.peek()",
  "matches(Some(Token::Ident(_)|Token::Keyword(Keyword::Super|Keyword::Pkg|Keyword::Dep|Keywo…",
  "if",
  "self.path()",
  "?",
  "self.peek_is(Token::CurlyLeft)",
  "cond:!v0.forbid_records&&self.peek_is(Token::CurlyLeft)",
  "if",
  "self.record()",
  "?",
  "self.merge_spans(v14,v8)",
  "self.spans.add(v3,Expr::TypedRecord(v14,v8))",
  "return",
  "else",
  "return",
  "endif",
  "endif",
  "self.peek_is(Token::FStringStart)",
  "if",
  "self.f_string()",
  "return",
  "endif",
  "self.literal()",
  "?"
] := rfl

/-- `can_start_expression` — model: canStart -/
theorem source_skel_can_start_expression : ParseFacts.skel_can_start_expression = [
  "cond:v0",
  "matches(Token::RoundLeft|Token::CurlyLeft|Token::SquareLeft|Token::Ident(..)|Token::Keywor…"
] := rfl

/-- `if_else` — model: ifElse -/
theorem source_skel_if_else : ParseFacts.skel_if_else = [
  "self.take(Token::Keyword(Keyword::If))",
  "?",
  "self.expr_no_records()",
  "?",
  "self.block()",
  "?",
  "self.next_is(Token::Keyword(Keyword::Else))",
  "if",
  "self.peek_is(Token::Keyword(Keyword::If))",
  "if",
  "self.if_else()",
  "?",
  "else",
  "self.block()",
  "?",
  "endif",
  "self.spans.get(v3)",
  ".merge",
  "self.spans.add(v5,Expr::IfElse(Box::new(v1),v2,Some(v3)))",
  "else",
  "self.spans.get(v2)",
  ".merge",
  "self.spans.add(v5,Expr::IfElse(Box::new(v1),v2,None))",
  "endif"
] := rfl

/-- `while_expr` — model: whileExpr -/
theorem source_skel_while_expr : ParseFacts.skel_while_expr = [
  "self.take(Token::Keyword(Keyword::While))",
  "?",
  "self.expr_no_records()",
  "?",
  "self.block()",
  "?",
  "self.spans.get(v2)",
  ".merge",
  "self.spans.add(v3,Expr::While(Box::new(v1),v2))"
] := rfl

/-- `for_expr` — model: forExpr -/
theorem source_skel_for_expr : ParseFacts.skel_for_expr = [
  "self.take(Token::Keyword(Keyword::For))",
  "?",
  "self.identifier()",
  "?",
  "self.take(Token::Keyword(Keyword::In))",
  "?",
  "self.expr_no_records()",
  "?",
  "self.block()",
  "?",
  "self.spans.get(v3)",
  ".merge",
  "self.spans.add(v4,Expr::For(v1,Box::new(v2),v3))"
] := rfl

/-- `match_expr` — model: matchExpr / matchLoop -/
theorem source_skel_match_expr : ParseFacts.skel_match_expr = [
  "self.take(Token::Keyword(Keyword::Match))",
  "?",
  "self.expr_no_records()",
  "?",
  "self.take(Token::CurlyLeft)",
  "?",
  "self.peek_is(Token::CurlyRight)",
  "cond:!self.peek_is(Token::CurlyRight)",
  "while",
  "self.identifier()",
  "?",
  "self.get_span(v3)",
  "cond:v5==\"_\"",
  "if",
  "else",
  "self.peek_is(Token::RoundLeft)",
  "if",
  "self.separated(Token::RoundLeft,Token::RoundRight,Token::Comma,Self::identifier)",
  "?",
  "self.merge_spans(v3,v8)",
  "else",
  "endif",
  "endif",
  "self.add_span(v4,v6)",
  "self.next_is(Token::Keyword(Keyword::If))",
  "if",
  "self.expr()",
  "?",
  "else",
  "endif",
  "self.take(Token::FatArrow)",
  "?",
  "self.peek_is(Token::CurlyLeft)",
  "if",
  "self.block()",
  "?",
  "self.next_is(Token::Comma)",
  "else",
  "self.expr()",
  "?",
  "self.peek_is(Token::CurlyRight)",
  "cond:!self.peek_is(Token::CurlyRight)",
  "if",
  "self.take(Token::Comma)",
  "?",
  "endif",
  "endif",
  "endwhile",
  "self.take(Token::CurlyRight)",
  "?",
  ".merge",
  "self.spans.add(v4,Match{expr:v1,arms:v2})",
  "self.spans.add(v4,Expr::Match(Box::new(v13)))"
] := rfl

/-- `literal` — model: literal -/
theorem source_skel_literal : ParseFacts.skel_literal = [
  "self.peek()",
  "matches(Some(Token::IpV4(_)|Token::IpV6(_)))",
  "if",
  "self.ip_address()",
  "?",
  "return",
  "endif",
  "self.simple_literal()"
] := rfl

/-- `ip_address` — model: ipAddress -/
theorem source_skel_ip_address : ParseFacts.skel_ip_address = [
  "self.next()",
  "?",
  "cond:v0",
  "match",
  "arm(Token::IpV4(v3))",
  "closure",
  "error:invalid_literal",
  "endclosure",
  "?",
  "arm(Token::IpV6(v3))",
  "closure",
  "error:invalid_literal",
  "endclosure",
  "?",
  "arm(_)",
  "error:expected",
  "return",
  "endmatch",
  "self.spans.add(v1,v2)"
] := rfl

/-- `simple_literal` — model: simpleLiteral (decoding: the oracle `Ctx.lit`) -/
theorem source_skel_simple_literal : ParseFacts.skel_simple_literal = [
  "self.next()",
  "?",
  "cond:v0",
  "match",
  "arm(Token::String(v3))",
  "sub:v3.len()-1",
  "index:v3[1..v3.len()-1]",
  "call:unescape_str(v4,v1)",
  "?",
  "arm(Token::Char(v3))",
  "sub:v3.len()-1",
  "index:v3[1..v3.len()-1]",
  "call:unescape_char(v4,v1)",
  "?",
  "arm(Token::Integer(v3,v6))",
  "cond:v6",
  "match",
  "arm(\"f32\")",
  "closure",
  "error:invalid_literal",
  "endclosure",
  "?",
  "arm(\"f64\")",
  "closure",
  "error:invalid_literal",
  "endclosure",
  "?",
  "arm(_)",
  "closure",
  "error:invalid_literal",
  "endclosure",
  "?",
  "cond:v6",
  "match",
  "arm(\"i8\")",
  "arm(\"i16\")",
  "arm(\"i32\")",
  "arm(\"i64\")",
  "arm(\"u8\")",
  "arm(\"u16\")",
  "arm(\"u32\")",
  "arm(\"u64\")",
  "arm(\"\")",
  "arm(_)",
  "error:invalid_literal",
  "return",
  "endmatch",
  "endmatch",
  "arm(Token::Float(v3,v11))",
  "closure",
  "error:invalid_literal",
  "endclosure",
  "?",
  "cond:v11",
  "match",
  "arm(\"f32\")",
  "arm(\"f64\")",
  "arm(\"\")",
  "arm(_)",
  "error:invalid_literal",
  "return",
  "endmatch",
  "arm(Token::Hex(v3))",
  "index:v3[2..]",
  "call:i64::from_str_radix(&v3[2..],16)",
  "closure",
  "error:invalid_literal",
  "endclosure",
  "?",
  "arm(Token::Asn(v3))",
  "index:v3[2..]",
  "cond:v3[2..].parse::<u32>()",
  "match",
  "arm(Ok(v12))",
  "arm(Err(v8))",
  "error:invalid_literal",
  "return",
  "endmatch",
  "arm(Token::Bool(v13))",
  "arm(v14)",
  "error:expected",
  "return",
  "endmatch",
  "self.spans.add(v1,v2)"
] := rfl

/-- `record` — model: record / recordItem -/
theorem source_skel_record : ParseFacts.skel_record = [
  "closure",
  "parser.identifier()",
  "?",
  "parser.take(Token::Colon)",
  "?",
  "parser.expr()",
  "?",
  "endclosure",
  "self.separated(Token::CurlyLeft,Token::CurlyRight,Token::Comma,|parser|{letv1=parser.ident…",
  "?"
] := rfl

/-- `args` — model: separated … (assignExpr _ false) -/
theorem source_skel_args : ParseFacts.skel_args = [
  "self.separated(Token::RoundLeft,Token::RoundRight,Token::Comma,Self::expr)",
  "?"
] := rfl

/-- `type_expr` — model: typeExpr / typeLoop -/
theorem source_skel_type_expr : ParseFacts.skel_type_expr = [
  "self.type_expr_atom()",
  "?",
  "self.peek_is(Token::QuestionMark)",
  "while",
  "self.spans.get(v0)",
  "self.take(Token::QuestionMark)",
  ".unwrap()",
  ".merge",
  "self.spans.add(v1,v3)",
  "endwhile"
] := rfl

/-- `type_expr_atom` — model: typeAtom -/
theorem source_skel_type_expr_atom : ParseFacts.skel_type_expr_atom = [
  "self.peek_is(Token::Bang)",
  "if",
  "self.take(Token::Bang)",
  "?",
  "self.spans.add(v0,TypeExpr::Never)",
  "return",
  "endif",
  "self.peek_is(Token::RoundLeft)",
  "if",
  "self.take(Token::RoundLeft)",
  "?",
  "self.take(Token::RoundRight)",
  "?",
  ".merge",
  "self.spans.add(v0,TypeExpr::Unit)",
  "return",
  "endif",
  "self.peek_is(Token::CurlyLeft)",
  "if",
  "self.record_type()",
  "?",
  "self.get_span(v3.fields)",
  "self.spans.add(v0,TypeExpr::Record(v3))",
  "return",
  "endif",
  "self.path()",
  "?",
  "self.get_span(v4)",
  "self.peek_is(Token::SquareLeft)",
  "if",
  "self.separated(Token::SquareLeft,Token::SquareRight,Token::Comma,Self::type_expr)",
  "?",
  "self.spans.get(v6)",
  ".merge",
  "self.spans.add(v0,TypeExpr::Path(v4,Some(v6)))",
  "else",
  "self.spans.add(v5,TypeExpr::Path(v4,None))",
  "endif"
] := rfl

/-- `record_type` — model: recordType -/
theorem source_skel_record_type : ParseFacts.skel_record_type = [
  "self.separated(Token::CurlyLeft,Token::CurlyRight,Token::Comma,Self::record_field)",
  "?"
] := rfl

/-- `record_field` — model: recordField -/
theorem source_skel_record_field : ParseFacts.skel_record_field = [
  "self.identifier()",
  "?",
  "self.take(Token::Colon)",
  "?",
  "self.type_expr()",
  "?"
] := rfl

/-- `path` — model: path / pathLoop / closePath -/
theorem source_skel_path : ParseFacts.skel_path = [
  "self.path_item()",
  "?",
  "self.next_is(Token::Period)",
  "while",
  "self.path_item()",
  "?",
  "endwhile",
  ".first()",
  ".unwrap()",
  ".last()",
  ".unwrap()",
  "self.merge_spans(v0.first().unwrap(),v0.last().unwrap())",
  "self.add_span(v1,Path{idents:v0})"
] := rfl

/-- `path_expr` — model: pathExpr / pathExprLoop -/
theorem source_skel_path_expr : ParseFacts.skel_path_expr = [
  "loop",
  "self.peek_is(Token::CurlyLeft)",
  "if",
  "self.path_list()",
  "?",
  "cond:v2",
  "for",
  "endfor",
  "break",
  "endif",
  "self.path_item()",
  "?",
  "self.next_is(Token::Period)",
  "cond:!self.next_is(Token::Period)",
  "if",
  ".first()",
  ".unwrap()",
  ".last()",
  ".unwrap()",
  "self.merge_spans(v1.idents.first().unwrap(),v1.idents.last().unwrap())",
  "self.add_span(v7,v1)",
  "break",
  "endif",
  "endloop"
] := rfl

/-- `path_list` — model: pathList / pathListLoop -/
theorem source_skel_path_list : ParseFacts.skel_path_list = [
  "self.take(Token::CurlyLeft)",
  "?",
  "loop",
  "self.path_expr()",
  "?",
  "self.next_is(Token::Comma)",
  "cond:!self.next_is(Token::Comma)",
  "if",
  "break",
  "endif",
  "endloop",
  "self.take(Token::CurlyRight)",
  "?"
] := rfl

/-- `path_item` — model: pathItem -/
theorem source_skel_path_item : ParseFacts.skel_path_item = [
  "self.next()",
  "?",
  "cond:v0",
  "match",
  "arm(Token::Keyword(Keyword::Pkg))",
  "arm(Token::Keyword(Keyword::Dep))",
  "arm(Token::Keyword(Keyword::Super))",
  "arm(Token::Ident(v3))",
  "arm(_)",
  "error:expected",
  "return",
  "endmatch",
  "self.spans.add(v1,v2)"
] := rfl

/-- `f_string` — model: fString / fLoop / fText -/
theorem source_skel_f_string : ParseFacts.skel_f_string = [
  "self.take(Token::FStringStart)",
  "?",
  "self.lexer.f_string_part()",
  "whilelet(Some((v2,v3)))",
  "cond:!v4.is_empty()",
  "if",
  "call:unescape_f_string_part(v4,v3)",
  "?",
  "self.spans.add(v3,FStringPart::String(v4))",
  "endif",
  "cond:v2",
  "matches(FStringToken::StringEnd(_))",
  "if",
  "Span::new",
  ".merge",
  "self.spans.add(v3,Expr::FString(v0))",
  "return",
  "endif",
  "self.take(Token::CurlyLeft)",
  "?",
  "self.expr()",
  "?",
  "self.spans.get(v5)",
  "self.spans.add(v3,FStringPart::Expr(v5))",
  "self.take(Token::CurlyRight)",
  "?",
  "endwhile",
  "Span::new",
  "error:EndOfInput"
] := rfl

/-- `filter_map` — model: filterMap -/
theorem source_skel_filter_map : ParseFacts.skel_filter_map = [
  "self.next()",
  "?",
  "cond:v0",
  "match",
  "arm(Token::Keyword(Keyword::FilterMap))",
  "arm(Token::Keyword(Keyword::Filter))",
  "arm(_)",
  "error:expected",
  "return",
  "endmatch",
  "self.identifier()",
  "?",
  "self.params()",
  "?",
  "self.block()",
  "?"
] := rfl

/-- `params` — model: params -/
theorem source_skel_params : ParseFacts.skel_params = [
  "self.separated(Token::RoundLeft,Token::RoundRight,Token::Comma,Self::type_ident_field)",
  "?"
] := rfl

/-- `type_ident_field` — model: recordField -/
theorem source_skel_type_ident_field : ParseFacts.skel_type_ident_field = [
  "self.identifier()",
  "?",
  "self.take(Token::Colon)",
  "?",
  "self.type_expr()",
  "?"
] := rfl

/-- `type_parameters` — model: typeParameters -/
theorem source_skel_type_parameters : ParseFacts.skel_type_parameters = [
  "self.peek_is(Token::SquareLeft)",
  "if",
  "self.separated(Token::SquareLeft,Token::SquareRight,Token::Comma,Self::identifier)",
  "?",
  "else",
  "endif"
] := rfl

/-- `record_type_assignment` — model: recordDecl -/
theorem source_skel_record_type_assignment : ParseFacts.skel_record_type_assignment = [
  "self.take(Token::Keyword(Keyword::Record))",
  "?",
  "self.identifier()",
  "?",
  "self.type_parameters()",
  "?",
  "self.record_type()",
  "?"
] := rfl

/-- `enum_declaration` — model: enumDecl -/
theorem source_skel_enum_declaration : ParseFacts.skel_enum_declaration = [
  "self.take(Token::Keyword(Keyword::Enum))",
  "?",
  "self.identifier()",
  "?",
  "self.type_parameters()",
  "?",
  "self.separated(Token::CurlyLeft,Token::CurlyRight,Token::Comma,Self::enum_variant)",
  "?"
] := rfl

/-- `enum_variant` — model: enumVariant -/
theorem source_skel_enum_variant : ParseFacts.skel_enum_variant = [
  "self.identifier()",
  "?",
  "self.peek_is(Token::RoundLeft)",
  "if",
  "self.separated(Token::RoundLeft,Token::RoundRight,Token::Comma,Self::type_expr)",
  "?",
  "else",
  "endif"
] := rfl

/-- `parse_signature` — model: parseSignatureWith / parseSignature -/
theorem source_skel_parse_signature : ParseFacts.skel_parse_signature = [
  "call:Self::run_parser(Self::signature,0,v0,v1)"
] := rfl

/-- `signature` — model: signature -/
theorem source_skel_signature : ParseFacts.skel_signature = [
  "self.take(Token::Keyword(Keyword::Fn))",
  "?",
  "self.type_parameters()",
  "?",
  "self.separated(Token::RoundLeft,Token::RoundRight,Token::Comma,Self::type_expr)",
  "?",
  "self.next_is(Token::Arrow)",
  "if",
  "self.type_expr()",
  "?",
  "else",
  "endif"
] := rfl

/-- `unescape_char` — model: (oracle `Ctx.lit`) -/
theorem source_skel_unescape_char : ParseFacts.skel_unescape_char = [
  "call:rustc_literal_escaper::unescape_char(v0)",
  "closure",
  "error:escape",
  "endclosure"
] := rfl

/-- `unescape_f_string_part` — model: (oracle `Ctx.lit`) -/
theorem source_skel_unescape_f_string_part : ParseFacts.skel_unescape_f_string_part = [
  "cond:v4.next()",
  "whilelet(Some((v5,v6)))",
  "cond:v6",
  "match",
  "arm('\\\\')",
  "cond:letSome((_,'u'))=v4.next()&&letSome((_,'{'))=v4.peek()",
  "if",
  "cond:v4.by_ref()",
  "for",
  "cond:v6=='}'",
  "if",
  "break",
  "endif",
  "endfor",
  "endif",
  "arm('{'|'}'ifv4.peek().is_some_and(|(_,v7)|*v7==v6))",
  "closure",
  "endclosure",
  "index:v0[v3..v5]",
  "call:unescape_str(&v0[v3..v5],v8)",
  "?",
  "arm(_)",
  "endmatch",
  "endwhile",
  "index:v0[v3..]",
  "call:unescape_str(&v0[v3..],v8)",
  "?"
] := rfl

/-- `unescape_str` — model: (oracle `Ctx.lit`) -/
theorem source_skel_unescape_str : ParseFacts.skel_unescape_str = [
  "closure",
  "cond:v5",
  "match",
  "arm(Ok(v6))",
  "arm(Err(v7))",
  "endmatch",
  "endclosure",
  "call:rustc_literal_escaper::unescape_str(v0,|v4:Range<usize>,v5|{matchv5{Ok(v6)=>v2.push(v…",
  "closure",
  "endclosure",
  ".first()",
  "cond:v3.first()",
  "iflet(Some((v4,v7)))",
  "Span::new",
  "error:escape",
  "else",
  "endif"
] := rfl

/-- `Lexer_next` — model: lexNext -/
theorem source_skel_Lexer_next : ParseFacts.skel_Lexer_next = [
  "self.peeked.pop_front()",
  "iflet(Some(v0))",
  "return",
  "endif",
  "self.next_inner()"
] := rfl

/-- `Lexer_peek` — model: lexPeek -/
theorem source_skel_Lexer_peek : ParseFacts.skel_Lexer_peek = [
  "self.peeked.is_empty()",
  "self.next_inner()",
  "cond:self.peeked.is_empty()&&letSome(v0)=self.next_inner()",
  "if",
  "self.peeked.push_back(v0)",
  "endif",
  "self.peeked.front()"
] := rfl

/-- `Lexer_peek_many` — model: peekMany / fillQ / firstToks -/
theorem source_skel_Lexer_peek_many : ParseFacts.skel_Lexer_peek_many = [
  "self.peeked.len()",
  "sub:N-self.peeked.len()",
  "cond:0..N-self.peeked.len()",
  "for",
  "self.peeked.back()",
  "iflet(Some((Ok(Token::FStringStart),_)))",
  "return",
  "endif",
  "self.next_inner()",
  "?",
  "self.peeked.push_back(v0)",
  "endfor",
  "cond:v1.iter_mut().enumerate()",
  "for",
  "self.peeked.get(v2)",
  ".unwrap()",
  "cond:self.peeked.get(v2).unwrap()",
  "letelse((Ok(v0),_))",
  "return",
  "endletelse",
  "endfor"
] := rfl

/-- `Spans_add` — model: addSpan / addNode -/
theorem source_skel_Spans_add : ParseFacts.skel_Spans_add = [
  "self.0.len()",
  "self.0.push(v0)"
] := rfl

/-- `Spans_get` — model: getSpan -/
theorem source_skel_Spans_get : ParseFacts.skel_Spans_get = [
  "index:self.0[v0.into().0]"
] := rfl

/-- `Spans_merge` — model: mergeSpans -/
theorem source_skel_Spans_merge : ParseFacts.skel_Spans_merge = [
  "self.get(v0)",
  "self.get(v1)",
  ".merge"
] := rfl

/-- `Span_merge` — model: mergeSp -/
theorem source_skel_Span_merge : ParseFacts.skel_Span_merge = [
  "assert_eq!",
  "self.start.min(v0.start)",
  "self.end.max(v0.end)"
] := rfl

end RotoV.C06ParseSource
