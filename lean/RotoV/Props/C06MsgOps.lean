/-
  C06, part 3b — building the MESSAGE of a parse error is total for every token.

  The parser reports an unexpected token / an invalid literal by handing the
  token (its text is raw source text: a string literal with its quotes, a
  Unicode identifier, a number with its suffix — any length, any characters) to
  `ParseError::expected` / `invalid_literal` / `custom`, which turn it into the
  `String`s of a `ParseErrorKind`; `label`, `hint` and the `Display` impls turn
  those into the report's texts. A panic here (say `text.truncate(48)` inside a
  multi-byte character, `text.chars().nth(0).unwrap()` on an empty text, an
  index, an `unwrap`) happens while the error is being BUILT: compiling unwinds
  instead of returning a report.

  `Generated/MsgOps.lean` (target `msgops`, regenerated on every run) lists
  EVERY operation in the bodies of the functions of `src/parser/error.rs` and
  `src/parser/token.rs` (method calls, macros, calls, indexing, arithmetic,
  `while` / `loop` / `unsafe`; hooks and tests skipped) and, per constructor of
  `ParseError` with `impl Display` parameters, what is stored in each field of
  the kind. The classification is `Model/ReportMsgBase.lean`'s.

  Trusted: std's `to_string` / `into` / `clone` / `format!` / `write!` /
  `write_str` return (for the `Display` impls walked here and std's own); the
  local functions do not call each other in a cycle (`escape_error_to_msg` and
  `Keyword::as_str` are the only ones called; both are a single `match`).
-/
import RotoV.Generated.MsgOps
import RotoV.Model.ReportMsgBase

namespace RotoV.C06MsgOps
open RotoV.ReportMsg RotoV.Gen.MsgOps

/-- obligation on the GENERATED list: every operation in the functions that build and print the message of a parse
error returns for every receiver and argument — no `unwrap` / `expect`, no `truncate` / `split_at` / `remove` / …,
no indexing, no arithmetic, no panicking macro, no loop, no call of a function outside the audited files except the
constructors `Vec::new` / `String::new` / `String::from` / `Some` / `Ok` / `Err`, nothing the classification does
not know. A new operation that can panic (or that nobody classified) makes this theorem fail. -/
theorem parse_message_ops_total : (∀ s ∈ ops, s.op.total = true) ∧ 0 < functionCount := by
  decide

/-- obligation on the GENERATED fields: every `impl Display` parameter of a constructor of `ParseError` (the text of
the offending token among them) reaches the field it is stored in through `to_string` / `into` / `clone` only, and
is used nowhere else in the constructor -/
theorem parse_error_fields_chains_verbatim : ∀ f ∈ fields, f.chain.all Meth.verbatim = true := by
  decide

/-- **the token's text goes into the message unchanged**, for EVERY text (any length, any characters): for each
field a constructor of `ParseError` fills from an `impl Display` parameter, running the source's chain of methods
on the text returns, and returns that text -/
theorem parse_error_fields_total : ∀ f ∈ fields, ∀ text : List Char, runChain f.chain text = some text :=
  fun f hf text => runChain_verbatim f.chain text (parse_error_fields_chains_verbatim f hf)

/-- the fields are there: the audit is about constructors that exist (the translator fails when `expected`,
`invalid_literal` or `custom` is missing) -/
theorem parse_error_fields_present : 6 ≤ fields.length := by
  decide

/-- obligation on the GENERATED call arguments: at every call of `ParseError::expected` / `invalid_literal` /
`custom` in the parser (src/parser/{mod,expr,filter_map,signature}.rs) each text argument is a string literal, a
variable handed over as it is (the token, the decoder's error) or a `format!` over variables — nothing is computed
on a token's text on its way into the constructor (no slice, no `chars().take(n)`, no helper), so together with
`parse_error_fields_total` the whole path token → message is one the audit has seen. The calls are there. -/
theorem parse_error_call_args_plain : (∀ a ∈ callArgs, a.arg.plain = true) ∧ 20 ≤ callArgs.length := by
  decide

/-! ## why the classification says what it says (std's `String::truncate`) -/

/-- UTF-8 width of a character -/
def width (c : Char) : Nat := if c.val < 0x80 then 1 else if c.val < 0x800 then 2 else if c.val < 0x10000 then 3 else 4

/-- `truncate(n)` is NOT total: it panics exactly when `n` falls inside a character. Byte 2 of `"aé"` does
(`a` is one byte, `é` two), bytes 1 and 3 do not. This is why a chain through `truncate` is not accepted. -/
theorem truncate_not_total :
    truncateBytes width ['a', 'é'] 2 = none ∧
    truncateBytes width ['a', 'é'] 1 = some ['a'] ∧ truncateBytes width ['a', 'é'] 3 = some ['a', 'é'] ∧
    Meth.k_truncate.total = false ∧ runChain [.k_to_string, .k_truncate] ['a', 'é'] = none := by
  decide

/-- …and it IS total on boundaries: cutting after whole characters returns them -/
theorem truncate_on_boundary (w : Char → Nat) (hw : ∀ c, 0 < w c) (pre post : List Char) :
    truncateBytes w (pre ++ post) ((pre.map w).sum) = some pre := by
  induction pre with
  | nil => cases post <;> simp [truncateBytes]
  | cons c cs ih =>
    have hc := hw c
    obtain ⟨k, hk⟩ : ∃ k, w c + (cs.map w).sum = k + 1 := ⟨w c + (cs.map w).sum - 1, by omega⟩
    have hle : w c ≤ k + 1 := by omega
    have hsub : k + 1 - w c = (cs.map w).sum := by omega
    simp only [List.cons_append, List.map_cons, List.sum_cons, hk, truncateBytes, hle, if_true, hsub, ih,
      Option.map_some]

/-! ## non-vacuity -/

/-- the list is not empty and holds the operations the constructors are made of -/
example : (ops.any fun s => s.op == .meth .k_to_string) = true ∧ (ops.any fun s => s.op == .mac .m_write) = true ∧
    (ops.any fun s => s.op == .meth .k_write_str) = true := by decide

/-- operations that can panic are rejected -/
example : (Op.meth .k_truncate).total = false ∧ (Op.meth .k_unwrap).total = false ∧
    (Op.index "text[..48]").total = false ∧ (Op.mac .m_unreachable).total = false ∧
    (Op.meth (.other "floor_char_boundary")).total = false ∧ (Op.call (.other "quote_token")).total = false ∧
    (Op.arith "-").total = false := by decide

/-- a computed argument is rejected; literals, variables and `format!` are there -/
example : (Arg.other "&text[..48]").plain = false ∧ (callArgs.any fun a => a.arg == .lit) = true ∧
    (callArgs.any fun a => a.arg == .fmt) = true ∧ (callArgs.any fun a => a.arg == .var "token") = true := by decide

/-- a field that goes through a helper is rejected; the verbatim ones run -/
example : ([Meth.other "quote_token(got)"].all Meth.verbatim) = false ∧
    runChain [.k_to_string] ['"', 'é', '"'] = some ['"', 'é', '"'] := by decide

end RotoV.C06MsgOps
