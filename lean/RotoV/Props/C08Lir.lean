/-
  C08, one stage below the MIR — the MIR → LIR lowering of a block keeps the ORDER of calls.

  T2 (`lowerS_trace_partial`) says the MIR makes the documented host calls in the documented
  order. What runs is the LIR `Lowerer::block` / `instruction` / `assign` (src/lir/lower.rs) make
  of it. `Generated/MirLower.lean` (translator target `mirlower`, written for C03) holds, as read
  from the source on every run, the statements of `Lowerer::block`, the arms of
  `Lowerer::instruction` and the arms of `let op = match value` in `Lowerer::assign`. This file
  interprets them for CALLS: a block is lowered instruction by instruction, in order, each
  instruction on its own (`[.newBlock, .forEach [.lower]]`); an assignment whose value is a script
  or runtime call reaches the arm that produces the operand through `Lowerer::call` /
  `call_runtime` (`.operand`); no other instruction kind emits a call. The theorems say that the
  sequence of calls of the LIR block is exactly the sequence of call instructions of the MIR
  block — same calls (identified by their argument variables), same order, none duplicated,
  none dropped — for EVERY block and along every path. A lowering that looks at more than one
  instruction at a time, iterates in another order or skips an instruction is outside the
  translated subset: extraction fails, or `blockCalls` is stuck and these theorems no longer check.
  (That `Lowerer::call` itself emits exactly one `Instruction::Call` is pinned as a regenerated
  step skeleton: `C08Source.source_lir_call`.)
-/
import RotoV.Model.MirLower
import RotoV.Generated.MirLower

namespace RotoV.C08Lir
open RotoV.Mir RotoV.MirLower

/-- a call, identified by its `(argument variable, parameter type)` list -/
abbrev CallEv := List (Nat × Nat)

/-- the calls a MIR instruction makes: an assignment of a script / runtime call makes that call -/
def mirCalls : Instr → List CallEv
  | .assign _ _ (.call args) => [args]
  | _ => []

/-- the calls of a MIR block, in order -/
def blockMirCalls (b : Block) : List CallEv := b.instrs.flatMap mirCalls

/-- what an arm of `let op = match value` in `Lowerer::assign` emits in the way of calls: the
    `.operand` arm of a call value is `self.call(..)` / `self.call_runtime(..)`: that one call;
    a clone arm emits clone calls only (C03's concern) -/
def assignCalls (v : Val) : AssignAct → Option (List CallEv)
  | .operand => some (match v with | .call args => [args] | _ => [])
  | .cloneOf _ => match v with
    | .call _ => none          -- a call value lowered as a clone: the call would be lost
    | _ => some []

/-- every arm the value's kind can reach must agree -/
def assignCallsOf (L : Lowering) (v : Val) : Option (List CallEv) :=
  match (vkinds v).map (fun k => (lookup k L.assign).bind (assignCalls v)) with
  | [] => none
  | r :: rs => if rs.all (· == r) then r else none

/-- one non-terminator, through the arms of `Lowerer::instruction` -/
def instrCalls (L : Lowering) (i : Instr) : Option (List CallEv) :=
  match lookup (ikind i) L.instr, i with
  | some .assign, .assign _ _ v => assignCallsOf L v
  | some .drop, .drop .. => some []
  | some .setDisc, .setDisc .. => some []
  | _, _ => none

def loopCalls (L : Lowering) : List LoopStep → Instr → Option (List CallEv)
  | [.lower], i => instrCalls L i
  | _, _ => none

def eachCalls (L : Lowering) (body : List LoopStep) : List Instr → Option (List CallEv)
  | [] => some []
  | i :: r => do
    let a ← loopCalls L body i
    let b ← eachCalls L body r
    pure (a ++ b)

/-- the calls of the LIR block `Lowerer::block` makes of a MIR block, in order -/
def blockCalls (L : Lowering) (b : Block) : Option (List CallEv) :=
  match L.block with
  | [.newBlock, .forEach body] => if termOk L b.term then eachCalls L body b.instrs else none
  | _ => none

/-- L1. One instruction, as the current source lowers it: exactly its own calls. -/
theorem instruction_lowering_keeps_calls (i : Instr) :
    instrCalls RotoV.Gen.MirLower.lowering i = some (mirCalls i) := by
  cases i with
  | assign to ty v =>
    cases v <;>
      simp [instrCalls, lookup, ikind, RotoV.Gen.MirLower.lowering, RotoV.Gen.MirLower.instr,
        RotoV.Gen.MirLower.assign, assignCallsOf, vkinds, assignCalls, mirCalls]
  | setDisc v ty k =>
    simp [instrCalls, lookup, ikind, RotoV.Gen.MirLower.lowering, RotoV.Gen.MirLower.instr, mirCalls]
  | drop p ty =>
    simp [instrCalls, lookup, ikind, RotoV.Gen.MirLower.lowering, RotoV.Gen.MirLower.instr, mirCalls]

theorem each_lowering_keeps_calls : ∀ is : List Instr,
    eachCalls RotoV.Gen.MirLower.lowering [.lower] is = some (is.flatMap mirCalls)
  | [] => by simp [eachCalls]
  | i :: r => by
    simp [eachCalls, loopCalls, instruction_lowering_keeps_calls, each_lowering_keeps_calls r]

/-- **L2 `block_lowering_keeps_call_order`.** EVERY block: the calls of the LIR block are exactly
    the call instructions of the MIR block, in the same order — none reordered, duplicated or
    dropped, whatever else (clones, drops, moves, operators) stands between them. -/
theorem block_lowering_keeps_call_order (b : Block) :
    blockCalls RotoV.Gen.MirLower.lowering b = some (blockMirCalls b) := by
  have ht : termOk RotoV.Gen.MirLower.lowering b.term = true := by
    cases b.term <;> rfl
  have hb : RotoV.Gen.MirLower.lowering.block = [.newBlock, .forEach [.lower]] := rfl
  unfold blockCalls blockMirCalls
  rw [hb]
  simp only [ht, if_true]
  exact each_lowering_keeps_calls b.instrs

/-- **L3.** Along any path through an item (any sequence of its blocks — the LIR keeps the
    blocks and their terminators one to one), the LIR makes the MIR's calls in the MIR's order. -/
theorem path_lowering_keeps_call_order (path : List Block) :
    path.mapM (blockCalls RotoV.Gen.MirLower.lowering) = some (path.map blockMirCalls) := by
  induction path with
  | nil => rfl
  | cons b r ih => simp [List.mapM_cons, block_lowering_keeps_call_order, ih]

/-- `t1 = f(x0); t2 = clone x0; t3 = g(t1, t2)`: two calls with a clone between them -/
def twoCalls : Block :=
  { label := 0,
    instrs := [.assign ⟨1, []⟩ 0 (.call [(0, 0)]), .assign ⟨2, []⟩ 0 (.clone ⟨0, []⟩),
               .assign ⟨3, []⟩ 0 (.call [(1, 0), (2, 0)])],
    term := .ret 3 }

/-- Non-vacuity: both calls reach the LIR, `f` before `g`. -/
example : blockCalls RotoV.Gen.MirLower.lowering twoCalls = some [[(0, 0)], [(1, 0), (2, 0)]] := by decide

/-- Refutation (non-vacuity of L2 in the tables): a lowering that walks the block's instructions
    in any way other than one `for` over them in order is not accepted … -/
theorem other_block_shape_refuted :
    blockCalls { RotoV.Gen.MirLower.lowering with block := [.forEach [.lower], .newBlock] } twoCalls = none := by
  decide

/-- … nor one whose arm for a call value does not go through `Lowerer::call` / `call_runtime`. -/
theorem call_arm_elsewhere_refuted :
    blockCalls { RotoV.Gen.MirLower.lowering with
                 assign := [(.call, .cloneOf .place), (.callRuntime, .operand), (.clone, .cloneOf .place)] } twoCalls
      = none := by
  decide

end RotoV.C08Lir
