/-
  C06, part 5 — the type checker never takes an element out of a list that may
  be empty.

  `Generated/TcListOps.lean` (target `tclistops`, regenerated on every run)
  lists EVERY operation in `src/typechecker/*.rs` that is partial in the length
  of a list (`x[0]`, `x[1..]`, `pop()/first()/last()/next()/split_first()/
  reduce(..)….unwrap()`, `remove(0)`) together with the evidence found in the
  source that the list is long enough, the PARTIAL HELPERS this makes
  (functions that panic unless a parameter is long enough: `join_quoted`,
  `error_duplicate_fields`, `error_nonexhaustive_match`) and every call of
  such a helper with the evidence at the call site.

  Full statement this part works towards (not proved as a whole: the checker
  bodies are not modelled): *type checking never panics*. Proved here: the
  length-partial operations cannot be what panics —
  `tc_list_ops_audited` (obligation on the generated lists, in
  `Props/C06TcListsSource.lean` so that a change of the source breaks only
  that) with its meaning `site_runs` / `call_establishes` (here), and the two pieces of reasoning the
  evidence kinds rest on: `joinQuoted_total` and `complement_nonempty` /
  `match_end_total` (pigeonhole: fewer used variants than variants, variants
  distinct ⇒ a variant is missing).
-/
import RotoV.Model.TcListOps

namespace RotoV.C06
open RotoV.TcList

/-- the operations panic exactly when the list is shorter than `need` -/
theorem op_runs_iff {α : Type} (op : Op) (l : List α) : op.runs l = true ↔ op.need ≤ l.length := by
  cases op with
  | index k =>
    simp only [Op.runs, Op.need, List.getElem?_eq_some_iff, Option.isSome_iff_exists]
    constructor
    · rintro ⟨_, h, _⟩; omega
    · intro h; exact ⟨l[k], by omega, rfl⟩
  | sliceFrom k => simp [Op.runs, Op.need]
  | sliceTo k => simp [Op.runs, Op.need]
  | takeOne m =>
    cases l <;> simp [Op.runs, Op.need]
  | removeAt k =>
    simp only [Op.runs, Op.need, List.getElem?_eq_some_iff, Option.isSome_iff_exists]
    constructor
    · rintro ⟨_, h, _⟩; omega
    · intro h; exact ⟨l[k], by omega, rfl⟩

/-- what a piece of evidence says about the actual list at run time -/
def holds {α : Type} (hs : List Helper) (l : List α) : Evidence → Prop
  | .guard k => k < l.length
  | .param f i => promised hs f i ≤ l.length      -- the precondition of the enclosing helper
  | .astPath => l ≠ []
  | .typeArity => l ≠ []
  | .complement _ _ => l ≠ []
  | .none => True

/-- an audited site returns whenever its evidence holds -/
theorem site_runs {α : Type} (hs : List Helper) (s : Site) (l : List α)
    (hok : s.ok hs = true) (hev : holds hs l s.ev) : s.op.runs l = true := by
  rw [op_runs_iff]
  unfold Site.ok at hok
  cases h : s.ev with
  | guard k => rw [h] at hok hev; simp [Evidence.covers] at hok; simp [holds] at hev; omega
  | param f i => rw [h] at hok hev; simp [Evidence.covers] at hok; simp [holds] at hev; omega
  | astPath =>
    rw [h] at hok hev; simp [Evidence.covers] at hok; simp [holds] at hev
    cases l with
    | nil => exact absurd rfl hev
    | cons a t => simp; omega
  | typeArity =>
    rw [h] at hok hev; simp [Evidence.covers] at hok; simp [holds] at hev
    cases l with
    | nil => exact absurd rfl hev
    | cons a t => simp; omega
  | complement u a =>
    rw [h] at hok hev; simp [Evidence.covers] at hok; simp [holds] at hev
    cases l with
    | nil => exact absurd rfl hev
    | cons a t => simp; omega
  | none => rw [h] at hok; simp [Evidence.covers] at hok; omega

/-- an audited call hands the helper a list that meets its precondition -/
theorem call_establishes {α : Type} (hs : List Helper) (c : Call) (l : List α)
    (hok : c.ok hs = true) (hev : holds hs l c.ev) : promised hs c.callee c.param ≤ l.length := by
  unfold Call.ok at hok
  cases h : c.ev with
  | guard k => rw [h] at hok hev; simp [Evidence.covers] at hok; simp [holds] at hev; omega
  | param f i => rw [h] at hok hev; simp [Evidence.covers] at hok; simp [holds] at hev; omega
  | astPath =>
    rw [h] at hok hev; simp [Evidence.covers] at hok; simp [holds] at hev
    cases l with
    | nil => exact absurd rfl hev
    | cons a t => simp; omega
  | typeArity =>
    rw [h] at hok hev; simp [Evidence.covers] at hok; simp [holds] at hev
    cases l with
    | nil => exact absurd rfl hev
    | cons a t => simp; omega
  | complement u a =>
    rw [h] at hok hev; simp [Evidence.covers] at hok; simp [holds] at hev
    cases l with
    | nil => exact absurd rfl hev
    | cons a t => simp; omega
  | none => rw [h] at hok; simp [Evidence.covers] at hok; omega

/-- `join_quoted` panics exactly on the empty list -/
theorem joinQuoted_total (items : List String) : joinQuoted items = .panic ↔ items = [] := by
  unfold joinQuoted
  simp only []
  split
  · rename_i h
    simp only [List.reverse_eq_nil_iff, List.map_eq_nil_iff] at h
    simp [h]
  · rename_i last rest h
    have : items ≠ [] := by
      intro e; subst e; simp at h
    simp only [this, iff_false]
    split <;> simp

/-- pigeonhole: distinct elements that all occur in `used` are at most as many as `used` -/
theorem length_le_of_nodup_subset : ∀ (vs used : List Nat), vs.Nodup → (∀ v ∈ vs, v ∈ used) → vs.length ≤ used.length
  | [], _, _, _ => Nat.zero_le _
  | v :: vs, used, hnd, hsub => by
    have hv : v ∈ used := hsub v (List.mem_cons_self ..)
    have hnd' := List.nodup_cons.mp hnd
    have ih := length_le_of_nodup_subset vs (used.erase v) hnd'.2 (by
      intro x hx
      have hxu : x ∈ used := hsub x (List.mem_cons_of_mem _ hx)
      have hne : x ≠ v := fun e => hnd'.1 (e ▸ hx)
      exact (List.mem_erase_of_ne hne).mpr hxu)
    have := List.length_erase_of_mem hv
    have hpos : 0 < used.length := List.length_pos_of_mem hv
    simp only [List.length_cons]
    omega

/-- the list `match_expr` hands to `error_nonexhaustive_match` is not empty:
variants are distinct (a second declaration of a name is rejected before any
body is checked) and fewer are used than exist -/
theorem complement_nonempty (variants used : List Nat) (hnd : variants.Nodup)
    (hlt : used.length < variants.length) : missingVariants variants used ≠ [] := by
  intro h
  have hall : ∀ v ∈ variants, v ∈ used := by
    intro v hv
    unfold missingVariants at h
    rw [List.filter_eq_nil_iff] at h
    have := h v hv
    simpa using this
  have := length_le_of_nodup_subset variants used hnd hall
  omega

/-- so the end of `match_expr` returns (an error or nothing), it does not panic -/
theorem match_end_total (names : Nat → String) (d : Bool) (variants used : List Nat) (hnd : variants.Nodup) :
    matchEnd names d variants used ≠ .panic := by
  unfold matchEnd
  split
  · rename_i hc
    have hlt : used.length < variants.length := by
      simp only [Bool.and_eq_true, decide_eq_true_eq] at hc
      exact hc.2
    have hne := complement_nonempty variants used hnd hlt
    have hj : joinQuoted ((missingVariants variants used).map names) ≠ .panic := by
      rw [Ne, joinQuoted_total]
      simpa using hne
    unfold errorNonexhaustive
    cases hq : joinQuoted ((missingVariants variants used).map names) with
    | ok a => simp
    | panic => exact absurd hq hj
  · simp

/-- non-vacuity: the hypotheses matter. `join_quoted` of nothing panics (what
the seeded change C06-5 reaches through an enum without variants); without
distinct variants the pigeonhole argument fails and the loop collects nothing -/
example : joinQuoted [] = .panic ∧ missingVariants [0, 0] [0] = [] ∧
    matchEnd (fun _ => "A") false [0, 0] [0] = .panic ∧
    matchEnd (fun _ => "A") false [0, 1] [0] ≠ .panic := by
  refine ⟨rfl, by decide, ?_, ?_⟩
  · simp [matchEnd, errorNonexhaustive, missingVariants, joinQuoted]
  · exact match_end_total _ _ _ _ (by decide)

end RotoV.C06
