/-
  C18, part 2 — `library!`: a `use` declaration names exactly its root-to-leaf paths.

  `flatten_use_tree` of `macros/src/lib.rs` is regenerated from the source on
  every run (`RotoV/Generated/FlattenUse.lean`, translator target `flattenuse`);
  the theorems below are stated over that generated function, for ALL use
  trees (`RotoV.Use.UseTree` mirrors `syn::UseTree`).  Specification and its
  relational reading: `RotoV/Model/UseTree.lean`; lemmas about the
  specification: `RotoV/Lemmas/UseTree.lean`.  The registration model and the
  lemma about its import pass (`RotoV/Lemmas/RegistrationUse.lean`) are
  imported for `macro_use_names_bound` and the closing witnesses.
-/
import RotoV.Lemmas.RegistrationUse
import RotoV.Lemmas.UseTree
import RotoV.Generated.FlattenUse

namespace RotoV.C18
open RotoV.Reg

/-! ## `library!`: a `use` declaration names exactly its root-to-leaf paths

`flatten_use_tree` (regenerated from `macros/src/lib.rs`) turns the tree of a
`use` declaration into the `imports` of one `roto::Use` item.  "Usable at
every path a use declaration names" needs this list to be exactly the
root-to-leaf paths of the tree: a path that is not one names something the
user never wrote (a dangling import, a registration error, or silently another
item of the same name), a missing one leaves a named item unusable. -/

open RotoV.Gen.FlattenUse in
mutual
/-- **T5 `flatten_use_tree_paths`.** For ALL use trees (any nesting of paths
    and groups, any order of group members, empty groups, groups in groups) the
    function in the source returns the root-to-leaf paths of the tree, each
    once, left to right — and panics (a compile error of the embedding crate)
    exactly when the tree contains `as` or `*`. -/
theorem flatten_use_tree_paths (t : RotoV.Use.UseTree) : flattenUseTree t = RotoV.Use.flattenSpec t := by
  cases t with
  | path i t =>
    have ih := flatten_use_tree_paths t
    unfold RotoV.Use.flattenSpec at ih ⊢
    rw [flattenUseTree, ih, RotoV.Use.supported, RotoV.Use.paths]
    all_goals (cases RotoV.Use.supported t <;> simp)
  | name i =>
    simp only [flattenUseTree, RotoV.Use.flattenSpec, RotoV.Use.supported, RotoV.Use.paths]
    split <;> simp
  | rename a b => simp [flattenUseTree, RotoV.Use.flattenSpec, RotoV.Use.supported]
  | glob => simp [flattenUseTree, RotoV.Use.flattenSpec, RotoV.Use.supported]
  | group ts =>
    have ih := flatten_use_tree_members ts
    unfold RotoV.Use.flattenSpec
    rw [flattenUseTree, ih, RotoV.Use.supported, RotoV.Use.paths]
    all_goals (cases RotoV.Use.supportedAll ts <;> simp)
/-- the members of a group: the concatenation of their paths, no member sees
    the segments of a sibling -/
theorem flatten_use_tree_members (ts : RotoV.Use.UseTrees) :
    flattenUseTreeAll ts = bif RotoV.Use.supportedAll ts then some (RotoV.Use.pathsAll ts) else none := by
  cases ts with
  | nil => simp [flattenUseTreeAll, RotoV.Use.supportedAll, RotoV.Use.pathsAll]
  | cons t ts =>
    have h1 := flatten_use_tree_paths t
    have h2 := flatten_use_tree_members ts
    unfold RotoV.Use.flattenSpec at h1
    rw [flattenUseTreeAll, h1, h2, RotoV.Use.supportedAll, RotoV.Use.pathsAll]
    all_goals (cases RotoV.Use.supported t <;> cases RotoV.Use.supportedAll ts <;> simp)
end

/-- **T5, relational form.** Whenever the macro accepts the tree, the paths it
    emits are exactly the walks from the root to a name leaf (`Leaf`, defined
    without reference to any traversal order or accumulator), there are as many
    as the tree has leaves (none twice, none dropped); the empty path (which
    `declare_import` rejects) comes out exactly for a `self` that no segment
    leads to, and otherwise every path binds a name: one binding per leaf. -/
theorem flatten_use_tree_leaves (t : RotoV.Use.UseTree) (ps : List RotoV.Use.Path)
    (h : RotoV.Gen.FlattenUse.flattenUseTree t = some ps) :
    (∀ p, p ∈ ps ↔ RotoV.Use.Leaf t p) ∧ ps.length = RotoV.Use.leaves t ∧
      ([] ∈ ps ↔ RotoV.Use.selfAtRoot t = true) ∧
      (RotoV.Use.selfAtRoot t = false → (RotoV.Use.bindings ps).length = RotoV.Use.leaves t) := by
  rw [flatten_use_tree_paths, RotoV.Use.flattenSpec] at h
  cases hs : RotoV.Use.supported t <;> simp [hs] at h
  subst h
  exact ⟨RotoV.Use.mem_paths_iff t, RotoV.Use.length_paths t, RotoV.Use.nil_mem_paths_iff t,
    RotoV.Use.bindings_length t⟩

/-- **T5, rejection.** `flatten_use_tree` panics iff the tree has a rename or a glob. -/
theorem flatten_use_tree_rejects_iff (t : RotoV.Use.UseTree) :
    RotoV.Gen.FlattenUse.flattenUseTree t = none ↔ RotoV.Use.supported t = false := by
  rw [flatten_use_tree_paths, RotoV.Use.flattenSpec]
  cases RotoV.Use.supported t <;> simp

/-- **T5 + T3, end to end.** For ALL use trees and ALL libraries: if `library!`
    accepts the declaration, the `Use` item it builds is part of a library
    (anywhere a `use` may stand) and the registration succeeds, then every
    path the declaration names (`Leaf`) is bound — its last segment is an
    import at the root whose target is that name in the scope that the path's
    own segments lead to, whatever its siblings in the tree are. -/
theorem macro_use_names_bound (lex : Name → Lex) (st st' : St) (items : Items)
    (t : RotoV.Use.UseTree) (ps : List RotoV.Use.Path)
    (hf : RotoV.Gen.FlattenUse.flattenUseTree t = some ps) (hu : UseIn items ps)
    (h : register Cfg.fixed lex st items = .ok st') :
    ∀ p, RotoV.Use.Leaf t p →
      ∃ last s, p.getLast? = some last ∧ scopeAt st' [] p.dropLast = some s ∧
        st'.imports [] last = some ⟨s, last⟩ := by
  intro p hl
  have hp : p ∈ ps := ((flatten_use_tree_leaves t ps hf).1 p).mpr hl
  have hadd : add Cfg.fixed lex st items = .ok st' := by
    unfold register at h
    split at h
    · exact h
    · cases h
  exact add_uses_bound lex st st' items hadd ps hu p hp

/-- every variant of `syn::UseTree` has its own arm (no catch-all that could
    swallow a new shape) -/
theorem flatten_use_tree_arms :
    RotoV.Gen.FlattenUse.matchedVariants.length = 5 ∧ RotoV.Gen.FlattenUse.matchedVariants.Nodup := by decide

section useWitnesses
open RotoV.Use (UseTree UseTrees)

private def lexV : Name → Lex := fun _ => ⟨some (some .ident), false, true⟩
private def il : List Item → Items
  | [] => .nil
  | i :: is => .cons i (il is)
private def fn0 (n tag : Nat) : Item := .function n [] .unit tag
private def st0 : St := St.init [(50, 100)] []

/-- `use 9::{1::2, 3};` — a multi-segment member followed by a single-segment one
    (identifier 0 is `self`) -/
def useMultiThenSingle : UseTree := .path 9 (.group (.cons (.path 1 (.name 2)) (.cons (.name 3) .nil)))
/-- `use 9::{1::{4::{5, 6}, 2}, 3};` — groups three deep, the longer member first at every level -/
def useDeep : UseTree :=
  .path 9 (.group (.cons (.path 1 (.group (.cons (.path 4 (.group (.cons (.name 5) (.cons (.name 6) .nil))))
    (.cons (.name 2) .nil)))) (.cons (.name 3) .nil)))

/-- non-vacuity of T5 on the source's function: the sibling after a longer
    member keeps the group's own prefix -/
example : RotoV.Gen.FlattenUse.flattenUseTree useMultiThenSingle = some [[9, 1, 2], [9, 3]] := by decide
example : RotoV.Gen.FlattenUse.flattenUseTree useDeep = some [[9, 1, 4, 5], [9, 1, 4, 6], [9, 1, 2], [9, 3]] := by
  decide
example : RotoV.Use.Leaf useMultiThenSingle [9, 3] :=
  .path _ _ _ (.group _ _ (.there _ _ _ (.here _ _ _ (.name 3 (by decide)))))
example : RotoV.Gen.FlattenUse.flattenUseTree (.path 9 (.group (.cons .glob .nil))) = none := by decide
example : RotoV.Gen.FlattenUse.flattenUseTree (.path 9 (.group .nil)) = some [] := by decide
/-- `use 9::1::{self, 2};` names the module `9::1` itself and `9::1::2` -/
example : RotoV.Gen.FlattenUse.flattenUseTree
    (.path 9 (.path 1 (.group (.cons (.name RotoV.Use.selfIdent) (.cons (.name 2) .nil))))) =
    some [[9, 1], [9, 1, 2]] := by decide
/-- non-vacuity of the last two clauses of `flatten_use_tree_leaves` -/
example : RotoV.Use.selfAtRoot useDeep = false ∧
    RotoV.Use.selfAtRoot (.group (.cons (.name RotoV.Use.selfIdent) .nil)) = true := by decide

/-- The `Use` item the macro builds for `mod 9 { fn 3; mod 1 { fn 2; fn 3 } } use 9::{1::2, 3};`
    registers, and the script-side lookup of `3` finds the function of module
    `9` (tag 30), not the one of the same name in module `1` (tag 31). -/
theorem macro_use_binds_the_named_items :
    (match RotoV.Gen.FlattenUse.flattenUseTree useMultiThenSingle with
     | some ps =>
       (match register Cfg.fixed lexV st0
           (il [.module 9 (il [fn0 3 30, .module 1 (il [fn0 2 20, fn0 3 31])]), .use ps]) with
        | .ok st => (resolvePath st [2], resolvePath st [3])
        | _ => (none, none))
     | none => (none, none)) =
    (some ⟨.function [] .unit 20, none⟩, some ⟨.function [] .unit 30, none⟩) := by decide

/-- the list a prefix accumulator that is only restored after the whole group
    would produce (`[9,1,2], [9,1,3]`) names another item: the model's lookup of
    `3` then finds tag 31 — the class of defect T5 excludes -/
example :
    (match register Cfg.fixed lexV st0
        (il [.module 9 (il [fn0 3 30, .module 1 (il [fn0 2 20, fn0 3 31])]), .use [[9, 1, 2], [9, 1, 3]]]) with
     | .ok st => resolvePath st [3]
     | _ => none) = some ⟨.function [] .unit 31, none⟩ := by decide

/-- the defect of the pinned tree (repaired by fix 5daff39): `use 9::1::{self, 2};`
    came out as the path `9::1::self` — a segment that names nothing — instead
    of `9::1`; the module was not usable through the declaration that names it -/
theorem pinned_self_taken_literally :
    RotoV.Use.flattenPinned (.path 9 (.path 1 (.group (.cons (.name RotoV.Use.selfIdent) (.cons (.name 2) .nil))))) =
      some [[9, 1, RotoV.Use.selfIdent], [9, 1, 2]] ∧
    RotoV.Use.flattenSpec (.path 9 (.path 1 (.group (.cons (.name RotoV.Use.selfIdent) (.cons (.name 2) .nil))))) =
      some [[9, 1], [9, 1, 2]] := by decide

end useWitnesses

end RotoV.C18
