/-
  C14, theorems over the *generated* definitions `RotoV/Generated/C14Read.lean`
  (translator target `c14read`): what a read of a script constant is lowered
  to in `src/mir/lower.rs` (`path_value`), `src/lir/lower.rs` (`assign`) and
  `src/codegen/mod.rs` (`ConstantAddress`), and what follows for a body with
  several read sites on different paths ("afterwards every function and
  constant observes that one value").  Kept in a module of their own so that a
  change of how reads are lowered breaks exactly these obligations.
-/
import RotoV.Lemmas.TarjanRead
import RotoV.Generated.C14Read

namespace RotoV.C14
open RotoV.Tarjan

/-! ## T8 — every read site goes to the store, on every path -/

/-- The statement lists of the source have a meaning (`lowerSite`): a constant
path without fields is `Value::Constant` at the use site; with fields, a
temporary assigned from `Value::Constant` at the site. The LIR arm takes the
address of that constant where the MIR value stands and clones from it; the
code generator resolves the address to the runtime's constant, else to the
value the item loop stored, else stops loudly. -/
theorem read_site_shape :
    (∀ f k, lowerSite RotoV.Gen.C14Read.mirReadNoFields f k = some (.direct k)) ∧
    (∀ f k, lowerSite RotoV.Gen.C14Read.mirReadFields f k = some (.viaTemp f k)) ∧
    RotoV.Gen.C14Read.lirConstantAssign = modelLirConstantAssign ∧
    RotoV.Gen.C14Read.cgConstantAddress = modelCgConstantAddress := by
  refine ⟨fun f k => ?_, fun f k => ?_, by decide, by decide⟩ <;> rfl

/-- For every body — read sites under branches, in loops that may run zero
times, before an early `return`, after them — every choice of run-time conditions and loop counts and
every state of the temporaries: the body lowered the way the source lowers
read sites is worth exactly what the property demands, each read site the one
stored value of its constant. (Both statement lists; the lowering never fails.) -/
theorem reads_observe_store (store : Nat → Nat) (cond : Nat → Bool) (count : Nat → Nat)
    (b : Body) (f : Nat) (T : Temps) :
    (∃ c f', lowerBody RotoV.Gen.C14Read.mirReadNoFields b f = some (c, f') ∧
      (c.run store cond count T).1 = b.spec store cond count) ∧
    (∃ c f', lowerBody RotoV.Gen.C14Read.mirReadFields b f = some (c, f') ∧
      (c.run store cond count T).1 = b.spec store cond count) := by
  have total : ∀ acts, (∀ f k, ∃ s, lowerSite acts f k = some s) →
      ∀ (b : Body) (f : Nat), ∃ c f', lowerBody acts b f = some (c, f') := by
    intro acts hs b
    induction b with
    | lit n => intro f; exact ⟨_, _, rfl⟩
    | read k =>
      intro f
      obtain ⟨s, h⟩ := hs f k
      exact ⟨.site s, f + 1, by simp [lowerBody, h]⟩
    | add a b iha ihb =>
      intro f
      obtain ⟨ca, f1, ha⟩ := iha f
      obtain ⟨cb, f2, hb⟩ := ihb f1
      exact ⟨.add ca cb, f2, by simp [lowerBody, ha, hb, bind, Option.bind, pure]⟩
    | ite c t e iht ihe =>
      intro f
      obtain ⟨ct, f1, ht⟩ := iht f
      obtain ⟨ce, f2, he⟩ := ihe f1
      exact ⟨.ite c ct ce, f2, by simp [lowerBody, ht, he, bind, Option.bind, pure]⟩
    | loop c b ih =>
      intro f
      obtain ⟨cb, f1, hb⟩ := ih f
      exact ⟨.loop c cb, f1, by simp [lowerBody, hb, bind, Option.bind, pure]⟩
    | ret r ih =>
      intro f
      obtain ⟨cr, f1, hr⟩ := ih f
      exact ⟨.ret cr, f1, by simp [lowerBody, hr, bind, Option.bind, pure]⟩
  obtain ⟨h1, h2, _, _⟩ := read_site_shape
  constructor
  · obtain ⟨c, f', h⟩ := total _ (fun f k => ⟨_, h1 f k⟩) b f
    exact ⟨c, f', h, lowerBody_run store cond count _ b f c f' h T⟩
  · obtain ⟨c, f', h⟩ := total _ (fun f k => ⟨_, h2 f k⟩) b f
    exact ⟨c, f', h, lowerBody_run store cond count _ b f c f' h T⟩

/-- What the harness compares on every compiled program (`lir-read-sites`): the
body lowered the way the source lowers read sites has, for every constant,
exactly one store read (`Value::Constant`, which the LIR arm turns into one
`ConstantAddress` of that constant) per read site of the source — no site
shares the read of another one.  The hook counts the `ConstantAddress`
instructions per constant in every real lowered body; the generator knows the
number of read sites. -/
theorem one_store_read_per_site (b : Body) (f k : Nat) :
    (∀ c f', lowerBody RotoV.Gen.C14Read.mirReadNoFields b f = some (c, f') → c.storeReads k = b.sites k) ∧
    (∀ c f', lowerBody RotoV.Gen.C14Read.mirReadFields b f = some (c, f') → c.storeReads k = b.sites k) :=
  ⟨fun c f' h => lowerBody_storeReads _ k b f c f' h, fun c f' h => lowerBody_storeReads _ k b f c f' h⟩

/-- … which a body with a shared read does not have -/
example :
    let code : Code := .add (.ite 0 (.site (.viaTemp 0 7)) (.lit 0)) (.site (.reuse 0))
    let body : Body := .add (.ite 0 (.read 7) (.lit 0)) (.read 7)
    code.storeReads 7 = 1 ∧ body.sites 7 = 2 := by decide

/-- not vacuous: `(if c0 { K7 } else { 0 }) + K7` lowered with the second site
re-using the temporary the first site assigned (a read remembered per function
in lowering order) is worth `store 7` short on the path around the branch —
`reuse` is what no statement list of the source may mean. -/
example :
    let code : Code := .add (.ite 0 (.site (.viaTemp 0 7)) (.lit 0)) (.site (.reuse 0))
    let body : Body := .add (.ite 0 (.read 7) (.lit 0)) (.read 7)
    (code.run (fun _ => 42) (fun _ => false) (fun _ => 0) []).1 = .val 0 ∧
    body.spec (fun _ => 42) (fun _ => false) (fun _ => 0) = .val 42 ∧
    (code.run (fun _ => 42) (fun _ => true) (fun _ => 0) []).1 = .val 84 := by decide
/-- … and a loop that runs zero times before the second site -/
example :
    let code : Code := .add (.loop 0 (.site (.viaTemp 0 7))) (.site (.reuse 0))
    (code.run (fun _ => 5) (fun _ => false) (fun _ => 0) []).1 = .val 0 ∧
    (code.run (fun _ => 5) (fun _ => false) (fun _ => 2) []).1 = .val 15 := by decide
/-- … and an early return: `if c0 { return K7 + 7 }; 100 + K7` (a read before an
early return, another one on the path around it) -/
example :
    let code : Code := .add (.ite 0 (.ret (.add (.site (.viaTemp 0 7)) (.lit 7))) (.lit 0)) (.add (.lit 100) (.site (.reuse 0)))
    let body : Body := .add (.ite 0 (.ret (.add (.read 7) (.lit 7))) (.lit 0)) (.add (.lit 100) (.read 7))
    (code.run (fun _ => 42) (fun _ => true) (fun _ => 0) []).1 = .ret 49 ∧
    body.spec (fun _ => 42) (fun _ => true) (fun _ => 0) = .ret 49 ∧
    (code.run (fun _ => 42) (fun _ => false) (fun _ => 0) []).1 = .val 100 ∧
    body.spec (fun _ => 42) (fun _ => false) (fun _ => 0) = .val 142 := by decide
example : lowerSite [.tempFromConstant] 0 7 = none := by decide
example : lowerSite [] 0 7 = none := by decide

end RotoV.C14
