/-
C05 — what a script reads from the host (a registered constant, a context
field) is a copy: nothing a script does afterwards reaches the host's cells.

`host_cells_unchanged`: for every program all of whose functions pass
`Func.check` (pointers derived from `ConstantAddress` / `$context` are only read
through), every execution of any of its functions — any sequence of its
instructions, script calls to any depth, Rust code as any well-behaved oracle —
from a consistent state leaves every host cell as it was.
`call_from_host`: the same for a call the host makes (arguments that are no
pointers into host cells, any context pointer).
`check_rejects_alias`, `check_rejects_writing_callee`, `alias_overwrites_host`: the statement is not vacuous —
a function that binds a local to the constant's address and then copies into
that local (the LIR shape of "a plain-data constant bound to a whole local is
not copied") is rejected by the check, and in the model it does change the host cell.

The tie to the code is by correspondence: the harness hands the real LIR of
every generated script (hook `verif_hooks::c05::mem_ops`) to `Func.check`
(driver `c05 prov`), with the certificate `computeTaint` computes.
-/
import RotoV.Lemmas.BoundaryStore

namespace RotoV.C05

open RotoV.BoundaryStore

/-- Every execution of a checked program leaves the host's cells unchanged (and
keeps the invariant, so the statement composes over any number of calls). -/
theorem host_cells_unchanged (P : List Func) (hP : ∀ g ∈ P, g.check P = true)
    (f : Func) (hf : f.check P = true) (σ σ' : State)
    (hc : Consistent f.taint σ) (h : Exec P f σ σ') :
    σ'.host = σ.host ∧ Consistent f.taint σ' := by
  induction h with
  | done f σ => exact ⟨rfl, hc⟩
  | simple f i hi hs rest ih =>
    have hf' := hf
    simp only [Func.check, Bool.and_eq_true, List.all_eq_true] at hf'
    have hstep := stepSimple_clean hc i (hf'.2 i hi) hs
    have := ih hf hstep.2
    exact ⟨this.1.trans hstep.1, this.2⟩
  | rt f i hi hr o ho rest ih =>
    have hstep := stepRt_clean hc i o ho
    have := ih hf hstep.2
    exact ⟨this.1.trans hstep.1, this.2⟩
  | @call f σ σg σ' to ctx fn args retPtr hi g hg run rest ihrun ihrest =>
    have hf' := hf
    simp only [Func.check, Bool.and_eq_true, List.all_eq_true] at hf'
    have hok := hf'.2 _ hi
    simp only [Instr.ok, hg] at hok
    have hgP : g ∈ P := List.mem_of_find?_eq_some hg
    have hgc := hP g hgP
    have hgctx : g.taint.contains g.ctxVar = true := by
      simp only [Func.check, Bool.and_eq_true] at hgc
      exact hgc.1
    have hent := enter_consistent hc g hgctx (σ.get ctx) _ (zip_args_ok hc g hok)
    have hrun := ihrun hgc hent
    have hleave : Consistent f.taint (leave σ σg to) := leave_consistent hc hrun.2 to
    have hrest := ihrest hf hleave
    refine ⟨?_, hrest.2⟩
    rw [hrest.1, leave_host, hrun.1]
    rfl

/-- A call the host makes: it passes any context pointer and arguments that are
not pointers into its own cells; memory holds no such pointers. Whatever the
script does, the host's cells are the same afterwards. -/
theorem call_from_host (P : List Func) (hP : checkProg P = true) (f : Func) (hf : f ∈ P)
    (ctx : Val) (args : List Val) (hargs : ∀ x ∈ args, x.isHost = false)
    (σ σ' : State) (hframe : ∀ a, (σ.frame a).isHost = false) (hret : σ.retv.isHost = false)
    (h : Exec P f (enter f ctx args σ) σ') : σ'.host = σ.host := by
  have hP' : ∀ g ∈ P, g.check P = true := by
    simpa only [checkProg, List.all_eq_true] using hP
  have hfc := hP' f hf
  have hctx : f.taint.contains f.ctxVar = true := by
    simp only [Func.check, Bool.and_eq_true] at hfc
    exact hfc.1
  have h0 : Consistent [] { σ with env := fun _ => .scalar 0 } :=
    ⟨fun _ hv => (by cases hv), hframe, hret⟩
  have hzip : ∀ pa ∈ f.params.zip args, pa.2.isHost = true → f.taint.contains pa.1 = true := by
    intro pa hpa hh
    rw [hargs pa.2 (List.of_mem_zip hpa).2] at hh
    cases hh
  have hent : Consistent f.taint (enter f ctx args σ) :=
    ⟨(enter_consistent h0 f hctx ctx args hzip).env_ok, hframe, hret⟩
  exact (host_cells_unchanged P hP' f hfc _ _ hent h).1

-- ------------------------------------------------------------------ non-vacuity

/-- `let a = K;` lowered as a copy into `a`'s own slot, then `a = x;`: passes -/
def copyingRead : Func :=
  { id := 0, params := [1], ctxVar := 0, taint := [8, 0],
    body := [.constAddr 8 0, .copy (.var 2) (.var 8) 2, .copy (.var 2) (.var 1) 2, .copy (.var 9) (.var 2) 2, .ret none] }

/-- the same with `a` re-pointed at the constant instead of copied into: rejected -/
def aliasingRead : Func :=
  { id := 0, params := [1], ctxVar := 0, taint := [2, 8, 0],
    body := [.constAddr 8 0, .assign 2 (.var 8), .copy (.var 2) (.var 1) 2, .copy (.var 9) (.var 2) 2, .ret none] }

example : copyingRead.check [copyingRead] = true := by decide
example : computeTaint 0 copyingRead.body = [8, 0] := by decide
example : computeTaint 0 aliasingRead.body = [2, 8, 0] := by decide

/-- the check rejects the aliasing lowering, with the least certificate and with any other -/
theorem check_rejects_alias : ∀ P T, { aliasingRead with taint := T }.check P = false := by
  intro P T
  simp only [Func.check, aliasingRead, List.all_cons, List.all_nil, Instr.ok, tainted, Bool.and_true]
  cases h8 : T.contains 8 <;> cases h2 : T.contains 2 <;> simp

/-- a caller that hands the constant's address to a generated clone function
(parameters 5 = source, 6 = destination): accepted when the callee only reads
through its source … -/
def cloneCaller : Func :=
  { id := 0, params := [], ctxVar := 0, taint := [8, 0],
    body := [.constAddr 8 0, .call none (.var 0) 1 [.var 8] (some (.var 3)), .ret none] }
def cloneCallee : Func :=
  { id := 1, params := [5, 6], ctxVar := 0, taint := [5, 0],
    body := [.copy (.var 6) (.var 5) 2, .ret none] }
/-- … and rejected when the callee writes through it, whatever certificates are offered
for the callee -/
def badCallee (T : List Var) : Func :=
  { id := 1, params := [5, 6], ctxVar := 0, taint := T,
    body := [.copy (.var 5) (.var 6) 2, .ret none] }

example : checkProg [cloneCaller, cloneCallee] = true := by decide
/-- the whole-program certificate the driver computes finds the callee's parameter -/
example : (certify [{ cloneCaller with taint := [] }, { cloneCallee with taint := [] }]).map (·.taint.eraseDups)
    = [[0, 8], [0, 5]] := by decide
theorem check_rejects_writing_callee : ∀ T, checkProg [cloneCaller, badCallee T] = false := by
  intro T
  simp [checkProg, Func.check, cloneCaller, badCallee, Instr.ok, lookup, tainted]
  exact fun h _ => h

def demoState : State :=
  { env := fun v => if v = 1 then .ptr .frame 100 else if v = 2 then .ptr .frame 200 else if v = 9 then .ptr .frame 300 else .scalar 0,
    host := fun a => if a = 0 then 42 else 0,
    frame := fun a => if a = 100 then .scalar 7 else .scalar 0,
    retv := .scalar 0 }

/-- … and rightly so: running the aliasing lowering overwrites the constant's cell
(42 registered, 7 afterwards), while the copying one leaves it -/
theorem alias_overwrites_host :
    ((aliasingRead.body.foldl (fun σ i => stepSimple i σ) demoState).host 0 = 7) ∧
    ((copyingRead.body.foldl (fun σ i => stepSimple i σ) demoState).host 0 = 42) := by
  constructor <;> rfl

/-- the hypotheses of `host_cells_unchanged` are satisfiable: the copying program,
run from the demo state through all its instructions -/
example : ∃ σ', Exec [copyingRead] copyingRead demoState σ' ∧ σ'.host 0 = 42 := by
  refine ⟨copyingRead.body.foldl (fun σ i => stepSimple i σ) demoState, ?_, rfl⟩
  refine .simple _ (.constAddr 8 0) (by simp [copyingRead]) rfl ?_
  refine .simple _ (.copy (.var 2) (.var 8) 2) (by simp [copyingRead]) rfl ?_
  refine .simple _ (.copy (.var 2) (.var 1) 2) (by simp [copyingRead]) rfl ?_
  refine .simple _ (.copy (.var 9) (.var 2) 2) (by simp [copyingRead]) rfl ?_
  refine .simple _ (.ret none) (by simp [copyingRead]) rfl ?_
  exact .done _ _

example : Consistent copyingRead.taint demoState :=
  ⟨fun v hv => by
      simp only [demoState] at hv
      by_cases h1 : v = 1
      · simp [h1, Val.isHost] at hv
      · by_cases h2 : v = 2
        · simp [h2, Val.isHost] at hv
        · by_cases h9 : v = 9
          · simp [h9, Val.isHost] at hv
          · simp [h1, h2, h9, Val.isHost] at hv,
   fun a => by simp only [demoState]; split <;> rfl,
   rfl⟩

end RotoV.C05
