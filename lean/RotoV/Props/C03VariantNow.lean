/-
  C03, variant layer on the current tree: the witnesses of `Generated/C03Dumps.lean`
  (regenerated from the compiler's MIR on every run) whose guards assign to the matched variable
  are accepted by both verified checkers; with `checker_sound` and `variant_reads_sound` this
  covers every path through them.
-/
import RotoV.Model.MirVariant
import RotoV.Generated.C03Dumps

namespace RotoV.C03
open RotoV.Mir

/-- `let x = opt(t, true); match x { Some(y) if { x = None; id(y) == n } => 1, Some(z) => id(z), None => 3 }`:
    the guard assigns to the matched variable; the arms read the match's own copy of the
    examinee, which nothing writes between the switch and the reads. -/
theorem examinee_reassigned_witness_accepted_on_current_tree :
    ownCheck Now.wExamineeReassigned Now.wExamineeReassignedCert = true ∧
    varCheck Now.wExamineeReassigned Now.wExamineeReassignedVCert = true := by decide +kernel

/-- the same for an enum with a String payload, reassigned by the guard of its first arm -/
theorem examinee_enum_reassigned_witness_accepted_on_current_tree :
    ownCheck Now.wExamineeEnumReassigned Now.wExamineeEnumReassignedCert = true ∧
    varCheck Now.wExamineeEnumReassigned Now.wExamineeEnumReassignedVCert = true := by decide +kernel

end RotoV.C03
