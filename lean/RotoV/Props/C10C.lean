/-
  C10 (contention part): list built-ins cannot kill the host while other
  threads use the same list.

  Stated over `RotoV.Gen.C10Locks` — the lock events of every function of
  `src/value/list.rs` and of the binding bodies along their control flow
  (`LockFn.tree`: one branch per `if`/`else`, `match` arm, loop, early return,
  with the address comparisons of the two lists recorded), regenerated on
  every run — with the meaning given in `RotoV.Model.MutexPanic`.
-/
import RotoV.Generated.C10Locks
import RotoV.Model.MutexPanic

namespace RotoV.C10C
open RotoV RotoV.MutexPanic RotoV.Gen.C10Locks

/-! ### the model: blocking acquisitions never panic, whoever holds the mutex -/

theorem attempt_poisoned (k f m t) : (attempt k f m t).2.poisoned = m.poisoned := by
  unfold attempt
  cases k <;> cases h : m.holder <;> simp <;> split <;> simp

theorem step_unpoisoned (s : St) (hs : s.unpoisoned) (t : Nat) (a : Act) : (step s t a).2.unpoisoned := by
  intro i
  cases a with
  | acq k f m =>
    simp only [step, St.set]
    split
    · next h => subst h; rw [attempt_poisoned]; exact hs i
    · exact hs i
  | rel m =>
    simp only [step]
    split
    · simp only [St.set]
      split
      · next h => subst h; exact hs i
      · exact hs i
    · exact hs i

/-- One safe action in an unpoisoned state: acquired, blocked (waits), relock,
    an error value, released — never a panic. -/
theorem safe_step_no_panic (s : St) (hs : s.unpoisoned) (t : Nat) (a : Act) (ha : a.safe = true) :
    (step s t a).1 ≠ .panic := by
  cases a with
  | rel m => simp only [step]; split <;> simp
  | acq k f m =>
    have hp := hs m
    cases k with
    | blocking =>
      simp only [step, attempt]
      cases h : (s m).holder with
      | none => simp [hp]
      | some x => simp only []; split <;> simp
    | try_ =>
      have hf : f = .other := by simpa [Act.safe] using ha
      subst hf
      simp only [step, attempt]
      cases h : (s m).holder with
      | none => simp [hp]
      | some x => simp [OnFail.out]

/-- **run_no_panic**: for EVERY schedule (any number of threads, any
    interleaving, any mutexes) made of safe actions, starting from unpoisoned
    mutexes, no step panics. -/
theorem run_no_panic (tr : List (Nat × Act)) (s : St) (hs : s.unpoisoned)
    (h : ∀ x ∈ tr, x.2.safe = true) : Out.panic ∉ run s tr := by
  induction tr generalizing s with
  | nil => simp [run]
  | cons x rest ih =>
    obtain ⟨t, a⟩ := x
    simp only [run, List.mem_cons, not_or]
    refine ⟨fun e => safe_step_no_panic s hs t a (h (t, a) (by simp)) e.symm, ?_⟩
    exact ih _ (step_unpoisoned s hs t a) (fun y hy => h y (by simp [hy]))

/-- The hypothesis is necessary: one thread holds a list (host-side `to_vec`,
    or a built-in in mid-flight), a second thread reaches a
    `try_lock().expect(..)` on the same list — panic, i.e. host abort. -/
theorem try_expect_panics_under_contention :
    run St.init [(0, .acq .blocking .unwrap 7), (1, .acq .try_ .expect 7)] = [.acquired, .panic] := by
  decide

/-- …while the blocking form waits and then gets the lock. -/
example : run St.init [(0, .acq .blocking .unwrap 7), (1, .acq .blocking .unwrap 7), (0, .rel 7), (1, .acq .blocking .unwrap 7)]
    = [.acquired, .blocked, .released, .acquired] := by decide

/-! ### the code: every lock site of list.rs and of the bindings, as written -/

/-- Every acquisition in `src/value/list.rs` (FFI shims, `ErasedList`, its
    `PartialEq`, the host-side `List<T>`) and in the binding bodies, on every
    control-flow path, is a blocking `.lock()` — or a `try_lock` whose error is
    handled.  A `try_lock().unwrap()/.expect(..)` at any site (directly or
    through a guard-returning helper) breaks this theorem. -/
theorem all_lock_sites_safe : ∀ f ∈ LockFn.all, ∀ p ∈ f.tree.paths, ∀ e ∈ p, e.safe = true := by
  decide

theorem inst_safe (ρ : Tgt → Nat) (e : Ev) (a : Act) (he : e.safe = true) (h : e.inst ρ = some a) : a.safe = true := by
  cases e with
  | acq k f t => cases k <;> simp_all [Ev.inst, Ev.safe, Act.safe] <;> subst h <;> simp_all
  | rel t => simp [Ev.inst] at h; subst h; rfl
  | assume c b => simp [Ev.inst] at h

/-- **builtin_no_panic_under_contention**: take ANY schedule whose actions are
    lock events of the list functions as written, on any of their control-flow
    paths (any threads, any lists, any interleaving — including a host thread
    holding a list in `to_vec` for as long as it likes), starting from
    unpoisoned mutexes: no acquisition panics.  A contended built-in waits; it
    never aborts the host. -/
theorem builtin_no_panic_under_contention (tr : List (Nat × Act)) (s : St) (hs : s.unpoisoned)
    (h : ∀ x ∈ tr, ∃ f ∈ LockFn.all, ∃ p ∈ f.tree.paths, ∃ e ∈ p, ∃ ρ, e.inst ρ = some x.2) :
    Out.panic ∉ run s tr := by
  apply run_no_panic tr s hs
  intro x hx
  obtain ⟨f, hf, p, hp, e, he, ρ, hi⟩ := h x hx
  exact inst_safe ρ e x.2 (all_lock_sites_safe f hf p hp e he) hi

-- non-vacuity: the table has the sites, and a real schedule satisfies the hypothesis
example : LockFn.all.length ≥ 12 := by decide
example : (LockFn.ErasedList_len).tree.paths = [[.acq .blocking .unwrap .self_, .rel .self_]] := by decide
example : ∃ f ∈ LockFn.all, ∃ p ∈ f.tree.paths, ∃ e ∈ p, ∃ ρ, e.inst ρ = some (Act.acq .blocking .unwrap 3) :=
  ⟨.ErasedList_len, by decide, [.acq .blocking .unwrap .self_, .rel .self_], by decide,
   .acq .blocking .unwrap .self_, by decide, fun _ => 3, rfl⟩
-- `==` has three paths: the same list (no lock), `self` below `other`, `other` below `self`
example : (LockFn.PartialEq_for_ErasedList_eq).tree.paths.length = 3 := by decide

/-! ### paths and executions: what a call does on given lists is one of its paths -/

theorem holds_of_eval (ρ : Tgt → Nat) (c : Cond) (b : Bool) (h : c.eval ρ = some b ∨ c.eval ρ = none) : c.holds ρ b := by
  cases c <;> cases b <;> simp [Cond.eval, Cond.holds] at h ⊢ <;> omega

/-- **exec_path**: whatever the lists (`ρ`) and the outcomes of the data-dependent
    branches (`o`), the actions of the call are those of one of the tree's
    paths, and every decision of that path is the one `ρ` dictates. -/
theorem exec_path (ρ : Tgt → Nat) : ∀ (t : Tree) (o : List Bool),
    ∃ p ∈ t.paths, pathHolds ρ p ∧ callActs ρ p = t.exec ρ o := by
  intro t
  induction t with
  | done => intro o; exact ⟨[], by simp [Tree.paths], trivial, rfl⟩
  | acq k f tg r ih =>
    intro o
    obtain ⟨p, hp, hh, he⟩ := ih o
    exact ⟨.acq k f tg :: p, by simp [Tree.paths, hp], hh, by simp [callActs, Tree.exec, he]⟩
  | rel tg r ih =>
    intro o
    obtain ⟨p, hp, hh, he⟩ := ih o
    exact ⟨.rel tg :: p, by simp [Tree.paths, hp], hh, by simp [callActs, Tree.exec, he]⟩
  | branch c a b iha ihb =>
    intro o
    have left : ∀ o', c.holds ρ true → ∃ p ∈ (Tree.branch c a b).paths, pathHolds ρ p ∧ callActs ρ p = a.exec ρ o' := by
      intro o' hc
      obtain ⟨p, hp, hh, he⟩ := iha o'
      exact ⟨.assume c true :: p, by simp [Tree.paths, hp], ⟨hc, hh⟩, by simp [callActs, he]⟩
    have right : ∀ o', c.holds ρ false → ∃ p ∈ (Tree.branch c a b).paths, pathHolds ρ p ∧ callActs ρ p = b.exec ρ o' := by
      intro o' hc
      obtain ⟨p, hp, hh, he⟩ := ihb o'
      exact ⟨.assume c false :: p, by simp [Tree.paths, hp], ⟨hc, hh⟩, by simp [callActs, he]⟩
    cases hev : c.eval ρ with
    | some v =>
      cases v with
      | true => simp only [Tree.exec, hev]; exact left o (holds_of_eval ρ c true (Or.inl hev))
      | false => simp only [Tree.exec, hev]; exact right o (holds_of_eval ρ c false (Or.inl hev))
    | none =>
      cases o with
      | nil => simp only [Tree.exec, hev]; exact right [] (holds_of_eval ρ c false (Or.inr hev))
      | cons x o' =>
        simp only [Tree.exec, hev]
        cases x with
        | true => simpa using left o' (holds_of_eval ρ c true (Or.inr hev))
        | false => simpa using right o' (holds_of_eval ρ c false (Or.inr hev))

/-! ### what a path knows about the addresses is correct -/

theorem top_admits (ρ : Tgt → Nat) : Rel.top.admits ρ := ⟨fun _ => rfl, fun _ => rfl, fun _ => rfl⟩

theorem assume_admits (K : Rel) (ρ : Tgt → Nat) (c : Cond) (b : Bool) (hK : K.admits ρ) (h : c.holds ρ b) :
    (K.assume c b).admits ρ := by
  obtain ⟨h1, h2, h3⟩ := hK
  cases c <;> cases b <;> simp only [Cond.holds, Rel.assume, Rel.admits] at h ⊢ <;>
    refine ⟨?_, ?_, ?_⟩ <;> intro hh <;>
    first
      | exact h1 hh
      | exact h2 hh
      | exact h3 hh
      | (exfalso; simp at h; omega)

theorem mayAlias_mono (K : Rel) (c : Cond) (d : Bool) (a b : Tgt) (h : mayAlias K a b = false) :
    mayAlias (K.assume c d) a b = false := by
  cases a <;> cases b <;> cases c <;> cases d <;> simp_all [mayAlias, Rel.assume]

/-- No function that compiled code reaches locks, on ANY control-flow path, a
    mutex it may already hold (`concat` locks `self` once when both operands
    are the same list; `==` returns early then): a call can wait for other
    threads but never for itself.  Static check over the generated paths
    (`noRelock`). -/
theorem builtin_fns_never_relock :
    ∀ f ∈ LockFn.all, f.reachedByBuiltins = true → ∀ p ∈ f.tree.paths, noRelock p [] .top = true := by
  decide

example : noRelock [.acq .blocking .unwrap .self_, .acq .blocking .unwrap .other] [] .top = false := by decide
example : noRelock [.assume .same false, .acq .blocking .unwrap .self_, .acq .blocking .unwrap .other] [] .top = true := by decide

/-- `mayAlias` is sound: targets it separates are different mutexes under every
    admissible assignment the path's knowledge is correct for. -/
theorem mayAlias_sound (ρ : Tgt → Nat) (hρ : RhoOk ρ) (K : Rel) (hK : K.admits ρ)
    (a b : Tgt) (h : mayAlias K a b = false) : ρ a ≠ ρ b := by
  have h1 := hρ.fresh_self; have h2 := hρ.fresh_other
  have hk := hK.1
  cases a <;> cases b <;> simp_all [mayAlias] <;> omega

/-- **noRelock_sound**: if the static check passes for a path, then under EVERY
    admissible assignment of its targets to mutexes that takes this path, the
    call never acquires a mutex it still holds (so a blocking `lock()` in it can
    only ever wait for another thread, never for itself). -/
theorem noRelock_sound (ρ : Tgt → Nat) (hρ : RhoOk ρ) :
    ∀ (evs : List Ev) (held : List Tgt) (heldM : List Nat) (K : Rel),
      K.admits ρ → pathHolds ρ evs → heldM.Nodup → (∀ m ∈ heldM, ∃ h ∈ held, ρ h = m) →
      noRelock evs held K = true → heldOk (callActs ρ evs) heldM = true := by
  intro evs
  induction evs with
  | nil => intros; simp [callActs, heldOk]
  | cons e r ih =>
    intro held heldM K hK hpath hnd himg h
    cases e with
    | acq k f t =>
      simp only [noRelock, Bool.and_eq_true, Bool.not_eq_true', List.any_eq_false] at h
      obtain ⟨hna, hr⟩ := h
      have hnot : ρ t ∉ heldM := by
        intro hm
        obtain ⟨x, hx, hxe⟩ := himg _ hm
        have := hna x hx
        exact mayAlias_sound ρ hρ K hK t x (by simpa using this) hxe.symm
      simp only [callActs, heldOk, Bool.and_eq_true, Bool.not_eq_true', List.contains_eq_mem, decide_eq_false_iff_not]
      refine ⟨hnot, ih (t :: held) (ρ t :: heldM) K hK hpath (List.nodup_cons.mpr ⟨hnot, hnd⟩) ?_ hr⟩
      intro m hm
      rcases List.mem_cons.mp hm with rfl | hm
      · exact ⟨t, by simp, rfl⟩
      · obtain ⟨x, hx, hxe⟩ := himg _ hm
        exact ⟨x, by simp [hx], hxe⟩
    | rel t =>
      simp only [noRelock] at h
      simp only [callActs, heldOk]
      refine ih (held.erase t) (heldM.erase (ρ t)) K hK hpath (hnd.erase _) ?_ h
      intro m hm
      have hm' := (hnd.mem_erase_iff).mp hm
      obtain ⟨x, hx, hxe⟩ := himg _ hm'.2
      have hxt : x ≠ t := by
        intro e; subst e; exact hm'.1 hxe.symm
      exact ⟨x, (List.mem_erase_of_ne hxt).mpr hx, hxe⟩
    | assume c b =>
      simp only [noRelock] at h
      simp only [callActs]
      exact ih held heldM (K.assume c b) (assume_admits K ρ c b hK hpath.1) hpath.2 hnd himg h

/-- Every call of a function compiled code reaches — on any lists, aliased or
    not, whichever way its data-dependent branches go — never acquires a mutex
    it still holds. -/
theorem builtin_calls_never_self_acquire (f : LockFn) (hf : f ∈ LockFn.all) (hr : f.reachedByBuiltins = true)
    (ρ : Tgt → Nat) (hρ : RhoOk ρ) (o : List Bool) : heldOk (f.tree.exec ρ o) [] = true := by
  obtain ⟨p, hp, hh, he⟩ := exec_path ρ f.tree o
  rw [← he]
  exact noRelock_sound ρ hρ p [] [] .top (top_admits ρ) hh List.nodup_nil (by simp)
    (builtin_fns_never_relock f hf hr p hp)

-- `l.concat(l)`: self = other = 5, the new list is 9: the call locks 5 once, then 9
/-- `StringBuf` (src/value/string_buf.rs) is the other built-in value behind an `Arc<Mutex<..>>`.
    The crate does not export the type (read from src/lib.rs on every run: `LockFn.threadLocal`), so a
    StringBuf is never used by two threads and `lock()` never waits for another thread; what is left is
    that a call never waits for ITSELF.  On every control-flow path of `push_char`, `push_string`,
    `as_string` and of `==` (which takes two locks in one statement) no mutex is acquired that may
    already be held: `a == a` returns before any lock is taken (`Arc::ptr_eq`). -/
theorem thread_local_fns_never_relock :
    ∀ f ∈ LockFn.all, f.threadLocal = true → ∀ p ∈ f.tree.paths, noRelock p [] .top = true := by
  decide

/-- …hence every call of one of them, on any two buffers — the same one twice included —
    whichever way its branches go, never acquires a mutex it still holds (never hangs its thread). -/
theorem thread_local_calls_never_self_acquire (f : LockFn) (hf : f ∈ LockFn.all) (ht : f.threadLocal = true)
    (ρ : Tgt → Nat) (hρ : RhoOk ρ) (o : List Bool) : heldOk (f.tree.exec ρ o) [] = true := by
  obtain ⟨p, hp, hh, he⟩ := exec_path ρ f.tree o
  rw [← he]
  exact noRelock_sound ρ hρ p [] [] .top (top_admits ρ) hh List.nodup_nil (by simp)
    (thread_local_fns_never_relock f hf ht p hp)

-- non-vacuity: `==` on StringBuf is one of them and has the early-return path and the two-lock path;
-- without the `Arc::ptr_eq` return the two-lock path is rejected (`a == a` would wait for itself)
example : LockFn.PartialEq_for_StringBuf_eq ∈ LockFn.all ∧ (LockFn.PartialEq_for_StringBuf_eq).threadLocal = true
    ∧ (LockFn.PartialEq_for_StringBuf_eq).tree.paths.length = 2
    ∧ noRelock [.acq .blocking .unwrap .self_, .acq .blocking .unwrap .other, .rel .other, .rel .self_] [] .top = false := by
  decide

example : (LockFn.ErasedList_concat).tree.exec (fun t => if t = .fresh then 9 else 5) []
    = [.acq .blocking .unwrap 5, .acq .blocking .unwrap 9, .rel 9, .rel 5] := by decide
-- `a.concat(b)` with `b` below `a`: `b` (3) is locked first, then `a` (5), then the new list
example : (LockFn.ErasedList_concat).tree.exec (fun t => match t with | .self_ => 5 | .other => 3 | _ => 9) []
    = [.acq .blocking .unwrap 3, .acq .blocking .unwrap 5, .acq .blocking .unwrap 9, .rel 9, .rel 3, .rel 5] := by decide
-- …whereas locking `other` while `self` is held, without knowing they differ, would
example : heldOk (callActs (fun _ => 5) [.acq .blocking .unwrap .self_, .acq .blocking .unwrap .other]) [] = false := by decide

/-! ### lock order: a call that holds two lists takes them in address order -/

/-- On every control-flow path of every function compiled code reaches, a
    second list that other threads can see is only locked while the held one is
    KNOWN (from the branch conditions taken) to have the lower address (`==` and
    `concat` on lists), or one of the two is the call's own new list (`concat`).
    With this global order on the mutexes there is no wait cycle between calls:
    `builtins_never_deadlock` (below).  The condition is necessary:
    `unordered_pairs_deadlock`, `deadlock_is_forever`. -/
theorem builtin_fns_lock_order :
    ∀ f ∈ LockFn.all, f.reachedByBuiltins = true → ∀ p ∈ f.tree.paths, lockOrderOk p [] .top = true := by
  decide

-- argument order without an address comparison is refused …
example : lockOrderOk [.assume .same false, .acq .blocking .unwrap .self_, .acq .blocking .unwrap .other] [] .top = false := by decide
-- … so is `self` first on the branch where `other` has the lower address …
example : lockOrderOk [.assume .same false, .assume .selfLtOther false, .acq .blocking .unwrap .self_, .acq .blocking .unwrap .other] [] .top = false := by decide
-- … the two orders the code has are accepted
example : lockOrderOk [.assume .same false, .assume .selfLtOther true, .acq .blocking .unwrap .self_, .acq .blocking .unwrap .other, .rel .other, .rel .self_] [] .top = true := by decide
example : lockOrderOk [.assume .same false, .assume .selfLtOther false, .acq .blocking .unwrap .other, .acq .blocking .unwrap .self_, .rel .other, .rel .self_] [] .top = true := by decide

/-- Necessity: `a == b` on thread 0 and `b == a` on thread 1 with locks taken
    in ARGUMENT order (`self` then `other`): each thread gets its first list
    and then waits for the other's. -/
theorem unordered_pairs_deadlock :
    run St.init [(0, .acq .blocking .unwrap 0), (1, .acq .blocking .unwrap 1),
                 (0, .acq .blocking .unwrap 1), (1, .acq .blocking .unwrap 0)]
      = [.acquired, .acquired, .blocked, .blocked] := by decide

theorem blocked_step_holders (s : St) (t m h : Nat) (hh : (s m).holder = some h) (hne : h ≠ t) (k : Nat) :
    (step s t (.acq .blocking .unwrap m)).1 = .blocked ∧
    ((step s t (.acq .blocking .unwrap m)).2 k).holder = (s k).holder := by
  simp only [step, attempt, hh, St.set]
  simp only [hne, if_false]
  refine ⟨trivial, ?_⟩
  split
  · next e => subst e; rfl
  · rfl

/-- …and that state is final: however often the two threads retry, in any
    order, every attempt is `blocked` — both calls hang forever. -/
theorem deadlock_is_forever (tr : List (Nat × Act)) (s : St)
    (h0 : (s 0).holder = some 0) (h1 : (s 1).holder = some 1)
    (htr : ∀ x ∈ tr, x = (0, Act.acq .blocking .unwrap 1) ∨ x = (1, Act.acq .blocking .unwrap 0)) :
    ∀ o ∈ run s tr, o = .blocked := by
  induction tr generalizing s with
  | nil => simp [run]
  | cons x rest ih =>
    intro o ho
    simp only [run, List.mem_cons] at ho
    rcases htr x (by simp) with hx | hx <;> subst hx
    · have hb := fun k => blocked_step_holders s 0 1 1 h1 (by decide) k
      rcases ho with ho | ho
      · rw [ho]; exact (hb 0).1
      · exact ih _ ((hb 0).2 ▸ h0) ((hb 1).2 ▸ h1) (fun y hy => htr y (by simp [hy])) o ho
    · have hb := fun k => blocked_step_holders s 1 0 0 h0 (by decide) k
      rcases ho with ho | ho
      · rw [ho]; exact (hb 0).1
      · exact ih _ ((hb 0).2 ▸ h0) ((hb 1).2 ▸ h1) (fun y hy => htr y (by simp [hy])) o ho

/-! ### why the order matters: ordered acquisition means some thread can always proceed -/

theorem exists_max {α} (f : α → Nat) : ∀ (l : List α), l ≠ [] → ∃ x ∈ l, ∀ y ∈ l, f y ≤ f x
  | [], h => absurd rfl h
  | [a], _ => ⟨a, by simp, by simp⟩
  | a :: b :: r, _ => by
    obtain ⟨x, hx, hmax⟩ := exists_max f (b :: r) (by simp)
    by_cases h : f x ≤ f a
    · refine ⟨a, by simp, ?_⟩
      intro y hy
      rcases List.mem_cons.mp hy with rfl | hy
      · exact Nat.le_refl _
      · exact Nat.le_trans (hmax y hy) h
    · refine ⟨x, by simp [hx], ?_⟩
      intro y hy
      rcases List.mem_cons.mp hy with rfl | hy
      · omega
      · exact hmax y hy

/-- **Progress**: in a configuration that satisfies the lock discipline, if any
    thread still has something to do, then some thread's next action can
    proceed — there is no deadlock. -/
theorem progress (c : Cfg) (inv : Inv c) (h : ∃ t ∈ c.ts, c.prog t ≠ []) :
    ∃ t ∈ c.ts, ∃ a r, c.prog t = a :: r ∧ enabled c.s a := by
  -- suppose not: every unfinished thread is about to take a blocking lock that is held
  apply Classical.byContradiction
  intro hno
  have blocked : ∀ t ∈ c.ts, c.prog t ≠ [] → ∃ f m r h', c.prog t = .acq .blocking f m :: r ∧ (c.s m).holder = some h' := by
    intro t ht hne
    cases hp : c.prog t with
    | nil => exact absurd hp hne
    | cons a r =>
      cases a with
      | rel m => exact absurd ⟨t, ht, _, _, hp, trivial⟩ hno
      | acq k f m =>
        cases k with
        | try_ => exact absurd ⟨t, ht, _, _, hp, trivial⟩ hno
        | blocking =>
          cases hh : (c.s m).holder with
          | none => exact absurd ⟨t, ht, _, _, hp, hh⟩ hno
          | some h' => exact ⟨f, m, r, h', rfl, hh⟩
  -- the mutex each unfinished thread waits for
  let want : Nat → Nat := fun t => match c.prog t with
    | .acq _ _ m :: _ => m
    | _ => 0
  let un := c.ts.filter (fun t => decide (c.prog t ≠ []))
  obtain ⟨t0, ht0, hne0⟩ := h
  have hun : un ≠ [] := by
    intro e
    have : t0 ∈ un := by simp [un, ht0, hne0]
    simp [e] at this
  obtain ⟨t, htun, hmax⟩ := exists_max want un hun
  have ht : t ∈ c.ts ∧ c.prog t ≠ [] := by simpa [un] using htun
  obtain ⟨f, m, r, h', hp, hh⟩ := blocked t ht.1 ht.2
  -- the holder of `m` is itself unfinished, hence blocked on some `m2`
  obtain ⟨hh'ts, hh'ne⟩ := inv.holders m h' hh
  obtain ⟨f2, m2, r2, h2, hp2, hh2⟩ := blocked h' hh'ts hh'ne
  have hne : h' ≠ t := by
    intro e; subst e
    exact (inv.ordered h' f m r hp m hh).1 rfl
  -- it holds `m` and wants `m2`: `m < m2` (`m2` is not private to it: it would hold it itself;
  -- `m` is not private to it: `t` waits for it)
  have hord := (inv.ordered h' f2 m2 r2 hp2 m hh).2
  have hlt : m < m2 := by
    rcases hord with h | h | h
    · have e := inv.priv_holder h' m2 h h2 hh2
      subst e
      exact absurd rfl (inv.ordered h2 f2 m2 r2 hp2 m2 hh2).1
    · exact h
    · exact absurd hp (inv.private_ h' m h t f r (Ne.symm hne))
  -- contradiction with maximality
  have h'un : h' ∈ un := by simp [un, hh'ts, hh'ne]
  have := hmax h' h'un
  simp [want, hp, hp2] at this
  omega

/-! ### no deadlock: the discipline holds in every reachable configuration of the generated calls -/

variable {ts : List Nat} {priv : Nat → Nat → Prop} [∀ t, DecidablePred (priv t)]

theorem disc_nil_held {privs : Nat → Prop} [DecidablePred privs] {h : List Nat} (hd : disc privs [] h = true) : h = [] := by
  simpa [disc] using hd

/-- the discipline is preserved by every step -/
theorem wf_preserved {c c' : Sys} (w : WF ts priv c) (st : Step c c') : WF ts priv c' := by
  obtain ⟨t, a, r, hp, hen, rfl⟩ := st
  have hdt := w.disc_ t
  rw [hp] at hdt
  cases a with
  | acq k f m =>
    cases k with
    | try_ => simp [disc] at hdt
    | blocking =>
      simp only [disc, Bool.and_eq_true, Bool.not_eq_true', List.contains_eq_mem, decide_eq_false_iff_not] at hdt
      obtain ⟨⟨hnm, _⟩, hr⟩ := hdt
      have hfree : (c.s m).holder = none := hen
      have hs' : (MutexPanic.step c.s t (.acq .blocking f m)).2 = c.s.set m ⟨some t, false⟩ := by
        simp only [MutexPanic.step, attempt, hfree, w.unpoisoned m]
        congr 1
      refine ⟨step_unpoisoned c.s w.unpoisoned t _, ?_, ?_, ?_, ?_, ?_, ?_⟩
      rotate_right
      · intro t1 m1 hpr t' hh
        simp only [hs', St.set] at hh
        by_cases hm : m1 = m
        · subst hm
          simp at hh
          subst hh
          apply Classical.byContradiction
          intro hne
          exact w.private_ t1 m1 hpr _ hne (.acq .blocking f m1) (by rw [hp]; simp) rfl
        · simp [hm] at hh
          exact w.priv_holder t1 m1 hpr t' hh
      · intro m2 t2
        simp only [hs', St.set, upd, heldAfter]
        by_cases hm : m2 = m
        · subst hm
          simp only [if_true]
          by_cases ht : t2 = t
          · subst ht; simp
          · have : m2 ∉ c.held t2 := fun hc => by
              have := (w.holder_iff m2 t2).mpr hc
              rw [hfree] at this; cases this
            simp [ht, this, Ne.symm ht]
        · simp only [hm, if_false]
          by_cases ht : t2 = t
          · subst ht; simp [hm, w.holder_iff]
          · simp [ht, w.holder_iff]
      · intro t2 ht2
        simp only [upd]
        by_cases ht : t2 = t
        · subst ht
          have := w.outside t2 ht2
          rw [hp] at this; cases this
        · simp [ht, w.outside t2 ht2]
      · intro t2
        simp only [upd, heldAfter]
        by_cases ht : t2 = t
        · subst ht; simpa using hr
        · simp [ht, w.disc_ t2]
      · intro t2
        simp only [upd, heldAfter]
        by_cases ht : t2 = t
        · subst ht; simp [w.nodup t2, hnm]
        · simp [ht, w.nodup t2]
      · intro t1 m1 hpr t' hne a ha
        simp only [upd] at ha
        by_cases ht : t' = t
        · subst ht
          simp at ha
          exact w.private_ t1 m1 hpr t' hne a (by rw [hp]; simp [ha])
        · simp [ht] at ha
          exact w.private_ t1 m1 hpr t' hne a ha
  | rel m =>
    simp only [disc, Bool.and_eq_true, List.contains_eq_mem, decide_eq_true_eq] at hdt
    obtain ⟨hmem, hr⟩ := hdt
    have hhold : (c.s m).holder = some t := (w.holder_iff m t).mpr hmem
    have hs' : (MutexPanic.step c.s t (.rel m)).2 = c.s.set m { (c.s m) with holder := none } := by
      simp [MutexPanic.step, hhold]
    refine ⟨step_unpoisoned c.s w.unpoisoned t _, ?_, ?_, ?_, ?_, ?_, ?_⟩
    rotate_right
    · intro t1 m1 hpr t' hh
      simp only [hs', St.set] at hh
      by_cases hm : m1 = m
      · subst hm; simp at hh
      · simp [hm] at hh
        exact w.priv_holder t1 m1 hpr t' hh
    · intro m2 t2
      simp only [hs', St.set, upd, heldAfter]
      by_cases hm : m2 = m
      · subst hm
        simp only [if_true]
        by_cases ht : t2 = t
        · subst ht
          simp [(w.nodup t2).mem_erase_iff]
        · have : m2 ∉ c.held t2 := fun hc => by
            have := (w.holder_iff m2 t2).mpr hc
            rw [hhold] at this
            exact ht (Option.some.inj this).symm
          simp [ht, this]
      · simp only [hm, if_false]
        by_cases ht : t2 = t
        · subst ht; simp [List.mem_erase_of_ne hm, w.holder_iff]
        · simp [ht, w.holder_iff]
    · intro t2 ht2
      simp only [upd]
      by_cases ht : t2 = t
      · subst ht
        have := w.outside t2 ht2
        rw [hp] at this; cases this
      · simp [ht, w.outside t2 ht2]
    · intro t2
      simp only [upd, heldAfter]
      by_cases ht : t2 = t
      · subst ht; simpa using hr
      · simp [ht, w.disc_ t2]
    · intro t2
      simp only [upd, heldAfter]
      by_cases ht : t2 = t
      · subst ht; simp [(w.nodup t2).erase]
      · simp [ht, w.nodup t2]
    · intro t1 m1 hpr t' hne a ha
      simp only [upd] at ha
      by_cases ht : t' = t
      · subst ht
        simp at ha
        exact w.private_ t1 m1 hpr t' hne a (by rw [hp]; simp [ha])
      · simp [ht] at ha
        exact w.private_ t1 m1 hpr t' hne a ha

theorem wf_reach {c0 c : Sys} (w : WF ts priv c0) (r : Reach c0 c) : WF ts priv c := by
  induction r with
  | refl => exact w
  | step _ st ih => exact wf_preserved ih st

/-- the discipline every reachable configuration satisfies implies `Inv` -/
theorem wf_inv {c : Sys} (w : WF ts priv c) : Inv ⟨c.s, ts, c.prog, priv⟩ := by
  refine ⟨?_, ?_, ?_, ?_⟩
  · intro m t h
    have hm : m ∈ c.held t := (w.holder_iff m t).mp h
    have hne : c.prog t ≠ [] := by
      intro e
      have := w.disc_ t
      rw [e] at this
      rw [disc_nil_held this] at hm
      cases hm
    refine ⟨?_, hne⟩
    apply Classical.byContradiction
    intro hnot
    exact hne (w.outside t hnot)
  · intro t f m r hp m' h
    simp only at hp h ⊢
    have hm' : m' ∈ c.held t := (w.holder_iff m' t).mp h
    have hd := w.disc_ t
    rw [hp] at hd
    simp only [disc, Bool.and_eq_true, Bool.not_eq_true', List.contains_eq_mem, decide_eq_false_iff_not,
      Bool.or_eq_true, decide_eq_true_eq, List.all_eq_true] at hd
    obtain ⟨⟨hnm, hor⟩, _⟩ := hd
    refine ⟨fun e => hnm (e ▸ hm'), ?_⟩
    rcases hor with hpm | hall
    · exact Or.inl hpm
    · exact Or.inr (hall m' hm')
  · intro t m hpr t' f r hne hp
    simp only at hp hpr
    exact w.private_ t m hpr t' hne (.acq .blocking f m) (by rw [hp]; simp) rfl
  · exact w.priv_holder

/-- **no_deadlock**: from a well-formed start, in every reachable configuration
    in which some thread still has something to do, some thread can take its next step. -/
theorem no_deadlock {c0 c : Sys} (w : WF ts priv c0) (r : Reach c0 c) (h : ∃ t ∈ ts, c.prog t ≠ []) :
    ∃ c', Step c c' := by
  obtain ⟨t, _, a, r', hp, hen⟩ := progress ⟨c.s, ts, c.prog, priv⟩ (wf_inv (wf_reach w r)) h
  exact ⟨_, t, a, r', hp, hen, rfl⟩

/-! ### from the generated paths to the discipline -/

theorem mayAlias_symm (K : Rel) (a b : Tgt) : mayAlias K a b = mayAlias K b a := by
  cases a <;> cases b <;> rfl

theorem mayAlias_refl (K : Rel) (a : Tgt) : mayAlias K a a = true := by
  cases a <;> rfl

/-- what a path knows to be the lower address is the lower address -/
theorem knownBelow_sound (ρ : Tgt → Nat) (K : Rel) (hK : K.admits ρ) (h t : Tgt)
    (hb : knownBelow K h t = true) : ρ h < ρ t := by
  obtain ⟨h1, h2, h3⟩ := hK
  cases h <;> cases t <;> simp [knownBelow] at hb
  · -- self below other: the addresses are neither equal nor the other way round
    rcases Nat.lt_trichotomy (ρ .self_) (ρ .other) with hl | he | hg
    · exact hl
    · have := h1 he; simp [hb.1] at this
    · have := h3 hg; simp [hb.2] at this
  · rcases Nat.lt_trichotomy (ρ .self_) (ρ .other) with hl | he | hg
    · have := h2 hl; simp [hb.2] at this
    · have := h1 he; simp [hb.1] at this
    · exact hg

theorem callOk_sound (privs : Nat → Prop) [DecidablePred privs] (ρ : Tgt → Nat) (hρ : RhoOrd ρ privs)
    (rest : List Act) (hrest : disc privs rest [] = true) :
    ∀ (evs : List Ev) (held : List Tgt) (heldM : List Nat) (K : Rel),
      K.admits ρ → pathHolds ρ evs → heldM.Nodup →
      (∀ m ∈ heldM, ∃ h ∈ held, ρ h = m) → (∀ h ∈ held, ρ h ∈ heldM) →
      (∀ a ∈ held, ∀ b ∈ held, a ≠ b → mayAlias K a b = false) → held.Nodup →
      callOk evs held K = true → disc privs (callActs ρ evs ++ rest) heldM = true := by
  intro evs
  induction evs with
  | nil =>
    intro held heldM K _ _ _ himg _ _ _ h
    have : held = [] := by simpa [callOk] using h
    subst this
    have : heldM = [] := by
      cases heldM with
      | nil => rfl
      | cons m _ => obtain ⟨x, hx, _⟩ := himg m (by simp); cases hx
    subst this
    simpa [callActs] using hrest
  | cons e r ih =>
    intro held heldM K hK hpath hnd himg hfwd hpw hndT h
    cases e with
    | acq k f t =>
      simp only [callOk, Bool.and_eq_true, Bool.not_eq_true', List.any_eq_false, beq_iff_eq, Bool.or_eq_true,
        List.all_eq_true] at h
      obtain ⟨⟨⟨hk, hna⟩, hord⟩, hr⟩ := h
      subst hk
      have hna' : ∀ x ∈ held, mayAlias K t x = false := fun x hx => by simpa using hna x hx
      have hnot : ρ t ∉ heldM := by
        intro hm
        obtain ⟨x, hx, hxe⟩ := himg _ hm
        exact mayAlias_sound ρ hρ.toRhoOk K hK t x (hna' x hx) hxe.symm
      have htn : t ∉ held := fun hc => by
        have := hna' t hc
        rw [mayAlias_refl] at this; cases this
      simp only [callActs, List.cons_append, disc, Bool.and_eq_true, Bool.not_eq_true', List.contains_eq_mem,
        decide_eq_false_iff_not, Bool.or_eq_true, decide_eq_true_eq, List.all_eq_true]
      refine ⟨⟨hnot, ?_⟩, ?_⟩
      · rcases hord with hf | hall
        · left; rw [hf]; exact hρ.fresh_priv
        · right
          intro m hm
          obtain ⟨x, hx, hxe⟩ := himg m hm
          rcases hall x hx with hxf | hkb
          · right; rw [← hxe, hxf]; exact hρ.fresh_priv
          · left
            rw [← hxe]
            exact knownBelow_sound ρ K hK x t hkb
      · refine ih (t :: held) (ρ t :: heldM) K hK hpath (List.nodup_cons.mpr ⟨hnot, hnd⟩) ?_ ?_ ?_ (List.nodup_cons.mpr ⟨htn, hndT⟩) hr
        · intro m hm
          rcases List.mem_cons.mp hm with rfl | hm
          · exact ⟨t, by simp, rfl⟩
          · obtain ⟨x, hx, hxe⟩ := himg _ hm
            exact ⟨x, by simp [hx], hxe⟩
        · intro x hx
          rcases List.mem_cons.mp hx with rfl | hx
          · simp
          · simp [hfwd x hx]
        · intro a ha b hb hab
          rcases List.mem_cons.mp ha with ha | ha <;> rcases List.mem_cons.mp hb with hb | hb
          · exact absurd (ha.trans hb.symm) hab
          · rw [ha]; exact hna' b hb
          · rw [hb, mayAlias_symm]; exact hna' a ha
          · exact hpw a ha b hb hab
    | rel t =>
      simp only [callOk, Bool.and_eq_true, List.contains_eq_mem, decide_eq_true_eq] at h
      obtain ⟨hmem, hr⟩ := h
      simp only [callActs, List.cons_append, disc, Bool.and_eq_true, List.contains_eq_mem, decide_eq_true_eq]
      refine ⟨hfwd t hmem, ?_⟩
      refine ih (held.erase t) (heldM.erase (ρ t)) K hK hpath (hnd.erase _) ?_ ?_ ?_ (hndT.erase _) hr
      · intro m hm
        have hm' := (hnd.mem_erase_iff).mp hm
        obtain ⟨x, hx, hxe⟩ := himg _ hm'.2
        have hxt : x ≠ t := by
          intro e; subst e; exact hm'.1 hxe.symm
        exact ⟨x, (List.mem_erase_of_ne hxt).mpr hx, hxe⟩
      · intro x hx
        have hx' := (hndT.mem_erase_iff).mp hx
        have hne : ρ x ≠ ρ t := mayAlias_sound ρ hρ.toRhoOk K hK x t (hpw x hx'.2 t hmem hx'.1)
        exact (hnd.mem_erase_iff).mpr ⟨hne, hfwd x hx'.2⟩
      · intro a ha b hb hab
        exact hpw a (List.mem_of_mem_erase ha) b (List.mem_of_mem_erase hb) hab
    | assume c b =>
      simp only [callOk] at h
      simp only [callActs]
      exact ih held heldM (K.assume c b) (assume_admits K ρ c b hK hpath.1) hpath.2 hnd himg hfwd
        (fun x hx y hy hxy => mayAlias_mono K c b x y (hpw x hx y hy hxy)) hndT h


/-- Every control-flow path of every function compiled code reaches follows the
    static discipline: blocking locks only, never a list that may already be
    held, a second shared list only in address order, everything released. -/
theorem builtin_fns_disciplined :
    ∀ f ∈ LockFn.all, f.reachedByBuiltins = true → ∀ p ∈ f.tree.paths, callOk p [] .top = true := by
  decide

-- the repaired `==` with the comparison turned round in one branch (both branches lock `self` first) is refused
example : callOk [.assume .same false, .assume .selfLtOther false,
    .acq .blocking .unwrap .self_, .acq .blocking .unwrap .other, .rel .other, .rel .self_] [] .top = false := by decide
-- `concat`: both operands held in address order, then the call's own new list
example : callOk [.assume .same false, .assume .selfLtOther true, .acq .blocking .unwrap .self_, .acq .blocking .unwrap .other,
    .acq .blocking .unwrap .fresh, .rel .fresh, .rel .other, .rel .self_] [] .top = true := by decide

theorem progOf_disc (privs : Nat → Prop) [DecidablePred privs] :
    ∀ (calls : List Call),
      (∀ x ∈ calls, (∃ f ∈ LockFn.all, f.reachedByBuiltins = true ∧ x.tree = f.tree) ∧ RhoOrd x.ρ privs) →
      disc privs (progOf calls) [] = true
  | [], _ => by simp [progOf, disc]
  | c :: r, h => by
    obtain ⟨⟨f, hf, hfr, he⟩, hρ⟩ := h c (by simp)
    have hr := progOf_disc privs r (fun y hy => h y (by simp [hy]))
    obtain ⟨p, hp, hh, hex⟩ := exec_path c.ρ c.tree c.o
    rw [he] at hp
    simp only [progOf]
    rw [← hex]
    exact callOk_sound privs c.ρ hρ (progOf r) hr p [] [] .top (top_admits c.ρ) hh List.nodup_nil
      (by simp) (by simp) (by simp) List.nodup_nil (builtin_fns_disciplined f hf hfr p hp)

/-- **builtins_never_deadlock**: any number of threads, each making any
    sequence of calls of the list functions compiled code reaches (as written:
    the generated trees, executed on the lists of the call — address
    comparisons evaluated on them, data-dependent branches going either way),
    on any lists — aliased or not, shared between the threads or not — where
    the list a call creates is not used by another thread: from free,
    unpoisoned mutexes, in EVERY reachable configuration in which some thread
    is not finished, some thread can take its next step.  The order is the
    real one: a mutex is its address (`ρ`), and every path that holds two
    shared lists has taken the branch on which the first has the lower address
    (`callOk`, `knownBelow_sound`).  No schedule ends in a deadlock; together
    with `builtin_no_panic_under_contention`, every call can always be driven
    to its end. -/
theorem builtins_never_deadlock (ts : List Nat) (priv : Nat → Nat → Prop) [∀ t, DecidablePred (priv t)]
    (calls : Nat → List Call) (s0 : St)
    (hs0 : s0.unpoisoned) (hfree : ∀ m, (s0 m).holder = none)
    (hcalls : ∀ t, ∀ x ∈ calls t,
      (∃ f ∈ LockFn.all, f.reachedByBuiltins = true ∧ x.tree = f.tree) ∧ RhoOrd x.ρ (priv t))
    (hout : ∀ t, t ∉ ts → calls t = [])
    (hpriv : ∀ t m, priv t m → ∀ t', t' ≠ t → ∀ a ∈ progOf (calls t'), Act.mutex a ≠ m)
    (c : Sys) (r : Reach ⟨s0, fun t => progOf (calls t), fun _ => []⟩ c) (h : ∃ t ∈ ts, c.prog t ≠ []) :
    ∃ c', Step c c' := by
  refine no_deadlock (ts := ts) (priv := priv) ⟨hs0, ?_, ?_, ?_, ?_, hpriv, ?_⟩ r h
  · intro m t; simp [hfree m]
  · intro t ht; simp [hout t ht, progOf]
  · intro t; exact progOf_disc (priv t) (calls t) (hcalls t)
  · intro t; exact List.nodup_nil
  · intro t m _ t' hh; simp [hfree m] at hh

-- non-vacuity: admissible assignments exist (`a == b` on one thread, `b == a` on another), and the
-- hypotheses of `builtins_never_deadlock` are satisfiable by exactly that pair of calls
example : RhoOrd (fun t => match t with | .self_ => 1 | .other => 2 | .fresh => 9 | .unknown => 0) (· = 9) :=
  ⟨⟨by decide, by decide⟩, rfl⟩
example : RhoOrd (fun t => match t with | .self_ => 2 | .other => 1 | .fresh => 9 | .unknown => 0) (· = 9) :=
  ⟨⟨by decide, by decide⟩, rfl⟩
-- `a == b` (thread 0) and `b == a` (thread 1) as the code has them: both lock mutex 1 first
example : (LockFn.PartialEq_for_ErasedList_eq).tree.exec (fun t => match t with | .self_ => 1 | .other => 2 | _ => 9) []
    = [.acq .blocking .unwrap 1, .acq .blocking .unwrap 2, .rel 2, .rel 1] := by decide
example : (LockFn.PartialEq_for_ErasedList_eq).tree.exec (fun t => match t with | .self_ => 2 | .other => 1 | _ => 9) []
    = [.acq .blocking .unwrap 1, .acq .blocking .unwrap 2, .rel 1, .rel 2] := by decide

-- non-vacuity: a configuration with work to do satisfies the discipline
example : ∃ c : Cfg, Inv c ∧ ∃ t ∈ c.ts, c.prog t ≠ [] :=
  ⟨⟨St.init, [0], fun t => if t = 0 then [.acq .blocking .unwrap 3, .rel 3] else [], fun _ _ => False⟩,
   ⟨by intro m t h; simp [St.init] at h, by intro t f m r _ m' h; simp [St.init] at h, by intro t m h; exact absurd h id,
    by intro t m h; exact absurd h id⟩,
   0, by simp, by simp⟩

end RotoV.C10C
