/-
  C13 — names resolve to the item the module rules designate.

  Theorems over the executable model `RotoV.Model.Scope` (tied to
  src/typechecker/{scope,expr,mod}.rs, src/file_tree.rs, src/module.rs,
  src/typechecker/info.rs and src/codegen/mod.rs by the correspondence run of
  harness/src/bin/c13.rs on every `./check C13`).
-/
import RotoV.Model.Scope
import RotoV.Lemmas.Scope
import RotoV.Lemmas.ScopePath
import RotoV.Lemmas.ScopeFrame
import RotoV.Lemmas.ScopeDiscovery
import RotoV.Lemmas.ScopeBuild
import RotoV.Lemmas.ScopeExport

namespace RotoV.C13
open RotoV.Scope

/-! ## T1 — lookup_spec -/

/-- The invariant `lookup_spec` needs is the one `wrap` maintains. -/
theorem wrap_keeps_wf (g : Graph) (wf : WF g) (parent : Nat) (kind : SKind)
    (hp : parent < g.scopes.length) : WF (g.wrap parent kind).1 :=
  wrap_wf wf parent kind hp

/-- **T1.** On every well-formed graph, of any depth, `resolve_name` with
    `recurse = true` is the declarative lookup: walk the ancestor chain from the
    innermost scope outward and take the first scope that has a declaration of
    the name or, failing that, an import of it.  In particular the loop
    terminates (no `fuel` panic). -/
theorem lookup_spec (g : Graph) (wf : WF g) (s : Nat) (hs : s < g.scopes.length) (x : Name) :
    ∃ chain, Ancestors g s chain ∧ g.resolve s x true = firstHit g x chain := by
  obtain ⟨l, hl⟩ := ancestors_exist wf s hs
  exact ⟨l, hl, resolveName_eq_firstHit wf x (s + 1) s l (Nat.lt_succ_self s) hl⟩

/-- With `recurse = false` only the scope's own declarations are consulted. -/
theorem lookup_nonrecursive (g : Graph) (s : Nat) (x : Name) :
    g.resolve s x false = .ok (g.decl ⟨s, x⟩) := by
  simp only [Graph.resolve, Graph.resolveName]
  cases g.decl ⟨s, x⟩ <;> simp

example : ∃ g : Graph, WF g ∧ 0 < g.scopes.length := ⟨Graph.new, new_wf, by decide⟩

/-- **The hypotheses of T1–T3 are not assumptions about real graphs**: starting
    from `ScopeGraph::new()`, after the runtime's modules (`rt`) and the whole
    of `check_module_tree` on any module list, the graph is well-formed, module
    scopes are owned by their declarations, every import points at a
    declaration — and nothing that existed was lost or renamed on the way. -/
theorem built_graph_ok (rt ms : List Module) (g0 : Graph) (m0 : List Nat) (out : Outcome)
    (h0 : declareModules rt [] Graph.new = .ok (g0, m0))
    (h : checkModuleTree g0 ms = .ok out) :
    WF out.g ∧ ModulesOk out.g ∧ ImportsOk out.g ∧ Ext g0 out.g := by
  obtain ⟨s0, _, _⟩ := step_declareModules rt [] Graph.new g0 m0 inv_new (by intro x hx; cases hx) h0
  have s1 := step_checkModuleTree s0.1 h
  exact ⟨s1.1.wf, s1.1.mok, s1.1.iok, s1.2.2⟩

/-- On such graphs name lookup never panics and never runs out of fuel: it
    returns a declaration or "not found". -/
theorem lookup_total (g : Graph) (wf : WF g) (iok : ImportsOk g) (s : Nat)
    (hs : s < g.scopes.length) (x : Name) (p : Site) : g.resolve s x true ≠ .panic p := by
  obtain ⟨chain, hc, heq⟩ := lookup_spec g wf s hs x
  rw [heq]
  exact firstHit_no_panic iok x chain (ancestors_valid hc) p

/-! ## T2 — path_spec -/

/-- **T2 (segments).** For a path that does not start with `super`,
    `resolve_module_part_of_path` is: the first segment by the declarative lookup
    of T1; every later segment among the *direct members* (declarations) of the
    scope owned by the item before it — `walkMembers` consults neither imports
    nor enclosing scopes; a `super` after the first segment and a name the rules
    do not reach are errors. -/
theorem path_spec (g : Graph) (wf : WF g) (s : Nat) (chain : List Nat) (hc : Ancestors g s chain)
    (id : Name) (rest : List Name) (hid : id ≠ SUPER) :
    resolveModulePart g s (id :: rest) = pathSpec g chain id rest := by
  simp only [resolveModulePart]
  unfold supers
  simp only [hid, ↓reduceIte]
  exact segments_true_eq wf hc id rest

/-- A name the rules do not reach is an error — first segment … -/
theorem unreachable_first_is_error (g : Graph) (wf : WF g) (s : Nat) (chain : List Nat)
    (hc : Ancestors g s chain) (id : Name) (rest : List Name) (hid : id ≠ SUPER)
    (h : firstHit g id chain = .ok none) :
    resolveModulePart g s (id :: rest) = .err .notDefined := by
  rw [path_spec g wf s chain hc id rest hid]
  simp [pathSpec, hid, h]

/-- … and later segments: a name that is not declared directly in the scope of
    the item before it is an error, whatever is imported there or visible outside. -/
theorem unreachable_member_is_error (g : Graph) (d : Decl) (id i : Name) (rest : List Name)
    (s' : Nat) (hs : d.scope = some s') (hi : i ≠ SUPER) (h : g.decl ⟨s', i⟩ = none) :
    walkMembers g d id (i :: rest) = .err .notDefined := by
  unfold walkMembers
  simp [hs, hi, h]

/-- **T2 (super).** `n + 1` leading `super`s, written in any scope whose
    innermost enclosing module scope is `m`, continue the resolution in the
    `(n+1)`-th module above `m` — or are the error "too many leading `super`"
    when the module tree is not that deep. -/
theorem super_spec (g : Graph) (wf : WF g) (mok : ModulesOk g) (n : Nat) (s : Nat)
    (chain : List Nat) (m : Nat) (name : RName) (pm : Option Nat) (x : Name) (rest : List Name)
    (hc : Ancestors g s chain) (he : enclosingModule g chain = some (m, name, pm)) (hx : x ≠ SUPER) :
    resolveModulePart g s (SUPER :: (List.replicate n SUPER ++ x :: rest)) =
      match nthUp g (n + 1) m with
      | none => .err .tooManySuper
      | some p => segments g p x rest true := by
  simp only [resolveModulePart]
  exact super_n wf mok n s chain m name pm x rest hc he hx

example : pathSpec Graph.new [0] 5 [] = .err .notDefined := by decide

/-! ## T3 — no_interference -/

/-- **T3.** Declaring a new item `n` does not change what a name `x` means in
    scope `s` unless `n` is named `x` *and* sits in a scope on the lookup path of
    `s`: same-named items in other modules or scopes never interfere. -/
theorem no_interference (g g' : Graph) (wf : WF g) (iok : ImportsOk g) (s : Nat) (chain : List Nat)
    (hc : Ancestors g s chain) (x : Name) (n : RName) (k : DKind) (sc : Option Nat)
    (h : g.insertDecl n k sc = .ok g') (off : n.ident ≠ x ∨ n.scope ∉ chain) :
    g'.resolve s x true = g.resolve s x true := by
  have hsc := (insertDecl_ok h).2.1
  have wf' := wf_congr hsc wf
  have hc' := ancestors_congr hsc hc
  rw [show g'.resolve s x true = firstHit g' x chain from
        resolveName_eq_firstHit wf' x (s + 1) s chain (Nat.lt_succ_self s) hc',
      show g.resolve s x true = firstHit g x chain from
        resolveName_eq_firstHit wf x (s + 1) s chain (Nat.lt_succ_self s) hc]
  exact firstHit_insert iok h x chain off

/-- Shadowing: when the name already resolves within the inner part `pre` of the
    chain, a same-named item declared further out (in `post`) changes nothing. -/
theorem no_interference_outer (g g' : Graph) (wf : WF g) (iok : ImportsOk g) (s : Nat)
    (pre post : List Nat) (hc : Ancestors g s (pre ++ post)) (x : Name) (d : Decl)
    (hit : firstHit g x pre = .ok (some d))
    (n : RName) (k : DKind) (sc : Option Nat)
    (h : g.insertDecl n k sc = .ok g') (off : n.scope ∉ pre) :
    g'.resolve s x true = .ok (some d) := by
  have hsc := (insertDecl_ok h).2.1
  have wf' := wf_congr hsc wf
  have hc' := ancestors_congr hsc hc
  rw [show g'.resolve s x true = firstHit g' x (pre ++ post) from
        resolveName_eq_firstHit wf' x (s + 1) s _ (Nat.lt_succ_self s) hc']
  apply firstHit_prefix
  rw [firstHit_insert iok h x pre (Or.inr off)]
  exact hit

/-- **T3 for whole paths.** A new item does not change what a path means unless
    it is declared in a scope on the lookup path of the first segment or in one
    of the scopes the later segments are looked up in (`memberScopes`). -/
theorem no_interference_path (g g' : Graph) (wf : WF g) (iok : ImportsOk g) (s : Nat)
    (chain : List Nat) (hc : Ancestors g s chain) (id : Name) (rest : List Name) (hid : id ≠ SUPER)
    (n : RName) (k : DKind) (sc : Option Nat) (h : g.insertDecl n k sc = .ok g')
    (off₁ : n.scope ∉ chain)
    (off₂ : ∀ d, firstHit g id chain = .ok (some d) → n.scope ∉ memberScopes g d rest) :
    resolveModulePart g' s (id :: rest) = resolveModulePart g s (id :: rest) := by
  have hsc := (insertDecl_ok h).2.1
  rw [path_spec g' (wf_congr hsc wf) s chain (ancestors_congr hsc hc) id rest hid,
      path_spec g wf s chain hc id rest hid]
  unfold pathSpec
  simp only [hid, ↓reduceIte, firstHit_insert iok h id chain (Or.inr off₁)]
  cases hf : firstHit g id chain with
  | panic p => rfl
  | err e => rfl
  | ok o =>
    cases o with
    | none => rfl
    | some d => exact walkMembers_insert h rest d id (off₂ d hf)

/-! ## T4 — import order -/

/-- the witness tree: `pkg { aa { fn ff #101 }  bb { aa { fn ff #102 } } }`
    (identifiers: aa = 3, bb = 4, ff = 6) -/
def witnessMods : List Module :=
  [ ⟨PKG, none, []⟩,
    ⟨3, some 0, [.fn 6 101 (.mk [] [])]⟩,
    ⟨4, some 0, []⟩,
    ⟨3, some 2, [.fn 6 102 (.mk [] [])]⟩ ]

/-- the graph after `declare_modules`, plus the scope (5) of a function of `pkg` -/
def witnessGraph : Graph :=
  match declareModules witnessMods [] Graph.new with
  | .ok (g, _) => (g.wrap 1 (.function 10)).1
  | _ => Graph.new

def kindOf : Res (Option Decl) → Option DKind
  | .ok (some d) => some d.kind
  | _ => none

/-
  T4 as designed — `import_order_indep`: for every scope and every permutation
  of its import list the final import table is the same — is FALSE on this
  tree (and in the model): refuted below.  Known finding
  `C13-import-order-sibling-alias`; replayed on the real compiler by the fixed
  trees 0 and 1 of the harness.
-/

/-- **T4 refuted.** In a block of a function of `pkg`, `import bb.aa; import
    aa.ff;` makes `ff` the function #102 of `pkg.bb.aa`; the same two imports in
    the other order make `ff` the function #101 of `pkg.aa` — both orders compile.
    (`aa` is reachable through the sibling import *and* as an outer declaration.) -/
theorem import_order_dep :
    WF witnessGraph ∧
    ∃ g₁ g₂, imports witnessGraph 5 [[4, 3], [3, 6]] = .ok g₁ ∧
             imports witnessGraph 5 [[3, 6], [4, 3]] = .ok g₂ ∧
             kindOf (g₁.resolve 5 6 true) = some (.fn 102) ∧
             kindOf (g₂.resolve 5 6 true) = some (.fn 101) := by
  refine ⟨WF_of_WFb (by decide), _, _, rfl, rfl, ?_, ?_⟩ <;> decide

/-! ## T5 — export_names -/

/-- **T5 (names).** After a successful `check_module_tree` (on top of any
    registered runtime modules `rt`), the name under which an item `f` of module
    `i` is stored in the compiled module — `full_name` — is the chain of module
    identifiers from the root module down to module `i` (`PathTo`, read off the
    module list alone), followed by `f`: `pkg.<module path>.<fn>`.  This holds in
    the *final* graph: no later pass (imports, function and block scopes) changes
    it.  `get_function("a.b.f")` looks up exactly `pkg.a.b.f`. -/
theorem export_names (rt ms : List Module) (g0 : Graph) (m0 : List Nat) (out : Outcome)
    (h0 : declareModules rt [] Graph.new = .ok (g0, m0))
    (h : checkModuleTree g0 ms = .ok out)
    (i : Nat) (path : List Name) (hp : PathTo ms i path) (s : Nat) (hs : out.mods[i]? = some s)
    (f : Name) :
    fullName out.g ⟨s, f⟩ = .ok ((path ++ [f]).map Seg.id) := by
  obtain ⟨hi, hr, _⟩ := minfo_checkModuleTree h0 h
  exact fullName_spec hi hr hp hs f

/-- every module of a successfully checked tree has such a path … -/
theorem export_names_total (rt ms : List Module) (g0 : Graph) (m0 : List Nat) (out : Outcome)
    (h0 : declareModules rt [] Graph.new = .ok (g0, m0))
    (h : checkModuleTree g0 ms = .ok out) (i : Nat) (hlt : i < ms.length) :
    ∃ path s, PathTo ms i path ∧ out.mods[i]? = some s := by
  obtain ⟨hi, _, _⟩ := minfo_checkModuleTree h0 h
  obtain ⟨path, hp⟩ := pathTo_exists hi i hlt
  have hil : i < out.mods.length := by rw [hi.len]; exact hlt
  exact ⟨path, _, hp, List.getElem?_eq_getElem hil⟩

/-- **T5 (injective).** … and distinct functions get distinct names: if the
    exported names of `f` in module `i` and `f'` in module `j` coincide, then
    `i = j` and `f = f'`. -/
theorem export_injective (rt ms : List Module) (g0 : Graph) (m0 : List Nat) (out : Outcome)
    (h0 : declareModules rt [] Graph.new = .ok (g0, m0))
    (h : checkModuleTree g0 ms = .ok out)
    (i j : Nat) (pi pj : List Name) (hpi : PathTo ms i pi) (hpj : PathTo ms j pj) (f f' : Name)
    (heq : pi ++ [f] = pj ++ [f']) : i = j ∧ f = f' := by
  obtain ⟨hi, _, inv⟩ := minfo_checkModuleTree h0 h
  obtain ⟨h1, h2⟩ := List.append_inj' heq (by simp)
  subst h1
  simp only [List.cons.injEq, and_true] at h2
  exact ⟨pathTo_injective (uniq_of_minfo hi inv.mok) hpi hpj, h2⟩

/-! ## T6 — discovery -/

/-- **T6.** `FileTree::directory` fails exactly when the root has no `pkg.roto`;
    otherwise the files it finds are `FileTree::file_spec` (`specInto`) applied to
    the documented module tree of the directory (`specChildren`: `name.roto` and
    `name/mod.roto` are modules, `pkg.roto` / `mod.roto` are not modules of their
    own, directories without `mod.roto` and other extensions are ignored), below
    the root module `pkg` — in `read_dir` order, for every nesting depth. -/
theorem discovery (root : List Entry) :
    directory root =
      if root.any (fun e => match e with | .file stem roto => stem = PKG && roto | _ => false)
      then some (specInto 0 (specChildren root) [⟨PKG, []⟩]) else none := by
  unfold directory
  simp only [findFiles_eq_spec]
  rfl

/-- the discovered modules, in file order, are `pkg` followed by the pre-order
    listing of the documented tree -/
theorem discovery_modules (root : List Entry) (files : List SrcFile)
    (h : directory root = some files) :
    files.map (·.moduleName) = PKG :: preorder (specChildren root) := by
  rw [discovery] at h
  split at h
  · cases h
    simp [specInto_names]
  · cases h

example : directory [.file PKG true, .file 7 true, .dir 8 [.file MOD true, .file 9 true],
                     .dir 10 [.file 9 true], .file 11 false, .file MOD true] =
    some [⟨PKG, [1, 2]⟩, ⟨7, []⟩, ⟨8, [3]⟩, ⟨9, []⟩] := by
  simp [directory, findFiles, hasMod, pushChild, PKG, MOD, List.modify]

end RotoV.C13
