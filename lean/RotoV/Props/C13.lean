/-
  C13 — names resolve to the item the module rules designate.

  Theorems over the executable model `RotoV.Model.Scope` (tied to
  src/typechecker/{scope,expr,mod}.rs, src/file_tree.rs, src/module.rs,
  src/typechecker/info.rs and src/codegen/mod.rs by the correspondence run of
  harness/src/bin/c13.rs on every `./check C13`).
-/
import RotoV.Model.Scope
import RotoV.Lemmas.Scope
import RotoV.Lemmas.ScopePath
import RotoV.Lemmas.ScopeFrame
import RotoV.Lemmas.ScopeDiscovery
import RotoV.Lemmas.ScopeBuild
import RotoV.Lemmas.ScopeExport
import RotoV.Lemmas.ScopeWitness
import RotoV.Lemmas.ScopeImports
import RotoV.Lemmas.ScopeTermination
import RotoV.Lemmas.ScopeGetFunction
import RotoV.Lemmas.ScopeNoPanic

namespace RotoV.C13
open RotoV.Scope

/-! ## T1 — lookup_spec -/

/-- The invariant `lookup_spec` needs is the one `wrap` maintains. -/
theorem wrap_keeps_wf (g : Graph) (wf : WF g) (parent : Nat) (kind : SKind)
    (hp : parent < g.scopes.length) : WF (g.wrap parent kind).1 :=
  wrap_wf wf parent kind hp

/-- **T1.** On every well-formed graph, of any depth, `resolve_name` with
    `recurse = true` is the declarative lookup: walk the ancestor chain from the
    innermost scope outward and take the first scope that has a declaration of
    the name or, failing that, an import of it.  In particular the loop
    terminates (no `fuel` panic). -/
theorem lookup_spec (g : Graph) (wf : WF g) (s : Nat) (hs : s < g.scopes.length) (x : Name) :
    ∃ chain, Ancestors g s chain ∧ g.resolve s x true = firstHit g x chain := by
  obtain ⟨l, hl⟩ := ancestors_exist wf s hs
  exact ⟨l, hl, resolveName_eq_firstHit wf x (s + 1) s l (Nat.lt_succ_self s) hl⟩

/-- With `recurse = false` only the scope's own declarations are consulted. -/
theorem lookup_nonrecursive (g : Graph) (s : Nat) (x : Name) :
    g.resolve s x false = .ok (g.decl ⟨s, x⟩) := by
  simp only [Graph.resolve, Graph.resolveName]
  cases g.decl ⟨s, x⟩ <;> simp

example : ∃ chain, Ancestors witnessGraph 5 chain ∧
    witnessGraph.resolve 5 3 true = firstHit witnessGraph 3 chain :=
  lookup_spec witnessGraph witness_inv.wf 5 (by decide) 3
example : WF (witnessGraph.wrap 5 (.block 0)).1 :=
  wrap_keeps_wf witnessGraph witness_inv.wf 5 (.block 0) (by decide)
example : witnessGraph.resolve 1 6 false = .ok none := by
  rw [lookup_nonrecursive]; decide

/-- **The hypotheses of T1–T3 are not assumptions about real graphs**: starting
    from `ScopeGraph::new()`, after the runtime's modules (`rt`) and the whole
    of `check_module_tree` on any module list, the graph is well-formed, module
    scopes are owned by their declarations, every import points at a
    declaration — and nothing that existed was lost or renamed on the way. -/
theorem built_graph_ok (rt ms : List Module) (g0 : Graph) (m0 : List Nat) (out : Outcome)
    (h0 : declareModules rt [] Graph.new = .ok (g0, m0))
    (h : checkModuleTree g0 ms = .ok out) :
    WF out.g ∧ ModulesOk out.g ∧ ImportsOk out.g ∧ Ext g0 out.g := by
  obtain ⟨s0, _, _⟩ := step_declareModules rt [] Graph.new g0 m0 inv_new (by intro x hx; cases hx) h0
  have s1 := step_checkModuleTree s0.1 h
  exact ⟨s1.1.wf, s1.1.mok, s1.1.iok, s1.2.2⟩

/-- On such graphs name lookup never panics and never runs out of fuel: it
    returns a declaration or "not found". -/
theorem lookup_total (g : Graph) (wf : WF g) (iok : ImportsOk g) (s : Nat)
    (hs : s < g.scopes.length) (x : Name) (p : Site) : g.resolve s x true ≠ .panic p := by
  obtain ⟨chain, hc, heq⟩ := lookup_spec g wf s hs x
  rw [heq]
  exact firstHit_no_panic iok x chain (ancestors_valid hc) p

example : ∃ g0 m0 out, declareModules [] [] Graph.new = .ok (g0, m0) ∧
    checkModuleTree g0 witnessMods = .ok out :=
  ⟨Graph.new, [], _, rfl, rfl⟩
example (p : Site) : witnessGraph.resolve 5 6 true ≠ .panic p :=
  lookup_total witnessGraph witness_inv.wf witness_inv.iok 5 (by decide) 6 p

/-- **Name resolution cannot crash the compiler.**  For every module list whose
    parents come before their children (what `FileTree::file_spec` and
    `FileTree::directory` produce) and whose import paths are not empty (what
    the parser produces), on top of any registered runtime modules: the
    name-relevant part of `check_module_tree` — `declare_modules`, all import
    fixpoints at module and block level, every scope it creates — ends in a
    result or a compile error. None of the `unwrap`s, index operations,
    `unreachable!`s and `ice!`s on the way (`Site`) is reached and no loop runs
    forever. -/
theorem check_module_tree_no_panic (rt ms : List Module) (g0 : Graph) (m0 : List Nat)
    (h0 : declareModules rt [] Graph.new = .ok (g0, m0))
    (hpb : ParentsBefore 0 ms) (hok : ∀ m ∈ ms, m.importsOk = true) (p : Site) :
    checkModuleTree g0 ms ≠ .panic p := by
  obtain ⟨s0, _, _⟩ := step_declareModules rt [] Graph.new g0 m0 inv_new (by intro x hx; cases hx) h0
  exact checkModuleTree_noPanic s0.1 ms hpb hok p

example (p : Site) : checkModuleTree Graph.new witnessMods ≠ .panic p := by
  apply check_module_tree_no_panic [] witnessMods Graph.new [] rfl
  · intro i m hm q hq
    rcases i with _ | _ | _ | _ | i <;> simp [witnessMods] at hm
    all_goals (subst hm; simp at hq)
    all_goals omega
  · decide

/-! ## T2 — path_spec -/

/-- **T2 (segments).** For a path that does not start with `super`,
    `resolve_module_part_of_path` is: the first segment by the declarative lookup
    of T1; every later segment among the *direct members* (declarations) of the
    scope owned by the item before it — `walkMembers` consults neither imports
    nor enclosing scopes; a `super` after the first segment and a name the rules
    do not reach are errors. -/
theorem path_spec (g : Graph) (wf : WF g) (s : Nat) (chain : List Nat) (hc : Ancestors g s chain)
    (id : Name) (rest : List Name) (hid : id ≠ SUPER) :
    resolveModulePart g s (id :: rest) = pathSpec g chain id rest := by
  simp only [resolveModulePart]
  unfold supers
  simp only [hid, ↓reduceIte, Bool.not_false]
  exact segments_true_eq wf hc id rest

/-- A name the rules do not reach is an error — first segment … -/
theorem unreachable_first_is_error (g : Graph) (wf : WF g) (s : Nat) (chain : List Nat)
    (hc : Ancestors g s chain) (id : Name) (rest : List Name) (hid : id ≠ SUPER)
    (h : firstHit g id chain = .ok none) :
    resolveModulePart g s (id :: rest) = .err .notDefined := by
  rw [path_spec g wf s chain hc id rest hid]
  simp [pathSpec, hid, h]

/-- … and later segments: a name that is not declared directly in the scope of
    the item before it is an error, whatever is imported there or visible outside. -/
theorem unreachable_member_is_error (g : Graph) (d : Decl) (id i : Name) (rest : List Name)
    (s' : Nat) (hs : d.scope = some s') (hi : i ≠ SUPER) (h : g.decl ⟨s', i⟩ = none) :
    walkMembers g d id (i :: rest) = .err .notDefined := by
  unfold walkMembers
  simp [hs, hi, h]

/-- **T2 (super).** `n + 1` leading `super`s, written in any scope whose
    innermost enclosing module scope is `m`, lead to the `(n+1)`-th module
    above `m` — or are the error "too many leading `super`" when the module tree
    is not that deep; what follows is looked up among the *direct members* of
    that module (its declarations — not its imports, not the global scope), like
    every later segment. -/
theorem super_spec (g : Graph) (wf : WF g) (mok : ModulesOk g) (n : Nat) (s : Nat)
    (chain : List Nat) (m : Nat) (name : RName) (pm : Option Nat) (x : Name) (rest : List Name)
    (hc : Ancestors g s chain) (he : enclosingModule g chain = some (m, name, pm)) (hx : x ≠ SUPER) :
    resolveModulePart g s (SUPER :: (List.replicate n SUPER ++ x :: rest)) =
      match nthUp g (n + 1) m with
      | none => .err .tooManySuper
      | some p =>
        match g.decl ⟨p, x⟩ with
        | none => .err .notDefined
        | some d => walkMembers g d x rest := by
  simp only [resolveModulePart]
  rw [super_n wf mok n s chain m name pm x rest hc he hx false]
  cases nthUp g (n + 1) m with
  | none => rfl
  | some p => simp only [segments_false_eq g rest p x, hx, ↓reduceIte]; rfl

-- `aa.ff` from a function of `pkg`: first segment found in `pkg`, second among `pkg.aa`'s members
example : resolveModulePart witnessGraph 5 [3, 6] = pathSpec witnessGraph [5, 1, 0] 3 [6] :=
  path_spec _ witness_inv.wf 5 _ witness_chain 3 [6] (by decide)
example : (match resolveModulePart witnessGraph 5 [3, 6] with
    | .ok r => some r.decl.kind | _ => none) = some (.fn 101) := by decide
-- `bb.ff`: `ff` is not a member of `pkg.bb` (it is one of `pkg.bb.aa`)
example : resolveModulePart witnessGraph 5 [4, 6] = .err .notDefined := by decide
example : resolveModulePart witnessGraph 5 [7] = .err .notDefined :=
  unreachable_first_is_error _ witness_inv.wf 5 _ witness_chain 7 [] (by decide) (by decide)
-- two `super`s from `pkg.bb.aa` land in `pkg`; three are too many
example : resolveModulePart witnessGraph 4 [SUPER, SUPER, 3, 6] =
    (match nthUp witnessGraph 2 4 with
      | none => .err .tooManySuper
      | some p =>
        match witnessGraph.decl ⟨p, 3⟩ with
        | none => .err .notDefined
        | some d => walkMembers witnessGraph d 3 [6]) :=
  super_spec witnessGraph witness_inv.wf witness_inv.mok 1 4 [4, 0] 4 ⟨3, 3⟩ (some 3) 3 [6]
    witness_chain4 (by decide) (by decide)
example : (match resolveModulePart witnessGraph 4 [SUPER, SUPER, 3, 6] with
    | .ok r => some r.decl.kind | _ => none) = some (.fn 101) := by decide
example : resolveModulePart witnessGraph 4 [SUPER, SUPER, SUPER, 3] = .err .tooManySuper := by decide

/-- **Pinned tree, refuted (fixed by 02ea12b).** With the lookup rule of the
    pinned tree (`supersPinned`: recursion after `super`), in
    `pkg { import bb.gg; }  aa { }  bb { fn gg #103 }`, written in `aa`,
    `super.gg` is the function #103 although `gg` is not a member of `pkg`
    (`pkg.gg` is an error) — later segments were *not* looked up among direct
    members only.  The current rule rejects it. -/
theorem super_pinned_refuted :
    (match supersPinned witness2Graph 2 SUPER [7] with
      | .ok r => some r.decl.kind | _ => none) = some (.fn 103) ∧
    witness2Graph.decl ⟨1, 7⟩ = none ∧
    resolveModulePart witness2Graph 2 [PKG, 7] = .err .notDefined ∧
    resolveModulePart witness2Graph 2 [SUPER, 7] = .err .notDefined := by decide

/-! ## T3 — no_interference -/

/-- **T3.** Declaring a new item `n` does not change what a name `x` means in
    scope `s` unless `n` is named `x` *and* sits in a scope on the lookup path of
    `s`: same-named items in other modules or scopes never interfere. -/
theorem no_interference (g g' : Graph) (wf : WF g) (iok : ImportsOk g) (s : Nat) (chain : List Nat)
    (hc : Ancestors g s chain) (x : Name) (n : RName) (k : DKind) (sc : Option Nat)
    (h : g.insertDecl n k sc = .ok g') (off : n.ident ≠ x ∨ n.scope ∉ chain) :
    g'.resolve s x true = g.resolve s x true := by
  have hsc := (insertDecl_ok h).2.1
  have wf' := wf_congr hsc wf
  have hc' := ancestors_congr hsc hc
  rw [show g'.resolve s x true = firstHit g' x chain from
        resolveName_eq_firstHit wf' x (s + 1) s chain (Nat.lt_succ_self s) hc',
      show g.resolve s x true = firstHit g x chain from
        resolveName_eq_firstHit wf x (s + 1) s chain (Nat.lt_succ_self s) hc]
  exact firstHit_insert iok h x chain off

-- declaring another `ff` in `pkg.bb` (scope 3) does not change what `ff`/`aa` mean in scope 5
example : ∃ g', witnessGraph.insertDecl ⟨3, 6⟩ (.fn 7) none = .ok g' ∧
    g'.resolve 5 3 true = witnessGraph.resolve 5 3 true := by
  refine ⟨_, rfl, ?_⟩
  exact no_interference witnessGraph _ witness_inv.wf witness_inv.iok 5 _ witness_chain 3 ⟨3, 6⟩
    (.fn 7) none rfl (Or.inl (by decide))

/-- Shadowing: when the name already resolves within the inner part `pre` of the
    chain, a same-named item declared further out (in `post`) changes nothing. -/
theorem no_interference_outer (g g' : Graph) (wf : WF g) (iok : ImportsOk g) (s : Nat)
    (pre post : List Nat) (hc : Ancestors g s (pre ++ post)) (x : Name) (d : Decl)
    (hit : firstHit g x pre = .ok (some d))
    (n : RName) (k : DKind) (sc : Option Nat)
    (h : g.insertDecl n k sc = .ok g') (off : n.scope ∉ pre) :
    g'.resolve s x true = .ok (some d) := by
  have hsc := (insertDecl_ok h).2.1
  have wf' := wf_congr hsc wf
  have hc' := ancestors_congr hsc hc
  rw [show g'.resolve s x true = firstHit g' x (pre ++ post) from
        resolveName_eq_firstHit wf' x (s + 1) s _ (Nat.lt_succ_self s) hc']
  apply firstHit_prefix
  rw [firstHit_insert iok h x pre (Or.inr off)]
  exact hit

-- `aa` is found in `pkg` (scope 1); a new `aa` in the root scope does not shadow it
example : ∃ g' d, witnessGraph.insertDecl ⟨0, 3⟩ (.fn 7) none = .ok g' ∧
    g'.resolve 5 3 true = .ok (some d) := by
  refine ⟨_, ⟨⟨1, 3⟩, .module, some 2⟩, rfl, ?_⟩
  exact no_interference_outer witnessGraph _ witness_inv.wf witness_inv.iok 5 [5, 1] [0]
    witness_chain 3 _ (by decide) ⟨0, 3⟩ (.fn 7) none rfl (by decide)

/-- **T3 for imports.** An import made in scope `b` — at module level or in any
    block — changes what a name means in scope `s` only if `b` is on the lookup
    path of `s` (i.e. `s` is `b` or nested in it) and the name is the imported
    alias: imports of other blocks, of nested blocks and of other modules never
    interfere. -/
theorem no_interference_import (g g' : Graph) (wf : WF g) (s : Nat) (chain : List Nat)
    (hc : Ancestors g s chain) (x : Name) (b : Nat) (tgt : RName)
    (h : g.insertImport b tgt = .ok g') (off : b ∉ chain ∨ x ≠ tgt.ident) :
    g'.resolve s x true = g.resolve s x true := by
  have e := ext_insertImport h
  have wf' : WF g' := by
    intro i sc hs p hp
    by_cases hlt : i < g.scopes.length
    · obtain ⟨sc', h1, _, h3⟩ := e.scopes i _ (List.getElem?_eq_getElem hlt)
      rw [hs] at h1; cases h1
      exact wf i _ (List.getElem?_eq_getElem hlt) p (by rw [← h3]; exact hp)
    · exfalso
      have hl : g'.scopes.length = g.scopes.length := by
        unfold Graph.insertImport at h
        cases hb : g.scopes[b]? with
        | none => rw [hb] at h; cases h
        | some sc0 =>
          rw [hb] at h
          simp only at h
          cases hl : sc0.imports.lookup tgt.ident with
          | some _ => rw [hl] at h; cases h
          | none => rw [hl] at h; cases h; simp
      have := getElem?_lt hs
      omega
  have hc' : Ancestors g' s chain := by
    clear off
    induction hc with
    | root hs hp =>
      obtain ⟨sc', h1, _, h3⟩ := e.scopes _ _ hs
      exact .root h1 (by rw [h3]; exact hp)
    | step hs hp _ ih =>
      obtain ⟨sc', h1, _, h3⟩ := e.scopes _ _ hs
      exact .step h1 (by rw [h3]; exact hp) ih
  rw [show g'.resolve s x true = firstHit g' x chain from
        resolveName_eq_firstHit wf' x (s + 1) s chain (Nat.lt_succ_self s) hc',
      show g.resolve s x true = firstHit g x chain from
        resolveName_eq_firstHit wf x (s + 1) s chain (Nat.lt_succ_self s) hc]
  exact firstHit_insertImport h x chain off

-- importing `ff` into the scope of `pkg.bb.aa` (4) does not change `ff` in the function of `pkg` (5)
example : ∃ g', witnessGraph.insertImport 4 ⟨2, 6⟩ = .ok g' ∧
    g'.resolve 5 6 true = witnessGraph.resolve 5 6 true := by
  refine ⟨_, rfl, ?_⟩
  exact no_interference_import witnessGraph _ witness_inv.wf 5 _ witness_chain 6 4 ⟨2, 6⟩ rfl
    (Or.inl (by decide))

/-- **T3 for whole paths.** A new item does not change what a path means unless
    it is declared in a scope on the lookup path of the first segment or in one
    of the scopes the later segments are looked up in (`memberScopes`). -/
theorem no_interference_path (g g' : Graph) (wf : WF g) (iok : ImportsOk g) (s : Nat)
    (chain : List Nat) (hc : Ancestors g s chain) (id : Name) (rest : List Name) (hid : id ≠ SUPER)
    (n : RName) (k : DKind) (sc : Option Nat) (h : g.insertDecl n k sc = .ok g')
    (off₁ : n.scope ∉ chain)
    (off₂ : ∀ d, firstHit g id chain = .ok (some d) → n.scope ∉ memberScopes g d rest) :
    resolveModulePart g' s (id :: rest) = resolveModulePart g s (id :: rest) := by
  have hsc := (insertDecl_ok h).2.1
  rw [path_spec g' (wf_congr hsc wf) s chain (ancestors_congr hsc hc) id rest hid,
      path_spec g wf s chain hc id rest hid]
  unfold pathSpec
  simp only [hid, ↓reduceIte, firstHit_insert iok h id chain (Or.inr off₁)]
  cases hf : firstHit g id chain with
  | panic p => rfl
  | err e => rfl
  | ok o =>
    cases o with
    | none => rfl
    | some d => exact walkMembers_insert h rest d id (off₂ d hf)

-- a new `ff` in `pkg.bb.aa`'s sibling `pkg.bb` (scope 3) does not change `aa.ff`
example : ∃ g', witnessGraph.insertDecl ⟨3, 6⟩ (.fn 7) none = .ok g' ∧
    resolveModulePart g' 5 [3, 6] = resolveModulePart witnessGraph 5 [3, 6] := by
  refine ⟨_, rfl, ?_⟩
  exact no_interference_path witnessGraph _ witness_inv.wf witness_inv.iok 5 _ witness_chain 3 [6]
    (by decide) ⟨3, 6⟩ (.fn 7) none rfl (by decide)
    (by intro d hd; have : d = ⟨⟨1, 3⟩, .module, some 2⟩ := by
          have h2 : firstHit witnessGraph 3 [5, 1, 0] = .ok (some ⟨⟨1, 3⟩, .module, some 2⟩) := by decide
          rw [h2] at hd; cases hd; rfl
        subst this; decide)

/-! ## T4 — import order -/

/-
  T4 as designed — `import_order_indep`: for every scope and every permutation
  of its import list the final import table is the same — is FALSE on this
  tree (and in the model): refuted below.  Known finding
  `C13-import-order-sibling-alias`; replayed on the real compiler by the fixed
  trees 0 and 1 of the harness.
-/

/-- **T4 refuted.** In a block of a function of `pkg`, `import bb.aa; import
    aa.ff;` makes `ff` the function #102 of `pkg.bb.aa`; the same two imports in
    the other order make `ff` the function #101 of `pkg.aa` — both orders compile.
    (`aa` is reachable through the sibling import *and* as an outer declaration.) -/
theorem import_order_dep :
    WF witnessGraph ∧
    ∃ g₁ g₂, imports witnessGraph 5 [[4, 3], [3, 6]] = .ok g₁ ∧
             imports witnessGraph 5 [[3, 6], [4, 3]] = .ok g₂ ∧
             kindOf (g₁.resolve 5 6 true) = some (.fn 102) ∧
             kindOf (g₂.resolve 5 6 true) = some (.fn 101) := by
  refine ⟨WF_of_WFb (by decide), _, _, rfl, rfl, ?_, ?_⟩ <;> decide

/-
  What does hold (`import_order_indep_partial`): the order is irrelevant for
  lists whose members do not depend on each other.  Missing for the full
  statement: nothing can be added — it is false exactly when the first segment
  of one import is the alias another import of the same list introduces
  (dependent imports are the reason the retain loop exists; they are resolved
  in an order-dependent way when that segment is also visible from outside).
-/

/-- **T4, the part that is true.** Let every path of the list resolve in the
    initial graph (to `tgt p`), let no path start — after its `super`s — with the
    alias that a path of the list introduces, and let the aliases be distinct and
    new in the scope.  Then `imports` succeeds on the list and on every
    permutation of it, and the two resulting graphs differ at most in the
    *order* of the scope's import table: same declarations, same other scopes,
    same kind / parent, and the same result for every alias lookup. -/
theorem import_order_indep_partial (g : Graph) (s : Nat) (sc : Scope) (hs : g.scopes[s]? = some sc)
    (tgt : Path → RName) (ps ps' : List Path) (hperm : ps'.Perm ps)
    (hres : ∀ p ∈ ps, ∃ r, resolveModulePart g s p = .ok r ∧ r.rest = [] ∧ r.decl.name = tgt p)
    (hind : ∀ p ∈ ps, ∀ q ∈ ps, firstSeg p ≠ some (tgt q).ident)
    (hnd : (ps.map (fun p => (tgt p).ident)).Nodup)
    (hfresh : ∀ p ∈ ps, sc.imports.lookup (tgt p).ident = none) :
    ∃ g₁ g₂, imports g s ps = .ok g₁ ∧ imports g s ps' = .ok g₂ ∧ g₁.decls = g₂.decls ∧
      (∀ i, i ≠ s → g₁.scopes[i]? = g₂.scopes[i]?) ∧
      ∃ sc₁ sc₂ : Scope, g₁.scopes[s]? = some sc₁ ∧ g₂.scopes[s]? = some sc₂ ∧
        sc₁.kind = sc₂.kind ∧ sc₁.parent = sc₂.parent ∧
        ∀ x, sc₁.imports.lookup x = sc₂.imports.lookup x := by
  have h1 := imports_independent hs tgt ps hres hind hnd hfresh
  have h2 := imports_independent hs tgt ps'
    (fun p hp => hres p (hperm.mem_iff.mp hp))
    (fun p hp q hq => hind p (hperm.mem_iff.mp hp) q (hperm.mem_iff.mp hq))
    ((hperm.map _).nodup_iff.mpr hnd)
    (fun p hp => hfresh p (hperm.mem_iff.mp hp))
  refine ⟨_, _, h1, h2, rfl, ?_, ?_⟩
  · intro i hi
    rw [addImports_scope hs, addImports_scope hs]
    simp [Ne.symm hi]
  · refine ⟨{ sc with imports := sc.imports ++ entries (ps.map tgt) },
      { sc with imports := sc.imports ++ entries (ps'.map tgt) },
      by rw [addImports_scope hs]; simp, by rw [addImports_scope hs]; simp, rfl, rfl, ?_⟩
    intro x
    apply lookup_append_congr
    apply lookup_perm
    · exact ((hperm.map tgt).map _).symm
    · simpa [entries, List.map_map, Function.comp_def] using hnd

-- `import aa.ff; import pkg.bb;` in the function scope of the witness: independent, any order
example : ∃ g₁ g₂, imports witnessGraph 5 [[3, 6], [PKG, 4]] = .ok g₁ ∧
    imports witnessGraph 5 [[PKG, 4], [3, 6]] = .ok g₂ ∧ g₁.decls = g₂.decls := by
  obtain ⟨g₁, g₂, h1, h2, h3, _⟩ := import_order_indep_partial witnessGraph 5
    ⟨.function 10, some 1, []⟩ (by decide)
    (fun p => if p = [PKG, 4] then ⟨1, 4⟩ else ⟨2, 6⟩) [[3, 6], [PKG, 4]] [[PKG, 4], [3, 6]]
    (List.Perm.swap _ _ _)
    (by
      intro p hp
      simp only [List.mem_cons, List.not_mem_nil, or_false] at hp
      rcases hp with rfl | rfl
      · exact ⟨⟨6, ⟨⟨2, 6⟩, .fn 101, none⟩, []⟩, by decide, rfl, by decide⟩
      · exact ⟨⟨4, ⟨⟨1, 4⟩, .module, some 3⟩, []⟩, by decide, rfl, by decide⟩)
    (by decide) (by decide) (by decide)
  exact ⟨g₁, g₂, h1, h2, h3⟩

/-- **`imports` terminates.** On every graph the checker builds, the
    retain-until-no-progress loop ends within the `paths.len() + 1` rounds the
    model allows: each round either imports something, or nothing — and then the
    first remaining path fails again and the loop returns that error. -/
theorem imports_terminates (g : Graph) (inv : Inv g) (s : Nat) (ps : List Path) :
    imports g s ps ≠ .panic .fuel :=
  imports_no_fuel inv s ps

example : imports witnessGraph 5 [[4, 3], [3, 6], [9, 9]] = .err .notDefined := by decide
example : imports witnessGraph 5 [[4, 3], [3, 6], [9, 9]] ≠ .panic .fuel :=
  imports_terminates witnessGraph witness_inv 5 _

/-! ## T5 — export_names -/

/-- **T5 (names).** After a successful `check_module_tree` (on top of any
    registered runtime modules `rt`), the name under which an item `f` of module
    `i` is stored in the compiled module — `full_name` — is the chain of module
    identifiers from the root module down to module `i` (`PathTo`, read off the
    module list alone), followed by `f`: `pkg.<module path>.<fn>`.  This holds in
    the *final* graph: no later pass (imports, function and block scopes) changes
    it.  `get_function("a.b.f")` looks up exactly `pkg.a.b.f`. -/
theorem export_names (rt ms : List Module) (g0 : Graph) (m0 : List Nat) (out : Outcome)
    (h0 : declareModules rt [] Graph.new = .ok (g0, m0))
    (h : checkModuleTree g0 ms = .ok out)
    (i : Nat) (path : List Name) (hp : PathTo ms i path) (s : Nat) (hs : out.mods[i]? = some s)
    (f : Name) :
    fullName out.g ⟨s, f⟩ = .ok ((path ++ [f]).map Seg.id) := by
  obtain ⟨hi, hr, _⟩ := minfo_checkModuleTree h0 h
  exact fullName_spec hi hr hp hs f

/-- every module of a successfully checked tree has such a path … -/
theorem export_names_total (rt ms : List Module) (g0 : Graph) (m0 : List Nat) (out : Outcome)
    (h0 : declareModules rt [] Graph.new = .ok (g0, m0))
    (h : checkModuleTree g0 ms = .ok out) (i : Nat) (hlt : i < ms.length) :
    ∃ path s, PathTo ms i path ∧ out.mods[i]? = some s := by
  obtain ⟨hi, _, _⟩ := minfo_checkModuleTree h0 h
  obtain ⟨path, hp⟩ := pathTo_exists hi i hlt
  have hil : i < out.mods.length := by rw [hi.len]; exact hlt
  exact ⟨path, _, hp, List.getElem?_eq_getElem hil⟩

/-- **T5 (injective).** … and distinct functions get distinct names: if the
    exported names of `f` in module `i` and `f'` in module `j` coincide, then
    `i = j` and `f = f'`. -/
theorem export_injective (rt ms : List Module) (g0 : Graph) (m0 : List Nat) (out : Outcome)
    (h0 : declareModules rt [] Graph.new = .ok (g0, m0))
    (h : checkModuleTree g0 ms = .ok out)
    (i j : Nat) (pi pj : List Name) (hpi : PathTo ms i pi) (hpj : PathTo ms j pj) (f f' : Name)
    (heq : pi ++ [f] = pj ++ [f']) : i = j ∧ f = f' := by
  obtain ⟨hi, _, inv⟩ := minfo_checkModuleTree h0 h
  obtain ⟨h1, h2⟩ := List.append_inj' heq (by simp)
  subst h1
  simp only [List.cons.injEq, and_true] at h2
  exact ⟨pathTo_injective (uniq_of_minfo hi inv.mok) hpi hpj, h2⟩

example : ∃ path s, PathTo witnessMods 3 path ∧
    (match checkModuleTree Graph.new witnessMods with | .ok out => out.mods[3]? | _ => none) = some s :=
  ⟨[PKG, 4, 3], 4, .child (m := ⟨3, some 2, [.fn 6 102 (.mk [] [])]⟩) rfl rfl
    (.child (m := ⟨4, some 0, []⟩) rfl rfl (.root (m := ⟨PKG, none, []⟩) rfl rfl)), by decide⟩
-- `pkg.bb.aa.ff`
example : (match checkModuleTree Graph.new witnessMods with
    | .ok out => fullName out.g ⟨4, 6⟩ | _ => .err .notDefined) =
    .ok [.id PKG, .id 4, .id 3, .id 6] := by decide

example : ∀ out, checkModuleTree Graph.new witnessMods = .ok out → (1 = 1 ∧ 6 = 6) := by
  intro out h
  exact export_injective [] witnessMods Graph.new [] out rfl h 1 1 [PKG, 3] [PKG, 3]
    (.child (m := ⟨3, some 0, [.fn 6 101 (.mk [] [])]⟩) rfl rfl (.root (m := ⟨PKG, none, []⟩) rfl rfl))
    (.child (m := ⟨3, some 0, [.fn 6 101 (.mk [] [])]⟩) rfl rfl (.root (m := ⟨PKG, none, []⟩) rfl rfl))
    6 6 rfl

/-- **T5 (retrieval).** Every function is retrievable from Rust by its module
    path: after a successful `check_module_tree` on top of any registered
    runtime modules `rt`, `get_function("path'.f")` — the lookup of `pkg.path'.f`
    in the table of compiled functions of the final graph — returns the function
    `f` declared in the module whose path is `pkg.path'`: the right one, whatever
    same-named functions other script modules or registered modules declare. -/
theorem get_function_spec (rt ms : List Module) (g0 : Graph) (m0 : List Nat) (out : Outcome)
    (h0 : declareModules rt [] Graph.new = .ok (g0, m0))
    (h : checkModuleTree g0 ms = .ok out)
    (i : Nat) (m : Module) (path' : List Name) (f tag : Nat) (body : Block)
    (hm : ms[i]? = some m) (hp : PathTo ms i (PKG :: path')) (hf : Item.fn f tag body ∈ m.items) :
    getFunction out.g (path' ++ [f]) = some tag :=
  getFunction_spec_rt h0 h hm hp hf

example : ∀ out, checkModuleTree Graph.new witnessMods = .ok out →
    getFunction out.g [3, 6] = some 101 := by
  intro out h
  exact get_function_spec [] witnessMods Graph.new [] out rfl h 1
    ⟨3, some 0, [.fn 6 101 (.mk [] [])]⟩ [3] 6 101 (.mk [] []) rfl
    (.child (m := ⟨3, some 0, [.fn 6 101 (.mk [] [])]⟩) rfl rfl (.root (m := ⟨PKG, none, []⟩) rfl rfl))
    (by simp)

-- `get_function("bb.aa.ff")` on the witness tree is #102, `get_function("aa.ff")` is #101
example : (match checkModuleTree Graph.new witnessMods with
    | .ok out => (getFunction out.g [4, 3, 6], getFunction out.g [3, 6], getFunction out.g [4, 6])
    | _ => (none, none, none)) = (some 102, some 101, none) := by decide

/-! ## T6 — discovery -/

/-- **T6.** `FileTree::directory` fails exactly when the root has no `pkg.roto`;
    otherwise the files it finds are `FileTree::file_spec` (`specInto`) applied to
    the documented module tree of the directory (`specChildren`: `name.roto` and
    `name/mod.roto` are modules, `pkg.roto` / `mod.roto` are not modules of their
    own, directories without `mod.roto` and other extensions are ignored), below
    the root module `pkg` — in `read_dir` order, for every nesting depth. -/
theorem discovery (root : List Entry) :
    directory root =
      if root.any (fun e => match e with | .file stem roto => stem = PKG && roto | _ => false)
      then some (specInto 0 (specChildren root) [⟨PKG, []⟩]) else none := by
  unfold directory
  simp only [findFiles_eq_spec]
  rfl

/-- the discovered modules, in file order, are `pkg` followed by the pre-order
    listing of the documented tree -/
theorem discovery_modules (root : List Entry) (files : List SrcFile)
    (h : directory root = some files) :
    files.map (·.moduleName) = PKG :: preorder (specChildren root) := by
  rw [discovery] at h
  split at h
  · cases h
    simp [specInto_names]
  · cases h

example : ([⟨PKG, [1, 2]⟩, ⟨7, []⟩, ⟨8, [3]⟩, ⟨9, []⟩] : List SrcFile).map (·.moduleName) =
    PKG :: preorder (specChildren [.file PKG true, .file 7 true, .dir 8 [.file MOD true, .file 9 true],
      .dir 10 [.file 9 true], .file 11 false, .file MOD true]) :=
  discovery_modules _ _ (by simp [directory, findFiles, hasMod, pushChild, PKG, MOD, List.modify])

example : directory [.file PKG true, .file 7 true, .dir 8 [.file MOD true, .file 9 true],
                     .dir 10 [.file 9 true], .file 11 false, .file MOD true] =
    some [⟨PKG, [1, 2]⟩, ⟨7, []⟩, ⟨8, [3]⟩, ⟨9, []⟩] := by
  simp [directory, findFiles, hasMod, pushChild, PKG, MOD, List.modify]

end RotoV.C13
