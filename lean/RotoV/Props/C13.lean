/-
  C13 — names resolve to the item the module rules designate.

  Theorems over the executable model `RotoV.Model.Scope` (tied to
  src/typechecker/{scope,expr,mod}.rs, src/file_tree.rs, src/module.rs,
  src/typechecker/info.rs and src/codegen/mod.rs by the correspondence run of
  harness/src/bin/c13.rs on every `./check C13`).
-/
import RotoV.Model.Scope
import RotoV.Lemmas.Scope

namespace RotoV.C13
open RotoV.Scope

/-! ## T1 — lookup_spec -/

/-- The invariant `lookup_spec` needs is the one `wrap` maintains. -/
theorem wrap_keeps_wf (g : Graph) (wf : WF g) (parent : Nat) (kind : SKind)
    (hp : parent < g.scopes.length) : WF (g.wrap parent kind).1 :=
  wrap_wf wf parent kind hp

/-- **T1.** On every well-formed graph, of any depth, `resolve_name` with
    `recurse = true` is the declarative lookup: walk the ancestor chain from the
    innermost scope outward and take the first scope that has a declaration of
    the name or, failing that, an import of it.  In particular the loop
    terminates (no `fuel` panic). -/
theorem lookup_spec (g : Graph) (wf : WF g) (s : Nat) (hs : s < g.scopes.length) (x : Name) :
    ∃ chain, Ancestors g s chain ∧ g.resolve s x true = firstHit g x chain := by
  obtain ⟨l, hl⟩ := ancestors_exist wf s hs
  exact ⟨l, hl, resolveName_eq_firstHit wf x (s + 1) s l (Nat.lt_succ_self s) hl⟩

/-- With `recurse = false` only the scope's own declarations are consulted. -/
theorem lookup_nonrecursive (g : Graph) (s : Nat) (x : Name) :
    g.resolve s x false = .ok (g.decl ⟨s, x⟩) := by
  simp only [Graph.resolve, Graph.resolveName]
  cases g.decl ⟨s, x⟩ <;> simp

example : ∃ g : Graph, WF g ∧ 0 < g.scopes.length := ⟨Graph.new, new_wf, by decide⟩

end RotoV.C13
