/-
C05 — a value read from the host is the same at every read site: no path
through a checked function reads a variable before it was assigned.

`no_read_of_unassigned`: if `Cfg.check` accepts a lowered function (with any
certificate), then along EVERY path through its blocks from the entry, every
instruction reads only variables that hold a value (parameters, context and
return pointers, stack slots, or assigned earlier on that very path).
`check_rejects_cached_read`, `cached_read_reads_unassigned`: the statement is
not vacuous — the shape "first read inside a branch, the temporary re-used
after it" is rejected, and on the path that skips the branch the model does
read the unassigned temporary.

The tie to the code is by correspondence: the harness hands the real blocks of
every generated script (hook `verif_hooks::c05::mem_ops`) to `Cfg.check`
(driver `c05 defuse`), with the certificate `certify` computes.
-/
import RotoV.Lemmas.BoundaryDefUse

namespace RotoV.C05

open RotoV.BoundaryDefUse

theorem blockOk_of_check {g : Cfg} (h : g.check = true) {b : Nat} {blk : Block}
    (hb : g.blocks[b]? = some blk) : g.blockOk b blk = true := by
  simp only [Cfg.check, Bool.and_eq_true, List.all_eq_true] at h
  exact h.2 (blk, b) (List.mem_zipIdx_iff_getElem?.2 hb)

theorem getD_of_getElem? {g : Cfg} {b : Nat} {blk : Block} (hb : g.blocks[b]? = some blk) :
    g.blocks.getD b default = blk := by
  simp [List.getD, hb]

/-- from any block, with any set of assigned variables that covers the block's
entry set, no read of an unassigned variable along any path -/
theorem path_sound (g : Cfg) (h : g.check = true) (b : Nat) (p : List Nat) (hp : Path g b p) :
    ∀ s, subset (g.entrySet b) s = true → noUnassignedRead (trace g p) s = true := by
  induction hp with
  | last b hb =>
    intro s hs
    have hget : g.blocks[b]? = some g.blocks[b] := List.getElem?_eq_getElem hb
    have hok := blockOk_of_check h hget
    simp only [Cfg.blockOk] at hok
    split at hok
    · cases hok
    · rename_i out hrun
      have := (runBlock_sound hrun hs []).1
      simp only [trace, getD_of_getElem? hget]
      rw [this]
      rfl
  | step b c rest blk hb hsucc tail ih =>
    intro s hs
    have hok := blockOk_of_check h hb
    simp only [Cfg.blockOk] at hok
    split at hok
    · cases hok
    · rename_i out hrun
      rw [List.all_eq_true] at hok
      have hc := hok c hsucc
      simp only [Bool.and_eq_true] at hc
      have hsound := runBlock_sound hrun hs (trace g (c :: rest))
      simp only [trace, getD_of_getElem? hb] at hsound ⊢
      rw [hsound.1]
      exact ih _ (subset_trans hc.2 hsound.2)

/-- No path from the entry of a checked function reads a variable that was not
assigned before on that path. -/
theorem no_read_of_unassigned (g : Cfg) (h : g.check = true) (p : List Nat) (hp : Path g 0 p) :
    noUnassignedRead (trace g p) g.initial = true := by
  have h0 : subset (g.entrySet 0) g.initial = true := by
    simp only [Cfg.check, Bool.and_eq_true] at h
    exact h.1
  exact path_sound g h 0 p hp g.initial h0

-- ------------------------------------------------------------------ non-vacuity

/-- `if s == 1 { note(K); } K` with a read per site: block 0 branches to 1 (the
then-block, reads the constant into 5) or straight to 2 (reads it into 6) -/
def readPerSite : Cfg :=
  { blocks := [⟨[⟨[1], some 2⟩], [1, 2]⟩, ⟨[⟨[], some 4⟩, ⟨[4], some 5⟩, ⟨[5], none⟩], [2]⟩,
               ⟨[⟨[], some 7⟩, ⟨[7], some 6⟩, ⟨[6], none⟩], []⟩],
    initial := [0, 1], entrySets := [] }

/-- the same with the first read cached: block 2 re-uses 5, which only block 1 assigns -/
def cachedRead : Cfg :=
  { blocks := [⟨[⟨[1], some 2⟩], [1, 2]⟩, ⟨[⟨[], some 4⟩, ⟨[4], some 5⟩, ⟨[5], none⟩], [2]⟩,
               ⟨[⟨[5], none⟩], []⟩],
    initial := [0, 1], entrySets := [] }

example : (certify readPerSite).check = true := by decide
example : (certify readPerSite).entrySets = [[0, 1], [0, 1, 2], [0, 1, 2]] := by decide
example : (certify cachedRead).check = false := by decide

/-- no certificate makes the check accept the cached read -/
theorem check_rejects_cached_read : ∀ E, { cachedRead with entrySets := E }.check = false := by
  intro E
  cases hc : ({ cachedRead with entrySets := E } : Cfg).check with
  | false => rfl
  | true =>
    -- the path 0 → 2 reads 5 unassigned, which a passing check excludes
    have hp : Path { cachedRead with entrySets := E } 0 [0, 2] :=
      .step 0 2 [] ⟨[⟨[1], some 2⟩], [1, 2]⟩ rfl (by decide) (.last 2 (by simp [cachedRead]))
    have := no_read_of_unassigned _ hc [0, 2] hp
    simp [trace, cachedRead, noUnassignedRead] at this

/-- … and rightly so: on the path that skips the then-block the re-used temporary
is read without ever having been assigned; with a read per site it is not -/
theorem cached_read_reads_unassigned :
    noUnassignedRead (trace cachedRead [0, 2]) cachedRead.initial = false ∧
    noUnassignedRead (trace cachedRead [0, 1, 2]) cachedRead.initial = true ∧
    noUnassignedRead (trace readPerSite [0, 2]) readPerSite.initial = true := by
  decide

example : Path (certify readPerSite) 0 [0, 1, 2] :=
  .step 0 1 [2] ⟨[⟨[1], some 2⟩], [1, 2]⟩ rfl (by decide)
    (.step 1 2 [] ⟨[⟨[], some 4⟩, ⟨[4], some 5⟩, ⟨[5], none⟩], [2]⟩ rfl (by decide) (.last 2 (by decide)))

end RotoV.C05
