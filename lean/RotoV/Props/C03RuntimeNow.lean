/-
  C03, runtime boundary on the current tree: the `ErasedList` functions that receive an element
  by raw pointer, as the translator target `listown` reads them from src/value/list.rs and
  src/runtime/basic.rs on every run (`Generated/ListOwn.lean`).
-/
import RotoV.Props.C03Runtime
import RotoV.Generated.ListOwn

namespace RotoV.C03
open RotoV.ListOwn

/-- RT1. Every list method of the script runtime that takes an element by `DynVal` hands it to
    an `ErasedList` function that, as written in the current source, consumes it exactly once
    on every path. -/
theorem runtime_entries_consume_once :
    entriesConsume RotoV.Gen.ListOwn.fns RotoV.Gen.ListOwn.entries = true := by decide

/-- RT1, spelled out over paths. -/
theorem runtime_entry_paths (e : Nat) (he : e ∈ RotoV.Gen.ListOwn.entries) :
    ∃ b, lookup RotoV.Gen.ListOwn.fns e = some b ∧
      ∀ choice n, pathOk false (events choice n b) = true := by
  have h := runtime_entries_consume_once
  simp only [entriesConsume, List.all_eq_true] at h
  have := h e he
  cases hl : lookup RotoV.Gen.ListOwn.fns e with
  | none => simp [hl] at this
  | some b =>
    simp only [hl] at this
    exact ⟨b, rfl, runOwn_sound b false this⟩

/-- RT2. Every `ErasedList` function that receives an element pointer either consumes it
    exactly once on every path or leaves it alone on every path (the borrowing twins
    `contains` / `index` used by `List<T>` on the Rust side). -/
theorem runtime_functions_decided : allDecided RotoV.Gen.ListOwn.fns = true := by decide

end RotoV.C03
