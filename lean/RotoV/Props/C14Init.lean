/-
  C14, theorems about *which* constants the item loop evaluates: all of them,
  whatever their type — a constant of a zero-sized type (`()`, a record without
  fields, a record of such, a registered type without data) has no bytes to
  fill, but its initialiser is an expression like any other and may call host
  functions, directly, in a block `{ emit(k); () }`, or through script functions.

  Over the *generated* arm `RotoV.Gen.C14Emit.constantArmG` (translator target
  `c14emit`: every action of the `ItemKind::Constant` arm of `codegen`'s define
  loop with the condition it is executed under), so that an arm that tests the
  layout size before compiling / running the initialiser breaks these.
-/
import RotoV.Model.TarjanInit
import RotoV.Lemmas.TarjanInit
import RotoV.Generated.C14Emit

namespace RotoV.C14
open RotoV.Tarjan

/-! ## T9 — every constant is evaluated, whatever its layout -/

/-- For a layout of any size — zero bytes included — the arms of the define loop
execute exactly the actions the model's step stands for, in that order: compile
the initialiser, finalize, fetch the drop function, fetch the initialiser, run
it, store the constant. -/
theorem constant_arm_for_every_layout (sz : Nat) :
    armActs RotoV.Gen.C14Emit.constantArmG sz = some modelConstantArm ∧
    armActs RotoV.Gen.C14Emit.functionArmG sz = some modelFunctionArm :=
  ⟨(armActs_of_allAlways _ (by decide) sz).trans (congrArg some (by decide)),
   (armActs_of_allAlways _ (by decide) sz).trans (congrArg some (by decide))⟩

/-- Constants of every type are evaluated exactly once, during compilation, in
list order, and never afterwards: for every list of constants — any types, any
initialisers, each reading only constants that stand earlier (what the
compilation order provides) — the define loop with the generated constant arm
completes; the host-call trace of the compilation is every initialiser's own
host calls, once each, in list order (so a host call occurs in the trace as
often as it occurs in the initialisers, and the calls of a constant come after
those of every constant before it); every constant is stored; and reading any
of them afterwards leaves the trace as it is. -/
theorem initialisers_traced_once (ds : List CDecl) (h : depsEarlier 0 ds = true) :
    ∃ st, compileInit RotoV.Gen.C14Emit.constantArmG ds = .ok st
      ∧ st.trace = wantTrace ds
      ∧ st.store = List.range ds.length
      ∧ (∀ k, st.trace.count k = (ds.map fun d => d.init.effs.count k).sum)
      ∧ (∀ c, c < ds.length → readStored st c = .ok st) := by
  have hl := iLoop_model (armActs RotoV.Gen.C14Emit.constantArmG)
    (fun sz => (constant_arm_for_every_layout sz).1) ds 0 IState.new rfl h
  refine ⟨_, hl, ?_, ?_, ?_, ?_⟩
  · simp [IState.new]
  · simp
  · intro k
    simp [IState.new, wantTrace, List.count_flatMap, Function.comp_def]
  · intro c hc
    simp [readStored, hc]

/-- the trace splits along the list: the constants before position `i` are
traced before the constants from `i` on -/
theorem wantTrace_append (a b : List CDecl) : wantTrace (a ++ b) = wantTrace a ++ wantTrace b := by
  simp [wantTrace]

/-- non-vacuity: `const READY: () = prepare();  fn prepare() { setup(); }` — with
the generated arm the host call is traced during compilation; with an arm that
skips zero-sized layouts the package compiles, the constant is stored, and the
trace is empty; a sized constant is traced by both; `()?` is not zero-sized. -/
example : (compileInit RotoV.Gen.C14Emit.constantArmG [⟨.unit, .call 0 (.host 0)⟩]).map (·.trace) = .ok [0] := by decide
example : (compileInit skipZeroSizedArm [⟨.unit, .call 0 (.host 0)⟩]).map (fun st => (st.trace, st.store)) = .ok ([], [0]) := by decide
example : (compileInit skipZeroSizedArm [⟨.u64, .host 5⟩, ⟨.option .unit, .host 2⟩]).map (·.trace) = .ok [5, 2] := by decide
example : (compileInit skipZeroSizedArm
    [⟨.emptyRecord, .seq (.host 0) .value⟩, ⟨.record1 .unit, .host 1⟩, ⟨.registered 0, .host 3⟩,
     ⟨.unit, .seq (.host 7) (.read 0)⟩]).map (·.trace) = .ok [] := by decide
example : armActs skipZeroSizedArm 0 = some [.finalize, .lookupDrop, .getFinalized, .store] := by decide
/-- dependency order: `K1: () = { emitu(1); () }`, `K0: () = { emitu(0); K1 }` listed dependencies first -/
example : (compileInit RotoV.Gen.C14Emit.constantArmG
    [⟨.unit, .seq (.host 1) .value⟩, ⟨.unit, .seq (.host 0) (.read 0)⟩]).map (·.trace) = .ok [1, 0] := by decide
/-- … and listed the other way round the loop stops (`Constant not defined`) before anything of `K0` runs -/
example : compileInit RotoV.Gen.C14Emit.constantArmG
    [⟨.unit, .seq (.host 0) (.read 1)⟩, ⟨.unit, .seq (.host 1) .value⟩] = .error .panic := by decide
example : depsEarlier 0 [⟨.unit, .seq (.host 0) (.read 1)⟩, ⟨.unit, .seq (.host 1) .value⟩] = false := by decide

end RotoV.C14
