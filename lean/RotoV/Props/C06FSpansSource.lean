/-
  C06 — the arithmetic on byte positions in the literal decoders
  (`unescape_f_string_part`, `unescape_str`, `unescape_char`, src/parser/expr.rs)
  as the translator reads it from the source on every run (target `fspanfacts`,
  `Generated/FSpanFacts.lean`), against what the model (`Model/Parse`: `uScan`,
  `pieces`, `fText`, `decodeLit`) and the theorems of `Props/C06FSpans` are
  written with. A changed constant or a changed / added / removed piece of
  arithmetic changes the generated definitions and these theorems fail; an
  arithmetic outside the understood shape (e.g. a running `+=` offset) fails the
  extraction.
-/
import RotoV.Props.C06FSpans
import RotoV.Generated.FSpanFacts

namespace RotoV.C06FSpansSource
open RotoV RotoV.Lex RotoV.Parse

/-! ## the constants of the scan are the source's (target `fspanfacts`) -/

/-- `let mut piece_start = 0;` and `piece_start = i + 2;` in `unescape_f_string_part` as the translator reads them
from the source: the values the model's `uScan` is written with. A changed constant changes the generated
definition and this theorem fails. -/
theorem source_piece_start_constants : Gen.FSpanFacts.fPieceInit = 0 ∧ Gen.FSpanFacts.fPieceStep = 2 := ⟨rfl, rfl⟩

/-- the brace-escape arm of the model's scan advances `piece_start` to `i + <the source's step>` and cuts
`piece_start..i`; the scan starts with `piece_start = <the source's initial value>` -/
theorem uScan_brace_arm_uses_source_step (c : Char) (hc : c = '{' ∨ c = '}') (i ps : Nat) (ds : List Char)
    (acc : List (Nat × Nat)) :
    uScan .normal i ps (c :: c :: ds) acc
      = uScan .normal (i + sz c + sz c) (i + Gen.FSpanFacts.fPieceStep) ds ((ps, i) :: acc) := by
  have h1 : c ≠ '\\' := by rcases hc with rfl | rfl <;> decide
  simp [uScan, h1, hc, source_piece_start_constants.2]

theorem pieces_start_from_source_init (t : List Char) :
    pieces t = (uScan .normal 0 Gen.FSpanFacts.fPieceInit t []).1 ++ [((uScan .normal 0 Gen.FSpanFacts.fPieceInit t []).2, blen t)] := by
  rw [source_piece_start_constants.1]; rfl

/-- every piece of arithmetic on byte positions in the three decoders, as the translator lists it from the source
(locals renamed: `v0` = the text, `v1` = its span, `v3` = `piece_start`, `v5` = the scan index `i`, `v4` = the
escaper's range): the shapes the model (`Model/Parse.fText`, `decodeLit`) was written against. -/
theorem source_arith_unescape_f_string_part : Gen.FSpanFacts.arith_unescape_f_string_part
    = ["let v3=0", "start:v1.start+v3", "v3=v5+2", "start:v1.start+v3"] := rfl

theorem source_arith_unescape_str : Gen.FSpanFacts.arith_unescape_str
    = ["let v8=v1.start+v4.start", "let v9=v1.start+v4.end"] := rfl

theorem source_arith_unescape_char : Gen.FSpanFacts.arith_unescape_char = [] := rfl

/-- `Parser::simple_literal`: the content of a string / character token is `&s[1..s.len() - 1]` and the span handed
to the decoder starts one byte (the quote) after the token (`v1` = the token's span, `v3` = its text) -/
theorem source_arith_simple_literal : Gen.FSpanFacts.arith_simple_literal
    = ["v3.len()-1", "start:v1.start+1", "v3.len()-1", "start:v1.start+1"] := rfl

/-! ## non-vacuity -/

/-- the brace arm fires: `{{` from `piece_start = 0` cuts `0..0` and continues at 2 -/
example : uScan .normal 0 0 ['{', '{'] [] = ([(0, 0)], 2) := by decide

end RotoV.C06FSpansSource
