/-
  C18, part 7 — `TypeChecker::declare_runtime_type`, the function
  `Rt::declare_type` hands an accepted type registration to, read from the
  source (`Generated/DeclRuntimeType.lean`, translator target `declrtype`,
  `extract/src/targets/c18.rs`).  A module of its own so that a change to that
  function (the shortcut looking through the enclosing scopes, applying to
  another kind of definition, declaring under another name) breaks exactly
  these obligations.
-/
import RotoV.Model.RegistrationDeclType
import RotoV.Generated.DeclRuntimeType

namespace RotoV.C18
open RotoV.Reg RotoV.Reg.Src

/-- the harness's initial runtime: `u64 u32 String bool` (names 0–3) as Rust
    types 100–103, `Option` / `Verdict` (names 4, 5) as other root names -/
def stHarness : St := St.init [(0, 100), (1, 101), (2, 102), (3, 103)] [4, 5]
def lexAll : Name → Lex := fun _ => ⟨some (some .ident), false, true⟩

/-! ## `TypeChecker::declare_runtime_type`, read from the source (target `declrtype`)

  (growth round, branch wt-h18)  What `declare_type` hands an accepted
  registration to was hand-modelled and tied by the correspondence run only.
  Its decisions — where the "primitive shortcut" looks (own scope, own
  identifier, NOT through the enclosing scopes: the `recurse` argument of
  `resolve_name`, which was `true` on the pinned tree, defect (e)), for which
  kinds of definition it applies, that it declares nothing, and that otherwise
  the registration's own name is inserted with a clash propagated — are
  regenerated as `Generated/DeclRuntimeType.lean` on every run. -/

/-- **`declare_runtime_type` is written as modelled.** -/
theorem declare_runtime_type_as_modelled : RotoV.Gen.DeclRuntimeType.facts = declRtAsModelled := by decide

/-- the model's configuration read from that source is the one all theorems are about -/
theorem declare_runtime_type_source_cfg : RotoV.Gen.DeclRuntimeType.facts.cfg = Cfg.fixed := by decide

/-- **A free name is declared where it is registered, whatever the enclosing
    scopes hold** (on the configuration read from the source; all runtimes,
    scopes, identifiers, Rust types): if the Rust type is not registered and
    the resolved name is free in its own scope, `declare_type` succeeds and the
    runtime gains the declaration `scope::n` owning the scope `scope ++ [n]`
    and the entry `(id, scope::n)` — in particular for a type named like a
    primitive that lives in an enclosing scope. -/
theorem declare_type_free_name_declared_on_source (st : St) (scope : ScopeId) (n : Name) (id : TyId)
    (h1 : st.types id = none) (h2 : st.typeNames ⟨scope, n⟩ = false) (h3 : st.decls ⟨scope, n⟩ = none) :
    declareType RotoV.Gen.DeclRuntimeType.facts.cfg scope n id st =
      .ok ((st.insertDecl ⟨scope, n⟩ ⟨.type id, some (scope ++ [n])⟩).insertType id ⟨scope, n⟩) := by
  rw [declare_runtime_type_source_cfg]
  simp [declareType, Cfg.fixed, h1, h2, h3]

/-- … and a taken name that is not a primitive's is a name clash, never
    swallowed by the shortcut (on the configuration read from the source). -/
theorem declare_type_taken_name_rejected_on_source (st : St) (scope : ScopeId) (n : Name) (id : TyId)
    (d : Decl) (h1 : st.types id = none) (h3 : st.decls ⟨scope, n⟩ = some d) (hk : d.kind ≠ .prim) :
    declareType RotoV.Gen.DeclRuntimeType.facts.cfg scope n id st = .err .nameTaken := by
  rw [declare_runtime_type_source_cfg]
  cases h2 : st.typeNames ⟨scope, n⟩ <;> simp [declareType, Cfg.fixed, h1, h2, h3, hk]

/-- non-vacuity: `mod m { type u64 = M7 }` next to `impl M7 { fn f }` — the
    type is its own declaration in the module and the method resolves at
    `m.u64.f` (name 0 is the primitive `u64` at the root) -/
example : declareType RotoV.Gen.DeclRuntimeType.facts.cfg [9] 0 7 stHarness =
    .ok ((stHarness.insertDecl ⟨[9], 0⟩ ⟨.type 7, some [9, 0]⟩).insertType 7 ⟨[9], 0⟩) :=
  declare_type_free_name_declared_on_source _ _ _ _ (by decide) (by decide) (by decide)

example :
    (match register RotoV.Gen.DeclRuntimeType.facts.cfg lexAll stHarness
        (.cons (.module 9 (.cons (.type 0 7) .nil)) (.cons (.impl 7 (.cons (.function 8 [] .unit 1) .nil)) .nil)) with
     | .ok st => resolvePath st [9, 0, 8]
     | _ => none) = some ⟨.method [] .unit 1, none⟩ := by decide

example : declareType RotoV.Gen.DeclRuntimeType.facts.cfg [] 4 7 stHarness = .err .nameTaken :=
  declare_type_taken_name_rejected_on_source _ _ _ _ ⟨.other, none⟩ (by decide) (by decide) (by decide)

/-- **What `recurse = true` does** (the pinned tree's lookup): the shortcut
    finds the ROOT's primitive from inside a module, so `mod m { type u64 = M7 }`
    is accepted without any declaration in `m` — the type is usable nowhere
    at its declared path and an impl block for it panics. -/
theorem recursive_shortcut_swallows_module_type :
    (match declareType { Cfg.fixed with primRecursive := true } [9] 0 7 stHarness with
     | .ok st => decide (st.decls ⟨[9], 0⟩ = none) && decide (st.types 7 = some ⟨[9], 0⟩)
     | _ => false) = true ∧
    (register { Cfg.fixed with primRecursive := true } lexAll stHarness
      (.cons (.module 9 (.cons (.type 0 7) .nil)) (.cons (.impl 7 .nil) .nil))).isPanic = true := by
  decide

end RotoV.C18
