/-
  C19 — the test runner and CLI report outcomes truthfully.

  Statements are over the GENERATED definitions of `Gen.TestRunner`
  (src/codegen/testing.rs `TestCase::run`, `get_tests`, `run_tests`;
  src/pipeline.rs `Package::run_tests`; src/cli.rs `Command`, `cli_inner`, `cli`;
  the `test#` naming of src/typechecker/function.rs and src/mir/lower.rs),
  composed with the hand model of `Model/TestRunner` (string/iterator
  vocabulary, `Module::get_function`, declaration name spaces, pipeline
  stages as operations over a `World`).

  T2 `aggregate_iff`    the loop of `run_tests` over ANY list of tests: the result
                        is `Ok` iff every verdict is accept, and the event log
                        grows by exactly one `ranTest` per test, in list order.
                        Hypothesis `tests.length < 2^31`: the counters are `i32`
                        (Rust integer fallback); beyond that a debug build panics
                        and a release build wraps.  No package can hold 2^31
                        functions, so the hypothesis is not a restriction in practice.
     `aggregate_count`  the same by the NUMBER of rejecting blocks: `Err` iff it is
                        positive, for every number; `aggregate_every_count`: every
                        number is realised (`a` accepting + `n` rejecting blocks).
  T1 `discovery_exact`  for every package whose declared names are identifiers
                        (explicit predicate; `#`/`.` are not XID_Continue): the key
                        list `get_tests` maps over is a permutation of the test
                        blocks of all modules (each once) and EQUALS the sorted
                        list of their keys — whatever the hash-map order.
     `discovery_runs`   the rest of `get_tests` (strip_prefix, get_function look-up,
                        unwraps): no panic, one handle per block of every module at
                        every depth, each the table's entry of its key;
     `run_package_truthful`  `run_tests` on such a package: every block once, in
                        sorted key order, `Ok` iff every declared verdict is accept.
                        (T1 for tables that also hold compiler-generated glue —
                        `::generated::eq_…/clone_…/drop_…`, any entries whose keys have no `#`.)
  T3 `no_shadow_*`      `fn x`/`test x` occupy different keys (coexist); a module
                        declares without error iff its keys are distinct, two
                        tests (or two functions) of one name are an error; no
                        path of identifiers spells the key of a test, so
                        `get_function`/script calls cannot reach one, and
                        `get_function "x"` is the function.
     `get_function_resolves` / `get_function_missing`  over the GENERATED look-up key of
                        `Module::get_function` and `Package::get_function`: a name is the path
                        of an item from the root — `a.b.f` is the `f` of module `a.b` and of no
                        other, whatever the modules are called (also `pkg`); any other spelling
                        is missing.  (`discovery_runs` rests on the same key: `get_tests`
                        strips `pkg.` and the look-up must put exactly that back.)
  T4 `cli_exit_*`       decision table of `cli` over the exit STATUS (`ExitCode` is a
                        number, `failed` = status ≠ 0; `cli_exit_test_count`:
                        `failed` = (rejecting blocks > 0) for every count):
                        failure exactly for compile error
                        (`check`), compile error or a rejecting test (`test`),
                        compile error or a missing/mistyped entry (`run`); `run`
                        calls the entry exactly once on success and never otherwise.
-/
import RotoV.Lemmas.TestRunner

namespace RotoV.C19
open RotoV RotoV.TR RotoV.Gen.TestRunner RotoV.TRL

/-! ## T2 — aggregation -/

/-- the loop of `run_tests` on an already collected list of tests -/
def runLoop {ε} (dbg : Bool) (tests : List TestCase) : Run ε (RResult Unit Unit) := do
  let st__ ← List.foldlM (run_tests_step dbg ()) run_tests_init (run_tests_iter tests)
  run_tests_finish dbg st__

theorem aggregate_iff {ε} (dbg : Bool) (tests : List TestCase) (hlen : tests.length < 2^31) (log : List Event) :
    ∃ r, runLoop (ε := ε) dbg tests log = (.ok r, log ++ tests.map evOf) ∧
      (r = .Ok () ↔ ∀ t ∈ tests, t.func.info.verdict = .Accept ()) := by
  have hl := iter_len tests
  have hfold := fold_spec (ε := ε) dbg (run_tests_iter tests) 0 0 log (by omega)
  have hsum := nAcc_nRej (run_tests_iter tests)
  refine ⟨if nRej (run_tests_iter tests) = 0 then .Ok () else .Err (), ?_, ?_⟩
  · unfold runLoop
    simp only [Run.bind_apply, run_tests_init, hfold]
    rw [finish_spec dbg _ _ (by omega)]
    have : List.map (fun p => evOf p.2) (run_tests_iter tests) = tests.map evOf := by
      have := congrArg (List.map evOf) (iter_snd tests)
      simpa [List.map_map, Function.comp_def] using this
    simp [this]
  · have hrej : nRej (run_tests_iter tests) = 0 ↔ ∀ t ∈ tests, t.func.info.verdict = .Accept () := by
      unfold nRej
      rw [List.length_eq_zero_iff, List.filter_eq_nil_iff]
      constructor
      · intro h t ht
        rw [← iter_snd tests] at ht
        obtain ⟨p, hp, rfl⟩ := List.mem_map.mp ht
        simpa [accepts] using h p hp
      · intro h p hp
        have : p.2 ∈ tests := by
          rw [← iter_snd tests]; exact List.mem_map.mpr ⟨p, hp, rfl⟩
        simpa [accepts] using h p.2 this
    by_cases h0 : nRej (run_tests_iter tests) = 0
    · simp only [h0, if_true, true_iff]; exact hrej.mp h0
    · simp only [h0, if_false]
      constructor
      · intro h; cases h
      · intro h; exact absurd (hrej.mpr h) h0

/-- non-vacuity: two accepting tests pass, a rejecting one in the middle fails; each runs once. -/
example :
    let f (k : Name) (v : Verdict Unit Unit) : TestCase := ⟨k, ⟨k, ⟨testSig, v⟩⟩⟩
    runLoop (ε := Unit) true [f ['a'] (.Accept ()), f ['b'] (.Accept ())] []
        = (.ok (.Ok ()), [.ranTest ['a'], .ranTest ['b']]) ∧
    runLoop (ε := Unit) false [f ['a'] (.Accept ()), f ['b'] (.Reject ()), f ['c'] (.Accept ())] []
        = (.ok (.Err ()), [.ranTest ['a'], .ranTest ['b'], .ranTest ['c']]) ∧
    runLoop (ε := Unit) true [] [] = (.ok (.Ok ()), []) := by
  decide

/-- T2 by count.  For EVERY number of rejecting blocks (`failureCount tests` ranges over all of
    `Nat` below the counter width, not over sampled values): the loop ends in `Err` iff that
    number is positive.  Any arithmetic on the count between the loop and the result
    (truncation, modulus, comparison with another constant) falsifies this. -/
theorem aggregate_count {ε} (dbg : Bool) (tests : List TestCase) (hlen : tests.length < 2^31) (log : List Event) :
    ∃ r, runLoop (ε := ε) dbg tests log = (.ok r, log ++ tests.map evOf) ∧
      (r = .Err () ↔ 0 < failureCount tests) := by
  obtain ⟨r, hr, hiff⟩ := aggregate_iff (ε := ε) dbg tests hlen log
  refine ⟨r, hr, ?_⟩
  rw [failureCount_pos]
  rcases r with ⟨⟨⟩⟩ | ⟨⟨⟩⟩
  · have := hiff.mp rfl
    constructor
    · intro h; cases h
    · rintro ⟨t, hm, hp⟩; exact absurd (this t hm) hp
  · have hn : ¬ ∀ t ∈ tests, t.func.info.verdict = .Accept () := fun h => by
      have := hiff.mpr h; cases this
    constructor
    · intro _
      exact Classical.byContradiction fun hc =>
        hn (fun t hm => Classical.byContradiction fun hp => hc ⟨t, hm, hp⟩)
    · intro _; rfl

/-- … and every count is realised: `a` accepting and `n` rejecting blocks, for every `n` —
    in particular `n = 256·k`, which a status or counter truncated to 8 bits would map to 0. -/
theorem aggregate_every_count {ε} (dbg : Bool) (acc rej : TestCase)
    (hacc : acc.func.info.verdict = .Accept ()) (hrej : rej.func.info.verdict = .Reject ())
    (a n : Nat) (h : a + n < 2^31) :
    (runLoop (ε := ε) dbg (List.replicate a acc ++ List.replicate n rej) []).1
      = .ok (if n = 0 then .Ok () else .Err ()) := by
  have hcount := failureCount_replicate acc rej hacc hrej a n
  obtain ⟨r, hr, hiff⟩ := aggregate_count (ε := ε) dbg (List.replicate a acc ++ List.replicate n rej)
    (by simpa using h) []
  rw [hr, hcount] at *
  by_cases h0 : n = 0
  · subst h0
    rcases r with ⟨⟨⟩⟩ | ⟨⟨⟩⟩
    · rfl
    · exact absurd (hiff.mp rfl) (by omega)
  · have : r = .Err () := hiff.mpr (by omega)
    simp [this, h0]

/-- non-vacuity at the boundary: 256 rejecting blocks are 256 failures, and the run fails. -/
example :
    let rej : TestCase := ⟨['r'], ⟨['r'], ⟨testSig, .Reject ()⟩⟩⟩
    failureCount (List.replicate 256 rej) = 256 ∧
    (runLoop (ε := Unit) true (List.replicate 256 rej) []).1 = .ok (.Err ()) := by
  have hc := failureCount_replicate ⟨['a'], ⟨['a'], ⟨testSig, .Accept ()⟩⟩⟩
    ⟨['r'], ⟨['r'], ⟨testSig, .Reject ()⟩⟩⟩ rfl rfl 0 256
  rw [List.replicate_zero, List.nil_append] at hc
  refine ⟨hc, ?_⟩
  have h := aggregate_every_count (ε := Unit) true ⟨['a'], ⟨['a'], ⟨testSig, .Accept ()⟩⟩⟩
    ⟨['r'], ⟨['r'], ⟨testSig, .Reject ()⟩⟩⟩ rfl rfl 0 256 (by omega)
  rw [List.replicate_zero, List.nil_append] at h
  exact h.trans (by simp)

/-- `run_tests` is `get_tests` followed by the loop. -/
theorem run_tests_eq {ε} (dbg : Bool) (module : Module) (tests : List TestCase)
    (h : get_tests dbg module = .ok tests) (log : List Event) :
    run_tests (ε := ε) dbg module () log = runLoop dbg tests log := by
  unfold run_tests runLoop
  simp [h, RIter.collect]


/-- T2 at the level of `run_tests` itself (accept ↦ pass, reject ↦ fail, end to end over
    the generated `TestCase::run`, loop and decision), whenever `get_tests` yields `tests`. -/
theorem run_tests_truthful {ε} (dbg : Bool) (module : Module) (tests : List TestCase)
    (h : get_tests dbg module = .ok tests) (hlen : tests.length < 2^31) (log : List Event) :
    ∃ r, run_tests (ε := ε) dbg module () log = (.ok r, log ++ tests.map evOf) ∧
      (r = .Ok () ↔ ∀ t ∈ tests, t.func.info.verdict = .Accept ()) := by
  rw [run_tests_eq dbg module tests h]
  exact aggregate_iff dbg tests hlen log

/-- The public entry points of src/pipeline.rs add nothing of their own: with or without a
    context, `Package::run_tests` is `run_tests` on the package's module, and
    `Package::get_tests` is `get_tests` (so T1/T2 speak about all three). -/
theorem package_entry_points {ε} (dbg : Bool) (p : Package) (log : List Event) :
    Package_run_tests (ε := ε) dbg p log = run_tests dbg p.module () log ∧
    Package_run_tests_ctx (ε := ε) dbg p () log = run_tests dbg p.module () log ∧
    Package_get_tests dbg p = get_tests dbg p.module := by
  refine ⟨?_, ?_, ?_⟩
  · simp only [Package_run_tests]
  · simp only [Package_run_tests_ctx, id]
  · simp only [Package_get_tests]

/-! ## T4 — the CLI -/

def compileOk (W : World) : Bool := W.readOk && W.parseOk && W.typeOk

def isRanTest : Event → Bool
  | .ranTest _ => true
  | _ => false

def isEntryCall : Event → Bool
  | .calledEntry _ => true
  | _ => false

/-- `check`: the process reports failure (non-zero status) exactly on a compile error; no
    script code runs. -/
theorem cli_exit_check (dbg : Bool) (W : World) (file : TR.Path) :
    ∃ code log, cli dbg W ⟨.Check file⟩ W.runtime [] = (.ok code, log) ∧ code.failed = !compileOk W
      ∧ log.filter isRanTest = [] ∧ log.filter isEntryCall = [] := by
  obtain ⟨hc, r, p, t, tb⟩ := W
  cases r <;> cases p <;> cases t <;>
    simp [cli, cli_inner_result, cli_inner, Run.reify, compileOk, World.FileTree_read, World.parse, World.typecheck,
      Cli.try_, Run.bind_apply, isRanTest, isEntryCall] <;>
    exact ⟨_, _, ⟨rfl, rfl⟩, rfl, by simp, by simp⟩

theorem cli_exit_test (dbg : Bool) (W : World) (hctx : W.hasCtx = false) (file : TR.Path)
    (tests : List TestCase) (hget : get_tests dbg ⟨W.table⟩ = .ok tests) (hlen : tests.length < 2^31) :
    ∃ code log, cli dbg W ⟨.Test file⟩ W.runtime [] = (.ok code, log) ∧
      (code.failed = true ↔ (compileOk W = false ∨ ∃ t ∈ tests, t.func.info.verdict ≠ .Accept ())) ∧
      log.filter isRanTest = (if compileOk W then tests.map evOf else []) ∧
      log.filter isEntryCall = [] := by
  obtain ⟨hc, r, p, t, tb⟩ := W
  simp only at hctx hget
  subst hctx
  cases r <;> cases p <;> cases t <;>
    simp [cli, cli_inner_result, cli_inner, Run.reify, compileOk, World.FileTree_read, World.parse, World.typecheck,
      Cli.try_, Run.bind_apply, World.runtime, World.try_without_ctx, World.codegen, World.lower_to_lir, World.lower_to_mir,
      Package_run_tests]
  all_goals first | exact ⟨_, _, ⟨rfl, rfl⟩, rfl, by simp [isRanTest], by simp [isEntryCall]⟩ | skip
  rw [run_tests_eq dbg _ tests hget]
  obtain ⟨res, hr, hiff⟩ := aggregate_iff (ε := CliErr) dbg tests hlen
    [Event.stage 0, Event.stage 1, Event.stage 2, Event.stage 3, Event.stage 4, Event.stage 5]
  rw [hr]
  have hflt : ∀ l : List TestCase, (l.map evOf).filter isRanTest = l.map evOf ∧ (l.map evOf).filter isEntryCall = [] := by
    intro l; induction l with
    | nil => exact ⟨rfl, rfl⟩
    | cons a l ih => simp [List.filter_cons, evOf, isRanTest, isEntryCall] at ih ⊢
  rcases res with ⟨⟨⟩⟩ | ⟨⟨⟩⟩
  · refine ⟨_, _, rfl, ?_, ?_, ?_⟩
    · have := hiff.mp rfl
      simp; exact this
    · rw [List.filter_append, (hflt tests).1]; rfl
    · have h2 := (hflt tests).2
      rw [List.filter_eq_nil_iff] at h2
      intro a ha
      rcases List.mem_append.mp ha with h | h
      · simp only [List.mem_cons, List.mem_nil_iff, or_false] at h
        rcases h with rfl | rfl | rfl | rfl | rfl | rfl <;> rfl
      · simpa using h2 a h
  · refine ⟨_, _, rfl, ?_, ?_, ?_⟩
    · have : ¬ ∀ t ∈ tests, t.func.info.verdict = .Accept () := fun h => by
        have := hiff.mpr h; cases this
      simpa using this
    · rw [List.filter_append, (hflt tests).1]; rfl
    · have h2 := (hflt tests).2
      rw [List.filter_eq_nil_iff] at h2
      intro a ha
      rcases List.mem_append.mp ha with h | h
      · simp only [List.mem_cons, List.mem_nil_iff, or_false] at h
        rcases h with rfl | rfl | rfl | rfl | rfl | rfl <;> rfl
      · simpa using h2 a h

/-- T4 (`test`) by count: on a script that compiles, the process reports failure iff the number
    of rejecting blocks is positive — for EVERY such number (the status is a function of
    `failures > 0` only; nothing of the count's magnitude may leak into "zero or not"). -/
theorem cli_exit_test_count (dbg : Bool) (W : World) (hctx : W.hasCtx = false) (hc : compileOk W = true)
    (file : TR.Path) (tests : List TestCase) (hget : get_tests dbg ⟨W.table⟩ = .ok tests)
    (hlen : tests.length < 2^31) :
    ∃ code log, cli dbg W ⟨.Test file⟩ W.runtime [] = (.ok code, log) ∧
      code.failed = decide (0 < failureCount tests) := by
  obtain ⟨code, log, hrun, hiff, -, -⟩ := cli_exit_test dbg W hctx file tests hget hlen
  refine ⟨code, log, hrun, ?_⟩
  rw [hc] at hiff
  simp only [Bool.true_eq_false, false_or] at hiff
  rw [← failureCount_pos] at hiff
  by_cases hp : 0 < failureCount tests
  · simp [hp, hiff.mpr hp]
  · have : code.failed ≠ true := fun h => hp (hiff.mp h)
    simp [hp, this]

/-- `get_function` fails exactly for a missing key or a different signature. -/
theorem entry_status (t : Table) (want : Sig) (name : Name) :
    (∃ e, get_function t want name = .Err e) ↔
      (t.find (pkgDot ++ name) = none ∨ ∃ i, t.find (pkgDot ++ name) = some i ∧ i.sig ≠ want) := by
  unfold get_function
  cases h : t.find (pkgDot ++ name) with
  | none => simp
  | some i => by_cases hs : i.sig = want <;> simp [hs]

/-- the entry point `function` of `roto run` is a path from the root of the package (`main`,
    `util.start`): it is MISSING when the table has no key `pkg.` ++ function … -/
def entryMissing (t : Table) (function : Name) : Prop := t.find (pkgDot ++ function) = none
/-- … and MISTYPED when that key's function is not a `fn()`. -/
def entryMistyped (t : Table) (function : Name) : Prop :=
  ∃ i, t.find (pkgDot ++ function) = some i ∧ i.sig ≠ entrySig

/-- T4 (`run`), over the GENERATED `cli`, `Package::get_function` and the generated look-up key of
    `Module::get_function`: failure exactly for a compile error or a missing or mistyped entry
    point, where the entry point is the function at the path `function` from the root and no
    other (in particular `pkg.f` is the `f` of a submodule called `pkg`, never the root's `f`);
    the entry is called once on success and never otherwise. -/
theorem cli_exit_run (dbg : Bool) (W : World) (hctx : W.hasCtx = false) (file : TR.Path) (function : Name) :
    ∃ code log, cli dbg W ⟨.Run file function⟩ W.runtime [] = (.ok code, log) ∧
      (code.failed = true ↔ (compileOk W = false ∨ entryMissing W.table function ∨ entryMistyped W.table function)) ∧
      log.filter isEntryCall = (if code.failed then [] else [.calledEntry (pkgDot ++ function)]) ∧
      log.filter isRanTest = [] := by
  unfold entryMissing entryMistyped
  rw [← entry_status]
  obtain ⟨hc, r, p, t, tb⟩ := W
  simp only at hctx
  subst hctx
  cases r <;> cases p <;> cases t <;>
    simp [cli, cli_inner_result, cli_inner, Run.reify, compileOk, World.FileTree_read, World.parse, World.typecheck,
      Cli.try_, Run.bind_apply, World.runtime, World.try_without_ctx, World.codegen, World.lower_to_lir, World.lower_to_mir,
      Package_get_function_spec]
  all_goals first | exact ⟨_, _, ⟨rfl, rfl⟩, rfl, by simp [isEntryCall], by simp [isRanTest]⟩ | skip
  cases hg : get_function tb entrySig function with
  | Err e =>
    refine ⟨_, [Event.stage 0, Event.stage 1, Event.stage 2, Event.stage 3, Event.stage 4, Event.stage 5], rfl, ?_, ?_, ?_⟩
    · simp
    · simp [isEntryCall]
    · simp [isRanTest]
  | Ok f =>
    have hk : f.key = pkgDot ++ function := by
      unfold get_function at hg
      cases hf : Table.find tb (pkgDot ++ function) with
      | none => simp [hf] at hg
      | some i =>
        by_cases hs : i.sig = entrySig <;> simp [hf, hs] at hg
        rw [← hg]
    refine ⟨_, [Event.stage 0, Event.stage 1, Event.stage 2, Event.stage 3, Event.stage 4, Event.stage 5,
      Event.calledEntry f.key], rfl, ?_, ?_, ?_⟩
    · simp
    · simp [isEntryCall, hk, List.filter_cons]
    · simp [isRanTest]

/-- Entry points and host look-ups name functions by their path from the root, over the
    GENERATED `Package::get_function` / look-up key: on a package whose table holds its items
    under distinct keys, the name `a.b.f` yields the function `f` of the module `a.b` — its own
    table entry — whatever the modules are called (a submodule may be called `pkg`) … -/
theorem get_function_resolves (mods : List Mod) (glue : Table) (module : Module)
    (hperm : module.functions.Perm (packageTable test_fn_name_mir test_sig_mir mods ++ glue))
    (hnodup : (Table.keys module.functions).Nodup)
    (m : Mod) (hm : m ∈ mods) (f : Name) (info : FnInfo) (hd : Decl.fn f info ∈ m.decls) :
    Package_get_function ⟨module⟩ info.sig (dotJoin (m.path ++ [f])) = .Ok ⟨fullName m.path f, info⟩ := by
  rw [Package_get_function_spec]
  have hmem : (fullName m.path f, info) ∈ module.functions := by
    apply hperm.symm.subset
    apply List.mem_append_left
    simp only [packageTable, List.mem_flatMap, moduleTable, List.mem_map]
    exact ⟨m, hm, .fn f info, hd, rfl⟩
  have hfind := find_of_mem_nodup module.functions _ info hnodup hmem
  rw [fullName_path] at hfind ⊢
  unfold get_function
  simp [hfind]

/-- … and a name that is the path of no item is missing: no other spelling (the qualified form
    `pkg.f` of the root's `f`, a name with a segment dropped) reaches a function. -/
theorem get_function_missing (mods : List Mod) (glue : Table) (module : Module)
    (hperm : module.functions.Perm (packageTable test_fn_name_mir test_sig_mir mods ++ glue))
    (name : Name) (want : Sig)
    (hno : ∀ m ∈ mods, ∀ d ∈ m.decls, dotJoin (m.path ++ [d.key test_fn_name_mir]) ≠ name)
    (hng : pkgDot ++ name ∉ Table.keys glue) :
    Package_get_function ⟨module⟩ want name = .Err .doesNotExist := by
  rw [Package_get_function_spec]
  have hnot : pkgDot ++ name ∉ Table.keys module.functions := by
    intro hk
    have hk' : pkgDot ++ name ∈ Table.keys (packageTable test_fn_name_mir test_sig_mir mods ++ glue) :=
      (hperm.map _).subset hk
    simp only [Table.keys, List.map_append, List.mem_append] at hk'
    rcases hk' with hk' | hk'
    · simp only [packageTable, moduleTable, List.mem_map, List.mem_flatMap] at hk'
      obtain ⟨⟨k, i⟩, ⟨m, hm, d, hd, he⟩, hkk⟩ := hk'
      simp only [Prod.mk.injEq] at he
      have : fullName m.path (d.key test_fn_name_mir) = pkgDot ++ name := he.1.trans hkk
      rw [fullName_path] at this
      exact hno m hm d hd (List.append_cancel_left this)
    · exact hng hk'
  have := find_none_of_not_mem module.functions _ hnot
  unfold get_function
  simp [this]

/-- non-vacuity: a root with `main` and a block `check`, a submodule called `pkg` with `entry`
    and a rejecting block `check`.  `pkg.entry` is the submodule's function, `pkg.main` names
    nothing (the root's `main` is `main`), `roto run … pkg.main` fails and `roto run … pkg.entry`
    calls that function once; both blocks run, the submodule's own one rejects: `Err`. -/
example :
    let check : Name := ['c', 'h', 'e', 'c', 'k']
    let main : Name := ['m', 'a', 'i', 'n']
    let entry : Name := ['e', 'n', 't', 'r', 'y']
    let mods : List Mod := [⟨[], [.fn main ⟨entrySig, .Accept ()⟩, .test check (.Accept ())]⟩,
                            ⟨[pkgName], [.fn entry ⟨entrySig, .Accept ()⟩, .test check (.Reject ())]⟩]
    let tb := packageTable test_fn_name_mir test_sig_mir mods
    let W : World := ⟨false, true, true, true, tb⟩
    let failed (o : Out CliErr ExitCode) : Option Bool := match o with | .ok c => some c.failed | _ => none
    Package_get_function ⟨⟨tb⟩⟩ entrySig (pkgDot ++ entry) = .Ok ⟨pkgDot ++ pkgDot ++ entry, ⟨entrySig, .Accept ()⟩⟩ ∧
    Package_get_function ⟨⟨tb⟩⟩ entrySig (pkgDot ++ main) = .Err .doesNotExist ∧
    Package_get_function ⟨⟨tb⟩⟩ entrySig main = .Ok ⟨pkgDot ++ main, ⟨entrySig, .Accept ()⟩⟩ ∧
    failed (cli true W ⟨.Run ⟨⟩ (pkgDot ++ main)⟩ W.runtime []).1 = some true ∧
    (cli true W ⟨.Run ⟨⟩ (pkgDot ++ entry)⟩ W.runtime []).2.filter isEntryCall = [.calledEntry (pkgDot ++ pkgDot ++ entry)] ∧
    run_tests (ε := Unit) true ⟨tb⟩ () []
      = (.ok (.Err ()), [.ranTest (pkgDot ++ pkgDot ++ test_fn_name_mir check), .ranTest (pkgDot ++ test_fn_name_mir check)]) := by
  decide

/-- non-vacuity of the CLI table: a world that compiles, with one rejecting test and a good `main`. -/
example :
    let mk (k : Name) (s : Sig) (v : Verdict Unit Unit) : Name × FnInfo := (k, ⟨s, v⟩)
    let W : World := ⟨false, true, true, true,
      [mk (pkgDot ++ ['m']) entrySig (.Accept ()), mk (pkgDot ++ ['t', 'e', 's', 't', '#', 'a']) testSig (.Reject ())]⟩
    let failed (o : Out CliErr ExitCode) : Option Bool := match o with | .ok c => some c.failed | _ => none
    failed (cli true W ⟨.Check ⟨⟩⟩ W.runtime []).1 = some false ∧
    failed (cli true W ⟨.Test ⟨⟩⟩ W.runtime []).1 = some true ∧
    failed (cli true W ⟨.Run ⟨⟩ ['m']⟩ W.runtime []).1 = some false ∧
    failed (cli true W ⟨.Run ⟨⟩ ['n']⟩ W.runtime []).1 = some true ∧
    failed (cli true { W with typeOk := false } ⟨.Check ⟨⟩⟩ W.runtime []).1 = some true := by
  decide

/-! ## T1 — discovery -/

/-- T1.  For every package whose declared names are identifiers, and whatever
    order the hash map `Module.functions` enumerates its keys in: the keys
    `get_tests` turns into test cases are exactly the test blocks of all
    modules, each once (`Perm`), and the list EQUALS the sorted list of those
    keys — so the order depends on the names only.  The table may hold any further
    entries whose keys contain no `#` (`glue`: the compiler-generated `::generated::eq_…`,
    `clone_…`, `drop_…` functions live in the same table): none of them is taken for a test. -/
theorem discovery_exact (X : XID) (F : XIDFacts X) (mods : List Mod)
    (hid : ∀ m ∈ mods, ∀ d ∈ m.decls, isIdent X d.name = true)
    (glue : List Name) (hglue : ∀ k ∈ glue, '#' ∉ k)
    (module : Module)
    (hkeys : (Table.keys module.functions).Perm
      (Table.keys (packageTable test_fn_name_mir test_sig_mir mods) ++ glue)) :
    (get_tests_keys module).Perm (testKeys test_fn_name_mir mods) ∧
    get_tests_keys module = RStr.sort (testKeys test_fn_name_mir mods) := by
  have hg : glue.filter get_tests_filter = [] :=
    List.filter_eq_nil_iff.mpr (fun k hk => by simp [filter_no_hash k (hglue k hk)])
  have hf : ((Table.keys module.functions).filter get_tests_filter).Perm (testKeys test_fn_name_mir mods) := by
    have := hkeys.filter get_tests_filter
    rw [List.filter_append, package_filter F test_sig_mir mods hid, hg, List.append_nil] at this
    exact this
  have heq : get_tests_keys module = RStr.sort ((Table.keys module.functions).filter get_tests_filter) := by
    simp [get_tests_keys, RIter.into_iter, RIter.collect, RIter.map, RIter.filter, Id.run] <;> rfl
  rw [heq]
  exact ⟨(sort_perm _).trans hf, sort_eq_of_perm hf⟩

/-- T1, end to end over the GENERATED `get_tests` (filter, sort, `strip_prefix`, the
    `get_function::<fn() -> Verdict<(), ()>>` look-up and both `unwrap`s).  For every package
    whose declared names are identifiers and whose function table holds its items under distinct
    keys (a hash map), in whatever order: `get_tests` does not panic and returns one handle per
    test block of every module, at every depth — the handles' keys are the sorted list of the
    blocks' keys, and each handle is the table's entry of its key (so it runs that block).
    The table is the package's items plus any `glue` entries without `#` in their keys. -/
theorem discovery_runs (X : XID) (F : XIDFacts X) (mods : List Mod)
    (hid : ∀ m ∈ mods, ∀ d ∈ m.decls, isIdent X d.name = true)
    (glue : Table) (hglue : ∀ e ∈ glue, '#' ∉ e.1)
    (dbg : Bool) (module : Module)
    (hperm : module.functions.Perm (packageTable test_fn_name_mir test_sig_mir mods ++ glue))
    (hnodup : (Table.keys module.functions).Nodup) :
    ∃ cs, get_tests dbg module = .ok cs ∧
      cs.map (fun c => c.func.key) = RStr.sort (testKeys test_fn_name_mir mods) ∧
      ∀ c ∈ cs, (c.func.key, c.func.info) ∈ packageTable test_fn_name_mir test_sig_mir mods ∧
        c.func.info.sig = testSig := by
  have hkeys : (Table.keys module.functions).Perm
      (Table.keys (packageTable test_fn_name_mir test_sig_mir mods) ++ Table.keys glue) := by
    have := hperm.map (·.1)
    simpa [Table.keys, List.map_append] using this
  have hgk : ∀ k ∈ Table.keys glue, '#' ∉ k := by
    intro k hk
    obtain ⟨e, he, rfl⟩ := List.mem_map.mp hk
    exact hglue e he
  obtain ⟨hp, hs⟩ := discovery_exact X F mods hid (Table.keys glue) hgk module hkeys
  have hget : get_tests dbg module = List.mapM (get_tests_case dbg module) (get_tests_keys module) := by
    simp [get_tests, get_tests_keys, RIter.into_iter, RIter.collect, RIter.map, RIter.filter, Id.run] <;> rfl
  have hstep : ∀ k ∈ get_tests_keys module, ∃ c, get_tests_case dbg module k = .ok c ∧
      (c.func.key = k ∧ (c.func.key, c.func.info) ∈ packageTable test_fn_name_mir test_sig_mir mods ∧
        c.func.info.sig = testSig) := by
    intro k hk
    obtain ⟨v, rest, hmem, rfl⟩ := testKeys_mem_table test_fn_name_mir test_sig_mir mods k (hp.subset hk)
    obtain ⟨c, hc, hf⟩ := get_tests_case_spec dbg module rest ⟨test_sig_mir, v⟩ hnodup
      (hperm.symm.subset (List.mem_append_left _ hmem)) rfl
    exact ⟨c, hc, by rw [hf]; exact ⟨rfl, hmem, rfl⟩⟩
  obtain ⟨cs, hcs, hall⟩ := mapM_ok_forall₂ _ _ (get_tests_keys module) hstep
  have hk := All2.keys hall
  exact ⟨cs, hget.trans hcs, hk.1.trans hs, hk.2⟩

/-- The first sentence of the property, end to end over the GENERATED `run_tests`: on such a
    package, `run_tests` runs every test block of every module exactly once, in the sorted order
    of the blocks' keys (a function of the names only), and returns `Ok` iff every block's
    declared verdict is accept — whatever compiler-generated `glue` entries (keys without `#`) share
    the table with the package's items: none of them runs. -/
theorem run_package_truthful {ε} (X : XID) (F : XIDFacts X) (mods : List Mod)
    (hid : ∀ m ∈ mods, ∀ d ∈ m.decls, isIdent X d.name = true)
    (glue : Table) (hglue : ∀ e ∈ glue, '#' ∉ e.1)
    (dbg : Bool) (module : Module)
    (hperm : module.functions.Perm (packageTable test_fn_name_mir test_sig_mir mods ++ glue))
    (hnodup : (Table.keys module.functions).Nodup)
    (hsmall : (testKeys test_fn_name_mir mods).length < 2^31) (log : List Event) :
    ∃ r, run_tests (ε := ε) dbg module () log
        = (.ok r, log ++ (RStr.sort (testKeys test_fn_name_mir mods)).map Event.ranTest) ∧
      (r = .Ok () ↔ ∀ m ∈ mods, ∀ n v, Decl.test n v ∈ m.decls → v = .Accept ()) := by
  obtain ⟨cs, hget, hkeys, hinfo⟩ := discovery_runs X F mods hid glue hglue dbg module hperm hnodup
  have hlen : cs.length < 2^31 := by
    have := congrArg List.length hkeys
    rw [List.length_map, (sort_perm _).length_eq] at this
    omega
  obtain ⟨r, hr, hiff⟩ := run_tests_truthful (ε := ε) dbg module cs hget hlen log
  have hev : cs.map evOf = (RStr.sort (testKeys test_fn_name_mir mods)).map Event.ranTest := by
    rw [← hkeys, List.map_map]; rfl
  refine ⟨r, by rw [hr, hev], hiff.trans ?_⟩
  have hnd : (Table.keys (packageTable test_fn_name_mir test_sig_mir mods)).Nodup := by
    have hp : (Table.keys module.functions).Perm
        (Table.keys (packageTable test_fn_name_mir test_sig_mir mods) ++ Table.keys glue) := by
      have := hperm.map (·.1)
      simpa [Table.keys, List.map_append] using this
    exact (List.nodup_append.mp (hp.nodup_iff.mp hnodup)).1
  constructor
  · intro h m hm n v hd
    have hk := decl_mem_testKeys test_fn_name_mir mods m hm n v hd
    have hk' : fullName m.path (test_fn_name_mir n) ∈ cs.map (fun c => c.func.key) := by
      rw [hkeys]; exact (sort_perm _).symm.subset hk
    obtain ⟨c, hc, hck⟩ := List.mem_map.mp hk'
    have h1 := (hinfo c hc).1
    have h2 : (fullName m.path (test_fn_name_mir n), (⟨test_sig_mir, v⟩ : FnInfo)) ∈
        packageTable test_fn_name_mir test_sig_mir mods := by
      simp only [packageTable, List.mem_flatMap, moduleTable, List.mem_map]
      exact ⟨m, hm, .test n v, hd, rfl⟩
    rw [hck] at h1
    have := mem_nodup_unique _ _ _ _ hnd h1 h2
    have hv := h c hc
    rw [this] at hv
    exact hv
  · intro h c hc
    have hk : c.func.key ∈ testKeys test_fn_name_mir mods := by
      have : c.func.key ∈ cs.map (fun c => c.func.key) := List.mem_map.mpr ⟨c, hc, rfl⟩
      rw [hkeys] at this
      exact (sort_perm _).subset this
    simp only [testKeys, List.mem_flatMap, List.mem_map, List.mem_filter] at hk
    obtain ⟨m, hm, d, ⟨hd, ht⟩, hkey⟩ := hk
    cases d with
    | fn n i => simp [Decl.isTest] at ht
    | test n v =>
      have h2 : (c.func.key, (⟨test_sig_mir, v⟩ : FnInfo)) ∈ packageTable test_fn_name_mir test_sig_mir mods := by
        rw [← hkey]
        simp only [packageTable, List.mem_flatMap, moduleTable, List.mem_map]
        exact ⟨m, hm, .test n v, hd, rfl⟩
      have := mem_nodup_unique _ _ _ _ hnd (hinfo c hc).1 h2
      rw [this]
      exact h m hm n v hd

/-- non-vacuity: a package with blocks at depths 0, 1 and 3 (none at depth 2), a function that
    shares a block's name, the table in reverse order: all three blocks are found and run in
    sorted key order, and the run fails because the deepest block rejects. -/
example :
    let a : Name := ['a']
    let mods : List Mod := [⟨[], [.fn a ⟨entrySig, .Accept ()⟩, .test a (.Accept ())]⟩,
                            ⟨[['m']], [.test a (.Accept ())]⟩,
                            ⟨[['m'], ['u'], ['s']], [.test a (.Reject ())]⟩]
    let module : Module := ⟨(packageTable test_fn_name_mir test_sig_mir mods).reverse⟩
    (Table.keys module.functions).Nodup ∧
    run_tests (ε := Unit) true module () []
      = (.ok (.Err ()), [.ranTest (pkgDot ++ ['m', '.', 't', 'e', 's', 't', '#', 'a']),
                          .ranTest (pkgDot ++ ['m', '.', 'u', '.', 's', '.', 't', 'e', 's', 't', '#', 'a']),
                          .ranTest (pkgDot ++ ['t', 'e', 's', 't', '#', 'a'])]) := by
  decide

/-- non-vacuity with compiler-generated functions in the table (`glue`: keys as the code generator
    names them — `::generated::eq_14`, `::generated::drop_14`, no `pkg.` in front, no `#`): the
    hypotheses of `discovery_runs` / `run_package_truthful` hold, the same two blocks run in the
    same order, and the glue neither runs nor makes `get_tests` panic on its `strip_prefix`. -/
example :
    let a : Name := ['a']
    let eq14 : Name := [':', ':', 'g', 'e', 'n', 'e', 'r', 'a', 't', 'e', 'd', ':', ':', 'e', 'q', '_', '1', '4']
    let drop14 : Name := [':', ':', 'g', 'e', 'n', 'e', 'r', 'a', 't', 'e', 'd', ':', ':', 'd', 'r', 'o', 'p', '_', '1', '4']
    let glue : Table := [(eq14, ⟨⟨[.other 1, .other 1], .other 0⟩, .Accept ()⟩), (drop14, ⟨⟨[.other 1], .unit⟩, .Accept ()⟩)]
    let mods : List Mod := [⟨[], [.test a (.Accept ())]⟩, ⟨[['m']], [.test a (.Reject ())]⟩]
    let module : Module := ⟨glue ++ (packageTable test_fn_name_mir test_sig_mir mods).reverse⟩
    (∀ e ∈ glue, '#' ∉ e.1) ∧ (Table.keys module.functions).Nodup ∧
    run_tests (ε := Unit) true module () []
      = (.ok (.Err ()), [.ranTest (pkgDot ++ ['m', '.', 't', 'e', 's', 't', '#', 'a']),
                          .ranTest (pkgDot ++ ['t', 'e', 's', 't', '#', 'a'])]) := by
  decide

/-- The host's own runner (`Package::get_tests()` and `TestCase::run`, the cases one by one), over
    the GENERATED `get_tests` and `TestCase::run`: on a package (with any glue) there is one handle
    per test block, in sorted key order, and EVERY handle is its block — run on its own, whatever
    ran before (`log`), it runs the body stored under its key exactly once and returns `Ok` iff the
    declared verdict of THAT block is accept. -/
theorem handle_runs_its_block {ε} (X : XID) (F : XIDFacts X) (mods : List Mod)
    (hid : ∀ m ∈ mods, ∀ d ∈ m.decls, isIdent X d.name = true)
    (glue : Table) (hglue : ∀ e ∈ glue, '#' ∉ e.1)
    (dbg : Bool) (module : Module)
    (hperm : module.functions.Perm (packageTable test_fn_name_mir test_sig_mir mods ++ glue))
    (hnodup : (Table.keys module.functions).Nodup) :
    ∃ cs, get_tests dbg module = .ok cs ∧
      cs.map (fun c => c.func.key) = RStr.sort (testKeys test_fn_name_mir mods) ∧
      ∀ c ∈ cs, ∃ m ∈ mods, ∃ n v, Decl.test n v ∈ m.decls ∧
        c.func.key = fullName m.path (test_fn_name_mir n) ∧
        ∀ log, TestCase_run (ε := ε) dbg c () log
          = (.ok (if v = .Accept () then .Ok () else .Err ()), log ++ [.ranTest c.func.key]) := by
  obtain ⟨cs, hget, hkeys, hinfo⟩ := discovery_runs X F mods hid glue hglue dbg module hperm hnodup
  refine ⟨cs, hget, hkeys, ?_⟩
  intro c hc
  have hnd : (Table.keys (packageTable test_fn_name_mir test_sig_mir mods)).Nodup := by
    have hp : (Table.keys module.functions).Perm
        (Table.keys (packageTable test_fn_name_mir test_sig_mir mods) ++ Table.keys glue) := by
      have := hperm.map (·.1)
      simpa [Table.keys, List.map_append] using this
    exact (List.nodup_append.mp (hp.nodup_iff.mp hnodup)).1
  have hk : c.func.key ∈ testKeys test_fn_name_mir mods := by
    have : c.func.key ∈ cs.map (fun c => c.func.key) := List.mem_map.mpr ⟨c, hc, rfl⟩
    rw [hkeys] at this
    exact (sort_perm _).subset this
  simp only [testKeys, List.mem_flatMap, List.mem_map, List.mem_filter] at hk
  obtain ⟨m, hm, d, ⟨hd, ht⟩, hkey⟩ := hk
  cases d with
  | fn n i => simp [Decl.isTest] at ht
  | test n v =>
    have h2 : (c.func.key, (⟨test_sig_mir, v⟩ : FnInfo)) ∈ packageTable test_fn_name_mir test_sig_mir mods := by
      rw [← hkey]
      simp only [packageTable, List.mem_flatMap, moduleTable, List.mem_map]
      exact ⟨m, hm, .test n v, hd, rfl⟩
    have hi := mem_nodup_unique _ _ _ _ hnd (hinfo c hc).1 h2
    refine ⟨m, hm, n, v, hd, hkey.symm, ?_⟩
    intro log
    rw [testcase_run_spec]
    simp only [accepts, evOf, hi]
    by_cases hv : v = .Accept () <;> simp [hv]

/-- non-vacuity: the handles of a two-module package with glue, each run on its own after an
    unrelated event: the first (module `m`, rejects) returns `Err`, the second returns `Ok`. -/
example :
    let a : Name := ['a']
    let eq14 : Name := [':', ':', 'g', 'e', 'n', 'e', 'r', 'a', 't', 'e', 'd', ':', ':', 'e', 'q', '_', '1', '4']
    let glue : Table := [(eq14, ⟨⟨[.other 1, .other 1], .other 0⟩, .Accept ()⟩)]
    let mods : List Mod := [⟨[], [.test a (.Accept ())]⟩, ⟨[['m']], [.test a (.Reject ())]⟩]
    let module : Module := ⟨glue ++ (packageTable test_fn_name_mir test_sig_mir mods).reverse⟩
    (match get_tests true module with
     | .ok cs => cs.map (fun c => (TestCase_run (ε := Unit) true c () [.stage 9]))
     | .panic => [])
      = [(.ok (.Err ()), [.stage 9, .ranTest (pkgDot ++ ['m', '.', 't', 'e', 's', 't', '#', 'a'])]),
         (.ok (.Ok ()), [.stage 9, .ranTest (pkgDot ++ ['t', 'e', 's', 't', '#', 'a'])])] := by
  decide

/-- The `else` branches of the GENERATED `cli_inner` (covered by no run: the `roto` binary's runtime
    has no context): on a runtime that carries a context (`try_without_ctx` is `None`) `test` and
    `run` refuse — the process fails and NOTHING happens before that: the file is not read, no
    stage runs, no block, no entry (the log stays empty). -/
theorem cli_ctx_runtime_refuses (dbg : Bool) (W : World) (hctx : W.hasCtx = true) (file : TR.Path)
    (function : Name) :
    (∃ code, cli dbg W ⟨.Test file⟩ W.runtime [] = (.ok code, []) ∧ code.failed = true) ∧
    (∃ code, cli dbg W ⟨.Run file function⟩ W.runtime [] = (.ok code, []) ∧ code.failed = true) := by
  obtain ⟨hc, r, p, t, tb⟩ := W
  simp only at hctx
  subst hctx
  constructor <;> exact ⟨_, rfl, rfl⟩

/-- non-vacuity: such a world exists, and on the same script a runtime WITHOUT context runs the block -/
example :
    let W : World := ⟨true, true, true, true, [(pkgDot ++ ['t', 'e', 's', 't', '#', 'a'], ⟨testSig, .Accept ()⟩)]⟩
    (cli true W ⟨.Test ⟨⟩⟩ W.runtime []).2 = [] ∧
    ((cli true { W with hasCtx := false } ⟨.Test ⟨⟩⟩ { W with hasCtx := false }.runtime []).2.filter isRanTest).length = 1 := by
  decide

/-! ## T4 on packages — the CLI end to end over discovery and look-up -/

/-- T4 (`test`), end to end over the GENERATED `cli`, `run_tests`, `get_tests` and look-up key: the
    script is a package (declared names are identifiers, the table holds its items under distinct
    keys, plus any compiler-generated glue).  `roto test` exits with failure exactly when the
    script does not compile or SOME test block of SOME module rejects; when it compiles, every
    block of every module runs exactly once, in the sorted order of the keys; no entry is called. -/
theorem cli_test_package (X : XID) (F : XIDFacts X) (mods : List Mod)
    (hid : ∀ m ∈ mods, ∀ d ∈ m.decls, isIdent X d.name = true)
    (glue : Table) (hglue : ∀ e ∈ glue, '#' ∉ e.1)
    (dbg : Bool) (W : World) (hctx : W.hasCtx = false) (file : TR.Path)
    (hperm : W.table.Perm (packageTable test_fn_name_mir test_sig_mir mods ++ glue))
    (hnodup : (Table.keys W.table).Nodup)
    (hsmall : (testKeys test_fn_name_mir mods).length < 2^31) :
    ∃ code log, cli dbg W ⟨.Test file⟩ W.runtime [] = (.ok code, log) ∧
      (code.failed = true ↔
        (compileOk W = false ∨ ∃ m ∈ mods, ∃ n v, Decl.test n v ∈ m.decls ∧ v ≠ .Accept ())) ∧
      log.filter isRanTest
        = (if compileOk W then (RStr.sort (testKeys test_fn_name_mir mods)).map Event.ranTest else []) ∧
      log.filter isEntryCall = [] := by
  obtain ⟨cs, hget, hkeys, -⟩ := discovery_runs X F mods hid glue hglue dbg ⟨W.table⟩ hperm hnodup
  have hlen : cs.length < 2^31 := by
    have := congrArg List.length hkeys
    rw [List.length_map, (sort_perm _).length_eq] at this
    omega
  obtain ⟨code, log, hrun, hiff, hran, hentry⟩ := cli_exit_test dbg W hctx file cs hget hlen
  obtain ⟨r, hr, hiff1⟩ := run_tests_truthful (ε := Unit) dbg ⟨W.table⟩ cs hget hlen []
  obtain ⟨r', hr', hiff2⟩ := run_package_truthful (ε := Unit) X F mods hid glue hglue dbg ⟨W.table⟩
    hperm hnodup hsmall []
  have hrr : r = r' := by
    have := hr.symm.trans hr'
    simp only [Prod.mk.injEq, Out.ok.injEq] at this
    exact this.1
  subst hrr
  have hall : (∀ t ∈ cs, t.func.info.verdict = .Accept ()) ↔
      (∀ m ∈ mods, ∀ n v, Decl.test n v ∈ m.decls → v = .Accept ()) := hiff1.symm.trans hiff2
  have hev : cs.map evOf = (RStr.sort (testKeys test_fn_name_mir mods)).map Event.ranTest := by
    rw [← hkeys, List.map_map]; rfl
  refine ⟨code, log, hrun, hiff.trans ?_, by rw [hran, hev], hentry⟩
  refine or_congr Iff.rfl ?_
  rw [exists_not_iff_not_forall cs (fun t => t.func.info.verdict = .Accept ()), hall]
  constructor
  · intro h
    exact Classical.byContradiction fun hc => h (fun m hm n v hd =>
      Classical.byContradiction fun hv => hc ⟨m, hm, n, v, hd, hv⟩)
  · rintro ⟨m, hm, n, v, hd, hv⟩ h
    exact hv (h m hm n v hd)

/-- T4 (`run`), end to end on a package: the entry `a.b.f` of `roto run` is the function `f` declared
    in module `a.b` (whatever the modules are called).  On a script that compiles the process
    fails exactly when that function is not a `fn()`, and otherwise calls THAT function — its own
    table entry — exactly once; no test block runs. -/
theorem cli_run_package (mods : List Mod) (glue : Table)
    (dbg : Bool) (W : World) (hctx : W.hasCtx = false) (hc : compileOk W = true) (file : TR.Path)
    (hperm : W.table.Perm (packageTable test_fn_name_mir test_sig_mir mods ++ glue))
    (hnodup : (Table.keys W.table).Nodup)
    (m : Mod) (hm : m ∈ mods) (f : Name) (info : FnInfo) (hd : Decl.fn f info ∈ m.decls) :
    ∃ code log, cli dbg W ⟨.Run file (dotJoin (m.path ++ [f]))⟩ W.runtime [] = (.ok code, log) ∧
      (code.failed = true ↔ info.sig ≠ entrySig) ∧
      log.filter isEntryCall = (if info.sig = entrySig then [.calledEntry (fullName m.path f)] else []) ∧
      log.filter isRanTest = [] := by
  obtain ⟨code, log, hrun, hiff, hcall, hran⟩ := cli_exit_run dbg W hctx file (dotJoin (m.path ++ [f]))
  have hmem : (fullName m.path f, info) ∈ W.table := by
    apply hperm.symm.subset
    apply List.mem_append_left
    simp only [packageTable, List.mem_flatMap, moduleTable, List.mem_map]
    exact ⟨m, hm, .fn f info, hd, rfl⟩
  have hfind := find_of_mem_nodup W.table _ info hnodup hmem
  rw [fullName_path] at hfind
  have hfail : code.failed = true ↔ info.sig ≠ entrySig := by
    rw [hiff, hc]
    simp only [Bool.true_eq_false, false_or, entryMissing, entryMistyped, hfind]
    constructor
    · rintro (h | ⟨i, hi, hs⟩)
      · cases h
      · cases hi; exact hs
    · intro hs; exact Or.inr ⟨info, rfl, hs⟩
  refine ⟨code, log, hrun, hfail, ?_, hran⟩
  rw [hcall, fullName_path]
  by_cases hs : info.sig = entrySig
  · have : code.failed = false := by
      cases hcf : code.failed with
      | false => rfl
      | true => exact absurd hs (hfail.mp hcf)
    simp [hs, this]
  · have : code.failed = true := hfail.mpr hs
    simp [hs, this]

/-- non-vacuity of both: a two-module package with glue; `roto test` fails because the block of
    module `m` rejects, both blocks ran in key order; `roto run … m.go` calls `pkg.m.go` once. -/
example :
    let a : Name := ['a']
    let go : Name := ['g', 'o']
    let eq14 : Name := [':', ':', 'g', 'e', 'n', 'e', 'r', 'a', 't', 'e', 'd', ':', ':', 'e', 'q', '_', '1', '4']
    let glue : Table := [(eq14, ⟨⟨[.other 1, .other 1], .other 0⟩, .Accept ()⟩)]
    let mods : List Mod := [⟨[], [.test a (.Accept ())]⟩, ⟨[['m']], [.fn go ⟨entrySig, .Accept ()⟩, .test a (.Reject ())]⟩]
    let W : World := ⟨false, true, true, true, glue ++ (packageTable test_fn_name_mir test_sig_mir mods).reverse⟩
    let failed (o : Out CliErr ExitCode) : Option Bool := match o with | .ok c => some c.failed | _ => none
    (Table.keys W.table).Nodup ∧ compileOk W = true ∧
    failed (cli true W ⟨.Test ⟨⟩⟩ W.runtime []).1 = some true ∧
    (cli true W ⟨.Test ⟨⟩⟩ W.runtime []).2.filter isRanTest
      = [.ranTest (pkgDot ++ ['m', '.', 't', 'e', 's', 't', '#', 'a']), .ranTest (pkgDot ++ ['t', 'e', 's', 't', '#', 'a'])] ∧
    failed (cli true W ⟨.Run ⟨⟩ (dotJoin [['m'], go])⟩ W.runtime []).1 = some false ∧
    (cli true W ⟨.Run ⟨⟩ (dotJoin [['m'], go])⟩ W.runtime []).2.filter isEntryCall
      = [.calledEntry (fullName [['m']] go)] := by
  decide

/-- the type checker and the MIR lowerer agree on the name and signature of a test, and the
    runner asks for exactly that signature -/
theorem test_item_agree (n : Name) :
    test_fn_name_typechecker n = test_fn_name_mir n ∧ test_sig_typechecker = test_sig_mir ∧ test_sig_mir = testSig := by
  exact ⟨rfl, rfl, rfl⟩

/-- non-vacuity: an ASCII instance of the identifier predicates satisfies the facts, and a
    two-module package with colliding names is discovered in sorted order from a shuffled table. -/
def asciiXID : XID :=
  ⟨fun c => c.isAlpha, fun c => c.isAlphanum || c == '_'⟩

theorem asciiXID_facts : XIDFacts asciiXID where
  start_sub := by
    intro c h
    simp only [asciiXID, Char.isAlphanum, Bool.or_eq_true] at h ⊢
    exact Or.inl (Or.inl h)
  hash := by decide
  dot := by decide

example :
    let a : Name := ['a']
    let b : Name := ['b']
    let mods : List Mod := [⟨[], [.fn a ⟨entrySig, .Accept ()⟩, .test b (.Reject ()), .test a (.Accept ())]⟩,
                            ⟨[['m']], [.test a (.Accept ())]⟩]
    (∀ m ∈ mods, ∀ d ∈ m.decls, isIdent asciiXID d.name = true) ∧
    get_tests_keys ⟨(packageTable test_fn_name_mir test_sig_mir mods).reverse⟩
      = [pkgDot ++ ['m', '.', 't', 'e', 's', 't', '#', 'a'], pkgDot ++ ['t', 'e', 's', 't', '#', 'a'],
         pkgDot ++ ['t', 'e', 's', 't', '#', 'b']] := by
  decide

/-! ## T3 — no shadowing -/

/-- the key of a function and the key of a test never coincide (so `fn x` and `test x` coexist) -/
theorem no_shadow_keys_differ (X : XID) (F : XIDFacts X) (f t : Name) (hf : isIdent X f = true) :
    f ≠ test_fn_name_typechecker t ∧ f ≠ test_fn_name_mir t := by
  have : '#' ∉ f := ident_no_hash F f hf
  constructor <;> intro h <;> apply this <;> rw [h] <;> simp [test_fn_name_typechecker, test_fn_name_mir]

/-- `declare` succeeds iff no key is declared twice -/
theorem declare_ok_iff (tc : Name → Name) : ∀ (ds : List Decl) (scope : List Name), scope.Nodup →
    ((declare tc ds scope).isSome ↔ (scope ++ ds.map (Decl.key tc)).Nodup)
  | [], scope, hs => by simp [declare, hs]
  | d :: ds, scope, hs => by
    by_cases hm : d.key tc ∈ scope
    · simp only [declare, hm, if_true, Option.isSome_none, Bool.false_eq_true, false_iff, List.map_cons]
      intro hn
      exact (List.nodup_append.mp hn).2.2 _ hm _ (by simp) rfl
    · simp only [declare, hm, if_false, List.map_cons]
      have hs' : (scope ++ [d.key tc]).Nodup := by
        refine List.nodup_append.mpr ⟨hs, by simp, ?_⟩
        intro a ha b hb e
        simp only [List.mem_cons, List.mem_nil_iff, or_false] at hb
        exact hm (hb ▸ e ▸ ha)
      rw [declare_ok_iff tc ds (scope ++ [d.key tc]) hs']
      simp [List.append_assoc]

/-- T3a.  A module's declarations are accepted iff all keys are distinct: with identifier
    names that is "no two functions of one name and no two tests of one name" — a function
    and a test of one name coexist, two tests of one name are the error. -/
theorem no_shadow_declare (tc : Name → Name) (ds : List Decl) :
    (declare tc ds []).isSome ↔ (ds.map (Decl.key tc)).Nodup := by
  have := declare_ok_iff tc ds [] List.nodup_nil
  simpa using this

example :
    let x : Name := ['x']
    (declare test_fn_name_typechecker [.fn x ⟨entrySig, .Accept ()⟩, .test x (.Accept ())] []).isSome = true ∧
    (declare test_fn_name_typechecker [.test x (.Accept ()), .fn x ⟨entrySig, .Accept ()⟩, .test x (.Reject ())] []) = none := by
  decide

/-- T3b.  No path of identifiers (what a script call or a host `get_function` can spell
    with identifiers) is the key of a test: the test blocks are unreachable by name. -/
theorem no_shadow_unreachable (X : XID) (F : XIDFacts X) (segs : List Name) (last : Name)
    (hlast : isIdent X last = true) (path : List Name) (t : Name) (ht : isIdent X t = true) :
    fullName segs last ≠ fullName path (test_fn_name_mir t) := by
  intro h
  have h1 := testkey_filter F segs (.fn last ⟨entrySig, .Accept ()⟩) hlast
  have h2 := testkey_filter F path (.test t (.Accept ())) ht
  simp only [Decl.key, Decl.isTest] at h1 h2
  rw [h] at h1
  rw [h1] at h2
  cases h2

/-- T3c.  With `fn x` and `test x` in the root module, `get_function "x"` is the function. -/
theorem no_shadow_get_function (X : XID) (F : XIDFacts X) (x : Name) (hx : isIdent X x = true)
    (info : FnInfo) (v : Verdict Unit Unit) (before after : List Decl)
    (hnodup : ((before ++ .fn x info :: after).map (Decl.key test_fn_name_mir)).Nodup) :
    get_function (moduleTable test_fn_name_mir test_sig_mir ⟨[], before ++ .fn x info :: after⟩) info.sig x
      = .Ok ⟨pkgDot ++ x, info⟩ := by
  have hkey : ∀ (ds : List Decl), x ∉ ds.map (Decl.key test_fn_name_mir) →
      Table.find (ds.map (fun d => (fullName [] (d.key test_fn_name_mir), d.info test_sig_mir)) ++
        (pkgDot ++ x, info) :: after.map (fun d => (fullName [] (d.key test_fn_name_mir), d.info test_sig_mir))) (pkgDot ++ x) = some info := by
    intro ds
    induction ds with
    | nil => intro _; simp [Table.find]
    | cons d ds ih =>
      intro hn
      simp only [List.map_cons, List.mem_cons, not_or] at hn
      have hne : fullName [] (d.key test_fn_name_mir) ≠ pkgDot ++ x := by
        intro e
        apply hn.1
        have : fullName [] (d.key test_fn_name_mir) = pkgDot ++ d.key test_fn_name_mir := by
          simp [fullName, dotJoin, pkgName, pkgDot]
        rw [this] at e
        exact (List.append_cancel_left e).symm
      have := ih hn.2
      simp only [Table.find, List.map_cons, List.cons_append, List.find?_cons, hne, decide_false] at this ⊢
      exact this
  have hx' : x ∉ before.map (Decl.key test_fn_name_mir) := by
    simp only [List.map_append, List.map_cons, Decl.key] at hnodup
    have := (List.nodup_append.mp hnodup).2.2
    intro hm
    exact this x hm x (by simp) rfl
  have hfn : fullName [] x = pkgDot ++ x := by simp [fullName, dotJoin, pkgName, pkgDot]
  have e : (fullName [] (Decl.key test_fn_name_mir (.fn x info)), Decl.info test_sig_mir (.fn x info))
      = (pkgDot ++ x, info) := by simp [Decl.key, Decl.info, hfn]
  unfold get_function moduleTable
  simp only [List.map_append, List.map_cons, e]
  rw [hkey before hx']
  simp
