/-
  C07 — ill-typed scripts never compile; the rules that are special-cased for a
  built-in type (`?` where the enclosing item does not return the built-in
  `Option`; `+` taken for list concatenation) and the `to_string` obligation of
  an f-string part (wrong argument count for the implied call).

  Own module, so that a change of these tests breaks exactly these obligations.
  The decisions are `Model/TcBuiltin.lean`, parameterised by facts regenerated
  from src/typechecker/{expr,mod}.rs on every run (target c07facts).

  NOT proved here (tested on every run): that a type name the script declares
  resolves to a non-GLOBAL name and a built-in one to a GLOBAL name (phase
  `shadow`: every representative of phase `infer` that declares a type, with the
  type spelled as each built-in name the script does not mention), that
  `get_method` finds the registered method, and that unification of two ground
  registered types is equality (phase `tostr`: a runtime with registered types
  whose `to_string` has 0, 1, 2, 3 parameters / another return type / is missing).
-/
import RotoV.Lemmas.TcBuiltin

namespace RotoV.C07Builtin
open RotoV.TcBuiltin RotoV.Gen

/-- **`?` only where the enclosing item returns the built-in `Option`.** The
    `QuestionMark` arm as written accepts only if the item has a return type, the
    type is a type name, and the name is the one the runtime declares in the
    GLOBAL scope under `Option` — a type the script itself declares under that
    spelling does not qualify. -/
theorem try_only_under_builtin_option (r : RetTy) (h : tryAllowed r = true) :
    r = .name builtinOption := by
  cases r with
  | noReturnType => exact absurd h (by decide)
  | notAName => exact absurd h (by decide)
  | name n =>
    obtain ⟨g, i⟩ := n
    simp only [tryAllowed, tryAllowedWith, C07Facts.tryTestsIdent, C07Facts.tryTestsGlobalScope,
      Bool.not_true, Bool.false_or, Bool.and_eq_true, beq_iff_eq] at h
    simp only [builtinOption, h.1, h.2]

example : tryAllowed (.name builtinOption) = true := by decide

/-- (what the identifier alone would let through) comparing only the spelling
    accepts `?` in a function returning the script's own `enum Option { .. }` -/
theorem try_by_spelling_accepts_own_option :
    tryAllowedWith true true true false (.name ⟨false, idOption⟩) = true := by decide

/-- **`+` concatenates only the built-in `List`.** The list branch of `binop` is
    taken only for a left operand whose type name is the GLOBAL `List`; for any
    other type `+` falls through to the numeric rule (`op_rules_sound`). -/
theorem list_concat_only_builtin_list (l : Option RName) (h : concatTaken l = true) :
    l = some builtinList := by
  cases l with
  | none => exact absurd h (by decide)
  | some n =>
    obtain ⟨g, i⟩ := n
    simp only [concatTaken, concatTakenWith, C07Facts.addList, C07Facts.concatTestsIdent,
      C07Facts.concatTestsGlobalScope, Bool.not_true, Bool.false_or, Bool.and_eq_true, Bool.true_and,
      beq_iff_eq] at h
    simp only [builtinList, h.1, h.2]

example : concatTaken (some builtinList) = true := by decide

theorem concat_by_spelling_accepts_own_list :
    concatTakenWith true false (some ⟨false, idList⟩) = true := by decide

/-- **An f-string part needs `to_string(self) -> String` exactly.** If
    `resolve_obligations` as written lets the obligation of a part of (ground)
    type `recv` through, the type has a `to_string` method, it takes exactly one
    parameter, of type `recv`, and returns `String` — so the implied call
    `part.to_string()` has the right number and types of arguments. -/
theorem fstring_part_needs_unary_to_string {α : Type} [DecidableEq α] (method : Option (Sig α))
    (recv str : α) (h : fstringPartAccepts method recv str = true) :
    method = some ⟨[recv], str⟩ := by
  cases method with
  | none => exact absurd h (by simp [fstringPartAccepts, C07Facts.oblMissingMethodIsError])
  | some s =>
    obtain ⟨ps, r⟩ := s
    simp only [fstringPartAccepts, C07Facts.fstringAsksUnaryToString, if_true, sigFits, sigFitsWith,
      C07Facts.oblChecksArity, C07Facts.oblUnifiesParams, C07Facts.oblUnifiesReturn,
      C07Facts.oblRejectsIncorrect, Bool.not_true, Bool.false_or, Bool.and_eq_true, beq_iff_eq,
      List.length_singleton] at h
    obtain ⟨⟨hl, hz⟩, hr⟩ := h
    match ps, hl, hz with
    | [p], _, hz =>
      simp only [List.zip_cons_cons, List.zip_nil_right, List.all_cons, List.all_nil, Bool.and_true,
        beq_iff_eq] at hz
      simp only [hz, hr]

example : fstringPartAccepts (some ⟨[0], 1⟩) 0 1 = true := by decide

/-- **Every deferred method obligation is compared exactly.** Whatever signature an
    obligation requires (today only f-string parts create one), `resolve_obligations` as
    written lets a found method through only if its signature EQUALS the required one:
    same number of parameters, same parameter types, same return type (ground types). -/
theorem obligation_signature_exact {α : Type} [DecidableEq α] (found required : Sig α)
    (h : sigFits found required = true) : found = required :=
  sigFitsWith_all_exact found required h

example : sigFits (⟨[0, 2], 1⟩ : Sig Nat) ⟨[0, 2], 1⟩ = true := by decide

/-- (what the pairwise comparison alone would let through) without the test on
    the number of parameters a method `to_string(self, radix: u32) -> String`
    satisfies the obligation: `zip` stops at the shorter list. -/
theorem zip_without_arity_accepts_binary_to_string :
    sigFitsWith false true true true (⟨[0, 2], 1⟩ : Sig Nat) ⟨[0], 1⟩ = true := by decide

end RotoV.C07Builtin
