/-
  C09 — source text means what the documented grammar says.

  Statements are over the definitions *generated* from src/parser/precedence.rs
  (`Gen.Precedence`), the hand-written models of `binop_expr` (Model/Pratt),
  of the literal decoders (Model/Literal) and of the f-string scanner
  (Model/FString); the models are tied to the code by the correspondence run
  of harness/src/bin/c09.rs.
-/
import RotoV.Generated.Precedence
import RotoV.Model.FString
import RotoV.Lemmas.Pratt

namespace RotoV.C09
open RotoV RotoV.Pratt RotoV.Literal RotoV.FString RotoV.Gen.Precedence

/-- T1. The generated 13×13 relation is the documented one: a strict order on
    the four levels, `Left` within the arithmetic levels and within `&&` / `||`,
    `Not` for comparison–comparison and for mixed `&&`/`||` (`docRel`); it never
    panics. -/
theorem prec_table (dbg : Bool) (a b : BinOp) :
    relative_associativity dbg a b = .ok (docRel a b) := by
  cases dbg <;> cases a <;> cases b <;> rfl

example : relative_associativity false .Add .Mul = .ok .Right ∧
    relative_associativity false .Lt .Eq = .ok .Not ∧
    relative_associativity false .And .Or = .ok .Not ∧
    relative_associativity false .Or .Or = .ok .Left := by decide

/-- the generated relation *is* the parameter the lemmas are proved for -/
theorem rel_eq (dbg : Bool) : relative_associativity dbg = Pratt.R := by
  funext a b; exact prec_table dbg a b

/-- T2. For ALL operand/operator sequences `x0 op1 x1 … opn xn` of any length
    (operands with arbitrary prefix chains of `!` / `-`), the model of
    `binop_expr` — run with the *generated* `relative_associativity`, on the
    rendered token list, with the fuel `parseExpr` supplies — returns exactly
    the tree of the reference grammar (four levels, left associative, prefix
    operators binding tighter than every binary operator) when no incompatible
    pair of operators meets at one level, and the "cannot be chained" error
    exactly otherwise (the two cases are exhaustive: `reference` is an `Option`);
    it never runs out of fuel, panics or reports another error. -/
theorem pratt_correct (dbg : Bool) (x0 : Operand) (rest : Tail) :
    (∀ t, reference x0 rest = some t →
        parseExpr (relative_associativity dbg) (render x0 rest) = .ok t []) ∧
    (reference x0 rest = none →
        ∃ o q, parseExpr (relative_associativity dbg) (render x0 rest) = .chained o q) := by
  rw [rel_eq]; exact parseExpr_R x0 rest

/-- `reference` rejects exactly the sequences in which an operator meets — with
    only tighter operators in between — an operator of its own level it cannot
    be chained with (comparison–comparison, `&&` with `||`). -/
theorem reference_rejects_iff (x0 : Operand) (rest : Tail) :
    reference x0 rest = none ↔ clashFree rest = false := by
  unfold reference; cases clashFree rest <;> simp

/-- non-vacuity: `-a0 + a1 * !a2 < a3` groups as `((-a0) + (a1 * (!a2))) < a3`;
    `a0 < a1 + a2 < a3` and `a0 && a1 || a2` are rejected, by the model run on
    the generated table. -/
example :
    parseExpr (relative_associativity false)
      (render ⟨[.neg], 0⟩ [(.Add, ⟨[], 1⟩), (.Mul, ⟨[.not], 2⟩), (.Lt, ⟨[], 3⟩)]) =
      .ok (.bin .Lt (.bin .Add (.neg (.leaf 0)) (.bin .Mul (.leaf 1) (.not (.leaf 2)))) (.leaf 3)) [] ∧
    parseExpr (relative_associativity false)
      (render ⟨[], 0⟩ [(.Lt, ⟨[], 1⟩), (.Add, ⟨[], 2⟩), (.Lt, ⟨[], 3⟩)]) = .chained .Lt .Lt ∧
    parseExpr (relative_associativity false)
      (render ⟨[], 0⟩ [(.And, ⟨[], 1⟩), (.Or, ⟨[], 2⟩)]) = .chained .Or .And ∧
    reference ⟨[], 0⟩ [(.Sub, ⟨[], 1⟩), (.Sub, ⟨[], 2⟩)] =
      some (.bin .Sub (.bin .Sub (.leaf 0) (.leaf 1)) (.leaf 2)) := by decide

end RotoV.C09
