/-
  C09 — source text means what the documented grammar says.

  Statements are over the definitions *generated* from src/parser/precedence.rs
  (`Gen.Precedence`), the hand-written models of `binop_expr` (Model/Pratt),
  of the literal decoders (Model/Literal) and of the f-string scanner
  (Model/FString); the models are tied to the code by the correspondence run
  of harness/src/bin/c09.rs.
-/
import RotoV.Generated.Precedence
import RotoV.Model.FString

namespace RotoV.C09
open RotoV RotoV.Pratt RotoV.Literal RotoV.FString RotoV.Gen.Precedence

/-- T1. The generated 13×13 relation is the documented one: a strict order on
    the four levels, `Left` within the arithmetic levels and within `&&` / `||`,
    `Not` for comparison–comparison and for mixed `&&`/`||` (`docRel`); it never
    panics. -/
theorem prec_table (dbg : Bool) (a b : BinOp) :
    relative_associativity dbg a b = .ok (docRel a b) := by
  cases dbg <;> cases a <;> cases b <;> rfl

example : relative_associativity false .Add .Mul = .ok .Right ∧
    relative_associativity false .Lt .Eq = .ok .Not ∧
    relative_associativity false .And .Or = .ok .Not ∧
    relative_associativity false .Or .Or = .ok .Left := by decide

end RotoV.C09
