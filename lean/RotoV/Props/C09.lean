/-
  C09 — source text means what the documented grammar says.

  Statements are over the definitions *generated* from src/parser/precedence.rs
  (`Gen.Precedence`), the hand-written models of `binop_expr` (Model/Pratt),
  of the literal decoders (Model/Literal) and of the f-string scanner
  (Model/FString); the models are tied to the code by the correspondence run
  of harness/src/bin/c09.rs.
-/
import RotoV.Generated.Precedence
import RotoV.Model.FString
import RotoV.Lemmas.Pratt
import RotoV.Lemmas.Literal
import RotoV.Generated.LookAhead
import RotoV.Lemmas.LookAhead
import RotoV.Generated.C09FStrText
import RotoV.Generated.C09IdentScan
import RotoV.Lemmas.IdentScan

namespace RotoV.C09
open RotoV RotoV.Pratt RotoV.Literal RotoV.FString RotoV.Gen.Precedence

/-- T1. The generated 13×13 relation is the documented one: a strict order on
    the four levels, `Left` within the arithmetic levels and within `&&` / `||`,
    `Not` for comparison–comparison and for mixed `&&`/`||` (`docRel`); it never
    panics. -/
theorem prec_table (dbg : Bool) (a b : BinOp) :
    relative_associativity dbg a b = .ok (docRel a b) := by
  cases dbg <;> cases a <;> cases b <;> rfl

example : relative_associativity false .Add .Mul = .ok .Right ∧
    relative_associativity false .Lt .Eq = .ok .Not ∧
    relative_associativity false .And .Or = .ok .Not ∧
    relative_associativity false .Or .Or = .ok .Left := by decide

/-- the generated relation *is* the parameter the lemmas are proved for -/
theorem rel_eq (dbg : Bool) : relative_associativity dbg = Pratt.R := by
  funext a b; exact prec_table dbg a b

/-- T2. For ALL operand/operator sequences `x0 op1 x1 … opn xn` of any length
    (operands with arbitrary prefix chains of `!` / `-`), the model of
    `binop_expr` — run with the *generated* `relative_associativity`, on the
    rendered token list, with the fuel `parseExpr` supplies — returns exactly
    the tree of the reference grammar (four levels, left associative, prefix
    operators binding tighter than every binary operator) when no incompatible
    pair of operators meets at one level, and the "cannot be chained" error
    exactly otherwise (the two cases are exhaustive: `reference` is an `Option`);
    it never runs out of fuel, panics or reports another error. -/
theorem pratt_correct (dbg : Bool) (x0 : Operand) (rest : Tail) :
    (∀ t, reference x0 rest = some t →
        parseExpr (relative_associativity dbg) (render x0 rest) = .ok t []) ∧
    (reference x0 rest = none →
        ∃ o q, parseExpr (relative_associativity dbg) (render x0 rest) = .chained o q) := by
  rw [rel_eq]; exact parseExpr_R x0 rest

/-- `reference` rejects exactly the sequences in which an operator meets — with
    only tighter operators in between — an operator of its own level it cannot
    be chained with (comparison–comparison, `&&` with `||`). -/
theorem reference_rejects_iff (x0 : Operand) (rest : Tail) :
    reference x0 rest = none ↔ clashFree rest = false := by
  unfold reference; cases clashFree rest <;> simp

/-- non-vacuity: `-a0 + a1 * !a2 < a3` groups as `((-a0) + (a1 * (!a2))) < a3`;
    `-a0.f1(…) * a1?` groups as `(-((a0.f1)(…))) * (a1?)`;
    `a0 < a1 + a2 < a3` and `a0 && a1 || a2` are rejected, by the model run on
    the generated table. -/
example :
    parseExpr (relative_associativity false)
      (render ⟨[.neg], 0, []⟩ [(.Add, ⟨[], 1, []⟩), (.Mul, ⟨[.not], 2, []⟩), (.Lt, ⟨[], 3, []⟩)]) =
      .ok (.bin .Lt (.bin .Add (.neg (.leaf 0)) (.bin .Mul (.leaf 1) (.not (.leaf 2)))) (.leaf 3)) [] ∧
    parseExpr (relative_associativity false)
      (render ⟨[.neg], 0, [.field 1, .call 0]⟩ [(.Mul, ⟨[], 1, [.try_]⟩)]) =
      .ok (.bin .Mul (.neg (.post (.call 0) (.post (.field 1) (.leaf 0)))) (.post .try_ (.leaf 1))) [] ∧
    parseExpr (relative_associativity false)
      (render ⟨[], 0, []⟩ [(.Lt, ⟨[], 1, []⟩), (.Add, ⟨[], 2, []⟩), (.Lt, ⟨[], 3, []⟩)]) = .chained .Lt .Lt ∧
    parseExpr (relative_associativity false)
      (render ⟨[], 0, []⟩ [(.And, ⟨[], 1, []⟩), (.Or, ⟨[], 2, []⟩)]) = .chained .Or .And ∧
    reference ⟨[], 0, []⟩ [(.Sub, ⟨[], 1, []⟩), (.Sub, ⟨[], 2, []⟩)] =
      some (.bin .Sub (.bin .Sub (.leaf 0) (.leaf 1)) (.leaf 2)) := by decide

/-! ### T2b prefix operators against postfix forms and binary operators

The documented grammar (the EBNF comments of src/parser/expr.rs):

```
Negation ::= ('!' | '-')* Access
Access   ::= Atom ('?' | Args | '.' Ident)*      -- the loop of `Parser::access`
```

so a prefix operator applies to the COMPLETE access expression that follows
it — atom plus every method call, field access and `?` — and the result is one
operand of the binary operators: `-2.0f64.pow(2.0)` is `-(2.0f64.pow(2.0))`,
`-x.abs() * y` is `(-(x.abs())) * y`. The atom is any atom (`atom n`): an
identifier, a literal of any spelling, a parenthesised expression. -/

/-- the tree of `a<n>` followed by the postfix forms `ps` -/
abbrev postfixed (n : Nat) (ps : List Post) : Tree := accessTree n ps

/-- T2b-1. A prefix operator binds LOOSER than every postfix form: for EVERY
    prefix chain `pre`, EVERY atom and EVERY chain `ps` of postfix forms (`?`,
    argument lists, `.name`, in any order and number), the model of
    `negation`/`access` (inside `binop_expr`, generated relation) parses
    `pre atom ps` to `pre` applied to the whole `atom ps`. -/
theorem prefix_looser_than_postfix (dbg : Bool) (pre : List UnOp) (n : Nat) (ps : List Post) :
    parseExpr (relative_associativity dbg) (pre.map UnOp.tok ++ (.atom n :: ps.map Tok.post)) =
      .ok (pre.foldr UnOp.apply (postfixed n ps)) [] := by
  have h := (pratt_correct dbg ⟨pre, n, ps⟩ []).1 (Operand.tree ⟨pre, n, ps⟩)
    (by simp [reference, clashFree, refTree_nil])
  simpa [render, renderTail, Operand.toks, Operand.tree] using h

/-- … and the other grouping is a different tree whenever there is a prefix
    operator and a postfix form at all: the statement above is not vacuous -/
theorem prefix_postfix_groupings_differ (u : UnOp) (n : Nat) (p : Post) (ps : List Post) :
    u.apply (postfixed n (p :: ps)) ≠ accessTreeOn (u.apply (.leaf n)) (p :: ps) := by
  intro h
  have h2 := congrArg Tree.isPost h
  rw [accessTreeOn_isPost] at h2
  cases u <;> simp [UnOp.apply, Tree.isPost] at h2

/-- T2b-2. A prefix operator binds TIGHTER than every binary operator: for
    EVERY binary operator `o`, `pre atom ps o y` (with `y` any operand, itself
    with prefix operators and postfix forms) is `(pre (atom ps)) o y` — on the
    left of the operator — and `y o pre atom ps` is `y o (pre (atom ps))` on
    its right (so `a - -b.f()` is `a - (-(b.f()))`). -/
theorem prefix_tighter_than_binary (dbg : Bool) (pre : List UnOp) (n : Nat) (ps : List Post)
    (o : BinOp) (y : Operand) :
    parseExpr (relative_associativity dbg)
        (pre.map UnOp.tok ++ (.atom n :: ps.map Tok.post) ++ (.op o :: y.toks)) =
      .ok (.bin o (pre.foldr UnOp.apply (postfixed n ps)) y.tree) [] ∧
    parseExpr (relative_associativity dbg)
        (y.toks ++ (.op o :: (pre.map UnOp.tok ++ (.atom n :: ps.map Tok.post)))) =
      .ok (.bin o y.tree (pre.foldr UnOp.apply (postfixed n ps))) [] := by
  constructor
  · have h := (pratt_correct dbg ⟨pre, n, ps⟩ [(o, y)]).1 _ (reference_single _ o y)
    simpa [render, renderTail, Operand.toks, Operand.tree] using h
  · have h := (pratt_correct dbg y [(o, ⟨pre, n, ps⟩)]).1 _ (reference_single _ o _)
    simpa [render, renderTail, Operand.toks, Operand.tree] using h

/-- T2b-3 (tie of the hand-written `negation` / `access` to the source). The
    skeleton GENERATED from `Parser::negation` and `Parser::access` is the one
    the model follows: each prefix branch takes its token, calls `negation`
    ITSELF on what follows — and nothing else, under no condition (the
    translator fails on a conditional, loop, early exit or macro inside a prefix
    branch) — and wraps the result in `Not` / `Negate`; without a prefix operator
    `negation` is `access`; `access` parses one `atom` and then applies, in a
    loop, `?` (`QuestionMark`), an argument list (`FunctionCall`) and `.name`
    (`Access`) to the expression built so far. -/
theorem negation_access_skeleton :
    prefixTokens = [("Bang", "Not"), ("Hyphen", "Negate")] ∧
    prefixOperand = ["negation", "negation"] ∧
    negationElse = "access" ∧
    accessOperand = "atom" ∧
    accessForms = [("QuestionMark", "QuestionMark"), ("RoundLeft", "FunctionCall"), ("Period", "Access")] :=
  ⟨rfl, rfl, rfl, rfl, rfl⟩

example : prefixOperand.length = prefixTokens.length ∧ accessForms.length = 3 := ⟨rfl, rfl⟩

/-- non-vacuity, on the seeded witness: `- lit . pow ( … )` is
    `Negate (call (field lit pow) …)`, not `call (field (Negate lit) pow) …`;
    `1.0 + - lit . abs ( )`; `! a . b ?`. -/
example :
    parseExpr (relative_associativity false) [.op .Sub, .atom 0, .post (.field 0), .post (.call 0)] =
      .ok (.neg (.post (.call 0) (.post (.field 0) (.leaf 0)))) [] ∧
    parseExpr (relative_associativity false)
        [.atom 1, .op .Add, .op .Sub, .atom 0, .post (.field 0), .post (.call 0)] =
      .ok (.bin .Add (.leaf 1) (.neg (.post (.call 0) (.post (.field 0) (.leaf 0))))) [] ∧
    parseExpr (relative_associativity false) [.bang, .atom 0, .post (.field 1), .post .try_] =
      .ok (.not (.post .try_ (.post (.field 1) (.leaf 0)))) [] := by decide

/-! ## T3 literals -/

/-- T3a-token. `simple_literal` on an integer token: for EVERY digit sequence,
    EVERY placement of digit-group underscores (any number after any digit) and
    EVERY suffix of the table, the decoded value is the Horner value of the
    digits (when it fits `i64`, as the implementation reads literals), with that
    suffix. (`int_spelling` below puts `Lexer::number` in front.) -/
theorem int_token_value (d : Fin 10 × Nat) (ds : List (Fin 10 × Nat)) (suffix rest : List Char)
    (hs : suffix ∈ Literal.intSuffixes) (hr : horner 0 (d :: ds) < 2 ^ 63) :
    decodeNumTok { isFloat := false, num := spellDigits (d :: ds), suffix := suffix, rest := rest } =
      some (.int (horner 0 (d :: ds)) suffix) := by
  have hnf : (suffix == "f32".toList || suffix == "f64".toList) = false := by
    simp only [Literal.intSuffixes, List.map_cons, List.map_nil, List.mem_cons, List.not_mem_nil, or_false] at hs
    rcases hs with h | h | h | h | h | h | h | h | h <;> subst h <;> decide
  have hc : Literal.intSuffixes.contains suffix = true := by simpa using hs
  have hne : (List.map (fun p : Fin 10 × Nat => digitChar p.1.val) (d :: ds)).isEmpty = false := by simp
  simp only [decodeNumTok, Bool.false_eq_true, if_false, hnf, strip_spell, parseI64, parseRadix, hne,
    parseRadixAux_digits, hr, if_true, hc]

example : decodeNumTok { isFloat := false, num := "1_000__0_".toList, suffix := "u16".toList, rest := [] } =
    some (.int 10000 "u16".toList) := by
  have := int_token_value (1, 1) [(0, 0), (0, 0), (0, 2), (0, 1)] "u16".toList [] (by decide) (by decide)
  simpa [spellDigits, horner, digitChar] using this

/-- T3a (`int_spelling`, the full statement). Through `Lexer::number` AND
    `simple_literal`: for EVERY digit sequence, EVERY placement of digit-group
    underscores, EVERY suffix of the table and EVERY following text `rest` at
    which the documented token ends (`IntBoundary`: not an `XID_Continue`
    character or `_`; after a literal without suffix also not a digit, an
    exponent letter, or a `.` that starts a fraction — `10.hello`, `10..`,
    `10._x` keep the integer; after a suffix `.` may follow: `5i32.to_string()`),
    the model of `Lexer::number` splits the source into exactly the digits, the
    suffix and `rest`, and `simple_literal` decodes the Horner value with that
    suffix. `xs` / `xc` are unicode-ident's XID_Start / XID_Continue (parameters;
    the only fact used is that the suffix letters and digits are XID_Continue). -/
theorem int_spelling (xs xc : Char → Bool) (d : Fin 10 × Nat) (ds : List (Fin 10 × Nat))
    (suffix rest : List Char) (hs : suffix ∈ Literal.intSuffixes) (hx : ∀ c ∈ suffix, xc c = true)
    (hb : IntBoundary xs xc suffix rest) (hr : horner 0 (d :: ds) < 2 ^ 63) :
    ∃ t, lexNumber xs xc (spellDigits (d :: ds) ++ (suffix ++ rest)) = some t ∧ t.rest = rest ∧
      decodeNumTok t = some (.int (horner 0 (d :: ds)) suffix) :=
  ⟨_, lexNumber_int xs xc d ds suffix rest hs hx hb, rfl, int_token_value d ds suffix rest hs hr⟩

/-- … and for a complete literal (nothing after it) -/
theorem int_spelling_complete (xs xc : Char → Bool) (d : Fin 10 × Nat) (ds : List (Fin 10 × Nat))
    (suffix : List Char) (hs : suffix ∈ Literal.intSuffixes) (hx : ∀ c ∈ suffix, xc c = true)
    (hr : horner 0 (d :: ds) < 2 ^ 63) :
    decodeNumber xs xc (spellDigits (d :: ds) ++ suffix) = some (.int (horner 0 (d :: ds)) suffix) := by
  have h := lexNumber_int xs xc d ds suffix [] hs hx
    ⟨trivial, fun _ => ⟨trivial, Or.inl trivial⟩⟩
  simp only [List.append_nil] at h
  simp only [decodeNumber, h, List.isEmpty_nil, if_true]
  exact int_token_value d ds suffix [] hs hr

/-- non-vacuity: `5i32.to_string()` — the token ends before the `.`; `1_0.abs()`
    and `7..` keep the integer (edge case); `1_000__0_u16` complete -/
example :
    lexNumber (fun c => c.isAlpha) (fun c => c.isAlphanum) "5i32.to_string()".toList =
      some { isFloat := false, num := "5".toList, suffix := "i32".toList, rest := ".to_string()".toList } ∧
    lexNumber (fun c => c.isAlpha) (fun c => c.isAlphanum) "1_0.abs()".toList =
      some { isFloat := false, num := "1_0".toList, suffix := [], rest := ".abs()".toList } ∧
    IntBoundary (fun c => c.isAlpha) (fun c => c.isAlphanum) "i32".toList ('.' :: "to_string()".toList) ∧
    IntBoundary (fun c => c.isAlpha) (fun c => c.isAlphanum) [] ('.' :: 'a' :: "bs()".toList) ∧
    decodeNumber (fun c => c.isAlpha) (fun c => c.isAlphanum) "1_000__0_u16".toList = some (.int 10000 "u16".toList) := by
  refine ⟨by decide, by decide, ⟨?_, fun h => by simp at h⟩, ⟨?_, fun _ => ⟨?_, Or.inr ⟨'a', "bs()".toList, rfl, by decide⟩⟩⟩, by decide⟩
  · show ((fun c : Char => c.isAlphanum) '.' || '.' == '_') = false; decide
  · show ((fun c : Char => c.isAlphanum) '.' || '.' == '_') = false; decide
  · show isRotoDigit '.' = false; decide

/-- the suffix tables of the model are the ones GENERATED from `simple_literal`
    (integer suffixes, float suffixes, float suffixes on an integer token), and
    every `_` is stripped from the digits -/
theorem suffix_tables :
    Gen.Precedence.intSuffixes.map String.toList = Literal.intSuffixes ∧
    Gen.Precedence.floatSuffixes.map String.toList = Literal.floatSuffixes ∧
    Gen.Precedence.intTokenFloatSuffixes = ["f32", "f64"] ∧
    Gen.Precedence.underscoreStripAll = true := ⟨rfl, rfl, rfl, rfl⟩

example : Gen.Precedence.intSuffixes.length = 9 := rfl

/-- T3a-float (`float_token_split_partial`). Where a float literal ends. For
    EVERY two digit sequences with EVERY placement of underscores, EVERY float
    suffix (`f32`, `f64`, none) and EVERY following text at which the documented
    token ends (`FloatBoundary`: not XID_Continue / `_`; without suffix also not
    a digit or an exponent letter; a `.` MAY follow), `Lexer::number` splits
    `D.F suffix rest` into the Float token `D.F`, the suffix and `rest` — so in
    `2.0f64.pow(2.0)` the literal is `2.0f64` and `.pow(2.0)` is a postfix form
    of it; and an integer token with a float suffix (`2f64.pow(2.0)`) splits
    the same way.
    PARTIAL. Full statement: every float spelling of the documented grammar
    (also `D.`, `DeX`, `D.FeX`, signs and underscores in the exponent) is ONE
    token and decodes to the correctly rounded binary64 value of its decimal
    reading. Missing here: the exponent shapes and `D.`, and the value
    (`parseDecimal` / `f64Bits` are exercised by the correspondence run against
    Rust's `f64::from_str` and the JIT only). -/
theorem float_token_split_partial (xs xc : Char → Bool) (d f : Fin 10 × Nat) (ds fs : List (Fin 10 × Nat))
    (suffix rest : List Char) (hx : ∀ c ∈ suffix, xc c = true)
    (hxs : ∀ k : Fin 10, xs (digitChar k.val) = false) :
    (suffix ∈ Literal.floatSuffixes → FloatBoundary xc suffix rest →
      lexNumber xs xc (spellDigits (d :: ds) ++ ('.' :: (spellDigits (f :: fs) ++ (suffix ++ rest)))) =
        some { isFloat := true, num := spellDigits (d :: ds) ++ '.' :: spellDigits (f :: fs),
               suffix := suffix, rest := rest }) ∧
    ((suffix = "f32".toList ∨ suffix = "f64".toList) → Stops (fun c => xc c || c == '_') rest →
      lexNumber xs xc (spellDigits (d :: ds) ++ (suffix ++ rest)) =
        some { isFloat := false, num := spellDigits (d :: ds), suffix := suffix, rest := rest }) := by
  refine ⟨fun hs hb => lexNumber_float_point xs xc d f ds fs suffix rest hs hx hxs hb, fun hs hb => ?_⟩
  refine lexNumber_digits xs xc d ds suffix rest (Or.inr ?_) hx ⟨hb, fun h => ?_⟩
  · rcases hs with h | h <;> subst h <;> exact ⟨'f', _, rfl, Or.inr (Or.inr rfl)⟩
  · rcases hs with h' | h' <;> subst h' <;> simp at h

/-- non-vacuity: the seeded witness `2.0f64.pow(2.0)`, `2f64.pow(2.0)`, `2.5.abs()` -/
example :
    lexNumber (fun c => c.isAlpha) (fun c => c.isAlphanum) "2.0f64.pow(2.0)".toList =
      some { isFloat := true, num := "2.0".toList, suffix := "f64".toList, rest := ".pow(2.0)".toList } ∧
    lexNumber (fun c => c.isAlpha) (fun c => c.isAlphanum) "2f64.pow(2.0)".toList =
      some { isFloat := false, num := "2".toList, suffix := "f64".toList, rest := ".pow(2.0)".toList } ∧
    lexNumber (fun c => c.isAlpha) (fun c => c.isAlphanum) "2.5.abs()".toList =
      some { isFloat := true, num := "2.5".toList, suffix := [], rest := ".abs()".toList } := by decide

/-- T3b. Hexadecimal literals, AS numbers, dotted quads and `ip / len`: the
    decoders on concrete spellings of every shape (upper/lower case digits,
    leading zeros, boundary values, rejected forms). -/
theorem literal_tables :
    decodeHex "0xFf".toList = some 255 ∧ decodeHex "0x007fffffffffffffff".toList = some (2 ^ 63 - 1) ∧
    decodeHex "0x8000000000000000".toList = none ∧ decodeHex "0x".toList = none ∧
    decodeAsn "AS4294967295".toList = some 4294967295 ∧ decodeAsn "AS4294967296".toList = none ∧
    decodeIpv4 "192.168.0.255".toList = some (.ipv4 192 168 0 255) ∧ decodeIpv4 "1.2.3.256".toList = none ∧
    decodeIpv4 "01.2.3.4".toList = none ∧
    prefixV4 10 1 2 3 8 = some (10 * 2 ^ 24, 8) ∧ prefixV4 1 2 3 4 32 = some (((1 * 256 + 2) * 256 + 3) * 256 + 4, 32) ∧
    prefixV4 1 2 3 4 0 = some (0, 0) ∧ prefixV4 1 2 3 4 33 = none := by
  decide

/-- T3c. Every documented escape sequence denotes the documented character,
    wherever it stands in a string: `unescape (spelling ++ rest)` is the value
    followed by `unescape rest` (`\0 \t \n \r \" \' \\`). -/
theorem simple_escapes (rest : List Char) :
    unescape ('\\' :: '0' :: rest) = (unescape rest).map (Char.ofNat 0 :: ·) ∧
    unescape ('\\' :: 't' :: rest) = (unescape rest).map ('\t' :: ·) ∧
    unescape ('\\' :: 'n' :: rest) = (unescape rest).map ('\n' :: ·) ∧
    unescape ('\\' :: 'r' :: rest) = (unescape rest).map ('\r' :: ·) ∧
    unescape ('\\' :: '"' :: rest) = (unescape rest).map ('"' :: ·) ∧
    unescape ('\\' :: '\'' :: rest) = (unescape rest).map ('\'' :: ·) ∧
    unescape ('\\' :: '\\' :: rest) = (unescape rest).map ('\\' :: ·) := by
  refine ⟨?_, ?_, ?_, ?_, ?_, ?_, ?_⟩ <;> (rw [unescape.eq_def]; simp [simpleEscape])

/-- `\xHH` (two hex digits, value below 0x80) denotes that code point, and a
    backslash–newline swallows the following blanks (line continuation). -/
theorem hex_escape_and_continuation (h l : Char) (a b : Nat) (rest : List Char)
    (ha : hexVal h = some a) (hb : hexVal l = some b) (hlt : a * 16 + b < 128) :
    unescape ('\\' :: 'x' :: h :: l :: rest) = (unescape rest).map (Char.ofNat (a * 16 + b) :: ·) ∧
    unescape ('\\' :: '\n' :: rest) = unescape (skipWs rest) := by
  constructor
  · rw [unescape.eq_def]; simp [ha, hb, hlt]
  · rw [unescape.eq_def]; simp

/-- T3c-u. `\\u{H…}`: for EVERY spelling of one to six hex digits (either
    case, leading zeros) whose value is a Unicode scalar value, wherever the
    escape stands in a string, `unescape` yields the character with that code
    point followed by the rest; (surrogates and values above 10FFFF are
    rejected: witnesses below). The digit-group `_` that rustc's escaper also
    accepts inside the braces is modelled but not part of this statement. -/
theorem unicode_escape (c : Char) (cs rest : List Char) (d : Nat) (hd : hexVal c = some d)
    (hcs : ∀ x ∈ cs, (hexVal x).isSome = true) (hlen : cs.length ≤ 5)
    (hv : isScalar (hexFold d cs) = true) :
    unescape ('\\' :: 'u' :: '{' :: c :: (cs ++ '}' :: rest)) =
      (unescape rest).map (Char.ofNat (hexFold d cs) :: ·) :=
  unescape_unicode c cs rest d hd hcs hlen hv

example : unescape "\\u{e9}\\u{1F600}\\u{00004a}".toList = some ['é', Char.ofNat 0x1F600, 'J'] ∧
    unescape "\\u{D800}".toList = none ∧ unescape "\\u{110000}".toList = none ∧
    unescape "\\u{0000041}".toList = none ∧ unescape "\\u{}".toList = none ∧
    hexFold 14 ['9'] = 0xe9 := by
  refine ⟨?_, ?_, ?_, ?_, ?_, by decide⟩ <;>
    simp [unescape, hexVal, unicodeRest, isScalar, skipWs, simpleEscape]

example : unescape "a\\x41\\u{0000e9}\\\n   \tb\\\\".toList = some "aAéb\\".toList := by
  simp [unescape, hexVal, unicodeRest, isScalar, skipWs, simpleEscape]

/-! ## T4 f-strings -/

/-- T4 (`fstring_parts`). For ARBITRARY Unicode text without the scanner's
    special characters (`\`, `{`, `"`), followed by a hole or by the closing
    quote, `f_string_part` splits exactly before the delimiter: the byte offset
    it computes from `char_indices` is a character boundary (`split_at` does
    not panic) and the text comes back unchanged. -/
theorem fstring_parts (text rest : List Char) (c : Char) (h : ∀ d ∈ text, special d = false)
    (hc : (c == '{') = false) :
    fStringPart (text ++ '"' :: rest) = .part .stringEnd text rest ∧
    fStringPart (text ++ '{' :: c :: rest) = .part .intermediate text ('{' :: c :: rest) := by
  constructor
  · have hs : scan (text ++ '"' :: rest) 0 = .found .stringEnd (utf8Len text) := by
      rw [scan_plain _ _ _ h, scan.eq_def]; simp
    simp only [fStringPart, hs, splitAtByte_prefix]
    have : splitAtByte ('"' :: rest) 1 = some (['"'], rest) := by
      have := splitAtByte_prefix ['"'] rest
      have h1 : ('"' : Char).utf8Size = 1 := by decide
      simpa [utf8Len, h1] using this
    simp [this]
  · have hs : scan (text ++ '{' :: c :: rest) 0 = .found .intermediate (utf8Len text) := by
      rw [scan_plain _ _ _ h, scan.eq_def]
      have : ('{' : Char).utf8Size = 1 := by decide
      simp [hc, this]
    simp only [fStringPart, hs, splitAtByte_prefix]

/-- T4, all inputs (`fstring_parts_total`). For EVERY input — arbitrary Unicode,
    escapes, `\\u{…}`, doubled braces, truncated text — the byte offset the
    scanner hands to `split_at` is a character boundary: `f_string_part` never
    panics, and the part's text followed by the rest (and the closing quote
    for the last part) is the input, unchanged. -/
theorem fstring_parts_total (inp : List Char) :
    fStringPart inp ≠ .panic ∧
    ∀ k text rest, fStringPart inp = .part k text rest →
      (k = .intermediate → inp = text ++ rest) ∧ (k = .stringEnd → inp = text ++ '"' :: rest) :=
  fStringPart_total inp

/-- the witness of the defect fixed by 58d0a1f, on the model of the fixed scanner -/
example : fStringPart "é {x}\"".toList = .part .intermediate "é ".toList "{x}\"".toList := by
  have := (fstring_parts "é ".toList "}\"".toList 'x' (by decide) (by decide)).2
  simpa using this

/-- Refutation on the tree before `fix: f-string brace escapes …`: the old text
    rule `unescape(s).replace("{{","{").replace("}}","}")` maps the spelling
    `\x7b\x7b|{{` — which the manual reads as `{{|{` — to `{|{`. -/
theorem fstring_collapse_refuted_before_fix :
    partTextOld "\\x7b\\x7b|{{".toList = some "{|{".toList ∧
    meaning [.esc "\\x7b".toList '{', .esc "\\x7b".toList '{', .plain '|', .lbrace] = "{{|{".toList ∧
    spell [.esc "\\x7b".toList '{', .esc "\\x7b".toList '{', .plain '|', .lbrace] = "\\x7b\\x7b|{{".toList := by
  refine ⟨?_, by decide, by decide⟩
  simp [partTextOld, unescape, hexVal, collapse]

/-- …and the model of the fixed `unescape_f_string_part` gives the documented text. -/
theorem fstring_collapse_fixed_witness :
    partText "\\x7b\\x7b|{{".toList = some "{{|{".toList ∧
    partText "\\u{7d}\\x7d}}".toList = some "}}}".toList := by
  constructor <;> simp [partText, partTextGo, unescape, hexVal, unicodeRest, isScalar]

/-- T3c, general form (`unescape (escape s) = s`). For EVERY sequence of plain
    characters (any Unicode character except `\`, `"`, CR, and — for the
    f-string pass — braces) and escape sequences that are `EscOK` (see
    `documented_escapes_ok`), `unescape` of the spelling is the sequence of
    denoted characters. -/
theorem unescape_escape (items : List Item) (hok : ∀ it ∈ items, it.ok)
    (hnb : ∀ it ∈ items, it.isBrace = false) :
    unescape (spell items) = some (meaning items) :=
  unescape_pre items hok hnb

/-- the documented escapes satisfy the hypothesis of `unescape_escape` /
    `fstring_text_correct`: the seven simple escapes and every `\xHH` below 0x80 -/
theorem documented_escapes_ok :
    (Item.esc ['\\', '0'] (Char.ofNat 0)).ok ∧ (Item.esc ['\\', 't'] '\t').ok ∧
    (Item.esc ['\\', 'n'] '\n').ok ∧ (Item.esc ['\\', 'r'] '\r').ok ∧
    (Item.esc ['\\', '"'] '"').ok ∧ (Item.esc ['\\', '\''] '\'').ok ∧
    (Item.esc ['\\', '\\'] '\\').ok ∧
    (∀ (h l : Char) (a b : Nat), hexVal h = some a → hexVal l = some b → a * 16 + b < 128 →
      (Item.esc ['\\', 'x', h, l] (Char.ofNat (a * 16 + b))).ok) := by
  have shape : ∀ k : Char, k ≠ 'u' → Transparent ['\\', k] :=
    fun k hk => transparent_of_shape k [] hk (by simp)
  refine ⟨⟨fun r => (simple_escapes r).1, shape _ (by decide)⟩,
    ⟨fun r => (simple_escapes r).2.1, shape _ (by decide)⟩,
    ⟨fun r => (simple_escapes r).2.2.1, shape _ (by decide)⟩,
    ⟨fun r => (simple_escapes r).2.2.2.1, shape _ (by decide)⟩,
    ⟨fun r => (simple_escapes r).2.2.2.2.1, shape _ (by decide)⟩,
    ⟨fun r => (simple_escapes r).2.2.2.2.2.1, shape _ (by decide)⟩,
    ⟨fun r => (simple_escapes r).2.2.2.2.2.2, shape _ (by decide)⟩, ?_⟩
  intro h l a b ha hb hlt
  refine ⟨fun r => (hex_escape_and_continuation h l a b r ha hb hlt).1,
    transparent_of_shape 'x' [h, l] (by decide) ?_⟩
  intro d hd
  simp only [List.mem_cons, List.not_mem_nil, or_false] at hd
  rcases hd with rfl | rfl
  · exact copied_of_hex _ _ ha
  · exact copied_of_hex _ _ hb

/-- `\\u{H…}` satisfies the hypothesis of `fstring_text_correct` as well: for
    EVERY spelling of one to six hex digits denoting a scalar value, the escape
    decodes to that character wherever it stands (`unicode_escape`) AND the
    brace pass copies it whole — its own `{` and `}` are never taken for half
    of a brace escape, and the pass resumes right after its closing `}`
    (`Transparent`), so `\\u{41}{{`, `{{\\u{7b}`, `\\u{7d}}}` … mean what the
    manual says. -/
theorem unicode_escape_ok (c : Char) (cs : List Char) (d : Nat) (hd : hexVal c = some d)
    (hcs : ∀ x ∈ cs, (hexVal x).isSome = true) (hlen : cs.length ≤ 5)
    (hv : isScalar (hexFold d cs) = true) :
    (Item.esc ('\\' :: 'u' :: '{' :: ((c :: cs) ++ ['}'])) (Char.ofNat (hexFold d cs))).ok := by
  constructor
  · intro rest
    have := unicode_escape c cs rest d hd hcs hlen hv
    simpa using this
  · apply transparent_unicode
    intro x hx
    simp only [List.mem_cons] at hx
    rcases hx with rfl | hx
    · exact (hexVal_ne _ d hd).2
    · obtain ⟨e, he⟩ := Option.isSome_iff_exists.mp (hcs x hx)
      exact (hexVal_ne x e he).2

/-- non-vacuity: `\\u{41}` is such an escape (`A`) -/
example : (Item.esc ['\\', 'u', '{', '4', '1', '}'] 'A').ok :=
  unicode_escape_ok '4' ['1'] 4 (by decide) (by decide) (by decide) (by decide)

/-- T3d (`{{` / `}}`, after the fix). For EVERY f-string text built from plain
    characters (arbitrary Unicode), `EscOK` escape sequences (including escaped
    braces such as `\x7b`), `{{` and `}}`, the model of
    `unescape_f_string_part` returns the documented text: each escape its
    character, each doubled brace one brace, nothing else changed.
    `\u{…}` escapes are included (`unicode_escape_ok`); only the line
    continuation (`\` newline, which denotes no character) is outside this
    statement and covered by the correspondence run. -/
theorem fstring_text_correct (items : List Item) (hok : ∀ it ∈ items, it.ok) :
    partText (spell items) = some (meaning items) := by
  have := partText_items items [] hok (by simp) (by simp)
  simpa [partText, spell, meaning] using this

/-- non-vacuity: `é\x7b\x7b{{\t}}` is such a text; it means `é{{{<TAB>}` -/
example : partText "é\\x7b\\x7b{{\\t}}".toList = some "é{{{\t}".toList := by
  have hx := documented_escapes_ok.2.2.2.2.2.2.2 '7' 'b' 7 11 (by decide) (by decide) (by decide)
  have ht := documented_escapes_ok.2.1
  have := fstring_text_correct
    [.plain 'é', .esc ['\\', 'x', '7', 'b'] (Char.ofNat (7 * 16 + 11)),
     .esc ['\\', 'x', '7', 'b'] (Char.ofNat (7 * 16 + 11)), .lbrace, .esc ['\\', 't'] '\t', .rbrace]
    (by
      intro it hit
      simp only [List.mem_cons, List.not_mem_nil, or_false] at hit
      rcases hit with rfl | rfl | rfl | rfl | rfl | rfl
      · exact ⟨by decide, by decide, by decide⟩
      · exact hx
      · exact hx
      · trivial
      · exact ht
      · trivial)
  simpa [spell, meaning, Item.spelling, Item.value] using this

/-! ## T6 look-ahead and lexer modes (bracketed constructs)

`Lexer` keeps a queue of tokens lexed ahead in normal mode; `f_string_part`
scans the raw input. The facts below are over the definitions generated from
`Lexer::peek_many` (`Gen.LookAhead.peekStops`) and from the windows `atom`
tries on `{` (`Gen.LookAhead.recordWindows`). -/

/-- the parser model instantiated with the generated look-ahead facts -/
def cfgGen : LookAhead.Cfg := ⟨Gen.LookAhead.peekStops, Gen.LookAhead.recordWindows⟩

/-- T6a (`lookahead_mode_safe`). For EVERY lexer state whose queue is mode-safe
    (only its last token may be `f"`) — in particular the initial one — and
    EVERY window size, every queue operation of the lexer (`peek_many::<n>`
    with the generated stop tokens, `peek`, `next`) leaves the queue mode-safe:
    no token is ever lexed in normal mode past the start of an f-string,
    whatever the parser looks ahead for. -/
theorem lookahead_mode_safe (s : LookAhead.Lx) (h : LookAhead.ModeSafe s) :
    (∀ n w s', LookAhead.peekMany Gen.LookAhead.peekStops n s = .ok w s' → LookAhead.ModeSafe s') ∧
    LookAhead.ModeSafe s.peek.2 ∧
    (∀ t s', s.next = some (t, s') → LookAhead.ModeSafe s') :=
  ⟨fun n => LookAhead.peekMany_modeSafe _ (by decide) n s h,
   LookAhead.peek_modeSafe s h, LookAhead.next_modeSafe s h⟩

/-! ### the brace pass of `unescape_f_string_part`, tied to the source

`Gen.C09FStrText` holds the backslash arm of `unescape_f_string_part` as the
translator reads it from src/parser/expr.rs: the `&&` chain of tests on the
peekable character iterator (`next()` consumes whatever comes, `peek()`
nothing, `next_if(..)` only a match), the character ending the skip loop, and
the characters whose doubling is a brace escape. -/

/-- the generated pass: `Model/FString.partTextWith` run on the generated facts -/
def partTextGen (raw : List Char) : Option (List Char) :=
  partTextWith (armConsumed Gen.C09FStrText.backslashConds Gen.C09FStrText.backslashSkipStop)
    Gen.C09FStrText.braceChars raw []

/-- T3e (`backslash_arm_generated`). After a backslash, for EVERY continuation
    of the text, the GENERATED arm consumes exactly what the documented pass
    consumes: the next character whatever it is (so the second backslash of
    `\\` can never start an escape), and after `u{` everything up to and
    including the closing `}`. -/
theorem backslash_arm_generated (cs : List Char) :
    armConsumed Gen.C09FStrText.backslashConds Gen.C09FStrText.backslashSkipStop cs = armDoc cs := by
  match cs with
  | [] => rfl
  | [d] =>
    simp only [armConsumed, Gen.C09FStrText.backslashConds, Gen.C09FStrText.backslashSkipStop, runConds, armDoc]
    by_cases h1 : d = 'u' <;> simp [h1]
  | d :: e :: cs =>
    simp only [armConsumed, Gen.C09FStrText.backslashConds, Gen.C09FStrText.backslashSkipStop, runConds, armDoc]
    by_cases h1 : d = 'u' <;> by_cases h2 : e = '{' <;> simp [h1, h2, skipCount] <;> omega

example : armConsumed Gen.C09FStrText.backslashConds Gen.C09FStrText.backslashSkipStop ['\\', 'u', '{', '{'] = 1 ∧
    armConsumed Gen.C09FStrText.backslashConds Gen.C09FStrText.backslashSkipStop ['u', '{', '4', '1', '}', '{'] = 5 := by
  decide

/-- the generated brace characters are the documented ones -/
theorem brace_chars_generated : Gen.C09FStrText.braceChars = ['{', '}'] := by decide

/-- T3f (`partText_generated`). For EVERY text — valid or not, any mixture of
    backslashes, `u`, braces and anything else — the pass run on the GENERATED
    decisions computes what the hand model `partText` computes; together with
    `fstring_text_correct` the statements about `partText` are statements about
    the source's decisions. -/
theorem partText_generated (raw : List Char) : partTextGen raw = partText raw := by
  have h : armConsumed Gen.C09FStrText.backslashConds Gen.C09FStrText.backslashSkipStop = armDoc :=
    funext backslash_arm_generated
  unfold partTextGen partText
  rw [h, brace_chars_generated]
  exact partTextWith_doc raw []

/-- T3g (`fstring_text_generated`). For EVERY f-string text built from plain
    characters (arbitrary Unicode), documented escape sequences (including `\\\\`
    directly followed by `u`, `x`, a doubled brace, … and escaped braces such as
    `\\x7b`), `{{` and `}}`, in ANY order, the pass with the generated decisions
    returns the documented text. -/
theorem fstring_text_generated (items : List Item) (hok : ∀ it ∈ items, it.ok) :
    partTextGen (spell items) = some (meaning items) := by
  rw [partText_generated]
  exact fstring_text_correct items hok

/-- non-vacuity, the class "escaped backslash, `u`, brace escapes": the text
    `\\\\u{{x}}` (an escaped backslash, `u`, `{{`, `x`, `}}`) means `\\u{x}` -/
example : partTextGen ['\\', '\\', 'u', '{', '{', 'x', '}', '}'] = some ['\\', 'u', '{', 'x', '}'] := by
  have := fstring_text_generated
    [.esc ['\\', '\\'] '\\', .plain 'u', .lbrace, .plain 'x', .rbrace]
    (by
      intro it hit
      simp only [List.mem_cons, List.not_mem_nil, or_false] at hit
      rcases hit with rfl | rfl | rfl | rfl | rfl
      · exact documented_escapes_ok.2.2.2.2.2.2.1
      · exact ⟨by decide, by decide, by decide⟩
      · trivial
      · exact ⟨by decide, by decide, by decide⟩
      · trivial)
  simpa [spell, meaning, Item.spelling, Item.value] using this

/-- necessity (`backslash_arm_must_consume`): an arm that consumes the character
    after the backslash only when it is `u` (`next_if`) takes the second
    backslash of `\\\\` for the start of `\\u{…}`: the text `\\\\u{{x}}` then
    keeps its doubled braces. -/
theorem backslash_arm_must_consume :
    partTextWith (armConsumed [.nextIfIs 'u', .nextIfIs '{'] (some '}')) ['{', '}']
      ['\\', '\\', 'u', '{', '{', 'x', '}', '}'] [] = some ['\\', 'u', '{', '{', 'x', '}', '}'] := by
  simp [partTextWith, armConsumed, runConds, skipCount, unescape, simpleEscape]

/-! ### the two scanners together: `Lexer::f_string_part`, then the brace pass -/

theorem special_of_hex (c : Char) (a : Nat) (h : hexVal c = some a) : special c = false := by
  have h1 : hexVal '\\' = none := by decide
  have h2 : hexVal '{' = none := by decide
  have h3 : hexVal '"' = none := by decide
  simp only [special, Bool.or_eq_false_iff, beq_eq_false_iff_ne]
  refine ⟨⟨?_, ?_⟩, ?_⟩ <;> (intro hc; subst hc; simp_all)

/-- the documented escapes satisfy the LEXER's hypothesis (`Item.lexOk`: the
    scanner of `f_string_part` walks over the spelling and goes on right behind
    it): the seven simple escapes, every `\\xHH`, every `\\u{…}` without a `}` inside -/
theorem documented_escapes_lex_ok :
    (∀ k ∈ ['0', 't', 'n', 'r', '"', '\'', '\\'], ∀ v, (Item.esc ['\\', k] v).lexOk) ∧
    (∀ (h l : Char) (a b : Nat) (v : Char), hexVal h = some a → hexVal l = some b →
      (Item.esc ['\\', 'x', h, l] v).lexOk) ∧
    (∀ (hs : List Char) (v : Char), (∀ c ∈ hs, c ≠ '}') →
      (Item.esc ('\\' :: 'u' :: '{' :: (hs ++ ['}'])) v).lexOk) := by
  refine ⟨?_, ?_, ?_⟩
  · intro k hk v
    simp only [List.mem_cons, List.not_mem_nil, or_false] at hk
    rcases hk with rfl | rfl | rfl | rfl | rfl | rfl | rfl <;>
      exact scanThrough_esc2 _ [] (by decide) (by decide) (by simp)
  · intro h l a b v ha hb
    refine scanThrough_esc2 'x' [h, l] (by decide) (by decide) ?_
    intro c hc
    simp only [List.mem_cons, List.not_mem_nil, or_false] at hc
    rcases hc with rfl | rfl
    · exact special_of_hex _ _ ha
    · exact special_of_hex _ _ hb
  · intro hs v h
    exact scanThrough_unicode hs h

/-- T4c (`fstring_text_lexed_and_decoded`). The WHOLE path of a text part: for
    EVERY non-empty text of plain Unicode characters, documented escape
    sequences (`Item.ok` for the decoder, `Item.lexOk` for the lexer — both hold
    for every documented escape: `documented_escapes_ok`, `unicode_escape_ok`,
    `documented_escapes_lex_ok`), `{{` and `}}` in ANY order, followed by the
    closing quote and anything else: the model of `Lexer::f_string_part` ends
    the part exactly at the quote (an escaped quote, an escaped backslash before
    the quote, the braces of `\\u{…}` and doubled braces do not end it), and the
    brace pass run on the GENERATED decisions gives the documented text. -/
theorem fstring_text_lexed_and_decoded (items : List Item) (rest : List Char) (fuel : Nat)
    (hok : ∀ it ∈ items, it.ok) (hlex : ∀ it ∈ items, it.lexOk) (hne : spell items ≠ []) :
    fStringP partTextGen (fuel + 1) (spell items ++ '"' :: rest) = some [.text (meaning items)] :=
  fStringP_text partTextGen items rest fuel hlex hne (fstring_text_generated items hok)

/-- T4d (`fstring_text_hole_text_lexed_and_decoded`). The same around a hole:
    text, `{`, a hole whose source has no `}` and does not begin with `{`, `}`,
    text, closing quote — the lexer ends the first part exactly before the
    hole's `{`, and both texts mean what the manual says. -/
theorem fstring_text_hole_text_lexed_and_decoded (a b : List Item) (h rest : List Char) (c : Char) (fuel : Nat)
    (hoka : ∀ it ∈ a, it.ok) (hokb : ∀ it ∈ b, it.ok)
    (ha : ∀ it ∈ a, it.lexOk) (hb : ∀ it ∈ b, it.lexOk)
    (hna : spell a ≠ []) (hnb : spell b ≠ []) (hc : c ≠ '{') (hh : ∀ d ∈ c :: h, d ≠ '}') :
    fStringP partTextGen (fuel + 2) (spell a ++ '{' :: c :: (h ++ '}' :: (spell b ++ '"' :: rest))) =
      some [.text (meaning a), .hole (c :: h), .text (meaning b)] :=
  fStringP_text_hole_text partTextGen a b h rest c fuel ha hb hna hnb
    (fstring_text_generated a hoka) (fstring_text_generated b hokb) hc hh

/-- non-vacuity, the class of seeded C09-8 through lexer AND decoder:
    `f"\\\\u{{{x}}}"` is the text `\\u{`, the hole `x`, the text `}` -/
example : fStringP partTextGen 2
    (['\\', '\\', 'u', '{', '{'] ++ '{' :: 'x' :: ([] ++ '}' :: (['}', '}'] ++ '"' :: []))) =
    some [.text ['\\', 'u', '{'], .hole ['x'], .text ['}']] := by
  have hbs : (Item.esc ['\\', '\\'] '\\').ok := documented_escapes_ok.2.2.2.2.2.2.1
  have hbl : (Item.esc ['\\', '\\'] '\\').lexOk := documented_escapes_lex_ok.1 '\\' (by simp) '\\'
  have := fstring_text_hole_text_lexed_and_decoded
    [.esc ['\\', '\\'] '\\', .plain 'u', .lbrace] [.rbrace] [] [] 'x' 0
    (by
      intro it hit
      simp only [List.mem_cons, List.not_mem_nil, or_false] at hit
      rcases hit with rfl | rfl | rfl
      · exact hbs
      · exact ⟨by decide, by decide, by decide⟩
      · trivial)
    (by intro it hit; simp only [List.mem_cons, List.not_mem_nil, or_false] at hit; subst hit; trivial)
    (by
      intro it hit
      simp only [List.mem_cons, List.not_mem_nil, or_false] at hit
      rcases hit with rfl | rfl | rfl
      · exact hbl
      · show special 'u' = false; decide
      · trivial)
    (by intro it hit; simp only [List.mem_cons, List.not_mem_nil, or_false] at hit; subst hit; trivial)
    (by simp [spell, Item.spelling]) (by simp [spell, Item.spelling]) (by decide) (by simp)
  simpa [spell, meaning, Item.spelling, Item.value] using this

/-- T4e (`fstring_parts_lexed_and_decoded`). ANY number of holes: for EVERY
    f-string `text {hole} text {hole} … text"` whose texts are non-empty
    sequences of plain Unicode characters, documented escapes, `{{` and `}}`
    and whose holes' sources are non-empty, do not begin with `{` and contain
    no `}`, the model of `Lexer::f_string_part` cuts exactly before every hole
    and at the closing quote, and the brace pass run on the GENERATED decisions
    gives every text its documented meaning (by induction over the segments).
    (Empty texts — a leading hole, adjacent holes — take the model's
    `raw.isEmpty` branch and are covered by the correspondence run.) -/
theorem fstring_parts_lexed_and_decoded (segs : List (List Item × List Char)) (last : List Item)
    (rest : List Char) (fuel : Nat)
    (hseg : ∀ s ∈ segs, (∀ it ∈ s.1, it.ok) ∧ (∀ it ∈ s.1, it.lexOk) ∧ spell s.1 ≠ [] ∧ HoleOk s.2)
    (hok : ∀ it ∈ last, it.ok) (hl : ∀ it ∈ last, it.lexOk) (hnl : spell last ≠ []) :
    fStringP partTextGen (segs.length + 1 + fuel) (renderSegs segs last rest) = some (partsOf segs last) :=
  fStringP_segs partTextGen segs last rest fuel
    (fun s hs => ⟨(hseg s hs).2.1, (hseg s hs).2.2.1, fstring_text_generated s.1 (hseg s hs).1, (hseg s hs).2.2.2⟩)
    hl hnl (fstring_text_generated last hok)

/-- non-vacuity: `f"a{x}{{{y}}}"` is such an f-string (two holes) -/
example : fStringP partTextGen 3 (renderSegs [([.plain 'a'], ['x']), ([.lbrace], ['y'])] [.rbrace] []) =
    some [.text ['a'], .hole ['x'], .text ['{'], .hole ['y'], .text ['}']] := by
  have := fstring_parts_lexed_and_decoded [([.plain 'a'], ['x']), ([.lbrace], ['y'])] [.rbrace] [] 0
    (by
      intro s hs
      simp only [List.mem_cons, List.not_mem_nil, or_false] at hs
      rcases hs with rfl | rfl
      · refine ⟨?_, ?_, by simp [spell, Item.spelling], ⟨⟨'x', [], rfl, by decide⟩, by simp⟩⟩
        · intro it hit; simp only [List.mem_cons, List.not_mem_nil, or_false] at hit; subst hit
          exact ⟨by decide, by decide, by decide⟩
        · intro it hit; simp only [List.mem_cons, List.not_mem_nil, or_false] at hit; subst hit
          show special 'a' = false; decide
      · refine ⟨?_, ?_, by simp [spell, Item.spelling], ⟨⟨'y', [], rfl, by decide⟩, by simp⟩⟩
        · intro it hit; simp only [List.mem_cons, List.not_mem_nil, or_false] at hit; subst hit; trivial
        · intro it hit; simp only [List.mem_cons, List.not_mem_nil, or_false] at hit; subst hit; trivial)
    (by intro it hit; simp only [List.mem_cons, List.not_mem_nil, or_false] at hit; subst hit; trivial)
    (by intro it hit; simp only [List.mem_cons, List.not_mem_nil, or_false] at hit; subst hit; trivial)
    (by simp [spell, Item.spelling])
  simpa [partsOf, meaning, Item.value] using this

/-- T6b (`fstring_scanner_starts_at_text`). When the parser takes `f"` from a
    mode-safe lexer the queue is empty afterwards, so `f_string_part` — which
    reads the raw input — starts exactly at the f-string's text. The initial
    state is mode-safe. -/
theorem fstring_scanner_starts_at_text (s s' : LookAhead.Lx) (h : LookAhead.ModeSafe s)
    (hn : s.next = some (LookAhead.Tok.fstart, s')) : s'.peeked = [] :=
  LookAhead.next_fstart_fresh s h s' hn

example : LookAhead.ModeSafe ⟨[.n .lcurly, .n .fstart, .fend 1, .n .rcurly], []⟩ := by decide

/-- non-vacuity of T6a/T6b on the witness `{ f"hello" }`: the three-token
    window of `atom` stops at `f"` (two tokens queued, `hello"` unread). -/
example :
    LookAhead.peekMany Gen.LookAhead.peekStops 3 ⟨[.n .lcurly, .n .fstart, .fend 1, .n .rcurly], []⟩ =
      .ok none ⟨[.fend 1, .n .rcurly], [.lcurly, .fstart]⟩ := by decide

/-- T6c (`lookahead_roundtrip_bounded`). The model of `atom` / `access` /
    `block` / `record` / `separated` / `f_string`, run with the generated
    look-ahead facts on the text the documented grammar assigns to a tree,
    returns that tree, consumes the whole input and leaves the queue empty —
    for each of the 2 964 trees of `boundedTrees`: every subject (identifier,
    literal, unit, f-strings of every part shape incl. nested, empty records,
    path) at every position of every bracketed construct (parenthesised
    expression, list item, record / typed-record field, block statement /
    `let` / last expression, call argument, f-string hole, operand, call /
    field target), those nested two deep, and the bracket-opening ones three
    deep.
    Full statement (NOT proved; the quantifier over all trees is sampled by the
    correspondence run — real parser vs this model vs the generator's tree):
    `∀ e, Canonical e → parseAll cfgGen (render e) = .ok e ⟨[], []⟩`. -/
theorem lookahead_roundtrip_bounded :
    LookAhead.boundedTrees.all (LookAhead.roundTrips cfgGen) = true := by
  decide +kernel

example : LookAhead.boundedTrees.length = 2964 ∧
    (LookAhead.T.block (.last (.fstr (.part 1 .lit (.fin 1))))) ∈ LookAhead.boundedTrees := by
  decide +kernel

/-- T6c′ (`block_fstring_all`). For EVERY f-string whose holes hold one
    identifier or one literal — ANY number of text / hole parts, any texts
    (`FlatParts`) — the blocks that begin with it, `{ f"…" }`, `{ f"…"; }` and
    `{ f"…"; lit }`, parse (model with the generated look-ahead facts, the fuel
    `parseAll` supplies) to the documented tree, the whole input consumed and
    the queue empty: the look-ahead of `atom` never disturbs the f-string
    scanner, whatever the f-string looks like. -/
theorem block_fstring_all (ps : LookAhead.T) (h : LookAhead.FlatParts ps = true) :
    ∀ e ∈ LookAhead.blockShapes ps, LookAhead.parseAll cfgGen (LookAhead.render e) = .ok e ⟨[], []⟩ :=
  LookAhead.block_fstring_parse cfgGen (by decide) (by decide) ps h

/-- non-vacuity: `{ f"hello {1} world" }` (the reviewer's witness) is an instance -/
example : LookAhead.parseAll cfgGen [.n .lcurly, .n .fstart, .ftext 1, .n .lcurly, .n .lit, .n .rcurly, .fend 2, .n .rcurly] =
    .ok (.block (.last (.fstr (.part 1 .lit (.fin 2))))) ⟨[], []⟩ := by
  have := block_fstring_all (.part 1 .lit (.fin 2)) (by decide) (.block (.last (.fstr (.part 1 .lit (.fin 2))))) (by decide)
  simpa [LookAhead.render, LookAhead.renderItems, LookAhead.renderParts] using this

/-- T6d. Refutation on the tree before `fix: do not look ahead past the start
    of an f-string`: with no stop token the three-token window of `atom` lexes
    the text of `{ f"hello" }` in normal mode (the queue ends up with a junk
    token behind `f"`, mode safety is lost) and the block is not parsed;
    1 in 8 of the bounded trees is affected. With the generated facts the same
    text parses to the documented tree. -/
theorem lookahead_unguarded_refuted :
    let src : List LookAhead.Sym := [.n .lcurly, .n .fstart, .fend 1, .n .rcurly]
    LookAhead.render (.block (.last (.fstr (.fin 1)))) = src ∧
    LookAhead.peekMany [] 3 ⟨src, []⟩ = .ok (some [.lcurly, .fstart, .junk]) ⟨[.n .rcurly], [.lcurly, .fstart, .junk]⟩ ∧
    ¬ LookAhead.ModeSafe ⟨[.n .rcurly], [.lcurly, .fstart, .junk]⟩ ∧
    LookAhead.parseAll LookAhead.cfgUnguarded src = .err ∧
    LookAhead.parseAll cfgGen src = .ok (.block (.last (.fstr (.fin 1)))) ⟨[], []⟩ := by
  decide

/-- T6e (`return_value_starts`). Every token that can begin an expression of
    the documented grammar (opening brackets, identifiers and path keywords,
    prefix operators, EVERY literal kind, `f"`, `if`, `match`) is accepted by
    the generated `can_start_expression`: after `return` / `accept` / `reject`
    the value is parsed whatever it starts with. -/
theorem return_value_starts :
    ∀ t ∈ LookAhead.exprStarts, t ∈ Gen.LookAhead.returnValueStarts := by
  decide

example : LookAhead.Start.fStringStart ∈ LookAhead.exprStarts ∧ LookAhead.exprStarts.length = 22 := by decide

/-- T6f. Refutation on the tree before `fix: return / accept / reject take a
    value that starts with a char, hex or f-string literal, …`: the old token
    set misses `f"`, char and hex literals and the keywords that start an
    expression (`return f"x"`, `return 'a'`, `return 0x10`, `return if …`). -/
theorem return_value_starts_refuted_before_fix :
    LookAhead.exprStarts.filter (fun t => !LookAhead.returnStartsOld.contains t) =
      [.hex, .char, .fStringStart, .kwIf, .kwMatch, .kwSuper, .kwPkg, .kwDep, .kwStd] := by
  decide

/-! ### T5. Identifiers: the scan of `Lexer::keyword_or_ident`

`Gen.C09IdentScan` holds the two character tests of `keyword_or_ident` as the
translator reads them from the source: `identFirst` (the `||` chain tested on
the first character) and `identRest` (the chain handed to `eat_while` for
every later character); the translator also checks that the scan is the
straight line "first character, one test, skip it by `len_utf8()`, ONE
`eat_while`, `bump_to`".  `unicode-ident`'s predicates are parameters `xs` /
`xc`; nothing is assumed about them. -/

open RotoV.IdentScan in
/-- T5a. The generated test of the first character is "XID_Start or `_`". -/
theorem ident_first_generated (xs xc : Char → Bool) (c : Char) :
    anyTest xs xc Gen.C09IdentScan.identFirst c = (xs c || c == '_') := by
  simp only [anyTest, Gen.C09IdentScan.identFirst, List.any_cons, List.any_nil, CharTest.eval]
  cases xs c <;> cases xc c <;> cases (c == '_') <;> rfl

open RotoV.IdentScan in
/-- T5b. The generated test of every later character is XID_Continue — for
    ASCII and non-ASCII characters alike, whatever came before. -/
theorem ident_rest_generated (xs xc : Char → Bool) :
    anyTest xs xc Gen.C09IdentScan.identRest = xc := by
  funext c
  simp only [anyTest, Gen.C09IdentScan.identRest, List.any_cons, List.any_nil, CharTest.eval]
  cases xs c <;> cases xc c <;> cases (c == '_') <;> rfl

open RotoV.IdentScan in
/-- T5c. For EVERY input the scan run on the generated tests is the documented
    scan. -/
theorem ident_scan_generated (xs xc : Char → Bool) (inp : List Char) :
    scanWith Gen.C09IdentScan.identFirst Gen.C09IdentScan.identRest xs xc inp = docScan xs xc inp := by
  cases inp with
  | nil => rfl
  | cons c t =>
    simp only [scanWith, docScan, ident_first_generated, ident_rest_generated]
    cases (xs c || c == '_') <;> rfl

open RotoV.IdentScan in
/-- T5d (`ident_maximal_prefix`). For EVERY input and EVERY pair of predicates:
    `keyword_or_ident`'s scan (generated tests) yields the word `w` and leaves
    `r` IFF the input is `w ++ r`, `w` is a documented identifier word
    (XID_Start or `_`, then XID_Continue characters — any mixture of ASCII and
    non-ASCII ones) and `r` does not begin with an XID_Continue character: the
    word handed to the keyword table is the MAXIMAL `(XID_Start|_) XID_Continue*`
    prefix. -/
theorem ident_maximal_prefix (xs xc : Char → Bool) (inp w r : List Char) :
    scanWith Gen.C09IdentScan.identFirst Gen.C09IdentScan.identRest xs xc inp = some (w, r) ↔
      inp = w ++ r ∧ IsIdentWord xs xc w ∧ EndsWord xc r := by
  rw [ident_scan_generated]; exact docScan_spec xs xc inp w r

/-- non-vacuity: with "letters a, é" as XID_Start and "a, é, 1, U+0301" as
    XID_Continue, `é1á+x` scans to the word `é1á` (an ASCII
    character after a non-ASCII one, a combining mark after an ASCII one). -/
example :
    let xs : Char → Bool := fun c => c == 'a' || c == 'é'
    let xc : Char → Bool := fun c => c == 'a' || c == 'é' || c == '1' || c == Char.ofNat 0x301
    IdentScan.scanWith Gen.C09IdentScan.identFirst Gen.C09IdentScan.identRest xs xc
      ['é', '1', 'a', Char.ofNat 0x301, '+', 'x'] = some (['é', '1', 'a', Char.ofNat 0x301], ['+', 'x']) := by
  decide

open RotoV.IdentScan in
/-- T5e. No longer documented word begins the input: every prefix of the input
    that is a documented word is at most as long as the scanned one. -/
theorem ident_longest (xs xc : Char → Bool) (inp w r w' r' : List Char)
    (h : scanWith Gen.C09IdentScan.identFirst Gen.C09IdentScan.identRest xs xc inp = some (w, r))
    (hsplit : inp = w' ++ r') (hw' : IsIdentWord xs xc w') : w'.length ≤ w.length := by
  rw [ident_scan_generated] at h; exact docScan_longest xs xc inp w r w' r' h hsplit hw'

example : IdentScan.IsIdentWord (fun c => c == 'a') (fun c => c == 'a' || c == '1') ['_', '1', 'a'] :=
  ⟨'_', ['1', 'a'], rfl, Or.inr rfl, by decide⟩

open RotoV.IdentScan in
/-- T5f. The scan declines (the next recogniser is tried) IFF no prefix of the
    input is a documented word. -/
theorem ident_none_iff (xs xc : Char → Bool) (inp : List Char) :
    scanWith Gen.C09IdentScan.identFirst Gen.C09IdentScan.identRest xs xc inp = none ↔
      ∀ w r, inp = w ++ r → ¬ IsIdentWord xs xc w := by
  rw [ident_scan_generated]; exact docScan_none xs xc inp

example : IdentScan.scanWith Gen.C09IdentScan.identFirst Gen.C09IdentScan.identRest
    (fun c => c == 'a') (fun c => c == 'a' || c == '1') ['1', 'a'] = none := by decide

/-- T5g (necessity). A scan whose later characters are tested with XID_Start
    (instead of XID_Continue) cuts `á` after `a`; one whose later test also
    demands "ASCII" cuts `éa` after `é`: neither returns the maximal word. -/
theorem ident_rest_must_be_xid_continue :
    let xs : Char → Bool := fun c => c == 'a' || c == 'é'
    let xc : Char → Bool := fun c => c == 'a' || c == 'é' || c == Char.ofNat 0x301
    IdentScan.scanWith Gen.C09IdentScan.identFirst [.xidStart] xs xc ['a', Char.ofNat 0x301]
        = some (['a'], [Char.ofNat 0x301]) ∧
      IdentScan.scanWith Gen.C09IdentScan.identFirst Gen.C09IdentScan.identRest xs xc ['a', Char.ofNat 0x301]
        = some (['a', Char.ofNat 0x301], []) ∧
      IdentScan.IsIdentWord xs xc ['a', Char.ofNat 0x301] := by
  refine ⟨by decide, by decide, ⟨'a', [Char.ofNat 0x301], rfl, Or.inl (by decide), by decide⟩⟩

end RotoV.C09
