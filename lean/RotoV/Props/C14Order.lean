/-
  C14, the layout of `Lir.functions` against the item loop, for every program:
  `Lowerer::program` emits the groups of generated clone / drop / eq functions
  and the script's items in the order `RotoV.Gen.C14Emit.programOrder`
  (regenerated from src/lir/lower.rs on every run) and refers to everything by
  name; the code generator's loop works by position.  `Model/TarjanEmit` resolves
  the names for an emission order; here: with the *generated* order, the emitted
  list of every well-formed program whose script items stand in a compilation
  order satisfies the positional condition of the loop (`lirReady`, T6), so the
  loop completes and runs the initialisers in the order of the script items.
-/
import RotoV.Props.C14
import RotoV.Lemmas.TarjanEmit
import RotoV.Generated.C14Emit

namespace RotoV.C14
open RotoV.Tarjan

/-! ## T10 — the emitted item list is ready for the loop, for every program -/

/-- the emission order read from the source is one of the six that put every
generated group before the script's items (each of which `helpersFirst` accepts) -/
theorem program_order_helpers_first :
    RotoV.Gen.C14Emit.programOrder ∈ helperFirstOrders ∧ helperFirstOrders.all helpersFirst = true := by
  decide

/-- T7's checker `helpersFirst` accepts exactly the six orders that put the
three generated groups, each once, before the script's items — and for each of
them, every well-formed program whose script items stand in a compilation order
is laid out so that the positional condition of the item loop holds. -/
theorem emission_ready_of_helpers_first (o : List EmitGroup) (ho : helpersFirst o = true)
    (p : Prog) (h : progReady p = true) :
    o ∈ helperFirstOrders ∧ lirReady (lowerProg p o) = true :=
  ⟨(helpersFirst_iff o).1 ho, lirReady_of_progReady p o ((helpersFirst_iff o).1 ho) h⟩

/-- non-vacuity: a drop function that calls a clone function, a constant using both, groups in another accepted order -/
example : lirReady (lowerProg ⟨[⟨[]⟩], [⟨[(.clones, 0)]⟩], [], [⟨true, 0, [(.clones, 0)], [], []⟩]⟩
    [.eqs, .drops, .clones, .items]) = true := by decide
example : helpersFirst [.eqs, .drops, .clones, .items] = true ∧ helpersFirst [.eqs, .drops, .items] = false := by decide

/-- For every program — any number of generated clone / drop / eq functions
referring to each other in any way, any script items — that is well formed and
whose script items stand in a compilation order (`progReady`: a body reads only
constants that stand earlier; no item up to a constant calls a script function
that stands after that constant; every name refers to something that exists),
the list `Lowerer::program` emits in the order read from the source makes the
code generator's loop complete; the initialisers run exactly once each, in the
order of the script items; and whenever one runs, the constant and everything
it can reach through calls — script functions and generated functions alike —
has a finalized body and every constant read on the way was evaluated earlier.
(That the type checker's order provides `progReady` is T1/T4's content at the
level of the reference graph, and is checked on every real item list by the
harness: `lirReady` and the loop must agree there.) -/
theorem emission_order_ready (p : Prog) (h : progReady p = true) :
    ∃ st, cgLir (lowerProg p RotoV.Gen.C14Emit.programOrder) = .ok st ∧
      st.runs.map Prod.fst = (sConstIdx 0 p.items).map (p.helperCount + ·) ∧
      (∀ c D S, (c, D, S) ∈ st.runs →
        c ∈ D ∧ ∀ x, LReach (lowerProg p RotoV.Gen.C14Emit.programOrder) c x →
          x ∈ D ∧ ∀ k, LReads (lowerProg p RotoV.Gen.C14Emit.programOrder) x k →
            k ∈ S ∧ Before k c (st.runs.map Prod.fst)) := by
  have ho := program_order_helpers_first.1
  obtain ⟨st, hst, hruns, hclosed⟩ :=
    cgLir_ok_of_ready _ (lirReady_of_progReady p _ ho h)
  refine ⟨st, hst, ?_, hclosed⟩
  rw [hruns, constPositions_lowerProg p _ (layout_of_helpersFirst p _ ho)]

/-- The same from the reference graph, for every dependency graph: take any
graph `g` and components the verified checker accepts (`validOrder`, what every
run establishes for the real `tarjan`) with the two cycle tests passed; let the
script items be `mirItems g comps.flatten` — the order `find_compilation_order`
returns — with the script functions and constants each one mentions as its
references (`progOfGraph`; which generated functions an item uses and which
drop function a constant has are arbitrary, as long as they exist).  Then the
list `Lowerer::program` emits in the order read from the source makes the code
generator's loop complete, and the initialisers run once each, in that order,
each with everything it can reach defined and every constant it needs already
evaluated. -/
theorem emission_ready_for_every_graph (g : Graph) (comps : List (List Nat))
    (hv : validOrder g comps = true) (hc : NoConstCycle g comps)
    (clones drops eqs : List HItem) (helpersOf : Nat → List (EmitGroup × Nat)) (dropOf : Nat → Nat)
    (hH : (clones ++ drops ++ eqs).all (fun x => x.refs.all
      (helperOk (progOfGraph g comps.flatten clones drops eqs helpersOf dropOf))) = true)
    (hS : ∀ n, (helpersOf n).all (helperOk (progOfGraph g comps.flatten clones drops eqs helpersOf dropOf)) = true
      ∧ dropOf n < drops.length) :
    ∃ st, cgLir (lowerProg (progOfGraph g comps.flatten clones drops eqs helpersOf dropOf)
        RotoV.Gen.C14Emit.programOrder) = .ok st ∧
      st.runs.map Prod.fst =
        (sConstIdx 0 (progOfGraph g comps.flatten clones drops eqs helpersOf dropOf).items).map
          ((clones.length + drops.length + eqs.length) + ·) :=
  let ⟨st, h1, h2, _⟩ := emission_order_ready _
    (progReady_of_topo (RotoV.Tarjan.validOrder_sound g comps hv) hc clones drops eqs helpersOf dropOf hH hS)
  ⟨st, h1, h2⟩

/-- **The same without any certificate**: for every reference graph (distinct
keys) for which `find_compilation_order` returns an order `o`, the script items
of `o` emitted in the order read from the source make the code generator's loop
complete and run every initialiser once, in that order (`order_topological`
supplies what `validOrder` supplied per run). -/
theorem emission_ready_for_every_accepted_graph (g : Graph) (hkeys : g.keys.Nodup) (o : List Nat)
    (ho : findCompilationOrder g = .ok (.order o))
    (clones drops eqs : List HItem) (helpersOf : Nat → List (EmitGroup × Nat)) (dropOf : Nat → Nat)
    (hH : (clones ++ drops ++ eqs).all (fun x => x.refs.all
      (helperOk (progOfGraph g o clones drops eqs helpersOf dropOf))) = true)
    (hS : ∀ n, (helpersOf n).all (helperOk (progOfGraph g o clones drops eqs helpersOf dropOf)) = true
      ∧ dropOf n < drops.length) :
    ∃ st, cgLir (lowerProg (progOfGraph g o clones drops eqs helpersOf dropOf)
        RotoV.Gen.C14Emit.programOrder) = .ok st ∧
      st.runs.map Prod.fst =
        (sConstIdx 0 (progOfGraph g o clones drops eqs helpersOf dropOf).items).map
          ((clones.length + drops.length + eqs.length) + ·) := by
  obtain ⟨comps, ht, hoc, hc⟩ := order_inv g o ho
  subst hoc
  have topo := order_topological g hkeys comps ht
  obtain ⟨st, h1, h2, _⟩ := emission_order_ready _
    (progReady_of_topo topo hc clones drops eqs helpersOf dropOf hH hS)
  exact ⟨st, h1, h2⟩

example : findCompilationOrder ⟨[(0, [1]), (1, [2]), (2, [])], fun n => if n = 1 then .func else .const⟩
    = .ok (.order [2, 1, 0]) := by decide

/-- non-vacuity of the graph form: `K0 → f1 → K2` (the constant `K0` calls `f1`, which reads `K2`),
components `[[2], [1], [0]]`, one drop function: `K2` is evaluated before `K0` -/
example : validOrder ⟨[(0, [1]), (1, [2]), (2, [])], fun n => if n = 1 then .func else .const⟩ [[2], [1], [0]] = true := by
  decide
example : (cgLir (lowerProg (progOfGraph ⟨[(0, [1]), (1, [2]), (2, [])], fun n => if n = 1 then .func else .const⟩
    [2, 1, 0] [] [⟨[]⟩] [] (fun _ => []) (fun _ => 0)) RotoV.Gen.C14Emit.programOrder)).map
      (fun st => st.runs.map Prod.fst) = .ok [1, 3] := by decide
/-- … and in declaration order `[0, 1, 2]` the loop stops at `K0` -/
example : cgLir (lowerProg (progOfGraph ⟨[(0, [1]), (1, [2]), (2, [])], fun n => if n = 1 then .func else .const⟩
    [0, 1, 2] [] [⟨[]⟩] [] (fun _ => []) (fun _ => 0)) RotoV.Gen.C14Emit.programOrder) = .error .panic := by decide

/-- non-vacuity: one clone, one drop function; `f0`, `K1 = … f0() … clone …`, `f2` reading `K1` -/
example : progReady ⟨[⟨[]⟩], [⟨[(.clones, 0)]⟩], [],
    [⟨false, 0, [], [], []⟩, ⟨true, 0, [(.clones, 0)], [0], []⟩, ⟨false, 0, [], [0], [1]⟩]⟩ = true := by decide
example : (cgLir (lowerProg ⟨[⟨[]⟩], [⟨[(.clones, 0)]⟩], [],
    [⟨false, 0, [], [], []⟩, ⟨true, 0, [(.clones, 0)], [0], []⟩, ⟨false, 0, [], [0], [1]⟩]⟩
    RotoV.Gen.C14Emit.programOrder)).map (fun st => st.runs.map Prod.fst) = .ok [3] := by decide
/-- the same program with the clone functions emitted after the items: the loop stops at `K1` -/
example : cgLir (lowerProg ⟨[⟨[]⟩], [⟨[(.clones, 0)]⟩], [],
    [⟨false, 0, [], [], []⟩, ⟨true, 0, [(.clones, 0)], [0], []⟩, ⟨false, 0, [], [0], [1]⟩]⟩
    [.drops, .eqs, .items, .clones]) = .error .panic := by decide
/-- not a compilation order: the constant stands before the function it calls / reads a later constant -/
example : progReady ⟨[], [⟨[]⟩], [], [⟨true, 0, [], [1], []⟩, ⟨false, 0, [], [], []⟩]⟩ = false := by decide
example : cgLir (lowerProg ⟨[], [⟨[]⟩], [], [⟨true, 0, [], [1], []⟩, ⟨false, 0, [], [], []⟩]⟩
    RotoV.Gen.C14Emit.programOrder) = .error .panic := by decide
example : progReady ⟨[], [⟨[]⟩], [], [⟨true, 0, [], [], [1]⟩, ⟨true, 0, [], [], []⟩]⟩ = false := by decide

end RotoV.C14
