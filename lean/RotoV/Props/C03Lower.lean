/-
  C03, below the MIR — the MIR → LIR lowering of a block keeps every ownership event.

  `ownCheck` (T1) justifies the MIR.  `Generated/MirLower.lean` holds, as the translator reads
  them from src/lir/lower.rs on every run, the statements of `Lowerer::block`, the arms of
  `Lowerer::instruction`, the arms of `let op = match value` in `Lowerer::assign` and the
  statements of `Lowerer::drop`; `RotoV.MirLower.blockEvs` interprets them.  The theorems say
  that the clone / drop calls of the LIR block are exactly the ownership events of the MIR
  block — for EVERY block: any instructions in any order, any places (sibling fields of one
  variable included), any types — so that what T1 proves of the MIR holds of what runs.  A
  lowering that looks at more than one instruction at a time (a fused clone / drop pair, a
  skipped instruction) is outside the translated subset: the extraction fails and these
  theorems no longer check.  The driver prints `blockEvs` of the generated lowering for every
  dumped item and the harness compares it with the calls in the real LIR (`c03 lir-expect`).
-/
import RotoV.Model.MirLower
import RotoV.Generated.MirLower

namespace RotoV.C03
open RotoV.Mir RotoV.MirLower

/-- L1. One non-terminator: what `Lowerer::instruction` (through `assign` / `drop`, as written
    in the current source) emits is what the ownership semantics says the instruction does. -/
theorem instruction_lowering_keeps_events (nd : Nat → Bool) (i : Instr) :
    instrEvs RotoV.Gen.MirLower.lowering nd i = some (ownEvs nd i) := by
  cases i with
  | assign to ty v =>
    cases v <;>
      simp [instrEvs, lookup, ikind, RotoV.Gen.MirLower.lowering, RotoV.Gen.MirLower.instr,
        RotoV.Gen.MirLower.assign, assignEvs, vkinds, assignAct, cloneEv, ownEvs]
  | setDisc v ty k =>
    simp [instrEvs, lookup, ikind, RotoV.Gen.MirLower.lowering, RotoV.Gen.MirLower.instr, ownEvs]
  | drop p ty =>
    simp [instrEvs, lookup, ikind, RotoV.Gen.MirLower.lowering, RotoV.Gen.MirLower.instr,
      RotoV.Gen.MirLower.drop, dropEvs, ownEvs]

theorem each_lowering_keeps_events (nd : Nat → Bool) : ∀ is : List Instr,
    eachEvs RotoV.Gen.MirLower.lowering nd [.lower] is = some (is.flatMap (ownEvs nd))
  | [] => by simp [eachEvs]
  | i :: r => by
    simp [eachEvs, loopEvs, instruction_lowering_keeps_events, each_lowering_keeps_events nd r]

/-- L2. A whole block, EVERY block: the clone / drop calls `Lowerer::block` emits are exactly
    the ownership events of the MIR block, in order, on the same root variables and paths. -/
theorem block_lowering_keeps_events (nd : Nat → Bool) (b : Block) :
    blockEvs RotoV.Gen.MirLower.lowering nd b = some (blockOwnEvs nd b) := by
  have ht : termOk RotoV.Gen.MirLower.lowering b.term = true := by
    cases b.term <;> rfl
  have hb : RotoV.Gen.MirLower.lowering.block = [.newBlock, .forEach [.lower]] := rfl
  unfold blockEvs blockOwnEvs
  rw [hb]
  simp only [ht, if_true]
  exact each_lowering_keeps_events nd b.instrs

/-- L3. Along any path through an item (any sequence of its blocks), the LIR performs exactly
    the clone / drop calls the MIR's ownership events name: T1's verdict on the MIR is a
    verdict on the LIR. -/
theorem path_lowering_keeps_events (nd : Nat → Bool) (path : List Block) :
    path.mapM (blockEvs RotoV.Gen.MirLower.lowering nd) = some (path.map (blockOwnEvs nd)) := by
  induction path with
  | nil => rfl
  | cons b r ih => simp [List.mapM_cons, block_lowering_keeps_events, ih]

/-- the sibling assignment `w.x = w.y` as the MIR has it: `tmp = clone w.y; drop w.x; w.x = tmp` -/
def siblingAssign : Block :=
  { label := 0,
    instrs := [.assign ⟨1, []⟩ 0 (.clone ⟨0, [.fld 1]⟩), .drop ⟨0, [.fld 0]⟩ 0, .assign ⟨0, [.fld 0]⟩ 0 (.move 1)],
    term := .ret 0 }

/-- Non-vacuity: the clone of `w.y` and the drop of `w.x` both reach the LIR, as two calls on two
    different paths of one root variable. -/
example : blockEvs RotoV.Gen.MirLower.lowering (fun _ => true) siblingAssign
    = some [.clone (some 0) [.fld 1] 0, .drop 0 [.fld 0] 0] := by decide

/-- Refutation (non-vacuity of L1 in the table): a lowering whose `Drop` arm does not reach
    `Lowerer::drop` is not accepted — the interpretation is stuck instead of silently dropping
    the event. -/
theorem drop_arm_elsewhere_refuted :
    blockEvs { RotoV.Gen.MirLower.lowering with
               instr := [(.assign, .assign), (.jump, .emitJump), (.switch, .switch),
                         (.setDisc, .setDisc), (.ret, .ret), (.drop, .setDisc)] }
      (fun _ => true) siblingAssign = none := by decide

/-- Refutation: a `Clone` arm that produces an operand for `move_val` (a byte copy instead of a
    clone call) loses the clone while the drops stay: one value, two owners. -/
theorem clone_as_memcpy_refuted :
    blockEvs { RotoV.Gen.MirLower.lowering with
               assign := RotoV.Gen.MirLower.assign.map
                 (fun p => if p.1 = VKind.clone then (p.1, AssignAct.operand) else p) }
      (fun _ => true) siblingAssign = some [.drop 0 [.fld 0] 0]
    ∧ blockOwnEvs (fun _ => true) siblingAssign ≠ [.drop 0 [.fld 0] 0] := by decide

end RotoV.C03
