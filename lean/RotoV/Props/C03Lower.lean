/-
  C03, below the MIR — the MIR → LIR lowering of a block keeps every ownership event.

  `ownCheck` (T1) justifies the MIR.  `Generated/MirLower.lean` holds, as the translator reads
  them from src/lir/lower.rs on every run, the statements of `Lowerer::block`, the arms of
  `Lowerer::instruction`, the arms of `let op = match value` in `Lowerer::assign` and the
  statements of `Lowerer::drop`; `RotoV.MirLower.blockEvs` interprets them.  The theorems say
  that the clone / drop calls of the LIR block are exactly the ownership events of the MIR
  block — for EVERY block: any instructions in any order, any places (sibling fields of one
  variable included), any types — so that what T1 proves of the MIR holds of what runs.  A
  lowering that looks at more than one instruction at a time (a fused clone / drop pair, a
  skipped instruction) is outside the translated subset: the extraction fails and these
  theorems no longer check.  The driver prints `blockEvs` of the generated lowering for every
  dumped item and the harness compares it with the calls in the real LIR (`c03 lir-expect`).
-/
import RotoV.Model.MirLower
import RotoV.Generated.MirLower

namespace RotoV.C03
open RotoV.Mir RotoV.MirLower

/-- L1. One non-terminator: what `Lowerer::instruction` (through `assign` / `drop`, as written
    in the current source) emits is what the ownership semantics says the instruction does. -/
theorem instruction_lowering_keeps_events (nd : Nat → Bool) (i : Instr) :
    instrEvs RotoV.Gen.MirLower.lowering nd i = some (ownEvs nd i) := by
  cases i with
  | assign to ty v =>
    cases v <;>
      simp [instrEvs, lookup, ikind, RotoV.Gen.MirLower.lowering, RotoV.Gen.MirLower.instr,
        RotoV.Gen.MirLower.assign, assignEvs, vkinds, assignAct, cloneEv, ownEvs]
  | setDisc v ty k =>
    simp [instrEvs, lookup, ikind, RotoV.Gen.MirLower.lowering, RotoV.Gen.MirLower.instr, ownEvs]
  | drop p ty =>
    simp [instrEvs, lookup, ikind, RotoV.Gen.MirLower.lowering, RotoV.Gen.MirLower.instr,
      RotoV.Gen.MirLower.drop, dropEvs, ownEvs]

theorem each_lowering_keeps_events (nd : Nat → Bool) : ∀ is : List Instr,
    eachEvs RotoV.Gen.MirLower.lowering nd [.lower] is = some (is.flatMap (ownEvs nd))
  | [] => by simp [eachEvs]
  | i :: r => by
    simp [eachEvs, loopEvs, instruction_lowering_keeps_events, each_lowering_keeps_events nd r]

/-- L2. A whole block, EVERY block: the clone / drop calls `Lowerer::block` emits are exactly
    the ownership events of the MIR block, in order, on the same root variables and paths. -/
theorem block_lowering_keeps_events (nd : Nat → Bool) (b : Block) :
    blockEvs RotoV.Gen.MirLower.lowering nd b = some (blockOwnEvs nd b) := by
  have ht : termOk RotoV.Gen.MirLower.lowering b.term = true := by
    cases b.term <;> rfl
  have hb : RotoV.Gen.MirLower.lowering.block = [.newBlock, .forEach [.lower]] := rfl
  unfold blockEvs blockOwnEvs
  rw [hb]
  simp only [ht, if_true]
  exact each_lowering_keeps_events nd b.instrs

/-- L3. Along any path through an item (any sequence of its blocks), the LIR performs exactly
    the clone / drop calls the MIR's ownership events name: T1's verdict on the MIR is a
    verdict on the LIR. -/
theorem path_lowering_keeps_events (nd : Nat → Bool) (path : List Block) :
    path.mapM (blockEvs RotoV.Gen.MirLower.lowering nd) = some (path.map (blockOwnEvs nd)) := by
  induction path with
  | nil => rfl
  | cons b r ih => simp [List.mapM_cons, block_lowering_keeps_events, ih]

/-- the sibling assignment `w.x = w.y` as the MIR has it: `tmp = clone w.y; drop w.x; w.x = tmp` -/
def siblingAssign : Block :=
  { label := 0,
    instrs := [.assign ⟨1, []⟩ 0 (.clone ⟨0, [.fld 1]⟩), .drop ⟨0, [.fld 0]⟩ 0, .assign ⟨0, [.fld 0]⟩ 0 (.move 1)],
    term := .ret 0 }

/-- Non-vacuity: the clone of `w.y` and the drop of `w.x` both reach the LIR, as two calls on two
    different paths of one root variable. -/
example : blockEvs RotoV.Gen.MirLower.lowering (fun _ => true) siblingAssign
    = some [.clone (some 0) [.fld 1] 0, .drop 0 [.fld 0] 0] := by decide

/-- Refutation (non-vacuity of L1 in the table): a lowering whose `Drop` arm does not reach
    `Lowerer::drop` is not accepted — the interpretation is stuck instead of silently dropping
    the event. -/
theorem drop_arm_elsewhere_refuted :
    blockEvs { RotoV.Gen.MirLower.lowering with
               instr := [(.assign, .assign), (.jump, .emitJump), (.switch, .switch),
                         (.setDisc, .setDisc), (.ret, .ret), (.drop, .setDisc)] }
      (fun _ => true) siblingAssign = none := by decide

/-- Refutation: a `Clone` arm that produces an operand for `move_val` (a byte copy instead of a
    clone call) loses the clone while the drops stay: one value, two owners. -/
theorem clone_as_memcpy_refuted :
    blockEvs { RotoV.Gen.MirLower.lowering with
               assign := RotoV.Gen.MirLower.assign.map
                 (fun p => if p.1 = VKind.clone then (p.1, AssignAct.operand) else p) }
      (fun _ => true) siblingAssign = some [.drop 0 [.fld 0] 0]
    ∧ blockOwnEvs (fun _ => true) siblingAssign ≠ [.drop 0 [.fld 0] 0] := by decide

/-! ## S. The events are the token semantics' own

  L1–L3 compare the lowering with `ownEvs`, a table that says per instruction which clone / drop
  calls the ownership reading of the MIR asks for.  T1 (`checker_sound`) is about `cInstr`, the
  token semantics.  The theorems below close the gap between the two by proof instead of by
  inspection: on every step `cInstr` takes,
  * a MIR `Drop` has a drop event — on the same root and path — exactly when the step releases
    the value at that place (`whole` → `gone` / `holed` at that path), and no event exactly when
    the step changes nothing but the clock (S1);
  * a MIR `Clone` of a place has a clone event exactly when the step creates a value into the
    target without taking it from anywhere, and then the source root owned a value when it was
    read; with no event no variable and no token changes (S2); same for constants / context (S3).
  Composed with L1 (`lir_*`): the clone / drop calls in the LIR, as `Lowerer::instruction` /
  `assign` / `drop` are written today, are the releases and copies of the semantics the verified
  checker is sound for.  (A creation by a literal or a call result and a transfer by `Move` /
  call arguments involve no clone / drop function of the glue and have no event.) -/

/-- The step `c → c'` of the token semantics releases the value at place `p`: the root variable
    owned a value (`whole`) and afterwards it is `gone` (whole variable) or has a hole at exactly
    the path `p.proj`; nothing else changes but the clock. -/
def ReleasedAt (c c' : CState) (p : Place) : Prop :=
  ∃ t k, cget c p.var = .whole t k ∧
    c' = tick { c with vs := c.vs.set p.var (if p.proj = [] then .gone else .holed t k p.proj) }

/-- The step `c → c'` creates a value of type `ty` (a fresh token where the variant holds one) and
    stores it in `to`; no variable is taken from. -/
def CreatedInto (it : Item) (c c' : CState) (to : Place) (ty : Nat) : Prop :=
  ∃ k c2, cWrite it (cFresh it c ty k).1 to ty (cFresh it c ty k).2.1 (cFresh it c ty k).2.2 = .ok c2
    ∧ c' = tick c2

/-- S1. Every step the token semantics takes on a MIR `Drop`: the lowering table has the drop event
    (same root, same path) and the step releases exactly there — or it has none and the step is the
    identity up to the clock.  Nothing in between: no release without a call, no call without one. -/
theorem drop_event_iff_release (it : Item) (ω : Oracle) (c c' : CState) (p : Place) (ty : Nat)
    (h : cInstr it ω c (.drop p ty) = .ok c') :
    (ownEvs it.ndB (.drop p ty) = [.drop p.var p.proj ty] ∧ ReleasedAt c c' p)
    ∨ (ownEvs it.ndB (.drop p ty) = [] ∧ c' = tick c) := by
  simp only [cInstr, bind, Except.bind] at h
  cases hty : it.types[ty]? with
  | none => simp [Item.nd, hty] at h
  | some d =>
    have hnd : it.nd ty = .ok d.nd := by simp [Item.nd, hty]
    have hb : it.ndB ty = d.nd := by simp [Item.ndB, hty]
    rw [hnd] at h
    cases hd : d.nd with
    | false =>
      right
      simp only [hd, Bool.false_eq_true, if_false, Except.ok.injEq] at h
      exact ⟨by simp [ownEvs, hb, hd], h.symm⟩
    | true =>
      left
      simp only [hd, if_true] at h
      refine ⟨by simp [ownEvs, hb, hd], ?_⟩
      cases hp : p.proj with
      | nil =>
        simp only [hp] at h
        cases hv : it.varTy p.var with
        | error e => simp [hv] at h
        | ok vt =>
          simp only [hv] at h
          split at h
          · simp at h
          · cases hs : cget c p.var with
            | whole t k =>
              simp only [hs, cset] at h
              by_cases hl : p.var < c.vs.length
              · simp only [hl, if_true, Except.ok.injEq] at h
                exact ⟨t, k, hs, by simp [← h, hp]⟩
              · simp [hl] at h
            | un => simp [hs] at h
            | gone => simp [hs] at h
            | part d fs => simp [hs] at h
            | holed t k q => simp [hs] at h
      | cons pc rest =>
        simp only [hp] at h
        cases hv : it.varTy p.var with
        | error e => simp [hv] at h
        | ok vt =>
          simp only [hv] at h
          split at h
          · cases hs : cget c p.var with
            | whole t k =>
              simp only [hs, cset] at h
              by_cases hl : p.var < c.vs.length
              · simp only [hl, if_true, Except.ok.injEq] at h
                exact ⟨t, k, hs, by simp [← h, hp]⟩
              · simp [hl] at h
            | un => simp [hs] at h
            | gone => simp [hs] at h
            | part d fs => simp [hs] at h
            | holed t k q => simp [hs] at h
          · simp at h

/-- S2. Every step on `to = clone p`: a clone event reading from `p` and a value created into `to`
    while the root of `p` owns one — or no event, and no variable and no token changes. -/
theorem clone_event_iff_copy (it : Item) (ω : Oracle) (c c' : CState) (to p : Place) (ty : Nat)
    (h : cInstr it ω c (.assign to ty (.clone p)) = .ok c') :
    (ownEvs it.ndB (.assign to ty (.clone p)) = [.clone (some p.var) p.proj ty]
      ∧ (∃ t k, cget c p.var = .whole t k) ∧ CreatedInto it c c' to ty)
    ∨ (ownEvs it.ndB (.assign to ty (.clone p)) = [] ∧ c'.vs = c.vs ∧ c'.next = c.next) := by
  simp only [cInstr, cSource, bind, Except.bind] at h
  cases hty : it.types[ty]? with
  | none => simp [Item.nd, hty] at h
  | some d =>
    have hnd : it.nd ty = .ok d.nd := by simp [Item.nd, hty]
    have hb : it.ndB ty = d.nd := by simp [Item.ndB, hty]
    rw [hnd] at h
    cases hd : d.nd with
    | false =>
      right
      simp only [hd, Bool.false_eq_true, if_false] at h
      refine ⟨by simp [ownEvs, hb, hd], ?_⟩
      split at h
      · cases htr : it.tracked to.var with
        | error e => simp [htr] at h
        | ok b =>
          cases b with
          | true => simp [htr] at h
          | false =>
            simp only [htr, Bool.false_eq_true, if_false, Except.ok.injEq] at h
            subst h; exact ⟨rfl, rfl⟩
      · simp only [Except.ok.injEq] at h
        subst h; exact ⟨rfl, rfl⟩
    | true =>
      left
      simp only [hd, if_true] at h
      refine ⟨by simp [ownEvs, hb, hd], ?_⟩
      cases htr : it.tracked p.var with
      | error e => simp [htr] at h
      | ok b =>
        cases b with
        | false => simp [htr] at h
        | true =>
          simp only [htr, if_true] at h
          cases hs : cget c p.var with
          | whole t k =>
            simp only [hs] at h
            generalize hf : cFresh it c ty (if p.proj = [] then k else ω c.clk) = f at h
            obtain ⟨c1, tk, kk⟩ := f
            simp only at h
            cases hw : cWrite it c1 to ty tk kk with
            | error e => simp [hw] at h
            | ok c2 =>
              simp only [hw, Except.ok.injEq] at h
              exact ⟨⟨t, k, rfl⟩, _, c2, by rw [hf]; exact hw, h.symm⟩
          | un => simp [hs] at h
          | gone => simp [hs] at h
          | part d fs => simp [hs] at h
          | holed t k q => simp [hs] at h

/-- S3. The same for `load_constant` / `load_context`. -/
theorem global_event_iff_copy (it : Item) (ω : Oracle) (c c' : CState) (to : Place) (ty : Nat)
    (h : cInstr it ω c (.assign to ty .global) = .ok c') :
    (ownEvs it.ndB (.assign to ty .global) = [.clone none [] ty] ∧ CreatedInto it c c' to ty)
    ∨ (ownEvs it.ndB (.assign to ty .global) = [] ∧ c'.vs = c.vs ∧ c'.next = c.next) := by
  simp only [cInstr, cSource, bind, Except.bind] at h
  cases hty : it.types[ty]? with
  | none => simp [Item.nd, hty] at h
  | some d =>
    have hnd : it.nd ty = .ok d.nd := by simp [Item.nd, hty]
    have hb : it.ndB ty = d.nd := by simp [Item.ndB, hty]
    rw [hnd] at h
    cases hd : d.nd with
    | false =>
      right
      simp only [hd, Bool.false_eq_true, if_false] at h
      refine ⟨by simp [ownEvs, hb, hd], ?_⟩
      split at h
      · cases htr : it.tracked to.var with
        | error e => simp [htr] at h
        | ok b =>
          cases b with
          | true => simp [htr] at h
          | false =>
            simp only [htr, Bool.false_eq_true, if_false, Except.ok.injEq] at h
            subst h; exact ⟨rfl, rfl⟩
      · simp only [Except.ok.injEq] at h
        subst h; exact ⟨rfl, rfl⟩
    | true =>
      left
      simp only [hd, if_true] at h
      refine ⟨by simp [ownEvs, hb, hd], ?_⟩
      generalize hf : cFresh it c ty (ω c.clk) = f at h
      obtain ⟨c1, tk, kk⟩ := f
      simp only at h
      cases hw : cWrite it c1 to ty tk kk with
      | error e => simp [hw] at h
      | ok c2 =>
        simp only [hw, Except.ok.injEq] at h
        exact ⟨_, c2, by rw [hf]; exact hw, h.symm⟩

/-! ### composed with L1: the calls in the LIR are the releases / copies of the semantics -/

/-- S4. S1 over the lowering as written today (`Generated/MirLower`, through L1). -/
theorem lir_drop_call_iff_release (it : Item) (ω : Oracle) (c c' : CState) (p : Place) (ty : Nat)
    (h : cInstr it ω c (.drop p ty) = .ok c') :
    (instrEvs RotoV.Gen.MirLower.lowering it.ndB (.drop p ty) = some [.drop p.var p.proj ty]
      ∧ ReleasedAt c c' p)
    ∨ (instrEvs RotoV.Gen.MirLower.lowering it.ndB (.drop p ty) = some [] ∧ c' = tick c) := by
  rw [instruction_lowering_keeps_events]
  rcases drop_event_iff_release it ω c c' p ty h with ⟨h1, h2⟩ | ⟨h1, h2⟩
  · exact .inl ⟨by rw [h1], h2⟩
  · exact .inr ⟨by rw [h1], h2⟩

/-- S5. S2 over the lowering as written today. -/
theorem lir_clone_call_iff_copy (it : Item) (ω : Oracle) (c c' : CState) (to p : Place) (ty : Nat)
    (h : cInstr it ω c (.assign to ty (.clone p)) = .ok c') :
    (instrEvs RotoV.Gen.MirLower.lowering it.ndB (.assign to ty (.clone p))
        = some [.clone (some p.var) p.proj ty]
      ∧ (∃ t k, cget c p.var = .whole t k) ∧ CreatedInto it c c' to ty)
    ∨ (instrEvs RotoV.Gen.MirLower.lowering it.ndB (.assign to ty (.clone p)) = some []
      ∧ c'.vs = c.vs ∧ c'.next = c.next) := by
  rw [instruction_lowering_keeps_events]
  rcases clone_event_iff_copy it ω c c' to p ty h with ⟨h1, h2⟩ | ⟨h1, h2⟩
  · exact .inl ⟨by rw [h1], h2⟩
  · exact .inr ⟨by rw [h1], h2⟩

/-- S6. S3 over the lowering as written today. -/
theorem lir_global_clone_call_iff_copy (it : Item) (ω : Oracle) (c c' : CState) (to : Place) (ty : Nat)
    (h : cInstr it ω c (.assign to ty .global) = .ok c') :
    (instrEvs RotoV.Gen.MirLower.lowering it.ndB (.assign to ty .global) = some [.clone none [] ty]
      ∧ CreatedInto it c c' to ty)
    ∨ (instrEvs RotoV.Gen.MirLower.lowering it.ndB (.assign to ty .global) = some []
      ∧ c'.vs = c.vs ∧ c'.next = c.next) := by
  rw [instruction_lowering_keeps_events]
  rcases global_event_iff_copy it ω c c' to ty h with ⟨h1, h2⟩ | ⟨h1, h2⟩
  · exact .inl ⟨by rw [h1], h2⟩
  · exact .inr ⟨by rw [h1], h2⟩

/-- two variables of a droppable type 0, one of a scalar type 1 -/
def semItem : Item :=
  { types := [⟨true, .opaque⟩, ⟨false, .opaque⟩], vars := [0, 0, 1], params := [], retTy := 0, blocks := [] }

/-- variable 0 owns token 0 -/
def semState : CState := { vs := [.whole (some 0) 0, .un, .un], sc := [], next := 1, clk := 0 }

/-- Non-vacuity of S1, active side: a drop that executes and releases. -/
example : ∃ c', cInstr semItem (fun _ => 0) semState (.drop ⟨0, []⟩ 0) = .ok c'
    ∧ ReleasedAt semState c' ⟨0, []⟩ := ⟨_, rfl, _, _, rfl, rfl⟩

/-- … silent side: the drop of a scalar is no call and no release. -/
example : cInstr semItem (fun _ => 0) semState (.drop ⟨2, []⟩ 1) = .ok (tick semState) := rfl

/-- Non-vacuity of S2: a clone that executes, reads a live source and creates into `to`. -/
example : ∃ c', cInstr semItem (fun _ => 0) semState (.assign ⟨1, []⟩ 0 (.clone ⟨0, []⟩)) = .ok c'
    ∧ CreatedInto semItem semState c' ⟨1, []⟩ 0 := ⟨_, rfl, 0, _, rfl, rfl⟩

/-- Non-vacuity of S3. -/
example : ∃ c', cInstr semItem (fun _ => 0) semState (.assign ⟨1, []⟩ 0 .global) = .ok c'
    ∧ CreatedInto semItem semState c' ⟨1, []⟩ 0 := ⟨_, rfl, 0, _, rfl, rfl⟩

/-- The link has consequences: a lowering that emitted the drop call of one MIR `Drop` twice
    performs, in the semantics the checker is sound for, a double drop. -/
theorem drop_call_twice_is_double_drop :
    cRun semItem (fun _ => 0) semState [.drop ⟨0, []⟩ 0, .drop ⟨0, []⟩ 0] = .error .doubleDrop := rfl

/-! ### whole runs -/

/-- what S1–S3 say of the step `c → c'` on instruction `i` -/
def StepSpec (it : Item) (c c' : CState) : Instr → Prop
  | .drop p ty =>
    (ownEvs it.ndB (.drop p ty) = [.drop p.var p.proj ty] ∧ ReleasedAt c c' p)
    ∨ (ownEvs it.ndB (.drop p ty) = [] ∧ c' = tick c)
  | .assign to ty (.clone p) =>
    (ownEvs it.ndB (.assign to ty (.clone p)) = [.clone (some p.var) p.proj ty]
      ∧ (∃ t k, cget c p.var = .whole t k) ∧ CreatedInto it c c' to ty)
    ∨ (ownEvs it.ndB (.assign to ty (.clone p)) = [] ∧ c'.vs = c.vs ∧ c'.next = c.next)
  | .assign to ty .global =>
    (ownEvs it.ndB (.assign to ty .global) = [.clone none [] ty] ∧ CreatedInto it c c' to ty)
    ∨ (ownEvs it.ndB (.assign to ty .global) = [] ∧ c'.vs = c.vs ∧ c'.next = c.next)
  | i => ownEvs it.ndB i = []

/-- a run of the token semantics in which every step is the release / copy its events name -/
def RunSpec (it : Item) (ω : Oracle) : CState → List Instr → CState → Prop
  | c, [], c' => c' = c
  | c, i :: is, c' => ∃ c1, cInstr it ω c i = .ok c1 ∧ StepSpec it c c1 i ∧ RunSpec it ω c1 is c'

theorem step_events_are_semantic (it : Item) (ω : Oracle) (c c' : CState) (i : Instr)
    (h : cInstr it ω c i = .ok c') : StepSpec it c c' i := by
  cases i with
  | drop p ty => exact drop_event_iff_release it ω c c' p ty h
  | setDisc v ty k => rfl
  | assign to ty v =>
    cases v with
    | clone p => exact clone_event_iff_copy it ω c c' to p ty h
    | global => exact global_event_iff_copy it ω c c' to ty h
    | lit => rfl
    | move w => rfl
    | read vs => rfl
    | call args => rfl
    | disc x => rfl

/-- S7. Every run of the token semantics over an instruction list — the runs `checker_sound`
    speaks about — is, step by step and in order, the releases and copies named by the events;
    by L2 the concatenation of these events is the list of clone / drop calls of the LIR block. -/
theorem run_events_are_semantic (it : Item) (ω : Oracle) : ∀ (is : List Instr) (c c' : CState),
    cRun it ω c is = .ok c' → RunSpec it ω c is c'
  | [], c, c', h => by
    simp only [cRun, Except.ok.injEq] at h
    exact h.symm
  | i :: is, c, c', h => by
    simp only [cRun, bind, Except.bind] at h
    cases h1 : cInstr it ω c i with
    | error e => simp [h1] at h
    | ok c1 =>
      simp only [h1] at h
      exact ⟨c1, h1, step_events_are_semantic it ω c c1 i h1, run_events_are_semantic it ω is c1 c' h⟩

/-- S8. A block as lowered today: its LIR calls are the concatenated events, and every run of its
    instructions performs exactly these releases / copies, in this order. -/
theorem block_run_calls_are_semantic (it : Item) (ω : Oracle) (b : Block) (c c' : CState)
    (h : cRun it ω c b.instrs = .ok c') :
    blockEvs RotoV.Gen.MirLower.lowering it.ndB b = some (b.instrs.flatMap (ownEvs it.ndB))
    ∧ RunSpec it ω c b.instrs c' :=
  ⟨block_lowering_keeps_events it.ndB b, run_events_are_semantic it ω b.instrs c c' h⟩

/-- Non-vacuity of S7 / S8: clone then drop of the source runs, with both events. -/
example : ∃ c', cRun semItem (fun _ => 0) semState
    [.assign ⟨1, []⟩ 0 (.clone ⟨0, []⟩), .drop ⟨0, []⟩ 0] = .ok c' := ⟨_, rfl⟩

end RotoV.C03
