/-
  C07 — ill-typed scripts never compile.

  Models: `Model/Typing.lean` (the documented rules as an executable
  declarative checker `D` with flexible types — the oracle that decides whether
  a mutant is ill-typed), `Model/TcRules.lean` (the operator/operand acceptance
  of `TypeChecker::binop` / `Negate` / `Not`, the variant bookkeeping of
  `match_expr`, `ScopeGraph::insert_declaration`), `Model/Unify.lean`
  (`unify_inner` over the union-find store).  The hand-written models are tied
  to src/typechecker by differential runs on every check (whole operator table,
  random match heads, random unification scripts through a hook, and the
  property's own quantifier: well-typed generated scripts + one type-breaking
  edit); the facts `Generated/C07Facts.lean` are regenerated from the source.
-/
import RotoV.Model.Typing
import RotoV.Model.TcRules
import RotoV.Model.UnifyTc
import RotoV.Lemmas.TcRules
import RotoV.Lemmas.UnifyTc
import RotoV.Lemmas.TypingMono
import RotoV.Lemmas.TypingProg
import RotoV.Model.TcInfer
import RotoV.Model.TcInferPinned
import RotoV.Generated.C07Arms
import RotoV.Lemmas.TcInferUnify
import RotoV.Lemmas.TcInferSoundMain
import RotoV.Lemmas.TcInferObls
import RotoV.Lemmas.TcInferProg

namespace RotoV.C07
open RotoV.Typing RotoV.TcRules
open RotoV.Gen

/-! ## T1 — operator rules -/

/-- **T1 `op_rules_sound`.** Whatever operand shapes `TypeChecker::binop`
    accepts for an operator are allowed by the documented rules, and the type it
    gives the expression is the documented one: logical operators on booleans,
    `== !=` on two operands of one type, ordering and arithmetic on two numeric
    operands of one type (`+` also on two Strings or two lists of one type),
    `%` on integers only — the one documented exception being `IpAddr / u8`,
    which builds a `Prefix`. For every operator and every pair of operand shapes
    (all 13 × 24 × 24 combinations of `OTy`). -/
theorem op_rules_sound (op : BinOp) (l r res : OTy) (h : binopReal op l r = some res) :
    (op = .div ∧ l = .ipAddr ∧ compat r.toTy (.int .u8) = true ∧ res = .prefix) ∨
    (∃ t, binopTy op l.toTy r.toTy = some t ∧ compat t res.toTy = true ∧
      (isNumeric t = false → t = res.toTy)) :=
  opRowOk_sound op l r res (opTable_ok op l r) h

example : binopReal .add (.intVar false) (.int .u8) = some (.int .u8) := by decide
example : binopReal .lt .bool .bool = none := by decide
example : binopReal .mod .f64 .f64 = none := by decide

/-- **T1 (unary minus).** `Negate` accepts signed integers, integer literals
    (which thereby become must-be-signed) and floats — nothing else; in
    particular no unsigned integer and no non-number. -/
theorem negate_rules_sound (t res : OTy) (h : negateReal t = some res) :
    negTy t.toTy = some res.toTy ∧ t ≠ .int .u8 ∧ t ≠ .int .u16 ∧ t ≠ .int .u32 ∧ t ≠ .int .u64 := by
  cases t with
  | int i => cases i <;> simp [negateReal, ITy.signed, C07Facts.negateRejectsUnsigned] at h <;> subst h <;> simp [negTy, isNegatable, OTy.toTy, ITy.signed]
  | intVar b => simp [negateReal, C07Facts.negateMarksSigned] at h; subst h; simp [negTy, isNegatable, OTy.toTy]
  | f32 | f64 | floatVar => simp [negateReal] at h; subst h; simp [negTy, isNegatable, OTy.toTy]
  | _ => simp [negateReal, C07Facts.negateRequiresNumeric] at h

example : negateReal (.int .i16) = some (.int .i16) := by decide

/-- **T1 (`!`).** `Not` accepts a boolean only. -/
theorem not_rules_sound (t res : OTy) (h : notReal t = some res) : t = .bool ∧ res = .bool := by
  cases t with
  | int i => cases i <;> simp [notReal, uFlat, C07Facts.notOperandBool] at h
  | intVar b => cases b <;> simp [notReal, uFlat, C07Facts.notOperandBool] at h
  | bool => simp [notReal, uFlat, C07Facts.notOperandBool] at h; exact ⟨rfl, h.symm⟩
  | _ => simp [notReal, uFlat, C07Facts.notOperandBool] at h

example : notReal .bool = some .bool := by decide

/-- **Assignment targets.** `Assign` and `CompoundAssign` accept a path only if
    its root is a local variable — not a constant, not a context variable
    (whether the test is in the arm is regenerated from src/typechecker/expr.rs). -/
theorem assign_non_local_rejected (compound : Bool) (k : VKind)
    (h : assignAccepts compound k = true) : k = .local := by
  revert h; cases compound <;> cases k <;> decide

example : assignAccepts false .local = true := by decide

/-- (refutation on the unchanged tree, repaired by `fix:` 60afd4a) without the
    test the arm accepts `A = 6` for a constant `A`:
    `const A: i32 = 5; fn main() -> i32 { A = 6; A }` compiled. -/
theorem assign_without_test_accepts_constant :
    assignAcceptsWith false .constant = true ∧ assignAcceptsWith false .context = true := by decide

/-! ## T3 (oracle side) — the declarative checker only rejects what has no typing

  FULL STATEMENT (DESIGN §4 C07 T3 `infer_sound`): acceptance by
  `TypeChecker::expr` implies a declarative typing. NOT proved (there is no
  Lean model of the inference algorithm as a whole).
  What is proved instead concerns the ORACLE that decides which mutants count:
  on the whole core language EXCEPT diverging constructs (`return` / `accept` /
  `reject`) and the two literals whose type no annotation can fix in place
  (`Option.None`, `[]`; also a `match` without arms) — i.e. literals,
  variables, constants, field access, unary and binary operators, if (with and
  without else), while, for, match with guards and `_`, blocks with `let` and
  expression statements, calls, enum and `Option.Some` constructors, record and
  list literals, f-strings, `?`, assignment and compound assignment to locals
  and their fields — the flexible types of
  `D` never cause a rejection: if SOME way of filling in the omitted literal
  suffixes and `let` annotations (`fillsE e e'`) gives a script that the plain
  ground reading of the rules accepts, then `D` accepts the script as written.
  Contrapositive: a script `D` rejects has no well-typed completion — it is
  ill-typed whatever inference picks. For the excluded constructs (whose types
  are `never` / `unknown`, compatible with everything) this is argued in the
  comments of
  Model/Typing.lean and tested (every generated well-typed original must be
  accepted by `D`: 0 slips in 400 000), not proved. -/

/-- **`declarative_checker_monotone_partial`** (expressions). -/
theorem declarative_checker_monotone_partial (env : Env) (henv : envGround env = true) (ctx : Ctx)
    (e e' : Expr) (g g' : Gamma)
    (tg : Ty) (d' : Bool) (hf : fillsE e e' = true) (hg : gammaInst g g' = true)
    (h : synth env ctx g' e' = .ok (tg, d')) :
    ∃ tf, synth env ctx g e = .ok (tf, false) ∧ inst tf tg = true ∧ ground tg = true :=
  (monoE env henv ctx e e' g g' tg d' hf hg h).2

/-- … hence what `D` rejects has no well-typed completion -/
theorem declarative_rejection_sound_partial (env : Env) (henv : envGround env = true) (ctx : Ctx)
    (e e' : Expr) (g g' : Gamma)
    (hf : fillsE e e' = true) (hg : gammaInst g g' = true)
    (hrej : ∀ t d, synth env ctx g e ≠ .ok (t, d)) :
    ∀ t d, synth env ctx g' e' ≠ .ok (t, d) := by
  intro t d h
  obtain ⟨tf, h1, _, _⟩ := declarative_checker_monotone_partial env henv ctx e e' g g' t d hf hg h
  exact hrej tf false h1

/-- the same for a whole function item: if the completion of the body passes,
    the function as written passes -/
theorem declarative_fn_monotone_partial (env : Env) (henv : envGround env = true) (p : Prog) (n : Nat)
    (params : List (Nat × Ty))
    (rt : Ty) (body body' : Block) (hf : fillsB body body' = true)
    (h : checkDecl env p (.fn n params rt body') = .ok ()) :
    checkDecl env p (.fn n params rt body) = .ok () :=
  checkDecl_fn_mono env henv p n params rt body body' hf h

/-- the same for a whole program (`checkProg`: unique item names, every
    function, constant — including the "constants are not recursive" rule —
    and type declaration): if a completion of the script passes, the script as
    written passes; so a script the declarative checker rejects has no
    completion that passes. `FillsP` relates declaration lists item by item:
    same signatures and type declarations, bodies and initialisers filled in. -/
theorem declarative_program_monotone_partial (p p' : Prog) (h : FillsP p p')
    (hok : checkProg p' = .ok ()) : checkProg p = .ok () :=
  checkProg_mono p p' h hok

theorem declarative_program_rejection_sound_partial (p : Prog) (hrej : accepts p = false)
    (p' : Prog) (h : FillsP p p') : accepts p' = false := by
  unfold accepts at hrej ⊢
  cases hp' : checkProg p' with
  | error err => rfl
  | ok u =>
    cases u
    rw [declarative_program_monotone_partial p p' h hp'] at hrej
    cases hrej

/-- non-vacuity: `let x = 5; x + 1u8` is accepted through its completion
    `let x: u8 = 5u8; x + 1u8`, and `5 + true` is rejected -/
example :
    fillsB (.mk [.let_ 0 none (.intLit none)] (some (.bin .add (.var 0) (.intLit (some .u8)))))
      (.mk [.let_ 0 (some (.int .u8)) (.intLit (some .u8))] (some (.bin .add (.var 0) (.intLit (some .u8))))) = true ∧
    (match synthBlock ⟨[], [], []⟩ ⟨none⟩ [[]]
        (.mk [.let_ 0 none (.intLit none)] (some (.bin .add (.var 0) (.intLit (some .u8))))) with
      | .ok (.int .u8, false) => true | _ => false) = true ∧
    (match synth ⟨[], [], []⟩ ⟨none⟩ [[]] (.bin .add (.intLit none) .boolLit) with
      | .error _ => true | _ => false) = true := by decide +kernel

/-! ## T2 — unification

  FULL STATEMENT (DESIGN §4 C07 T2, not proved in this form):
    if `unify a b` succeeds then the fully resolved `a` and `b` are equal up to
    `Never`; an `IntVar` only ever resolves to an integer type (a signed one
    if `MustBeSigned`), a `FloatVar` only to a float type, a `RecordVar` only
    to a record with exactly those fields.
  PROVED below (`unify_sound_partial` and its corollaries), for every history
  of `fresh_*` / `unify` / `Negate`-marking steps on the union-find store and
  every fuel: the *kind discipline* — a slot created by `fresh_int` never
  resolves to anything but an integer-literal variable or a parameterless
  integer type, and once it has been negated only to a must-be-signed variable
  or a *signed* integer type; a `fresh_float` slot only to a float variable or
  float type; a `fresh_record` slot only to a record variable, an anonymous
  record or a named record type with exactly the field names it was created
  with (a permutation: `unify_fields` matches fields by name).
  MISSING: equality of the two resolved sides after a successful `unify`
  (needs deep resolution through pointer chains). It is covered by the
  differential run of `Unify.unify` against the real `unify_inner` (hook) and
  by the literal-variable / record-literal / generic-instantiation phases, not
  by a theorem. -/

open RotoV.Unify in
/-- **T2 `unify_sound_partial`.** After ANY history of steps on the store
    (well-formed: every type mentions a variable only at the kind it was created
    with), whatever `find` returns for a slot is admissible for the kind of
    that slot (`Resolved`). The predicates the `IntVar × Name` and
    `FloatVar × Name` arms ask (`is_signed_int` / `is_int` / `is_float`, no type
    arguments) and the priority rule of `unify_intvars` are read off the source
    on every run (`Gen.C07Facts`), so dropping the `MustBeSigned` test breaks
    this proof. -/
theorem unify_sound_partial (d : Defs) (fuel : Nat) (ops : List Op)
    (hd : DefsOk d (kindOf ops)) (hwf : ∀ op ∈ ops, op.ok (kindOf ops) = true)
    (n i : Nat) (t : MTy) (h : find (run d fuel ops).s n i = some t) :
    Resolved d (kindOf ops) (run d fuel ops).D i t :=
  find_resolved (run_inv d fuel ops hd hwf) n i t h

open RotoV.Unify in
/-- an integer-literal variable only ever resolves to an integer type -/
theorem intvar_only_integers (d : Defs) (fuel : Nat) (ops : List Op)
    (hd : DefsOk d (kindOf ops)) (hwf : ∀ op ∈ ops, op.ok (kindOf ops) = true)
    (n i : Nat) (t : MTy) (hk : kindOf ops i = .iv) (h : find (run d fuel ops).s n i = some t) :
    (∃ j sg, t = .intVar j sg) ∨ (∃ m, t = .name m [] ∧ d.isInt m = true) := by
  have := unify_sound_partial d fuel ops hd hwf n i t h
  unfold Resolved at this
  rw [hk] at this
  rcases this with ⟨j, sg, he, _⟩ | ⟨m, he, hi, _⟩
  · exact Or.inl ⟨j, sg, he⟩
  · exact Or.inr ⟨m, he, hi⟩

open RotoV.Unify in
/-- … and, once negated, only to a signed one (or to a variable that is itself
    marked must-be-signed) -/
theorem must_be_signed_respected (d : Defs) (fuel : Nat) (pre post : List Op) (u : MTy)
    (hd : DefsOk d (kindOf (pre ++ .mark u :: post)))
    (hwf : ∀ op ∈ pre ++ .mark u :: post, op.ok (kindOf (pre ++ .mark u :: post)) = true)
    (i : Nat) (hneg : resolve (run d fuel pre).s u = some (.intVar i false))
    (hk : kindOf (pre ++ .mark u :: post) i = .iv)
    (n : Nat) (t : MTy) (h : find (run d fuel (pre ++ .mark u :: post)).s n i = some t) :
    (∃ j, t = .intVar j true) ∨ (∃ m, t = .name m [] ∧ d.isSignedInt m = true) := by
  have hD := mark_persists d fuel pre post u i hneg
  have := unify_sound_partial d fuel _ hd hwf n i t h
  unfold Resolved at this
  rw [hk] at this
  rcases this with ⟨j, sg, he, hs⟩ | ⟨m, he, _, hs⟩
  · have := hs hD; subst this; exact Or.inl ⟨j, he⟩
  · exact Or.inr ⟨m, he, hs hD⟩

open RotoV.Unify in
/-- a float-literal variable only ever resolves to a float type -/
theorem floatvar_only_floats (d : Defs) (fuel : Nat) (ops : List Op)
    (hd : DefsOk d (kindOf ops)) (hwf : ∀ op ∈ ops, op.ok (kindOf ops) = true)
    (n i : Nat) (t : MTy) (hk : kindOf ops i = .fv) (h : find (run d fuel ops).s n i = some t) :
    (∃ j, t = .floatVar j) ∨ (∃ m, t = .name m [] ∧ d.isFloat m = true) := by
  have := unify_sound_partial d fuel ops hd hwf n i t h
  unfold Resolved at this
  rw [hk] at this
  exact this

open RotoV.Unify in
/-- a record variable only ever resolves to a record with exactly the fields it
    was created with (as a multiset of names: `unify_fields` matches by name,
    in any order): another record variable, an anonymous record type, or a
    named record type -/
theorem recordvar_only_records (d : Defs) (fuel : Nat) (ops : List Op)
    (hd : DefsOk d (kindOf ops)) (hwf : ∀ op ∈ ops, op.ok (kindOf ops) = true)
    (n i : Nat) (t : MTy) (N : List Nat) (hk : kindOf ops i = .rv N)
    (h : find (run d fuel ops).s n i = some t) :
    (∃ j fs, t = .recordVar j fs ∧ (fnames fs).Perm N) ∨ (∃ fs, t = .record fs ∧ (fnames fs).Perm N) ∨
    (∃ m args nfs, t = .name m args ∧ d.recordFields m = some nfs ∧ (fnames nfs).Perm N) := by
  have := unify_sound_partial d fuel ops hd hwf n i t h
  unfold Resolved at this
  rw [hk] at this
  exact this

open RotoV.Unify in
/-- **No value fits an expected `!`.** `unify(expected, found)` with expected
    `!` fails for every found type that is a value type (a named type, `()`, a
    record, a function) — only a found `!` (a diverging expression) or an
    unbound variable is accepted. (The arm of `unify_inner` and the shortcut of
    `unify` are read off the source on every run.) -/
theorem never_expected_rejects_values (d : Defs) (fuel : Nat) (s : Store) (found : MTy)
    (hv : (∃ n args, found = .name n args) ∨ found = .unit ∨ (∃ fs, found = .record fs) ∨
      (∃ ps r, found = .func ps r)) :
    unifyTop d (fuel + 1) s .never found = .fail s := by
  have h1 : C07Facts.unifyFoundNeverFitsAll = true := by decide
  have h2 := fact_no_never_arm
  rcases hv with ⟨n, args, rfl⟩ | rfl | ⟨fs, rfl⟩ | ⟨ps, r, rfl⟩ <;>
    simp [unifyTop, h1, resolve, MTy.varIndex, unify, plan, planArms, planArmsWith, h2, planCore,
      BEq.beq, MTy.beq]

open RotoV.Unify in
/-- … while a diverging expression fits any expected type -/
theorem never_found_fits_all (d : Defs) (fuel : Nat) (s : Store) (expected : MTy)
    (he : expected.varIndex = none) :
    unifyTop d fuel s expected .never = .ok expected s := by
  have h1 : C07Facts.unifyFoundNeverFitsAll = true := by decide
  have hr : resolve s expected = some expected := by unfold resolve; rw [he]
  have hn : resolve s MTy.never = some MTy.never := rfl
  simp [unifyTop, h1, hr, hn]

/-- (refutation on the unchanged tree, repaired by a `fix:` commit) with the arm
    `(Never, x) | (x, Never) => x` inside `unify_inner` an `i32` value unified
    with an expected `!`: `fn f() -> ! { 1 }` passed the type checker and
    panicked in lowering ("should be a type error"). -/
theorem never_arm_accepted_values (d : RotoV.Unify.Defs) (s : RotoV.Unify.Store) :
    RotoV.Unify.planArmsWith true d s 1 .never (.name 6 []) = .same (.name 6 []) := by
  rfl

/-- non-vacuity of the hypotheses of `unify_sound_partial`: a well-formed history -/
example :
    let ops : List RotoV.Unify.Op := [.fresh .iv [], .fresh (.rv [0]) [(0, .intVar 0 false)], .mark (.intVar 0 false),
      .unify (.recordVar 1 [(0, .intVar 0 false)]) (.record [(0, .name 6 [])])]
    (ops.all fun op => op.ok (RotoV.Unify.kindOf ops)) = true := by decide

/-- non-vacuity: `let y = 1; -y;` then `y` against `i32` unifies, against `u32` does not -/
example :
    let d : RotoV.Unify.Defs := fun n => if n < 4 then .int false else if n < 8 then .int true else .other
    let ops : List RotoV.Unify.Op := [.fresh .iv [], .mark (.intVar 0 false), .unify (.intVar 0 false) (.name 2 []),
      .unify (.intVar 0 false) (.name 6 [])]
    (match RotoV.Unify.find (RotoV.Unify.run d 8 ops).s 4 0 with
      | some (.name 6 []) => true | _ => false) = true := by decide +kernel

/-! ## T4 — match bookkeeping -/

/-- **T4 `match_exhaustive`.** If `match_expr` accepts the arms of a match on
    an enum whose variant names are distinct, then no arm follows an unguarded
    `_`, every pattern names an existing variant with the right number of
    (distinct) binders, and the match is exhaustive: there is an unguarded `_`
    or every variant has an unguarded arm. For all variant lists and all arm
    lists. -/
theorem match_exhaustive (vs : List (PatName × Nat)) (arms : List ArmHead)
    (hnd : (vs.map (·.1)).Nodup) (h : matchReal vs arms = none) :
    NoArmAfterDefault arms ∧ PatternsOk vs arms ∧
    (HasDefault arms ∨ ∀ v ∈ vs, ∃ a ∈ arms, a.guarded = false ∧ ∃ bs, a.pat = .variant v.1 bs) :=
  matchReal_sound vs arms hnd h

example : matchReal [(.some, 1), (.none, 0)] [⟨.variant .some (some [0]), false⟩, ⟨.variant .none none, false⟩] = none := by
  decide

/-- **T4 (unreachable arms).** If `match_expr` accepts, no arm names a variant
    that an earlier unguarded arm already covers (such an arm can never run);
    together with `match_exhaustive` (nothing follows an unguarded `_`) no
    accepted match has an unreachable arm. Whether a repeated variant is an
    error is read off the source on every run: on the unchanged tree it only
    printed a warning (`match x { Some(y) => 1, Some(y) => 2, None => 3 }`
    compiled) — repaired by a `fix:` commit. -/
theorem match_no_unreachable_arm (vs : List (PatName × Nat)) (arms : List ArmHead)
    (h : matchReal vs arms = none) : NoRepeatedVariant arms :=
  matchReal_norepeat vs arms (by decide) h

example :
    matchReal [(.some, 1), (.none, 0)]
      [⟨.variant .some (some [0]), false⟩, ⟨.variant .some (some [0]), false⟩, ⟨.variant .none none, false⟩]
      = some .unreachableDuplicate := by decide

/-! ## T5 — declarations -/

/-- **T5 `scope_no_redeclare`.** `insert_declaration` never lets a second
    declaration of a name into a scope: once a key holds a declaration that is
    not a forward stub (a variable, a defined constant / function / method /
    type, a module, a type parameter), every further insertion under that key is
    rejected ("declared multiple times"), whatever it declares; and a stub is
    only ever replaced by the definition it stands for. For every table. -/
theorem scope_no_redeclare (t : Table) (k : Key) (old new : DKind)
    (hk : t.lookup k = some old) :
    (isStub old = false → insertDecl t k new = none) ∧
    (∀ t', insertDecl t k new = some t' → defines new old) :=
  insertDecl_occupied t k old new hk

/-- **T5 for whole sequences.** In an accepted sequence of declarations,
    whatever is declared again later under the same (scope, name) was a forward
    stub: no variable, defined constant / function / method / type, module or
    type parameter is ever redeclared in its scope. For all sequences, from any
    starting table. -/
theorem scope_no_redefinition (ds : List (Key × DKind)) (t0 t : Table) (h : insertAll t0 ds = some t)
    (pre : List (Key × DKind)) (a : Key × DKind) (rest : List (Key × DKind)) (hsplit : ds = pre ++ a :: rest)
    (b : Key × DKind) (hb : b ∈ rest) (hk : a.1 = b.1) : isStub a.2 = true :=
  insertAll_no_redefinition ds t0 t h pre a rest hsplit b hb hk

/-- keys stay unique: an accepted sequence of insertions never yields a table
    with two entries for one (scope, name) -/
theorem scope_keys_unique (ds : List (Key × DKind)) (t : Table) (h : insertAll [] ds = some t) :
    (t.map (·.1)).Nodup :=
  insertAll_nodup ds [] t (by simp) h

example : insertAll [] [((1, 5), .valueLocal), ((1, 5), .valueLocal)] = none := by decide
example : (insertAll [] [((1, 5), .function false), ((1, 5), .function true)]).isSome = true := by decide

/-! ## T2, the other half — a successful unification equates the two types

  For the types the core language can produce (`TcInfer.WT`: variables, literal
  variables, `()`, type names applied to the right number of well-formed
  arguments — no anonymous records, no function types, no `!` inside): a
  successful `unify_inner` leaves a well-formed store, only ever STRENGTHENS it
  (every solution of the new store solves the old one), and every solution of
  the new store gives the two types the same meaning. "Solution" is semantic
  (`TcInfer.Sat`: a valuation of all variables under which every slot's content
  denotes the slot's value and literal variables have values of their kind —
  an integer type, a signed one once negated, a float type), so no pointer chain
  has to be followed. For every store, every pair of types, every fuel. -/

open RotoV.Unify RotoV.TcInfer in
/-- **T2 `unify_equates`.** -/
theorem unify_equates (env : Env) (fuel : Nat) (s s' : Store) (a b t : MTy)
    (hW : WTs s) (ha : WT a = true) (hb : WT b = true)
    (h : unify (mkDefs env) fuel s a b = .ok t s') :
    WTs s' ∧ ∀ σ : Val, Sat σ s' → Sat σ s ∧ den σ a = den σ b :=
  (unify_sound (mkDefs_std env) fuel).1 s a b t s' hW ha hb h

open RotoV.Unify RotoV.TcInfer in
/-- the same for `TypeChecker::unify(expected, found)` -/
theorem unify_top_equates (env : Env) (fuel : Nat) (s s' : Store) (a b t : MTy)
    (hW : WTs s) (ha : WT a = true) (hb : WT b = true)
    (h : unifyTop (mkDefs env) fuel s a b = .ok t s') :
    WTs s' ∧ ∀ σ : Val, Sat σ s' → Sat σ s ∧ den σ a = den σ b :=
  unifyTop_sound (mkDefs_std env) fuel s a b t s' hW ha hb h

open RotoV.Unify RotoV.TcInfer in
/-- non-vacuity: `let y = 1;` then `y` against `Option[i8]`'s argument — the
    store has a solution, and it sends the literal variable to `i8` -/
example :
    let s : Store := [.intVar 0 false, .var 1]
    (match unify (mkDefs ⟨[], [], []⟩) 8 s (tOption (.intVar 0 false)) (tOption (.name 4 [])) with
      | .ok _ s' => s' == [.name 4 [], .var 1]
      | _ => false) = true := by decide +kernel

/-! ## T3 — the inference pass is the code's -/

/-- **The arms of `TypeChecker::expr` are the ones `Model/TcInfer.lean` was
    written from**: which helper each arm calls, in which order, with which
    expected type (`Generated/C07Arms.lean`, regenerated from
    src/typechecker/expr.rs on every run, against the pinned copy). -/
theorem expr_arms_as_modelled : C07Arms.exprArms = TcInferPinned.exprArms := rfl
/-- … the arms of `TypeChecker::stmt` -/
theorem stmt_arms_as_modelled : C07Arms.stmtArms = TcInferPinned.stmtArms := rfl
/-- … the arms of `TypeChecker::literal` -/
theorem literal_arms_as_modelled : C07Arms.literalArms = TcInferPinned.literalArms := rfl
/-- … `block`, `match_expr`, `binop`, `check_arguments`, `record_fields`,
    `path_function_call`, `method_call`, `access_field`, `function`, `constant`,
    `filter_map`, `test`, `unify`, `resolve_obligations` (the deferred `to_string`
    obligations: `TcInfer.resolveObligations`; its signature comparison is decided
    in `Props/C07Builtin.lean`) -/
theorem helper_skeletons_as_modelled : C07Arms.fnSkeletons = TcInferPinned.fnSkeletons := rfl

example : C07Arms.exprArms.length = 20 := by decide

/-! ## T3 `infer_sound` — what the inference pass accepts, the declarative rules accept

  FULL STATEMENT (DESIGN §4 C07 T3): if the model of `TypeChecker::function`
  (`TcInfer.inferFn`: parameters, body through `TypeChecker::{block, stmt, expr}`
  with expected-type propagation and unification, then the deferred
  obligations) accepts a function item, then the declarative checker accepts
  it — so every script the declarative rules reject is rejected by the model.
  NOT proved in this form. PROVED (`infer_sound_partial`, by mutual induction
  over expressions / argument lists / statements / blocks, on top of
  `unify_equates`): the statement for every function item whose body lies in the
  fragment `TcInfer.coreB` —
      literals of all kinds (with and without suffix: integer- and
      float-literal variables), variables, constants, field access (a path
      `v.a.b` or `Access` on any expression), unary `-` (signed integers,
      floats, literal variables that thereby become must-be-signed) and `!`,
      the binary operators `+` (numbers, String + String, List + List) `-` `*`
      `%` `== != < <= > >= && ||`, `if` with and without `else`, `while`, `for`,
      blocks, `let` with and without annotation, expression statements,
      assignment and compound assignment (`+= -= *= %=` …, every operator but
      `/=`) to local variables and their fields, method calls `e.m(args)` on
      `List[T]` and `String` (one path `v.a.m(args)` or a method of any other
      expression; the signature instantiated with a fresh element variable, the
      receiver unified with it), calls of functions
      (argument count and types), constructors of user enums, `Option.Some(e)`,
      `Option.None`, typed record literals (field names and types), list
      literals (also `[]`), `?`, `match` over `Option` and user enums with
      binders, guards and `_` (at least one arm; the count-based exhaustiveness
      test of `match_expr` is shown to imply the declarative one by a pigeonhole
      argument), `return` / `accept` / `reject` with and without value —
  under the hypothesis that the store the body check leaves behind HAS A
  SOLUTION in ground types (`∃ σ, GVal σ ∧ Sat σ st.store`; `TcInfer.satB`
  decides a proposed solution).
  MISSING, precisely:
    (a) outside the fragment: arm-less `match`, `/` and `/=`
        (its `IpAddr / u8` case builds a `Prefix`, which the declarative rules do
        not have), f-strings (and with them `resolve_obligations`: for a body of
        the fragment the obligations stay empty — `inferFn_store`);
    (b) that a solution of the final store always exists (it does whenever the
        store is acyclic, which the occurs check maintains — not proved here);
    (c) nothing else at the level of items: constant items and whole programs
        are covered (`infer_program_sound_partial`).
  The model itself is compared with the real checker on every run (all
  constructs, accept / reject and class of the report). -/

open RotoV.TcInfer in
/-- **T3 `infer_sound_partial`** (function items, core fragment): if the model
    of `TypeChecker::function` accepts the item and the store it ends with has a
    solution in ground types, the declarative checker accepts the item. -/
theorem infer_sound_partial (env : Env) (henv : EnvPlain env) (p : Prog) (n : Nat)
    (params : List (Nat × Ty)) (rt : Ty) (body : Block)
    (hpp : (params.all fun q => plain q.2) = true) (hpr : plain rt = true) (hcb : coreB body = true)
    (u : Unit) (st' : St) (h : inferFn env params rt body ⟨[], []⟩ = .ok u st')
    (hsol : ∃ σ : Val, GVal σ ∧ Sat σ st'.store) :
    checkDecl env p (.fn n params rt body) = .ok () := by
  obtain ⟨st1, h1, h2⟩ := inferFn_store hcb h
  obtain ⟨σ, hσ, hs⟩ := hsol
  rw [h2] at hs
  exact inferFn_sound env henv p n params rt body hpp hpr hcb st1 h1 σ hσ hs

open RotoV.TcInfer in
/-- … hence a function item the declarative rules reject is not accepted by the
    model with a solvable store -/
theorem infer_rejects_what_rules_reject_partial (env : Env) (henv : EnvPlain env) (p : Prog) (n : Nat)
    (params : List (Nat × Ty)) (rt : Ty) (body : Block)
    (hpp : (params.all fun q => plain q.2) = true) (hpr : plain rt = true) (hcb : coreB body = true)
    (hrej : checkDecl env p (.fn n params rt body) ≠ .ok ())
    (u : Unit) (st' : St) (h : inferFn env params rt body ⟨[], []⟩ = .ok u st') :
    ¬ ∃ σ : Val, GVal σ ∧ Sat σ st'.store :=
  fun hsol => hrej (infer_sound_partial env henv p n params rt body hpp hpr hcb u st' h hsol)

open RotoV.TcInfer in
/-- **T3 for whole programs** (`TcInfer.checkProgM`: unique item names, type
    declarations and type cycles, all signatures, then every function and
    constant in source order through ONE union-find store, then the constant
    cycles): if the model accepts a program whose items lie in the fragment
    (`progPlain`: every declared type is a written type; `coreD`: written types
    in signatures / annotations, bodies in `coreB`, initialisers in `coreE`) and the store it ends with has a solution in ground
    types, then the declarative checker accepts the program. -/
theorem infer_program_sound_partial (p : Prog) (hpl : progPlain p = true) (hc : p.decls.all coreD = true)
    (u : Unit) (st : St) (h : checkProgM p = .ok u st) (hsol : ∃ σ : Val, GVal σ ∧ Sat σ st.store) :
    checkProg p = .ok () :=
  checkProgM_sound p (envPlain_of_progPlain p hpl) hc u st h hsol

open RotoV.TcInfer in
/-- **… hence every script of the fragment that the declarative rules reject is
    rejected by the model** — or accepted only with a store that has no
    solution (never observed: the driver checks `satB (solve s) s` for every
    accepted program of every run). -/
theorem rules_reject_model_rejects_partial (p : Prog) (hpl : progPlain p = true) (hc : p.decls.all coreD = true)
    (hrej : accepts p = false) (u : Unit) (st : St) (h : checkProgM p = .ok u st) :
    ¬ ∃ σ : Val, GVal σ ∧ Sat σ st.store := by
  intro hsol
  have := infer_program_sound_partial p hpl hc u st h hsol
  unfold accepts at hrej
  rw [this] at hrej
  cases hrej

open RotoV.TcInfer in
/-- non-vacuity: the program `const C0: i64 = 5; fn f0(v0: i64) -> i64 { let v1 = 1; -(v0 + v1 + C0) }`
    is in the fragment, the model accepts it and the proposed solution solves its store -/
example :
    let p : Prog := ⟨[.const 0 (.int .i64) (.intLit none),
      .fn 0 [(0, .int .i64)] (.int .i64)
        (.mk [.let_ 1 none (.intLit none)] (some (.neg (.bin .add (.bin .add (.var 0) (.var 1)) (.const 0)))))]⟩
    progPlain p = true ∧ p.decls.all coreD = true ∧
    (match checkProgM p with
      | .ok _ st => satB (solve st.store) st.store && (solve st.store).all ground
      | _ => false) = true ∧ accepts p = true := by decide +kernel

open RotoV.TcInfer in
/-- the same for ONE expression checked against an expected type, in any scope
    and any store: every ground solution of the resulting store solves the
    store before, and under it the declarative checker gives the expression a
    type of which the expected type is an instance (and agrees that it diverges
    whenever the model says so) -/
theorem infer_expr_sound_partial (env : Env) (henv : EnvPlain env) (e : Expr) (hc : coreE e = true)
    (cx : Cx) (g : MGamma) (st : St) (d : Bool) (st' : St)
    (hW : WTs st.store) (hcx : WTcx cx) (hg : WTg g) (h : infer env cx g e st = .ok d st') :
    WTs st'.store ∧ ∀ σ : Val, GVal σ → Sat σ st'.store → Sat σ st.store ∧
      ∀ gd, gammaInst gd (denG σ g) = true →
        ∃ t dd, synth env (denCx σ cx) gd e = .ok (t, dd) ∧ inst t (den σ cx.expected) = true ∧
          (d = true → dd = true) :=
  soundE env henv e hc cx g st d st' hW hcx hg h

open RotoV.TcInfer in
/-- non-vacuity: `fn f(v0: i8) -> i8 { let v1 = 1; -(v0 + v1) }` is accepted by
    the model, the store it leaves has the solution found by hand (the literal
    variable is `i8`), and `fn f(v0: u8) -> u8 { -v0 }` is rejected
    ("cannot apply `-` to unsigned integer type") -/
example :
    let body : Block := .mk [.let_ 1 none (.intLit none)] (some (.neg (.bin .add (.var 0) (.var 1))))
    coreB body = true ∧
    (match inferFn ⟨[], [], []⟩ [(0, .int .i8)] (.int .i8) body ⟨[], []⟩ with
      | .ok _ st => satB ((List.range st.store.length).map fun _ => Ty.int .i8) st.store
      | _ => false) = true ∧
    (match inferFn ⟨[], [], []⟩ [(0, .int .u8)] (.int .u8) (.mk [] (some (.neg (.var 0)))) ⟨[], []⟩ with
      | .err .negateUnsigned => true
      | _ => false) = true := by decide +kernel

end RotoV.C07
