/-
  C07 — ill-typed scripts never compile; the rule "recursive constants"
  (`find_compilation_order`, src/typechecker/value_cycle.rs).

  Own module, so that a change of value_cycle.rs breaks exactly these obligations
  (the skeleton tie `value_cycle_as_modelled`) and not those of `Props/C07.lean`.

  Models: `Model/Tarjan.lean` (value_cycle.rs as written), `Model/TcValueCycle.lean`
  (the documented rule on a reference graph, as an independent executable test),
  `Model/TcValueCyclePinned.lean` (pinned skeleton). Lemmas: `Lemmas/TcValueCycle.lean`,
  `Lemmas/TcValueCycleTarjan.lean`.
-/
import RotoV.Lemmas.TcValueCycle
import RotoV.Model.TcValueCyclePinned
import RotoV.Generated.C07Cycle

namespace RotoV.C07Cyc
open RotoV.Gen

/-! ## T6 — recursive constants (`find_compilation_order`, src/typechecker/value_cycle.rs)

  The rule: a constant must not refer to itself, neither directly nor through
  other constants or functions. On the reference graph the type checker
  collects (`RefGraph`: an edge per use of a constant or function inside an
  item): no constant `c` has a reference `c → d` with `d →* c`.
  `Model/Tarjan.lean` is value_cycle.rs as written (`BTreeMap` iteration order,
  the stack / index / lowlink state of Tarjan's algorithm, the two loops of
  `find_compilation_order`). -/

/-- **The algorithm is the one `Model/Tarjan.lean` was written from**: the
    statements and the control flow of `find_compilation_order`, `tarjan`,
    `strongly_connect`, `State::update_lowlink` and the fields of `VertexState`
    / `State` (`Generated/C07Cycle.lean`, regenerated from
    src/typechecker/value_cycle.rs on every run, against the pinned copy) — e.g.
    that "is `w` on the stack" is asked of the stack itself
    (`state.stack.contains(w)`), and that a vertex leaves the stack only when its
    component is emitted. -/
theorem value_cycle_as_modelled : C07Cycle.cycleSkeletons = TcValueCyclePinned.cycleSkeletons := rfl

example : C07Cycle.cycleSkeletons.length = 6 := by decide

/-- the executable oracle of the differential run (`TcValueCycle.ruleRejects`:
    breadth-first closure, nothing of Tarjan's algorithm) fires only on a real
    cycle through a constant -/
theorem value_cycle_oracle_sound (g : Tarjan.Graph) (h : TcValueCycle.ruleRejects g = true) :
    ∃ c d, c ∈ g.keys ∧ g.kind c = .const ∧ Tarjan.Edge g c d ∧ Tarjan.Reach g d c :=
  TcValueCycle.ruleRejects_sound g h

/- FULL STATEMENT (`recursive_constant_reported`): for every reference graph `g`,
   every constant `c` with a reference `c → d` and `d →* c`:
     ∃ c', g.kind c' = .const ∧ Tarjan.findCompilationOrder g = .ok (.recursive c')
   Proved below from two facts about the components `tarjan` emits — every key is
   in one, and an edge out of a component leads into it or into an earlier one
   (`TcValueCycle.Closed`). -/

/-- **T6 `recursive_constant_reported_partial`**: given that the emitted
    components are complete and closed (`TcValueCycle.Closed`), a constant that
    refers to something that leads back to it makes `find_compilation_order`
    return `error_recursive_constant`. -/
theorem recursive_constant_reported_partial (g : Tarjan.Graph) (comps : List (List Nat))
    (ht : Tarjan.tarjan g = .ok comps) (hc : TcValueCycle.Closed g comps)
    (c d : Nat) (hk : g.kind c = .const) (e : Tarjan.Edge g c d) (r : Tarjan.Reach g d c) :
    ∃ c', g.kind c' = .const ∧ Tarjan.findCompilationOrder g = .ok (.recursive c') :=
  TcValueCycle.reported_of_closed g comps ht hc c d hk e r

/-- the seeded class in miniature, on the model: two mutually recursive
    functions `0 ⇄ 1`, the constant `2` read by `0` and defined through `1` —
    the component is closed through an edge to a vertex whose visit has ended
    but which is still on the stack — in every one of the six rank orders -/
example :
    ([ (⟨[(0, [1, 2]), (1, [0]), (2, [1])], fun n => if n = 2 then .const else .func⟩ : Tarjan.Graph),
       ⟨[(0, [1]), (1, [0, 2]), (2, [0])], fun n => if n = 2 then .const else .func⟩,
       ⟨[(0, [2]), (1, [0, 2]), (2, [1])], fun n => if n = 0 then .const else .func⟩,
       ⟨[(0, [1]), (1, [2]), (2, [0, 1])], fun n => if n = 0 then .const else .func⟩,
       ⟨[(0, [1, 2]), (1, [2]), (2, [0])], fun n => if n = 1 then .const else .func⟩,
       ⟨[(0, [2]), (1, [0]), (2, [0, 1])], fun n => if n = 1 then .const else .func⟩ ]).all
      TcValueCycle.codeRejects = true := by decide


end RotoV.C07Cyc
