/-
  C07 — ill-typed scripts never compile; the rule "recursive constants"
  (`find_compilation_order`, src/typechecker/value_cycle.rs).

  Own module, so that a change of value_cycle.rs breaks exactly these obligations
  (the skeleton tie `value_cycle_as_modelled`) and not those of `Props/C07.lean`.

  Models: `Model/Tarjan.lean` (value_cycle.rs as written), `Model/TcValueCycle.lean`
  (the documented rule on a reference graph, as an independent executable test),
  `Model/TcValueCyclePinned.lean` (pinned skeleton). Lemmas: `Lemmas/TcValueCycle.lean`,
  `Lemmas/TcValueCycleTarjan.lean`.
-/
import RotoV.Lemmas.TcValueCycle
import RotoV.Lemmas.TcValueCycleTarjan
import RotoV.Lemmas.TcValueCycleProg
import RotoV.Model.TcValueCyclePinned
import RotoV.Generated.C07Cycle

namespace RotoV.C07Cyc
open RotoV.Gen

/-! ## T6 — recursive constants (`find_compilation_order`, src/typechecker/value_cycle.rs)

  The rule: a constant must not refer to itself, neither directly nor through
  other constants or functions. On the reference graph the type checker
  collects (`RefGraph`: an edge per use of a constant or function inside an
  item): no constant `c` has a reference `c → d` with `d →* c`.
  `Model/Tarjan.lean` is value_cycle.rs as written (`BTreeMap` iteration order,
  the stack / index / lowlink state of Tarjan's algorithm, the two loops of
  `find_compilation_order`). -/

/-- **The algorithm is the one `Model/Tarjan.lean` was written from**: the
    statements and the control flow of `find_compilation_order`, `tarjan`,
    `strongly_connect`, `State::update_lowlink` and the fields of `VertexState`
    / `State` (`Generated/C07Cycle.lean`, regenerated from
    src/typechecker/value_cycle.rs on every run, against the pinned copy) — e.g.
    that "is `w` on the stack" is asked of the stack itself
    (`state.stack.contains(w)`), and that a vertex leaves the stack only when its
    component is emitted. -/
theorem value_cycle_as_modelled : C07Cycle.cycleSkeletons = TcValueCyclePinned.cycleSkeletons := rfl

example : C07Cycle.cycleSkeletons.length = 6 := by decide

/-- the executable oracle of the differential run (`TcValueCycle.ruleRejects`:
    breadth-first closure, nothing of Tarjan's algorithm) fires only on a real
    cycle through a constant -/
theorem value_cycle_oracle_sound (g : Tarjan.Graph) (h : TcValueCycle.ruleRejects g = true) :
    ∃ c d, c ∈ g.keys ∧ g.kind c = .const ∧ Tarjan.Edge g c d ∧ Tarjan.Reach g d c :=
  TcValueCycle.ruleRejects_sound g h

/-- **T6 `recursive_constant_reported`** (full strength, every reference graph):
    a constant `c` that refers to something (`c → d`) that leads back to it
    (`d →* c`: through constants, through functions, through knots of mutually
    recursive functions, whatever the rank order of the names) makes
    `find_compilation_order` as written return `error_recursive_constant` — it
    never returns a compilation order, never panics, never runs out of fuel.
    Proof: `Tarjan.tarjan_total'` (no `unwrap` / index fails), the invariant of
    Tarjan's algorithm `Tarjan.tarjan_closed` (Lemmas/TcValueCycleTarjan.lean:
    stack / index / lowlink discipline, for all graphs: every key ends up in an
    emitted component, and a reference out of an emitted component leads into it
    or into an earlier one), and `TcValueCycle.reported_of_closed` (a cycle cannot
    leave the first component that contains one of its members). -/
theorem recursive_constant_reported (g : Tarjan.Graph) (c d : Nat) (hk : g.kind c = .const)
    (e : Tarjan.Edge g c d) (r : Tarjan.Reach g d c) :
    ∃ c', g.kind c' = .const ∧ Tarjan.findCompilationOrder g = .ok (.recursive c') := by
  obtain ⟨comps, ht⟩ := Tarjan.tarjan_total' g
  have hc := Tarjan.tarjan_closed g comps ht
  exact TcValueCycle.reported_of_closed g comps ht ⟨hc.1, hc.2⟩ c d hk e r

example : ∃ c', Tarjan.findCompilationOrder
    ⟨[(0, [1, 2]), (1, [0]), (2, [1])], fun n => if n = 2 then .const else .func⟩ = .ok (.recursive c') :=
  (recursive_constant_reported _ 2 1 (by decide) (by unfold Tarjan.Edge; decide)
    (.step (b := 0) (by unfold Tarjan.Edge; decide)
      (.step (b := 2) (by unfold Tarjan.Edge; decide) (.refl _)))).imp fun _ h => h.2

/-- what the differential run's oracle rejects, the code as written rejects:
    `ruleRejects g` (a constant on a cycle, by breadth-first closure) implies
    `codeRejects g` (`find_compilation_order` = `error_recursive_constant`) -/
theorem documented_rule_enforced (g : Tarjan.Graph) (h : TcValueCycle.ruleRejects g = true) :
    TcValueCycle.codeRejects g = true := by
  obtain ⟨c, d, _, hk, e, r⟩ := TcValueCycle.ruleRejects_sound g h
  obtain ⟨c', _, hf⟩ := recursive_constant_reported g c d hk e r
  simp [TcValueCycle.codeRejects, hf]

example : TcValueCycle.ruleRejects
    ⟨[(0, [1, 2]), (1, [0]), (2, [1])], fun n => if n = 2 then .const else .func⟩ = true := by decide

/-- **T6 `program_rule_enforced`**: the PROGRAM-level rule of the declarative
    checker (`Typing.constIsRecursive p c`: the initialiser of constant `c`
    mentions an item that leads back to `c` through initialisers and function
    bodies) implies that `find_compilation_order`, run on the program's reference
    graph, reports a recursive constant — for EVERY numbering `rank` of the items
    (the rank order of the names is the symbol table's business). So what `D`
    rejects with `recursive-constant`, the code as written rejects, provided the
    checker collects the references the script contains (tie of phase `cyc`). -/
theorem program_rule_enforced (p : Typing.Prog) (rank : Typing.Item → Nat)
    (hinj : ∀ a b, rank a = rank b → a = b) (c : Nat) (h : Typing.constIsRecursive p c = true) :
    ∃ c', Tarjan.findCompilationOrder (TcValueCycle.progGraph p rank) = .ok (.recursive c') := by
  obtain ⟨d, hk, e, r⟩ := TcValueCycle.prog_cycle p rank hinj c h
  obtain ⟨c', _, hf⟩ := recursive_constant_reported _ _ d hk e r
  exact ⟨c', hf⟩

/-- `const C0: i32 = f1();  fn f1() -> i32 { C0 }` -/
example : Typing.constIsRecursive
    ⟨[.const 0 (.int .i32) (.call 1 []), .fn 1 [] (.int .i32) (.mk [] (some (.const 0)))]⟩ 0 = true := by decide

/-- the seeded class in miniature, on the model: two mutually recursive
    functions `0 ⇄ 1`, the constant `2` read by `0` and defined through `1` —
    the component is closed through an edge to a vertex whose visit has ended
    but which is still on the stack — in every one of the six rank orders -/
example :
    ([ (⟨[(0, [1, 2]), (1, [0]), (2, [1])], fun n => if n = 2 then .const else .func⟩ : Tarjan.Graph),
       ⟨[(0, [1]), (1, [0, 2]), (2, [0])], fun n => if n = 2 then .const else .func⟩,
       ⟨[(0, [2]), (1, [0, 2]), (2, [1])], fun n => if n = 0 then .const else .func⟩,
       ⟨[(0, [1]), (1, [2]), (2, [0, 1])], fun n => if n = 0 then .const else .func⟩,
       ⟨[(0, [1, 2]), (1, [2]), (2, [0])], fun n => if n = 1 then .const else .func⟩,
       ⟨[(0, [2]), (1, [0]), (2, [0, 1])], fun n => if n = 1 then .const else .func⟩ ]).all
      TcValueCycle.codeRejects = true := by decide


end RotoV.C07Cyc
