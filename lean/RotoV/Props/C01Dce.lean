/-
  C01, theorem T4: dead-code elimination (`src/mir/dead_code.rs`) preserves
  execution.

  Model: `RotoV/Model/Dce.lean` (`dce` = `process_item`, `processBlock` =
  `process_block`, `exec`/`run` = execution of a CFG, parametric in the meaning
  of the opaque instructions). Tie: `Generated/Dce.lean` is regenerated from
  the Rust source on every run (instruction variants, the terminator
  classification `match`, the truncation index, the shape of `process_item`);
  the theorems `source_*` below connect it to the model, and the harness runs
  `Dce.dce` on the real pre-DCE CFG of every generated program and compares
  with the real pass's output.
-/
import RotoV.Lemmas.Dce
import RotoV.Generated.Dce

namespace RotoV.C01Dce
open RotoV.Dce

variable {ι κ ρ σ α : Type}

/-- **Termination** of `process_item`: the fuel `blocks.len() + 1` given to the
    model of the `while i < state.len()` loop is never exhausted — every
    iteration consumes a distinct block label. -/
theorem dce_terminates (cfg : Cfg ι κ ρ) : dce cfg ≠ .fuel := by
  cases cfg with
  | nil => simp [dce]
  | cons b rest =>
    have := loop_spec (b :: rest) ((b :: rest).length + 1) 0 [b.label] (b :: rest) (inv_init b rest) (by omega)
    unfold dce
    simp only
    split at this
    · rename_i heq; rw [heq]; simp
    · rename_i heq; rw [heq]; simp
    · exact this.elim

/-- **T4 `dce_preserves`.** For every CFG and every instruction semantics, if
    `process_item` completes (no `ice!`, no failed `unwrap`), running the item
    from its entry block gives exactly the same outcome before and after the
    pass, for every fuel and every initial state: removed blocks are
    unreachable, removed instructions follow a terminator. -/
theorem dce_preserves (sem : Sem ι κ ρ σ α) (cfg cfg' : Cfg ι κ ρ) (h : dce cfg = .ok cfg') :
    ∀ (fuel : Nat) (s : σ), run sem cfg' fuel s = run sem cfg fuel s := by
  cases cfg with
  | nil => simp [dce] at h
  | cons b rest =>
    have hl := loop_spec (b :: rest) ((b :: rest).length + 1) 0 [b.label] (b :: rest) (inv_init b rest) (by omega)
    unfold dce at h
    simp only at h
    split at hl
    · rename_i st' cfg1 heq
      rw [heq] at h
      simp only [PassRes.ok.injEq] at h
      subst h
      obtain ⟨inv, ext, he⟩ := hl
      have hmem : b.label ∈ st' := by rw [he]; simp
      -- every label of the final state is related
      have hrel : Related st' (b :: rest) (retain st' cfg1) := by
        intro l hl
        have : l ∈ st'.take st'.length := by simpa using hl
        obtain ⟨b0, b1, h0, h1, t⟩ := inv.processed l this
        exact ⟨b0, b1, h0, by rw [findBlock_retain hl]; exact h1, t⟩
      -- the entry block survives as the head of the result
      obtain ⟨b0, b1, h0, h1, t⟩ := hrel _ hmem
      have hb0 : b0 = b := by
        have : findBlock (b :: rest) b.label = some b := by simp [findBlock]
        rw [this] at h0; exact (Option.some.inj h0).symm
      subst hb0
      cases cfg1 with
      | nil =>
        have := inv.labels
        simp at this
      | cons c rest1 =>
        have hlab : c.label = b0.label := by
          have := inv.labels
          simp only [List.map_cons, List.cons.injEq] at this
          exact this.1
        have hkeep : st'.contains c.label = true := by rw [hlab]; simpa using hmem
        have hret : retain st' (c :: rest1) = c :: retain st' rest1 := by
          unfold retain; rw [List.filter_cons_of_pos (by simpa using hkeep)]
        have hc : b1 = c := by
          rw [hret] at h1
          have : findBlock (c :: retain st' rest1) b0.label = some c := by
            simp [findBlock, hlab]
          rw [this] at h1; exact (Option.some.inj h1).symm
        subst hc
        intro fuel s
        have := exec_sim sem hrel fuel _ _ s t
        rw [hret] at this ⊢
        simpa [run] using this
    · rename_i heq; rw [heq] at h; cases h
    · exact hl.elim

/-- Postcondition of the pass (checked by the harness on the real compiler's
    MIR): the entry block survives, and every surviving block consists of
    non-terminators followed by exactly one terminator. -/
theorem dce_blocks_ok (cfg cfg' : Cfg ι κ ρ) (h : dce cfg = .ok cfg') (hu : (cfg.map (·.label)).Nodup) :
    ∀ b' ∈ cfg', blockOk b' = true := by
  cases cfg with
  | nil => simp [dce] at h
  | cons b rest =>
    have hl := loop_spec (b :: rest) ((b :: rest).length + 1) 0 [b.label] (b :: rest) (inv_init b rest) (by omega)
    unfold dce at h
    simp only at h
    split at hl
    · rename_i st' cfg1 heq
      rw [heq] at h
      simp only [PassRes.ok.injEq] at h
      subst h
      obtain ⟨inv, _, _⟩ := hl
      intro b' hb'
      unfold retain at hb'
      obtain ⟨hmem, hkeep⟩ := List.mem_filter.mp hb'
      have hin : b'.label ∈ st' := by simpa using hkeep
      have : b'.label ∈ st'.take st'.length := by simpa using hin
      obtain ⟨b0, b1, _, h1, t⟩ := inv.processed _ this
      -- with unique labels, the block found under b'.label is b' itself
      have hu1 : (cfg1.map (·.label)).Nodup := by rw [inv.labels]; exact hu
      have hb1 : b1 = b' := by
        clear t heq inv hb'
        induction cfg1 with
        | nil => cases hmem
        | cons c rest1 ih =>
          unfold findBlock at h1
          rcases List.mem_cons.mp hmem with e | hm
          · subst e
            rw [List.find?_cons_of_pos (by simp)] at h1
            exact (Option.some.inj h1).symm
          · rw [List.map_cons] at hu1
            obtain ⟨hn, hu2⟩ := List.nodup_cons.mp hu1
            have hne : c.label ≠ b'.label := by
              intro e
              exact hn (e ▸ List.mem_map.mpr ⟨b', hm, rfl⟩)
            rw [List.find?_cons_of_neg (by simpa using hne)] at h1
            exact ih hm (by simpa [findBlock] using h1) hu2
      subst hb1
      -- a truncated block is non-terminators followed by one terminator
      clear heq inv hb' hmem hkeep hin this h1 hu1
      generalize b0.instrs = is0 at t
      unfold blockOk
      generalize b1.instrs = is1 at t
      induction t with
      | other t ih =>
        rename_i i r r'
        cases hr : r'.reverse with
        | nil =>
          have : r' = [] := by simpa using hr
          subst this
          cases t
        | cons x xs =>
          simp only [hr] at ih
          simp only [List.reverse_cons, hr, List.cons_append]
          simp only [Bool.and_eq_true] at ih ⊢
          refine ⟨ih.1, ?_⟩
          simp only [List.all_append, List.all_cons, List.all_nil, Bool.and_true, Bool.and_eq_true]
          exact ⟨ih.2, by simp [isTerminator]⟩
      | jump _ => simp [isTerminator]
      | switch _ _ => simp [isTerminator]
      | ret => simp [isTerminator]
    · rename_i heq; rw [heq] at h; cases h
    · exact hl.elim

/-! ### The model says what the source says (over `Generated/Dce.lean`) -/

open RotoV.Gen.Dce in
/-- The scan of `process_block` stops exactly at `Jump`, `Switch`, `Return`;
    every other MIR instruction (`Assign`, `SetDiscriminant`, `Drop`) is passed
    over — the model's `other`. -/
theorem source_terminators :
    ∀ k : InstrKind, (classify k).isSome = (k == .Jump || k == .Switch || k == .Return) := by
  intro k; cases k <;> rfl

open RotoV.Gen.Dce in
/-- What each terminator arm adds to the state is what `processBlock` adds. -/
theorem source_adds :
    classify .Jump = some .target ∧ classify .Switch = some .branchesThenDefault ∧
    classify .Return = some .nothing := ⟨rfl, rfl, rfl⟩

/-- Index of the first terminator. -/
def firstTerminator : List (Instr ι κ ρ) → Option Nat
  | [] => none
  | i :: rest => if isTerminator i then some 0 else (firstTerminator rest).map (· + 1)

/-- The model keeps `truncate(i + 1)` instructions, `i` the index of the first
    terminator — with the index expression as *generated* from the source. -/
theorem source_truncation (st : List Label) (is : List (Instr ι κ ρ)) :
    (processBlock st is).map (·.2) =
      (firstTerminator is).map (fun i => is.take (RotoV.Gen.Dce.truncateKeep i)) := by
  induction is with
  | nil => rfl
  | cons i rest ih =>
    cases i with
    | other x =>
      simp only [processBlock, firstTerminator, isTerminator, Bool.false_eq_true, ↓reduceIte]
      cases hp : processBlock st rest with
      | none =>
        rw [hp] at ih
        cases hf : firstTerminator rest with
        | none => rfl
        | some n => rw [hf] at ih; cases ih
      | some r =>
        rw [hp] at ih
        cases hf : firstTerminator rest with
        | none => rw [hf] at ih; cases ih
        | some n =>
          rw [hf] at ih
          simp only [Option.map_some, Option.some.injEq] at ih ⊢
          simp only [RotoV.Gen.Dce.truncateKeep] at ih ⊢
          rw [List.take_succ_cons, ih]
    | jump l => simp [processBlock, firstTerminator, isTerminator, RotoV.Gen.Dce.truncateKeep]
    | switch x br d => simp [processBlock, firstTerminator, isTerminator, RotoV.Gen.Dce.truncateKeep]
    | ret v => simp [processBlock, firstTerminator, isTerminator, RotoV.Gen.Dce.truncateKeep]

/-- The facts about `process_item` / `State::add` the model is built on are
    present in the source (the extractor fails otherwise). -/
theorem source_process_item :
    RotoV.Gen.Dce.startsAtFirstBlock = true ∧ RotoV.Gen.Dce.worklistLoop = true ∧
    RotoV.Gen.Dce.processesFirstBlockWithLabel = true ∧ RotoV.Gen.Dce.retainsReachable = true ∧
    RotoV.Gen.Dce.addIsPushIfAbsent = true := ⟨rfl, rfl, rfl, rfl, rfl⟩

/-! ### Non-vacuity -/

/-- a diamond with a dead block and dead instructions after the terminators -/
def demo : Cfg Nat Unit Unit :=
  [⟨0, [.other 1, .switch () [(1, 1)] (some 2), .other 9]⟩,
   ⟨1, [.other 2, .jump 3, .jump 4]⟩,
   ⟨4, [.ret ()]⟩,
   ⟨2, [.jump 3]⟩,
   ⟨3, [.ret (), .other 7]⟩]

def demoOut : Cfg Nat Unit Unit :=
  [⟨0, [.other 1, .switch () [(1, 1)] (some 2)]⟩,
   ⟨1, [.other 2, .jump 3]⟩,
   ⟨2, [.jump 3]⟩,
   ⟨3, [.ret ()]⟩]

/-- the pass completes on the demo (hypothesis of `dce_preserves` is satisfiable) and prunes it -/
example : dce demo = .ok demoOut := by decide

/-- and execution of the demo is not trivially stuck: it returns the accumulated state -/
example :
    run (σ := Nat) (α := Nat) ⟨fun i s => some (s + i), fun _ s => s % 2, fun _ s => s⟩ demo 10 0 = .done 3 := by
  decide

/-- a block without terminator is the `ice!` -/
example : dce ([⟨0, [.other 1]⟩] : Cfg Nat Unit Unit) = .panic := by decide

/-- a jump to a missing block is the failed `unwrap` -/
example : dce ([⟨0, [.jump 5]⟩] : Cfg Nat Unit Unit) = .panic := by decide

example : (demo.map (·.label)).Nodup := by decide

end RotoV.C01Dce
