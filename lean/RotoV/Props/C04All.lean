/-
  C04 — the property, end to end.

  `RotoV.Props.C04` decides the signature gate over a *given* function table
  (generated `check_roto_type`); `RotoV.Props.C04Tab` says which table the
  compiler builds for a package (generated pipeline stages). This module only
  composes the two: it has no definitions of its own, and it is the statement
  of property C04 about programs.
-/
import RotoV.Props.C04
import RotoV.Props.C04Tab
open RotoV.Gate RotoV.GateTab
namespace RotoV.C04All

/-- the table the compiler builds for the declarations of a package -/
abbrev table (decls : List Decl) (helpers : List (Ident × Ident)) : Functions :=
  C04Tab.pipeline.table decls helpers

/-- **C04.** For a package with the declarations `decls` (all modules) and any
    generated helpers, in which the function-like declarations known as
    `pkg.<name>` agree on one signature `sig` (the type checker refuses an
    item declared twice): `get_function::<fn(A…) -> R>(name)` hands out a
    function **iff** the script declares a function, filtermap or test under
    that name, the arities agree, and every `Aᵢ` and `R` is exactly the Rust
    type the documented mapping assigns to the corresponding type of the
    signature. -/
theorem obtainable_iff_true_signature (ti : TypeInfo) (hwf : ti.WF)
    (decls : List Decl) (helpers : List (Ident × Ident)) (name : Ident) (f : RustFn) (sig : Signature)
    (huniq : ∀ d ∈ decls, d.kind.functionLike = true → d.key = pkgPrefix ++ name → d.sig = sig) :
    getFunction (C04.gate ti) (table decls helpers) name f = .ok ↔
      (∃ d ∈ decls, d.kind.functionLike = true ∧ d.key = pkgPrefix ++ name) ∧
        sig.parameter_types.length = f.args.length ∧
        Forall2 (fun t r => mapping ti t = some r) sig.parameter_types f.args ∧
        mapping ti sig.return_type = some f.ret := by
  rw [C04Tab.retrieval_iff_declared (C04.gate ti) decls helpers name f sig huniq]
  have hargs := C04.checkArgs_ok_iff (C04.gate ti) f.args sig.parameter_types
  simp only [C04.gate_iff ti hwf] at hargs
  rw [hargs, C04.gate_iff ti hwf]
  constructor
  · rintro ⟨hex, hf, hr⟩
    exact ⟨hex, hf.length_eq, hf, hr⟩
  · rintro ⟨hex, _, hf, hr⟩
    exact ⟨hex, hf, hr⟩

/-- … and every other request is refused: an unknown name, a constant, a type,
    the bare name of a test, a generated helper, a function of another module
    asked without its path — `DoesNotExist`, whatever Rust type is requested. -/
theorem every_other_name_refused (ti : TypeInfo)
    (decls : List Decl) (helpers : List (Ident × Ident)) (name : Ident) (f : RustFn)
    (h : ∀ d ∈ decls, d.kind.functionLike = true → d.key ≠ pkgPrefix ++ name) :
    getFunction (C04.gate ti) (table decls helpers) name f = .doesNotExist :=
  C04Tab.not_a_function_refused (C04.gate ti) decls helpers name f h

/-- … and a declared function under any other Rust type: never `ok`. -/
theorem other_signature_refused (ti : TypeInfo) (hwf : ti.WF)
    (decls : List Decl) (helpers : List (Ident × Ident)) (name : Ident) (f : RustFn) (sig : Signature)
    (huniq : ∀ d ∈ decls, d.kind.functionLike = true → d.key = pkgPrefix ++ name → d.sig = sig)
    (hne : ¬ (sig.parameter_types.length = f.args.length ∧
        Forall2 (fun t r => mapping ti t = some r) sig.parameter_types f.args ∧
        mapping ti sig.return_type = some f.ret)) :
    getFunction (C04.gate ti) (table decls helpers) name f ≠ .ok := by
  intro hok
  exact hne ((obtainable_iff_true_signature ti hwf decls helpers name f sig huniq).1 hok).2

/-- non-vacuity: `fn below(x: u32) -> bool` next to `const LIMIT: u32`, a test and a helper -/
def decls1 : List Decl :=
  [⟨.const, id% "pkg.", id% "LIMIT", ⟨[], .named (id% "u32") []⟩⟩,
   ⟨.function, id% "pkg.", id% "below", ⟨[.named (id% "u32") []], .named (id% "bool") []⟩⟩,
   ⟨.test, id% "pkg.", id% "t", testSignature (id% "Verdict")⟩]

example : getFunction (C04.gate C04.ti0) (table decls1 [(id% "::generated::drop_", id% "9")]) (id% "below")
    ⟨[.leaf (.prim (id% "u32"))], .leaf (.prim (id% "bool"))⟩ = .ok := by decide
example : getFunction (C04.gate C04.ti0) (table decls1 []) (id% "below")
    ⟨[.leaf (.prim (id% "i32"))], .leaf (.prim (id% "bool"))⟩ = .argMismatch 1 := by decide
example : getFunction (C04.gate C04.ti0) (table decls1 []) (id% "LIMIT")
    ⟨[], .leaf (.prim (id% "u32"))⟩ = .doesNotExist := by decide
example : getFunction (C04.gate C04.ti0) (table decls1 []) (id% "test#t")
    ⟨[], .verdict rustUnit rustUnit⟩ = .ok := by decide
example : getFunction (C04.gate C04.ti0) (table decls1 []) (id% "t")
    ⟨[], .verdict rustUnit rustUnit⟩ = .doesNotExist := by decide

end RotoV.C04All
