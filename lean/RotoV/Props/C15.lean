/-
  C15 — lists behave like one shared growable array.
  Theorems over `RotoV.ListM` (Model/ListM.lean), whose capacity function and
  lock targets are regenerated from src/value/list.rs on every run.
-/
import RotoV.Model.ListM

namespace RotoV.C15
open RotoV RotoV.ListM

/-- two distinct lists with equal contents, as `List::from([1])` twice -/
def twoLists : St := runSt 8 (St.init 2) [.fromVec 0 [1], .fromVec 1 [1]]

/-- REFUTATION (pinned tree): with both `lock()` calls of `List<T>::eq` going to
    `self`, comparing two distinct lists dead-locks. -/
theorem typed_eq_pinned_deadlocks_witness :
    typedEqAsPinned twoLists 0 1 = .error .deadlock := by decide

/-- with the lock targets of the current source the same comparison returns `true` -/
theorem typed_eq_witness_terminates :
    (match typedEq twoLists 0 1 with | .ok r => r.1 | .error f => .fault f) = .bool true := by decide

example : twoLists.slot 0 = .ok 0 ∧ twoLists.slot 1 = .ok 1 := by decide

end RotoV.C15
