/-
  C15 — lists behave like one shared growable array.

  Theorems over the state machine `RotoV.ListM` (Model/ListM.lean): a store of
  `Arc<Mutex<RawList>>` allocations with explicit lock steps, aliasing handle
  variables and element tokens, every function written after the Rust text.
  `compute_capacity`, the lock targets of both `==` implementations and the
  statement order of `concat` are regenerated from src/value/list.rs on every
  run (Generated/Capacity, Generated/ListLocks), and so is the body of the
  `join` binding of src/runtime/basic.rs (Generated/ListJoin), so the theorems
  below are re-checked against what the source says now.

  Quantifier: every theorem is for ALL element sizes `sz` (0 = zero-sized),
  ALL numbers of handle variables `n`, ALL operation sequences `ops` (any
  aliasing, any values, any indices) — by induction over the history with the
  store invariant `Inv` (Lemmas/ListInv) and the forward simulation `Rel`
  (Lemmas/ListRefine). Nothing is bounded.
-/
import RotoV.Lemmas.ListRefine
import RotoV.Lemmas.ListNested
import RotoV.Lemmas.ListFor
import RotoV.Lemmas.ListSelfEq
import RotoV.Lemmas.ListIter
import RotoV.Lemmas.ListBind

namespace RotoV.C15
open RotoV RotoV.ListM

/-! ### T1 — refinement of shared vectors -/

/-- T1 `refines_vec`. For every history that does not hit the capacity-overflow
    panic (which `Vec` has as well) and never compares a vector that holds a NaN
    with itself (`NoReflShortcut`, a condition on the shared vectors alone; see
    `eq_same_list_nan_differs` for what happens then): every operation returns
    what the same operation returns on vectors shared between the handles
    (`capacity`'s number is the one result a vector's contents do not
    determine: it is erased here and characterised by `invariants` below), and
    the abstraction commutes (`Rel`: same variables, live allocation ↦ its
    vector) at the end. Element comparisons — `contains`, `index`, both `==` —
    are `elemEq` on both sides: the identity on plain values, IEEE `==` on
    floating-point elements (`0.0 == -0.0`, NaN equal to nothing). -/
theorem refines_vec (sz n : Nat) (ops : List Op)
    (hp : ∀ o ∈ run sz (St.init n) ops, o ≠ .fault .panic)
    (hq : NoReflShortcut (Spec.init n) ops) :
    List.zipWith eraseCap ops (run sz (St.init n) ops) = specRun (Spec.init n) ops ∧
      Rel (runSt sz (St.init n) ops) (specRunSt (Spec.init n) ops) :=
  run_sim ops (Inv_init sz n) (Rel_init n) hp hq

/-- T1 without the second hypothesis: a history that never brings a value into
    a list that is not equal to itself (no NaN among the arguments of `from` /
    `push` — in particular every history over plain element types) refines the
    shared vectors in full: no vector ever holds such an element (`SelfEq` is
    kept by every operation of the specification), so the reflexive shortcut
    never shows. -/
theorem refines_vec_no_nan (sz n : Nat) (ops : List Op)
    (hp : ∀ o ∈ run sz (St.init n) ops, o ≠ .fault .panic)
    (hv : ∀ op ∈ ops, ∀ v ∈ opVals op, elemEq v v = true) :
    List.zipWith eraseCap ops (run sz (St.init n) ops) = specRun (Spec.init n) ops ∧
      Rel (runSt sz (St.init n) ops) (specRunSt (Spec.init n) ops) :=
  refines_vec sz n ops hp (noRefl_of_selfEq ops (SelfEq_init n) hv)

example : ∀ op ∈ [Op.fromVec 0 [1, f64Base + 0x8000000000000000], .push 0 7, .eq 0 0 false],
    ∀ v ∈ opVals op, elemEq v v = true := by decide

/-- `[0.0] == [-0.0]`, `[NaN] != [NaN]` (two lists), `contains` / `index` of `-0.0`
    in `[1.5, 0.0]`: the element `==`, not the bytes -/
example : run 8 (St.init 2) [.fromVec 0 [f64Base + 0], .fromVec 1 [f64Base + 0x8000000000000000], .eq 0 1 false,
      .eq 1 0 true, .fromVec 0 [f64Base + 0x7FF8000000000000], .fromVec 1 [f64Base + 0x7FF8000000000000],
      .eq 0 1 false, .eq 0 1 true, .contains 0 (f64Base + 0x7FF8000000000000),
      .fromVec 0 [f64Base + 0x3FF8000000000000, f64Base + 0], .index 0 (f64Base + 0x8000000000000000)]
    = [.unit, .unit, .bool true, .bool true, .unit, .unit, .bool false, .bool false, .bool false, .unit,
       .opt (some 1)] := by decide

example : run 8 (St.init 2) [.fromVec 0 [1, 2], .cloneH 1 0, .push 1 3, .get 0 2, .concat 0 0 1, .len 0]
    = [.unit, .unit, .unit, .opt (some 3), .unit, .nat 6] := by decide

/-- T1, one step from any reachable state: the result is the specification's,
    or the step is the capacity-overflow panic and changed nothing. -/
theorem step_refines (sz n : Nat) (ops : List Op) (t : Spec)
    (rel : Rel (runSt sz (St.init n) ops) t) (op : Op) :
    Good sz (runSt sz (St.init n) ops) t op :=
  good_step (Inv_runSt ops (Inv_init sz n)) rel op

example : Good 8 (St.init 1) (Spec.init 1) (.new 0) :=
  good_step (Inv_init 8 1) (Rel_init 1) _

/-- no history ever dead-locks or reads freed / uninitialised memory -/
theorem no_deadlock_no_ub (sz n : Nat) (ops : List Op) :
    ∀ o ∈ run sz (St.init n) ops, o ≠ .fault .deadlock ∧ o ≠ .fault .ub := by
  suffices h : ∀ (ops : List Op) (s : St), Inv sz s →
      ∀ o ∈ run sz s ops, o ≠ .fault .deadlock ∧ o ≠ .fault .ub from
    h ops _ (Inv_init sz n)
  intro ops
  induction ops with
  | nil => intro s _ o ho; simp [run] at ho
  | cons op rest ih =>
    intro s inv o ho
    simp only [run, List.mem_cons] at ho
    rcases ho with ho | ho
    · subst ho; exact step_no_lock_fault inv op
    · exact ih _ (Inv_step inv op) o ho

example : (step 8 (St.init 1) (.get 0 0)).1 = .fault .badHandle := by decide

theorem nextPow2_le_of_le {k : Nat} (h : k ≤ 2 ^ 63) : nextPow2 k ≤ usizeMax := by
  unfold nextPow2
  split
  · decide
  · rename_i h1
    have hne : k - 1 ≠ 0 := by omega
    have hlt : (k - 1).log2 < 63 := (Nat.log2_lt hne).mpr (by omega)
    have : 2 ^ ((k - 1).log2 + 1) ≤ 2 ^ 63 := Nat.pow_le_pow_right (by omega) (by omega)
    have hu : (2 : Nat) ^ 63 ≤ usizeMax := by decide
    omega

/-- T1, the panic quantified: in any reachable state an operation panics only
    if a capacity computation overflows `usize`, and that needs the lists to
    hold (or the operation to bring) more than 2^62 elements:
    `2 * live + size(op) > 2^63`. Below that, `refines_vec`'s hypothesis holds. -/
theorem panic_only_when_huge (sz n : Nat) (ops : List Op) (op : Op)
    (h : (step sz (runSt sz (St.init n) ops) op).1 = .fault .panic) :
    2 ^ 63 < 2 * (runSt sz (St.init n) ops).live + opSize op := by
  have inv := Inv_runSt ops (Inv_init sz n)
  rcases good_step inv (Rel_abs _) op with ⟨_, _, k, hk1, hk2⟩ | ⟨h1 | ⟨_, h1⟩, _, _, _⟩
  · by_cases hb : k ≤ 2 ^ 63
    · have := nextPow2_le_of_le hb; omega
    · omega
  · rw [eraseCap_fault h] at h1
    have := specStep_fault_bad _ _ h1.symm
    cases this
  · rw [eraseCap_fault h] at h1
    cases h1

example : (step 8 (St.init 1) (.fromVec 0 [1, 2, 3])).1 = .unit ∧ opSize (.fromVec 0 [1, 2, 3]) = 3 := by decide

/-- the tie for the single-list operations: in the source every one of these
    `ErasedList` methods is exactly one call of the `RawList` method of the same
    name under `self`'s lock (no second `lock()`), which is what `withLock`
    models; a method that starts calling something else changes the generated
    list and this stops checking -/
theorem single_lock_ops_as_modelled :
    Gen.ListLocks.singleLockOps =
        [("push", "push"), ("get", "get"), ("swap", "swap"), ("len", "len"), ("capacity", "capacity"),
         ("is_empty", "is_empty"), ("contains", "contains"), ("index", "index")] ∨
      -- `ErasedList::get` removed: the typed `get` and `ffi::list_get` look up under their own lock
      Gen.ListLocks.singleLockOps =
        [("push", "push"), ("get", "get-under-callers-lock"), ("swap", "swap"), ("len", "len"),
         ("capacity", "capacity"), ("is_empty", "is_empty"), ("contains", "contains"), ("index", "index")] := by
  first | exact Or.inl rfl | exact Or.inr rfl

example : Gen.ListLocks.singleLockOps.length = 8 := rfl

/-- the script-side variants `contains_owned` / `index_owned` run the same
    `RawList` search under `self`'s lock and then drop the item they were given
    on every path (found or not) — the balance of the item is the script's -/
theorem owned_variants_release_item :
    Gen.ListLocks.ownedVariants =
      [("contains_owned", "contains", true), ("index_owned", "index", true)] := rfl

example : Gen.ListLocks.ownedVariants.length = 2 := rfl

/-- the lock facts the theorems above were checked against: the typed `==`
    locks `self` then `other`; `ErasedList::eq` and `concat` come in one of two
    shapes, both proved correct — locks taken one after the other, or (after the
    repairs made for C16) both operands locked in address order -/
theorem lock_facts_as_proved :
    Gen.ListLocks.typedEqLocksLt = [.self_, .other] ∧ Gen.ListLocks.typedEqCompareLt = (0, 1) ∧
      ((Gen.ListLocks.typedEqLocksGe = [.self_, .other] ∧ Gen.ListLocks.typedEqCompareGe = (0, 1)) ∨
        (Gen.ListLocks.typedEqLocksGe = [.other, .self_] ∧ Gen.ListLocks.typedEqCompareGe = (1, 0))) ∧
      Gen.ListLocks.typedEqShortcut = true ∧ Gen.ListLocks.erasedEqShortcut = true ∧
      Gen.ListLocks.erasedEqLocksLt = [.self_, .other] ∧ Gen.ListLocks.erasedEqCompareLt = (0, 1) ∧
      ((Gen.ListLocks.erasedEqLocksGe = [.self_, .other] ∧ Gen.ListLocks.erasedEqCompareGe = (0, 1)) ∨
        (Gen.ListLocks.erasedEqLocksGe = [.other, .self_] ∧ Gen.ListLocks.erasedEqCompareGe = (1, 0))) ∧
      ((Gen.ListLocks.concatStepsSame = seqSteps ∧ Gen.ListLocks.concatStepsLt = seqSteps ∧
          Gen.ListLocks.concatStepsGe = seqSteps) ∨
        (Gen.ListLocks.concatStepsSame = sameSteps ∧ Gen.ListLocks.concatStepsLt = ltSteps ∧
          Gen.ListLocks.concatStepsGe = geSteps)) := by decide

example : seqSteps.length = 9 ∧ sameSteps.length = 7 ∧ ltSteps.length = 9 ∧ geSteps.length = 9 := by decide

/-! ### T2 — representation invariants -/

/-- T2 `invariants`. After any history, every live list has `len` = number of
    initialised slots, `len ≤ capacity ≤ usize::MAX`; a zero-sized element type
    has capacity `usize::MAX`; otherwise the capacity is 0 or a power of two
    that is at least the size-class minimum (8 for one-byte elements, 4 up to
    1024 bytes, 1 above); no lock is left held; the `Arc` count equals the
    number of variables holding the list and is positive. -/
theorem invariants (sz n : Nat) (ops : List Op) (a : Nat) (l : RawList)
    (h : (runSt sz (St.init n) ops).getAlloc a = some l) :
    l.elems.length = l.len ∧ l.len ≤ l.cap ∧ l.cap ≤ usizeMax ∧
      (sz = 0 → l.cap = usizeMax) ∧
      (sz ≠ 0 → l.cap = 0 ∨ (IsPow2 l.cap ∧ minCap sz ≤ l.cap)) ∧
      l.locked = false ∧
      l.rc = (runSt sz (St.init n) ops).slots.count (some a) ∧ 0 < l.rc := by
  have inv := Inv_runSt ops (Inv_init sz n)
  have ⟨ok, hk, hrc, hpos⟩ := inv.raw a l h
  exact ⟨ok.wf, ok.le, ok.bound, ok.zst, ok.shape, hk, by simpa using hrc, hpos⟩

example : (runSt 1 (St.init 1) [.new 0, .push 0 7]).getAlloc 0
    = some { len := 1, cap := 8, elems := [7], locked := false, rc := 1 } := by decide

/-- T2, capacity never shrinks, and more: along any history allocations are
    never revived — a list that is alive at the end was alive at every earlier
    point since its creation — and its capacity never went down. -/
theorem capacity_never_shrinks (sz n : Nat) (ops more : List Op) (a : Nat) (l' : RawList)
    (ha : a < (runSt sz (St.init n) ops).allocs.length)
    (hl' : (runSt sz (runSt sz (St.init n) ops) more).getAlloc a = some l') :
    ∃ l, (runSt sz (St.init n) ops).getAlloc a = some l ∧ l.cap ≤ l'.cap := by
  have inv0 := Inv_runSt ops (Inv_init sz n)
  suffices h : ∀ (more : List Op) (s : St), Inv sz s → a < s.allocs.length →
      (runSt sz s more).getAlloc a = some l' → ∃ l, s.getAlloc a = some l ∧ l.cap ≤ l'.cap from
    h more _ inv0 ha hl'
  intro more
  induction more with
  | nil => intro s _ _ h2; exact ⟨l', h2, Nat.le_refl _⟩
  | cons op rest ih =>
    intro s inv hlt h2
    simp only [runSt] at h2
    have hframe : CapMono s (step sz s op).2 := by
      rcases good_step inv (Rel_abs s) op with ⟨_, hs, _⟩ | ⟨_, _, _, cm⟩
      · rw [hs]; exact CapMono_refl s
      · exact cm
    have ⟨lm, hm, hc⟩ := ih _ (Inv_step inv op) (Nat.lt_of_lt_of_le hlt hframe.1) h2
    have ⟨l, hl, hc2⟩ := hframe.2 a lm hlt hm
    exact ⟨l, hl, Nat.le_trans hc2 hc⟩

example : ((runSt 8 (St.init 1) [.fromVec 0 [1, 2, 3, 4], .push 0 5]).getAlloc 0).map (·.cap) = some 8 := by decide

/-- the generated `compute_capacity` is what std's `Vec` documents: 0 for 0,
    else the next power of two, at least the size-class minimum -/
theorem capacity_function (sz req : Nat) :
    Gen.Capacity.compute_capacity true sz req =
      if req = 0 then .ok 0
      else if nextPow2 req ≤ usizeMax then .ok (max (nextPow2 req) (minCap sz)) else .panic := by
  rw [compute_capacity_eq]
  unfold checkedNextPow2 ordMax
  by_cases h0 : req = 0
  · simp [h0]
  · simp only [h0, if_false]
    by_cases hb : nextPow2 req ≤ usizeMax
    · simp only [hb, if_true]
      by_cases hm : nextPow2 req ≤ minCap sz
      · rw [if_pos hm, Nat.max_eq_right hm]
      · rw [if_neg hm, Nat.max_eq_left (by omega)]
    · simp only [hb, if_false]

example : Gen.Capacity.compute_capacity true 1 3 = .ok 8 ∧ Gen.Capacity.compute_capacity true 8 9 = .ok 16 ∧
    Gen.Capacity.compute_capacity true 2000 1 = .ok 1 := by decide

/-- `next_power_of_two` is the least power of two that suffices -/
theorem next_pow2_tight (n : Nat) (h : n ≠ 0) :
    n ≤ nextPow2 n ∧ nextPow2 n < 2 * n ∧ IsPow2 (nextPow2 n) :=
  ⟨le_nextPow2 n, nextPow2_lt_double n h, nextPow2_isPow2 n⟩

example : nextPow2 5 = 8 ∧ nextPow2 8 = 8 ∧ nextPow2 1 = 1 := by decide

/-! ### T3 — element tokens -/

/-- T3 `tokens_balanced`. After any history the number of live element tokens
    (moved in or cloned, not yet dropped) is the total length of the live
    lists: nothing leaks, nothing is dropped twice. -/
theorem tokens_balanced (sz n : Nat) (ops : List Op) :
    (runSt sz (St.init n) ops).live = ((runSt sz (St.init n) ops).allocs.map lenOf).sum :=
  (Inv_runSt ops (Inv_init sz n)).live

example : (runSt 24 (St.init 2) [.fromVec 0 [1, 2], .concat 1 0 0, .dropH 0]).live = 4 := by decide

/-- when the last variable is dropped nothing stays alive -/
theorem no_leak_at_end (sz n : Nat) (ops : List Op)
    (h : ∀ v ∈ (runSt sz (St.init n) ops).slots, v = none) :
    (runSt sz (St.init n) ops).live = 0 := by
  have inv := Inv_runSt ops (Inv_init sz n)
  rw [inv.live]
  apply sum_eq_zero_of_all
  intro x hx
  obtain ⟨o, ho, rfl⟩ := List.mem_map.mp hx
  cases o with
  | none => rfl
  | some l =>
    obtain ⟨a, ha⟩ := List.getElem?_of_mem ho
    have hl : (runSt sz (St.init n) ops).getAlloc a = some l := by
      unfold St.getAlloc; rw [ha]
    have ⟨_, _, hrc, hpos⟩ := inv.raw a l hl
    have hc : (runSt sz (St.init n) ops).slots.count (some a) = 0 :=
      List.count_eq_zero.mpr (fun hm => by cases h _ hm)
    simp [hc] at hrc
    omega

example : (runSt 0 (St.init 1) [.fromVec 0 [0, 0], .dropH 0]).live = 0 := by decide

/-- out-of-range `get` returns `None` and changes nothing -/
theorem get_out_of_range (sz n : Nat) (ops : List Op) (h i a : Nat) (l : RawList)
    (hs : (runSt sz (St.init n) ops).slots[h]? = some (some a))
    (hl : (runSt sz (St.init n) ops).getAlloc a = some l) (hi : l.len ≤ i) :
    step sz (runSt sz (St.init n) ops) (.get h i) = (.opt none, runSt sz (St.init n) ops) := by
  have inv := Inv_runSt ops (Inv_init sz n)
  have hw := (inv.raw a l hl).1.wf
  have : stepE sz (runSt sz (St.init n) ops) (.get h i) = .ok (.opt none, runSt sz (St.init n) ops) := by
    refine withLock_read' inv hs hl ?_
    simp only [rawGet_eq hw]
    rw [List.getElem?_eq_none (by omega)]
  simp only [step, this]

example : step 8 (runSt 8 (St.init 1) [.fromVec 0 [5]]) (.get 0 1)
    = (.opt none, runSt 8 (St.init 1) [.fromVec 0 [5]]) := by decide

/-- out-of-range `swap` does nothing -/
theorem swap_out_of_range (sz n : Nat) (ops : List Op) (h i j a : Nat) (l : RawList)
    (hs : (runSt sz (St.init n) ops).slots[h]? = some (some a))
    (hl : (runSt sz (St.init n) ops).getAlloc a = some l) (hi : l.len ≤ i ∨ l.len ≤ j) :
    step sz (runSt sz (St.init n) ops) (.swap h i j) = (.unit, runSt sz (St.init n) ops) := by
  have inv := Inv_runSt ops (Inv_init sz n)
  have : stepE sz (runSt sz (St.init n) ops) (.swap h i j) = .ok (.unit, runSt sz (St.init n) ops) := by
    refine withLock_read' (f := fun l => .ok (.unit, rawSwap l i j)) inv hs hl ?_
    have : rawSwap l i j = l := by
      unfold rawSwap; rw [swap_noop_eq, decide_eq_true (by omega), if_pos rfl]
    simp only [this]
  simp only [step, this]

example : step 8 (runSt 8 (St.init 1) [.fromVec 0 [5, 6]]) (.swap 0 0 2)
    = (.unit, runSt 8 (St.init 1) [.fromVec 0 [5, 6]]) := by decide

/-- concatenation (also `l + l`, also into a variable that holds an operand)
    leaves the contents, length and capacity of every existing list unchanged -/
theorem concat_leaves_operands (sz n : Nat) (ops : List Op) (d a b c : Nat) (l l' : RawList)
    (hl : (runSt sz (St.init n) ops).getAlloc c = some l)
    (hl' : (step sz (runSt sz (St.init n) ops) (.concat d a b)).2.getAlloc c = some l') :
    l'.elems = l.elems := by
  have inv := Inv_runSt ops (Inv_init sz n)
  have rel := Rel_abs (runSt sz (St.init n) ops)
  rcases good_step inv rel (.concat d a b) with ⟨_, h, _⟩ | ⟨_, _, h3, _⟩
  · rw [h, hl] at hl'; injection hl' with hl'; rw [hl']
  · have h1 := rel.lists c l hl
    have h2 := h3.lists c l' hl'
    have hc := (getAlloc_some_lt hl).1
    have hspec : (specStep (absSpec (runSt sz (St.init n) ops)) (.concat d a b)).2.lists[c]? =
        (absSpec (runSt sz (St.init n) ops)).lists[c]? := by
      simp only [specStep, Spec.bind]
      split
      · split
        · simp only []
          rw [List.getElem?_append_left (by rw [rel.len]; exact hc)]
        · rfl
      · rfl
    rw [hspec, h1] at h2
    injection h2 with h2
    exact h2.symm

example : (runSt 8 (St.init 1) [.fromVec 0 [1, 2], .concat 0 0 0]).getAlloc 0
    = none ∧
    ((runSt 8 (St.init 1) [.fromVec 0 [1, 2], .concat 0 0 0]).getAlloc 1).map (·.elems) = some [1, 2, 1, 2] := by
  decide

/-! ### T4 — comparing two lists always terminates -/

/-- T4 `eq_terminates`. In every reachable state, for any two handle variables
    — the same variable, two variables aliasing one list, or two distinct lists
    — both `List<T>::eq` (typed, Rust API) and `ErasedList::eq` (scripts)
    return list equality and leave the store as it was: no lock is taken twice.
    The lock targets are the generated ones: with `[self, self]` (the pinned
    tree) `typedEq_ok` does not check and this theorem fails. -/
theorem eq_terminates (sz n : Nat) (ops : List Op) (a b x y : Nat) (lx ly : RawList) (typed : Bool)
    (hsa : (runSt sz (St.init n) ops).slots[a]? = some (some x))
    (hsb : (runSt sz (St.init n) ops).slots[b]? = some (some y))
    (hx : (runSt sz (St.init n) ops).getAlloc x = some lx)
    (hy : (runSt sz (St.init n) ops).getAlloc y = some ly) :
    step sz (runSt sz (St.init n) ops) (.eq a b typed) =
      (.bool (if x = y then true else listEq lx.elems ly.elems), runSt sz (St.init n) ops) := by
  have inv := Inv_runSt ops (Inv_init sz n)
  have wx := (inv.raw x lx hx).1.wf
  have wy := (inv.raw y ly hy).1.wf
  have : stepE sz (runSt sz (St.init n) ops) (.eq a b typed) =
      .ok (.bool (if x = y then true else listEq lx.elems ly.elems), runSt sz (St.init n) ops) := by
    simp only [stepE, slot_ok hsa, slot_ok hsb]
    cases typed with
    | true =>
      simp only [if_true]
      exact typedEq_ok inv hx hy
    | false =>
      simp only [Bool.false_eq_true, if_false]
      exact erasedEq_ok inv hx hy
  simp only [step, this]

example : run 8 (St.init 3) [.fromVec 0 [1], .fromVec 1 [1], .cloneH 2 0, .eq 0 1 true, .eq 0 2 true,
    .eq 0 0 true, .eq 1 0 false, .push 2 5, .eq 0 1 true]
    = [.unit, .unit, .unit, .bool true, .bool true, .bool true, .bool true, .unit, .bool false] := by decide

/-- T4 for plain element values (integers, strings, tracked values, handles):
    the answer is equality of the two sequences, also for the same list -/
theorem eq_terminates_plain (sz n : Nat) (ops : List Op) (a b x y : Nat) (lx ly : RawList) (typed : Bool)
    (hsa : (runSt sz (St.init n) ops).slots[a]? = some (some x))
    (hsb : (runSt sz (St.init n) ops).slots[b]? = some (some y))
    (hx : (runSt sz (St.init n) ops).getAlloc x = some lx)
    (hy : (runSt sz (St.init n) ops).getAlloc y = some ly)
    (hpl : ∀ e ∈ lx.elems, e < f64Base) :
    step sz (runSt sz (St.init n) ops) (.eq a b typed) =
      (.bool (decide (lx.elems = ly.elems)), runSt sz (St.init n) ops) :=
  step_eq_ok (Inv_runSt ops (Inv_init sz n)) typed hsa hsb hx hy hpl

example : ∀ e ∈ [1, 2, 3], e < f64Base := by decide

/-- REFUTATION of "`==` is the vectors' `==`" for a list compared with itself:
    in every reachable state, when the two handles hold the same list and the
    list has an element that is not equal to itself (a NaN in a `List[f64]`),
    both `==` answer `true` (the `Arc::ptr_eq` shortcut answers before any
    element is looked at) while the shared vector compared with itself is
    `false` (`[f64]: PartialEq` compares element by element and `NaN != NaN`;
    `Rc<RefCell<Vec<f64>>>` has no pointer shortcut because `f64` is not `Eq`).
    This is the only deviation from the vectors (`step_refines`). -/
theorem eq_same_list_nan_differs (sz n : Nat) (ops : List Op) (a b x : Nat) (l : RawList) (typed : Bool)
    (hsa : (runSt sz (St.init n) ops).slots[a]? = some (some x))
    (hsb : (runSt sz (St.init n) ops).slots[b]? = some (some x))
    (hx : (runSt sz (St.init n) ops).getAlloc x = some l)
    (hnan : listEq l.elems l.elems = false) :
    (step sz (runSt sz (St.init n) ops) (.eq a b typed)).1 = .bool true ∧
      (specStep (absSpec (runSt sz (St.init n) ops)) (.eq a b typed)).1 = .bool false := by
  constructor
  · rw [eq_terminates sz n ops a b x x l l typed hsa hsb hx hx]
    simp
  · have rel := Rel_abs (runSt sz (St.init n) ops)
    simp only [specStep, vec_ok rel hsa hx, vec_ok rel hsb hx, hnan]

/-- the witness: `l = [NaN]; l == l` -/
example : run 8 (St.init 2) [.fromVec 0 [f64Base + 0x7FF8000000000000], .cloneH 1 0, .eq 0 1 false, .eq 0 0 true]
      = [.unit, .unit, .bool true, .bool true] ∧
    specRun (Spec.init 2) [.fromVec 0 [f64Base + 0x7FF8000000000000], .cloneH 1 0, .eq 0 1 false, .eq 0 0 true]
      = [.unit, .unit, .bool false, .bool false] := by decide

/-- `concat` never dead-locks either, for any pair of operands (same, aliased,
    distinct): the only fault is the capacity overflow -/
theorem concat_terminates (sz n : Nat) (ops : List Op) (d a b : Nat) :
    (step sz (runSt sz (St.init n) ops) (.concat d a b)).1 ≠ .fault .deadlock :=
  (step_no_lock_fault (Inv_runSt ops (Inv_init sz n)) _).1

example : (step 8 (runSt 8 (St.init 2) [.fromVec 0 [1, 2], .cloneH 1 0]) (.concat 0 0 1)).1 = .unit := by decide

/-! ### nested lists: the element-wise `==` one level down

An element of a `List<List<T>>` is an `ErasedList` handle — what a handle
variable of the model is. `contains` / `index` / `==` of the outer list run the
implementation's `==` on pairs of such handles (`containsN`, `indexN`, `eqN`:
the loops of `RawList::contains`, `RawList::index` and slice equality over the
element handles). -/

/-- T4 for nested lists: in every reachable state, `outer.contains(&item)` over
    any element handles (aliasing each other, aliasing the item, or distinct
    lists) terminates without dead-lock, leaves the store as it was and answers
    membership by contents. With the pinned tree's `List<T>::eq` this fails to
    check (`typedEq_ok`): there every element distinct from the item
    dead-locked. -/
theorem nested_contains_terminates (sz n : Nat) (ops : List Op) (typed : Bool)
    (elems : List Nat) (item : Nat) (cs : List (List Nat)) (ci : List Nat)
    (hi : (runSt sz (St.init n) ops).contents item = some ci)
    (he : allContents (runSt sz (St.init n) ops) elems = some cs) (hpl : PlainLists cs) :
    containsN sz typed (runSt sz (St.init n) ops) elems item =
      (.bool (cs.contains ci), runSt sz (St.init n) ops) :=
  containsN_ok (Inv_runSt ops (Inv_init sz n)) typed item hi elems cs he hpl

example : (containsN 8 true (runSt 8 (St.init 3) [.fromVec 0 [1], .fromVec 1 [2], .fromVec 2 [2]]) [0, 1] 2).1
    = .bool true := by decide

/-- `outer.index(&item)` likewise: the first element equal by contents -/
theorem nested_index_terminates (sz n : Nat) (ops : List Op) (typed : Bool)
    (elems : List Nat) (item : Nat) (cs : List (List Nat)) (ci : List Nat)
    (hi : (runSt sz (St.init n) ops).contents item = some ci)
    (he : allContents (runSt sz (St.init n) ops) elems = some cs) (hpl : PlainLists cs) :
    indexN sz typed (runSt sz (St.init n) ops) elems item 0 =
      (.opt (firstIdxL ci cs 0), runSt sz (St.init n) ops) :=
  indexN_ok (Inv_runSt ops (Inv_init sz n)) typed item hi elems cs 0 he hpl

example : (indexN 8 false (runSt 8 (St.init 3) [.fromVec 0 [1], .fromVec 1 [2], .fromVec 2 [2]]) [0, 1] 2 0).1
    = .opt (some 1) := by decide

/-- `==` of two nested lists: terminates, store unchanged, equality of the
    contents of contents -/
theorem nested_eq_terminates (sz n : Nat) (ops : List Op) (typed : Bool)
    (as bs : List Nat) (ca cb : List (List Nat))
    (ha : allContents (runSt sz (St.init n) ops) as = some ca)
    (hb : allContents (runSt sz (St.init n) ops) bs = some cb) (hpl : PlainLists ca) :
    eqN sz typed (runSt sz (St.init n) ops) as bs =
      (.bool (decide (ca = cb)), runSt sz (St.init n) ops) :=
  eqN_ok (Inv_runSt ops (Inv_init sz n)) typed as bs ca cb ha hb hpl

example : (eqN 8 true (runSt 8 (St.init 3) [.fromVec 0 [1], .fromVec 1 [2], .fromVec 2 [2]]) [0, 1] [0, 2]).1
    = .bool true := by decide

/-! ### T5 — `join` on a `List[String]` is `[String]::join`

The body of the `join` binding is regenerated from `src/runtime/basic.rs`
(Generated/ListJoin, an executable function from the element strings and the
separator to the result); strings are their UTF-8 bytes. All statements are for
EVERY list of strings — any number of empty strings in any position, the empty
list, a singleton — and EVERY separator (empty, multi-byte, equal to an
element). -/

/-- T5 `join_binding_is_slice_join` — tie obligation: whatever the source's body
    of `join` is on this run, for all element strings and all separators it
    returns the elements in order with the separator between every two
    neighbours (`joinSpec`). -/
theorem join_binding_is_slice_join (l : List Str) (sep : Str) :
    Gen.ListJoin.join_body l sep = joinSpec l sep :=
  join_body_eq l sep

example : Gen.ListJoin.join_body [[], [98]] [44] = [44, 98] := by decide

/-- what `joinSpec` is: nothing for no element, the element for one, and from
    two elements on the first, the separator and the join of the rest — the
    separator is never dropped because an element (or everything so far) is
    empty. -/
theorem join_unfolds (x y : Str) (r : List Str) (sep : Str) :
    joinSpec [] sep = [] ∧ joinSpec [x] sep = x ∧
      joinSpec (x :: y :: r) sep = x ++ (sep ++ joinSpec (y :: r) sep) :=
  ⟨joinSpec_nil sep, joinSpec_single x sep, joinSpec_cons_cons x y r sep⟩

example : joinSpec [[], []] [45] = [45] ∧ joinSpec [[], [], []] [45] = [45, 45] := by decide

/-- every separator is there: the result has the bytes of all elements plus
    exactly `len - 1` separators -/
theorem join_length (l : List Str) (sep : Str) :
    (Gen.ListJoin.join_body l sep).length = totalLen l + (l.length - 1) * sep.length := by
  rw [join_body_eq]; exact joinSpec_length l sep

example : (Gen.ListJoin.join_body [[], [], [120]] [226, 134, 146]).length = 7 := by decide

/-- the empty separator concatenates; joining splits at every inner boundary -/
theorem join_empty_separator_and_split (a b : List Str) (sep : Str) (ha : a ≠ []) (hb : b ≠ []) :
    Gen.ListJoin.join_body a [] = a.flatten ∧
      Gen.ListJoin.join_body (a ++ b) sep
        = Gen.ListJoin.join_body a sep ++ (sep ++ Gen.ListJoin.join_body b sep) := by
  simp only [join_body_eq]
  exact ⟨joinSpec_empty_sep a, joinSpec_append a b sep ha hb⟩

example : Gen.ListJoin.join_body ([[97], []] ++ [[], [98]]) [44] = [97, 44] ++ ([44] ++ [44, 98]) := by decide

/-- `join` from any reachable state, on any handle of a live list: the result
    is `[String]::join` of the elements' strings, the store is as before (no
    lock left held, nothing cloned for good). -/
theorem join_from_any_state (sz n : Nat) (ops : List Op) (h a : Nat) (l : RawList) (sep : Str)
    (hs : (runSt sz (St.init n) ops).slots[h]? = some (some a))
    (hl : (runSt sz (St.init n) ops).getAlloc a = some l) :
    step sz (runSt sz (St.init n) ops) (.join h sep)
      = (.str (joinSpec (l.elems.map elemStr) sep), runSt sz (St.init n) ops) := by
  have inv := Inv_runSt ops (Inv_init sz n)
  have hw := (inv.raw a l hl).1.wf
  have : stepE sz (runSt sz (St.init n) ops) (.join h sep)
      = .ok (.str (joinSpec (l.elems.map elemStr) sep), runSt sz (St.init n) ops) := by
    refine withLock_read' inv hs hl ?_
    simp only [readAll_eq hw, join_body_eq]
  simp only [step, this]

example : (step 8 (runSt 8 (St.init 1) [.fromVec 0 [0, 1, 0, 2]]) (.join 0 [44])).1
    = .str [44, 115, 49, 44, 44, 115] := by decide

/-- the strings the element values of a `List[String]` stand for (empty, prefix
    of another, multi-byte, differing in case, … and `"s<v>"`) are pairwise
    distinct: comparing element values in the model is comparing the strings -/
theorem string_elements_distinct (v w : Nat) : elemStr v = elemStr w ↔ v = w :=
  ⟨elemStr_injective, fun h => h ▸ rfl⟩

example : elemStr 0 = [] ∧ elemStr 2 = [115] ∧ elemStr 12 = [115, 49, 50] := by decide

/-- tie obligation: every `as` cast in the bodies of the list bindings of
    `src/runtime/basic.rs` (the script side passes `u64`, the list API takes and
    returns `usize`) goes to `u64` or `usize` — no index, length or capacity is
    narrowed on its way between a script and the list (regenerated:
    `Gen.ListJoin.bindingCasts`). -/
theorem adapters_do_not_narrow :
    ∀ c ∈ Gen.ListJoin.bindingCasts, c.2.2.2.keepsIndices = true := by
  decide

example : CastTy.keepsIndices .u32 = false ∧ CastTy.keepsIndices .i64 = false ∧ CastTy.keepsIndices .usize = true := by decide

/-! ### the defect of the pinned tree -/

/-- two distinct lists with equal contents, as `List::from([1])` twice -/
def twoLists : St := runSt 8 (St.init 2) [.fromVec 0 [1], .fromVec 1 [1]]

/-- REFUTATION (pinned tree). With both `lock()` calls of `List<T>::eq` going to
    `self` — as the source read before the `fix:` commit — comparing ANY two
    distinct live lists dead-locks, in every reachable state. -/
theorem typed_eq_pinned_deadlocks (sz n : Nat) (ops : List Op) (x y : Nat) (lx ly : RawList)
    (hx : (runSt sz (St.init n) ops).getAlloc x = some lx)
    (_hy : (runSt sz (St.init n) ops).getAlloc y = some ly) (hxy : x ≠ y) :
    typedEqAsPinned (runSt sz (St.init n) ops) x y = .error .deadlock := by
  have inv := Inv_runSt ops (Inv_init sz n)
  have hk := (inv.raw x lx hx).2.1
  have hne : (x == y) = false := by simp [hxy]
  unfold typedEqAsPinned eqWith
  simp only [hne, Bool.and_false, Bool.false_eq_true, if_false, List.map, resolve]
  have g1 : ((runSt sz (St.init n) ops).setAlloc x (some { lx with locked := true })).getAlloc x
      = some { lx with locked := true } := by
    rw [getAlloc_setAlloc_live hx, if_pos rfl]
  have a2 : acquire ((runSt sz (St.init n) ops).setAlloc x (some { lx with locked := true })) x
      = .error .deadlock := by
    unfold acquire; rw [g1]; rfl
  simp only [acquireAll, acquire_live hx hk, a2]

/-- the witness of the defect, replayed on the real code by the harness
    (boundary history `f:0:1 f:1:1 =:0:1`) -/
theorem typed_eq_pinned_deadlocks_witness :
    typedEqAsPinned twoLists 0 1 = .error .deadlock := by decide

/-- with the lock targets of the current source the same comparison returns `true` -/
theorem typed_eq_witness_terminates :
    (match typedEq twoLists 0 1 with | .ok r => r.1 | .error f => .fault f) = .bool true := by decide

example : twoLists.slot 0 = .ok 0 ∧ twoLists.slot 1 = .ok 1 := by decide

/-! ### element equality is the element type's `==`, not the comparison of the bytes -/

/-- tie obligation: in the source, each of the three element-comparison loops
    — `RawList::contains`, `RawList::index`, `ErasedList::eq` — decides "equal"
    by calling the element vtable's `eq_fn` on the element pointers and by
    nothing else (the translator accepts exactly one loop of that shape per
    function and no other `if` / `return`: a byte-wise fast path is an
    extraction failure, another vtable function changes this table); the typed
    `List<T>::eq` compares slices of `T` (`lock_facts_as_proved`). The model's
    `elemEq` stands for that function. -/
theorem elements_compared_by_eq_fn :
    Gen.ListGuards.elemCompare =
      [("RawList::contains", "eq_fn"), ("RawList::index", "eq_fn"), ("ErasedList::eq", "eq_fn")] := rfl

example : Gen.ListGuards.elemCompare.length = 3 := rfl

/-- `elemEq` is not the identity on representations: `0.0 == -0.0` (bits differ),
    `NaN != NaN` (bits equal), and a list is equal to itself iff it holds no such
    element -/
theorem float_eq_is_not_bytes :
    elemEq (f64Base + 0) (f64Base + 0x8000000000000000) = true ∧
      elemEq (f64Base + 0x7FF8000000000000) (f64Base + 0x7FF8000000000000) = false ∧
      (∀ xs, listEq xs xs = xs.all (fun e => elemEq e e)) :=
  ⟨by decide, by decide, listEq_self⟩

example : listEq [f64Base + 0x7FF8000000000000] [f64Base + 0x7FF8000000000000] = false := by decide

/-- for plain element values — `u8`, `u64`, the ids of strings and tracked
    values, handles of inner lists: everything below `2^64` — the comparisons of
    the specification are the sequence functions: `==` is equality of the
    sequences, `contains` is membership, `index` is the first position -/
theorem plain_elements_compare_by_identity (xs ys : List Nat) (v : Nat)
    (hx : ∀ x ∈ xs, x < f64Base) (hv : v < f64Base) :
    listEq xs ys = decide (xs = ys) ∧ anyEq v xs = xs.contains v ∧
      firstIdx v xs 0 = if xs.contains v then some (xs.idxOf v) else none := by
  refine ⟨listEq_plain hx, anyEq_plain hv xs, ?_⟩
  rw [firstIdx_plain hv xs 0]
  simp

example : listEq [1, 2] [1, 2] = true ∧ anyEq 2 [1, 2] = true ∧ firstIdx 2 [1, 2] 0 = some 1 := by decide

/-! ### `for` walks the one vector the loop started on -/

/-- tie obligation: what the MIR lowering of `for x in <e>` does with `<e>`
    (Generated/ListFor, read off `Lowerer::for` in src/mir/lower.rs): evaluated
    once, before the first iteration, into a variable of the loop's own; every
    iteration calls `List.get` on a clone of that variable; the index starts at
    0 and grows by 1 -/
theorem for_lowering_as_modelled :
    Gen.ListFor.iterableEvaluations = 1 ∧ Gen.ListFor.iterableInOwnVar = true ∧
      Gen.ListFor.getOnCloneOfOwnVar = true ∧ Gen.ListFor.indexStart = 0 ∧ Gen.ListFor.indexStep = 1 := by
  decide

example : forOps 2 0 [[.cloneH 0 1], []] =
    [.cloneH 2 0, .get 2 0, .cloneH 0 1, .get 2 1, .get 2 2, .dropH 2] := by decide

/-- In every reachable state: once the loop has taken its own handle
    (`cloneH tmp h`), NO sequence of operations that does not name `tmp` as a
    destination — in particular none that assigns another list, a
    concatenation or a new list to the variable `h` the loop was written over,
    or drops `h` — changes which list the loop's `get`s read: the variable the
    `get`s go through (`forWalkVar`, by the generated facts the loop's own)
    still refers to the list `a` that `h` referred to when the loop started,
    that list is alive, and `get i` answers its current `i`-th element (so
    pushes and swaps through aliases ARE seen, rebinding a name is not). -/
theorem for_walks_the_list_it_started_on (sz n : Nat) (ops body : List Op) (tmp h a i : Nat)
    (hs : (runSt sz (St.init n) ops).slots[h]? = some (some a))
    (ht : tmp < (runSt sz (St.init n) ops).slots.length)
    (hok : (step sz (runSt sz (St.init n) ops) (.cloneH tmp h)).1 ≠ .fault .panic)
    (hb : ∀ op ∈ body, op.writes tmp = false) :
    (runSt sz (step sz (runSt sz (St.init n) ops) (.cloneH tmp h)).2 body).slots[forWalkVar tmp h]? = some (some a) ∧
      ∃ l, (runSt sz (step sz (runSt sz (St.init n) ops) (.cloneH tmp h)).2 body).getAlloc a = some l ∧
        step sz (runSt sz (step sz (runSt sz (St.init n) ops) (.cloneH tmp h)).2 body) (.get (forWalkVar tmp h) i) =
          (.opt l.elems[i]?, runSt sz (step sz (runSt sz (St.init n) ops) (.cloneH tmp h)).2 body) := by
  have hw : forWalkVar tmp h = tmp := by
    have ⟨h1, h2, h3, _, _⟩ := for_lowering_as_modelled
    simp [forWalkVar, h1, h2, h3]
  rw [hw]
  have inv0 := Inv_runSt ops (Inv_init sz n)
  have inv1 := Inv_step inv0 (.cloneH tmp h)
  have inv2 := Inv_runSt body inv1
  have hslot : (runSt sz (step sz (runSt sz (St.init n) ops) (.cloneH tmp h)).2 body).slots[tmp]? = some (some a) := by
    rw [runSt_slot_frame body inv1 tmp hb]
    exact cloneH_binds inv0 hs ht hok
  refine ⟨hslot, ?_⟩
  have ⟨l, hl⟩ := inv2.slot tmp a hslot
  refine ⟨l, hl, ?_⟩
  have hwf := (inv2.raw a l hl).1.wf
  have : stepE sz (runSt sz (step sz (runSt sz (St.init n) ops) (.cloneH tmp h)).2 body) (.get tmp i) =
      .ok (.opt l.elems[i]?, runSt sz (step sz (runSt sz (St.init n) ops) (.cloneH tmp h)).2 body) := by
    refine withLock_read' inv2 hslot hl ?_
    simp only [rawGet_eq hwf]
  generalize runSt sz (step sz (runSt sz (St.init n) ops) (.cloneH tmp h)).2 body = s' at this ⊢
  simp only [step, this]

/-- the loop of the seeded rebinding: `for x in l { … l = other … }` over `[1, 2, 3]` /
    `[7, 7, 7, 7]` visits 1, 2, 3 -/
example : run 8 (St.init 3) ([.fromVec 0 [1, 2, 3], .fromVec 1 [7, 7, 7, 7]] ++ forOps 2 0 [[.cloneH 0 1], [], []])
    = [.unit, .unit, .unit, .opt (some 1), .unit, .opt (some 2), .opt (some 3), .opt none, .unit] := by decide

/-! ### T9 — Rust-side iterators, interleaved with every other operation

  `List::into_iter` / `IntoIter::next` (the typed boundary API; `for x in list`,
  `collect`, `Debug` go through it). An iterator is state that lives ACROSS the
  other operations of a history: its own list handle and an index. The model
  (`Model/ListIter`: `IOp`, `istep`) executes the decisions of `into_iter` /
  `next` as they are regenerated from the source (Generated/ListIter); the
  specification (`ispecStep`) is a cursor into the one shared vector. -/

/-- tie obligation: what the source says `into_iter` / `next` decide, for every
    list state, every index and every length the list may have had at creation:
    start at 0, never answer `None` without asking the list, ask for the
    element at the index, move on by one. (A `next` that stops at a length
    remembered from creation makes the second conjunct false.) -/
theorem iterator_is_a_cursor (inner : RawView) (i n : Nat) :
    Gen.ListIter.startIdx = 0 ∧
    Gen.ListIter.nextStopsEarly (Gen.ListIter.mkView inner i n) = false ∧
    Gen.ListIter.nextIndex (Gen.ListIter.mkView inner i n) = i ∧
    Gen.ListIter.nextIdxAfter (Gen.ListIter.mkView inner i n) = i + 1 :=
  iter_decisions inner i n

example : Gen.ListIter.nextIndex (Gen.ListIter.mkView ⟨5, 8⟩ 2 3) = 2 := rfl

/-- T9 `iter_refines_vec`: for ALL element sizes, numbers of variables and ALL
    histories in which iterator creation, `next` and iterator drop are
    interleaved in any way with the 17 list operations (pushes, swaps,
    concatenations, rebinding and dropping of handles through any alias while
    iterators are alive, several iterators at once, `next` after `None`):
    every result — in particular everything every `next` yields — is what
    cursors into vectors shared between the handles give, and the abstraction
    (same variables, same vectors, same cursors) commutes; under the two
    hypotheses of `refines_vec` (no capacity-overflow panic; no list holding a
    NaN compared with itself). -/
theorem iter_refines_vec (sz n : Nat) (ops : List IOp)
    (hp : ∀ o ∈ irun sz (ISt.init n) ops, o ≠ .fault .panic)
    (hq : INoRefl (ISpec.init n) ops) :
    List.zipWith ieraseCap ops (irun sz (ISt.init n) ops) = ispecRun (ISpec.init n) ops ∧
      IRel (irunSt sz (ISt.init n) ops) (ispecRunSt (ISpec.init n) ops) :=
  irun_sim ops (Inv_init sz n) (IRel_init n) hp hq

/-- the work-queue walk: the list grows through an alias while the iterator is
    alive, `next` after `None` yields again once the list has grown -/
example : irun 8 (ISt.init 3) [.base (.fromVec 0 [1, 2]), .base (.cloneH 1 0), .iterNew 2 0, .iterNext 2,
      .base (.push 1 10), .iterNext 2, .iterNext 2, .iterNext 2, .base (.push 0 11), .iterNext 2, .iterDrop 2]
    = [.unit, .unit, .unit, .opt (some 1), .unit, .opt (some 2), .opt (some 10), .opt none, .unit,
       .opt (some 11), .unit] := by decide

example : INoRefl (ISpec.init 3) [.base (.fromVec 0 [1, 2]), .iterNew 2 0, .iterNext 2] := by
  simp [INoRefl, IRefl, ReflShortcut]

/-- T9 `iter_next_reads_current`: in every reachable state of such a history, a
    `next` on a live iterator (its variable `v` holds the list `a`) returns the
    element at the iterator's index of that list AS IT IS NOW — whatever was
    pushed, swapped or rebound through any alias since the iterator was made —
    the index moves on by exactly one iff there was an element (never
    backwards, never by more: no element is skipped or repeated as long as the
    list is only appended to), and nothing else changes. -/
theorem iter_next_reads_current (sz n : Nat) (ops : List IOp) (v a : Nat) (l : RawList)
    (hs : (irunSt sz (ISt.init n) ops).st.slots[v]? = some (some a))
    (hl : (irunSt sz (ISt.init n) ops).st.getAlloc a = some l) :
    istep sz (irunSt sz (ISt.init n) ops) (.iterNext v) =
      match l.elems[(irunSt sz (ISt.init n) ops).idx v]? with
      | some x => (.opt (some x), { irunSt sz (ISt.init n) ops with
          idx := upd (irunSt sz (ISt.init n) ops).idx v ((irunSt sz (ISt.init n) ops).idx v + 1) })
      | none => (.opt none, irunSt sz (ISt.init n) ops) :=
  iterNext_bound (Inv_irunSt ops (Inv_init sz n)) hs hl

example : (irunSt 8 (ISt.init 3) [.base (.fromVec 0 [1, 2]), .iterNew 2 0, .iterNext 2]).st.slots[2]? = some (some 0) ∧
    (irunSt 8 (ISt.init 3) [.base (.fromVec 0 [1, 2]), .iterNew 2 0, .iterNext 2]).idx 2 = 1 := by decide

/-- the iterator's own handle keeps the walked list: no operation that does not
    name the iterator's variable changes which list it refers to (the frame
    lemma of the `for` loops, for the base operations between two `next`s) -/
theorem iter_keeps_its_list (sz n : Nat) (ops : List IOp) (body : List Op) (v : Nat)
    (hb : ∀ op ∈ body, op.writes v = false) :
    (runSt sz (irunSt sz (ISt.init n) ops).st body).slots[v]? = (irunSt sz (ISt.init n) ops).st.slots[v]? :=
  runSt_slot_frame body (Inv_irunSt ops (Inv_init sz n)) v hb

example : ∀ op ∈ [Op.push 0 1, .concat 0 0 0, .dropH 1], op.writes 2 = false := by decide

/-! ### Round 5 — the script-side bindings (`impl ErasedList` in `library! { … }`, src/runtime/basic.rs)

The table `Gen.ListBind.bindings` is regenerated from the bodies of the bindings
on every run; `Binding.ok` is a checker run over it (by the kernel), proved
sound below: until this round the bindings were tied by the script
correspondence only. -/

/-- the regenerated table passes the checker: every binding the property names
    calls the list function `canon` gives for it, passes exactly its own
    parameters in that order, and casts — on the way in and on the way out —
    only to `u64` / `usize` -/
theorem bindings_pass_the_checker : ∀ b ∈ Gen.ListBind.bindings, b.ok = true := by
  decide

/-- the checker is not vacuous: it rejects a `capacity` that asks for the
    length, a `swap` that passes one index twice, an index narrowed to 32 bits,
    a length handed back through `u32`; and it accepts the rows as they should read -/
example : Binding.ok ⟨.capacity, 1, .len, [(0, none)], .cast .u64⟩ = false ∧
    Binding.ok ⟨.swap, 3, .swap, [(0, none), (1, some .usize), (1, some .usize)], .asIs⟩ = false ∧
    Binding.ok ⟨.swap, 3, .swap, [(0, none), (1, some .u32), (2, some .usize)], .asIs⟩ = false ∧
    Binding.ok ⟨.len, 1, .len, [(0, none)], .cast .u32⟩ = false ∧
    Binding.ok ⟨.contains, 2, .indexOwned, [(0, none), (1, none)], .asIs⟩ = false ∧
    Binding.ok ⟨.swap, 3, .swap, [(0, none), (1, some .usize), (2, some .usize)], .asIs⟩ = true ∧
    Binding.ok ⟨.index, 2, .indexOwned, [(0, none), (1, none)], .mapCast .u64⟩ = true := by decide

/-- every operation the property lists for scripts (`join`: T5) has a binding in the table -/
theorem every_listed_binding_present : ∀ nm ∈ BName.all, (bindingOf nm).isSome = true := by
  decide

/-- **the script-side names are the list operations.** For every binding in the
    regenerated table that the property names, ALL destinations and ALL actual
    parameters a script can pass (anything below 2^64: handles, element values,
    indices — also indices far out of range): the operation the binding's body
    performs is the one the script-side name means (`scriptMeaning`: `l.swap(i,
    j)` is `swap` of `l` at `i`, `j` in that order, `l.capacity()` is the
    capacity, not the length, `l.get(i)` reads index `i` itself, …), and every
    length / capacity / index below 2^64 comes back as the list gave it. -/
theorem script_bindings_are_the_list_operations :
    ∀ b ∈ Gen.ListBind.bindings, b.name ≠ .other →
      (∀ (d : Nat) (actuals : List Nat), (∀ v ∈ actuals, v < 2 ^ 64) →
        b.toOp d actuals = scriptMeaning b.name d actuals) ∧
      (∀ o : Out, OutSmall o → b.convOut o = o) :=
  fun b hb hn =>
    ⟨fun d actuals h => ok_toOp b (bindings_pass_the_checker b hb) hn d actuals h,
     fun o ho => ok_convOut b (bindings_pass_the_checker b hb) hn o ho⟩

/-- what the names mean, spelled out (the specification side of the theorem above) -/
example (d h i j v : Nat) :
    scriptMeaning .swap d [h, i, j] = some (.swap h i j) ∧
    scriptMeaning .get d [d, h, i] = some (.get h i) ∧
    scriptMeaning .push d [h, v] = some (.push h v) ∧
    scriptMeaning .contains d [h, v] = some (.contains h v) ∧
    scriptMeaning .index d [h, v] = some (.index h v) ∧
    scriptMeaning .concat d [h, i] = some (.concat d h i) ∧
    scriptMeaning .new d [v] = some (.new d) ∧
    scriptMeaning .len d [h] = some (.len h) ∧
    scriptMeaning .capacity d [h] = some (.capacity h) ∧
    scriptMeaning .isEmpty d [h] = some (.isEmpty h) := by
  simp [scriptMeaning, canon, opOf]

/-- a script call run through the regenerated table (`callOp`: look the name up,
    interpret the row) is the operation its name means -/
theorem script_call_is_the_operation (nm : BName) (hnm : nm ∈ BName.all) (d : Nat)
    (actuals : List Nat) (h : ∀ v ∈ actuals, v < 2 ^ 64) :
    callOp (nm, d, actuals) = scriptMeaning nm d actuals := by
  have hs := every_listed_binding_present nm hnm
  unfold callOp
  cases hb : bindingOf nm with
  | none => simp [hb] at hs
  | some b =>
    obtain ⟨hmem, hname⟩ := bindingOf_mem hb
    have hne : b.name ≠ .other := by
      rw [hname]; intro he; subst he; revert hnm; decide
    simp only [Option.bind]
    rw [← hname]
    exact (script_bindings_are_the_list_operations b hmem hne).1 d actuals h

example : callOp (.swap, 9, [0, 2 ^ 32, 1]) = some (.swap 0 (2 ^ 32) 1) ∧
    callOp (.capacity, 9, [2]) = some (.capacity 2) ∧
    callOp (.get, 1, [1, 0, 2 ^ 63 + 5]) = some (.get 0 (2 ^ 63 + 5)) := by decide

/-- **script histories refine shared vectors.** A history of script calls
    (listed names, parameters below 2^64) whose calls mean the operations `ops`
    performs — through the bindings as they read now — exactly `ops`, so T1
    holds for it: every result is what vectors shared between the handles give. -/
theorem script_history_refines_vec (sz n : Nat) (cs : List (BName × Nat × List Nat)) (ops : List Op)
    (hcs : ∀ c ∈ cs, c.1 ∈ BName.all ∧ ∀ v ∈ c.2.2, v < 2 ^ 64)
    (hm : cs.map (fun c => scriptMeaning c.1 c.2.1 c.2.2) = ops.map some)
    (hp : ∀ o ∈ run sz (St.init n) ops, o ≠ .fault .panic)
    (hq : NoReflShortcut (Spec.init n) ops) :
    cs.map callOp = ops.map some ∧
      List.zipWith eraseCap ops (run sz (St.init n) ops) = specRun (Spec.init n) ops ∧
      Rel (runSt sz (St.init n) ops) (specRunSt (Spec.init n) ops) := by
  refine ⟨?_, refines_vec sz n ops hp hq⟩
  rw [← hm]
  apply List.map_congr_left
  intro c hc
  exact script_call_is_the_operation c.1 (hcs c hc).1 c.2.1 c.2.2 (hcs c hc).2

example : [((BName.new, 0, [0]) : BName × Nat × List Nat), (.push, 9, [0, 7]), (.len, 9, [0])].map callOp
    = [Op.new 0, .push 0 7, .len 0].map some := by decide

/-- **what a script sees is what the list returned** — the result half without a
    hypothesis on the result. After ANY history (all element sizes, all numbers
    of variables), for every listed binding and all actual parameters below
    2^64: the conversion the binding applies to the result of the operation it
    performs changes nothing — a length, capacity or index goes through `as u64`
    and is below 2^64 in every reachable state (`len ≤ cap ≤ usize::MAX`, an
    index is below the length: `observers_small`), every other result (unit,
    bool, an element — which may be any value, e.g. an `f64` bit pattern —, a
    list) is handed back as it is (`retFits`). -/
theorem script_results_come_back_unchanged (sz n : Nat) (ops : List Op) :
    ∀ b ∈ Gen.ListBind.bindings, b.name ≠ .other →
      ∀ (d : Nat) (actuals : List Nat) (op : Op), (∀ v ∈ actuals, v < 2 ^ 64) →
        b.toOp d actuals = some op →
        b.convOut (step sz (runSt sz (St.init n) ops) op).1 = (step sz (runSt sz (St.init n) ops) op).1 :=
  fun b hb hn d actuals op h hop =>
    ok_result b (bindings_pass_the_checker b hb) hn (Inv_runSt ops (Inv_init sz n)) d actuals op h hop

/-- not vacuous: an element read by `get` may be ≥ 2^64 (an `f64`), which is why
    `get`'s result must not go through a cast at all — the checker rejects it — and
    a length through `u8` does change a result -/
example : Binding.ok ⟨.get, 3, .listGet, [(0, none), (1, none), (2, none)], .mapCast .u64⟩ = false ∧
    (⟨.get, 3, .listGet, [(0, none), (1, none), (2, none)], .mapCast .u64⟩ : Binding).convOut
      (step 8 (runSt 8 (St.init 1) [.fromVec 0 [f64Base + 5]]) (.get 0 0)).1
      ≠ (step 8 (runSt 8 (St.init 1) [.fromVec 0 [f64Base + 5]]) (.get 0 0)).1 ∧
    (⟨.len, 1, .len, [(0, none)], .cast .u8⟩ : Binding).convOut (.nat 261) = .nat 5 := by decide

end RotoV.C15
