/-
  C14 — constants are evaluated once, in dependency order, before any call.

  Model: `RotoV/Model/Tarjan.lean` (value_cycle.rs as written + the codegen item
  loop).  Helper lemmas: `RotoV/Lemmas/Tarjan.lean`.

  Shape of the argument
  * `order_topological`: `tarjan` as written returns a complete, duplicate-free
    partition in reverse topological order, for every graph (invariant proof in
    `Lemmas/TarjanOrder`); with it T2 and T4 hold without any certificate
    (`cycle_rejected_semantic`, `evaluated_once_in_order`).
  * `validOrder` is a *verified checker*: whatever components it accepts are a
    complete, duplicate-free partition in reverse topological order
    (`validOrder_sound`).  Every run of `./check C14` executes it on the
    components the real `tarjan` produced for every generated program, and
    compares those components with the model's.
  * From an accepted order and the two cycle tests of `find_compilation_order`
    the codegen loop provably runs every constant initialiser exactly once,
    after everything the constant reaches, without hitting "Constant not
    defined" / an unresolved function (`evaluated_once_after_deps`).
  * `context_rejected_iff` is proved for the algorithm itself, including that
    the model's fuel (node count) is never exhausted.
-/
import RotoV.Lemmas.Tarjan
import RotoV.Lemmas.TarjanCtx
import RotoV.Lemmas.TarjanNoPanic
import RotoV.Lemmas.TarjanLir
import RotoV.Lemmas.TarjanOrder

namespace RotoV.C14
open RotoV.Tarjan

/-! ## T1 — the order is topological and complete -/

/-- **T1, for Tarjan's algorithm as written and every graph**: whatever
`tarjan` returns is every name of the graph exactly once, and an edge never
leads into a later component (reverse topological order).  Proved by the
invariant of `strongly_connect` (`Lemmas/TarjanOrder`: visited = stack ∪
components; stack indices increase towards the top; a call's lowlink is its own
index or the index of a vertex below it, and bounds the index of every stack
vertex below the call that anything the call left on the stack refers to).
`hkeys` says that the association list is a `BTreeMap` (distinct keys). -/
theorem order_topological (g : Graph) (hkeys : g.keys.Nodup) (comps : List (List Nat))
    (h : tarjan g = .ok comps) : TopoOrder g comps :=
  RotoV.Tarjan.tarjan_topo g hkeys comps h

/-- non-vacuity: the repository's first unit test graph -/
example : (⟨[(1, [2]), (2, [3, 4]), (3, [2, 4]), (4, [])], fun _ => .func⟩ : Graph).keys.Nodup
    ∧ tarjan ⟨[(1, [2]), (2, [3, 4]), (3, [2, 4]), (4, [])], fun _ => .func⟩ = .ok [[4], [3, 2], [1]] := by
  decide
/-- `hkeys` is needed: with a repeated key (not a `BTreeMap`) the second entry
is never looked up, and its target is in no component -/
example : tarjan ⟨[(0, []), (0, [1])], fun _ => .func⟩ = .ok [[0]]
    ∧ (1 ∈ (⟨[(0, []), (0, [1])], fun _ => .func⟩ : Graph).nodes) := by decide

/-- with totality: `tarjan` returns, and what it returns is such an order -/
theorem order_topological_total (g : Graph) (hkeys : g.keys.Nodup) :
    ∃ comps, tarjan g = .ok comps ∧ TopoOrder g comps := by
  obtain ⟨comps, h⟩ := RotoV.Tarjan.tarjan_total' g
  exact ⟨comps, h, RotoV.Tarjan.tarjan_topo g hkeys comps h⟩

example : (⟨[(1, [3]), (2, []), (3, [4, 5]), (4, [2]), (5, [2])], fun _ => .func⟩ : Graph).keys.Nodup := by
  decide

/-- The verified checker: accepted components are complete (exactly the graph's
names), duplicate-free, and every edge between different components leads to an
earlier one. -/
theorem validOrder_sound (g : Graph) (comps : List (List Nat))
    (h : validOrder g comps = true) : TopoOrder g comps :=
  RotoV.Tarjan.validOrder_sound g comps h

/-- what `TopoOrder` gives for reachability: from a component one only reaches
that component and earlier ones -/
theorem topo_reach_back (g : Graph) (comps : List (List Nat)) (h : TopoOrder g comps)
    (pre : List (List Nat)) (c : List Nat) (post : List (List Nat)) (hc : comps = pre ++ c :: post)
    (x y : Nat) (hx : x ∈ c) (r : Reach g x y) : y ∈ pre.flatten ∨ y ∈ c :=
  h.reach_back pre c post hc (Or.inr hx) r

/-- `tarjan` as written is total on every graph: none of its `unwrap`s /
`state.vertices[w]` index operations can panic, and the recursion depth never
exceeds the node count (the model's fuel). -/
theorem tarjan_total (g : Graph) : ∃ comps, tarjan g = .ok comps :=
  RotoV.Tarjan.tarjan_total' g

/-- hence `find_compilation_order` always returns an order or one of its two errors -/
theorem find_compilation_order_total (g : Graph) : ∃ o, findCompilationOrder g = .ok o := by
  obtain ⟨comps, ht⟩ := RotoV.Tarjan.tarjan_total' g
  obtain ⟨r, hr⟩ := contextCheck_total g
  unfold findCompilationOrder
  cases selfEdge g g.edges with
  | some c => exact ⟨_, rfl⟩
  | none =>
    simp only [ht, bind, Except.bind]
    cases mixedComponent g comps with
    | some c => exact ⟨_, rfl⟩
    | none =>
      simp only [hr]
      cases r <;> exact ⟨_, rfl⟩

/-- all 512 graphs on three names: bit `3*i+j` of `m` is the edge `i → j` -/
def smallGraph (m : Fin 512) : Graph :=
  let row (i : Nat) : List Nat := [0, 1, 2].filter fun j => m.val.testBit (3 * i + j)
  ⟨[(0, row 0), (1, row 1), (2, row 2)], fun _ => .func⟩

def tarjanValid (g : Graph) : Bool :=
  match tarjan g with
  | .ok comps => validOrder g comps
  | .error _ => false

/-- the executable checker agrees with the theorem on every graph with three
names (kernel evaluation of `tarjan` + `validOrder`; was the bounded form
`order_topological_partial` before `order_topological` was proved) -/
theorem order_topological_three_names (m : Fin 512) : tarjanValid (smallGraph m) = true := by
  have h : ∀ m : Fin 512, tarjanValid (smallGraph m) = true := by decide +kernel
  exact h m
example : tarjanValid (smallGraph 273) = true := by decide

/-- the repository's own unit tests, on the model -/
theorem tarjan_unit_tests :
    tarjan ⟨[(1, [2]), (2, [3, 4]), (3, [2, 4]), (4, [])], fun _ => .func⟩ = .ok [[4], [3, 2], [1]]
    ∧ tarjan ⟨[(1, [2]), (2, [3]), (3, [4]), (4, [1])], fun _ => .func⟩ = .ok [[4, 3, 2, 1]]
    ∧ tarjan ⟨[(1, [3]), (2, []), (3, [4, 5]), (4, [2]), (5, [2])], fun _ => .func⟩
        = .ok [[2], [4], [5], [3], [1]] := by decide

example : validOrder ⟨[(1, [2]), (2, [3, 4]), (3, [2, 4]), (4, [])], fun _ => .func⟩ [[4], [3, 2], [1]] = true := by
  decide
/-- the checker is not trivially true: a pre-order listing is refused -/
example : validOrder ⟨[(1, [2]), (2, [3, 4]), (3, [2, 4]), (4, [])], fun _ => .func⟩ [[1], [3, 2], [4]] = false := by
  decide

/-! ## T2 — cycles through a constant are rejected, nothing evaluated -/

/-- A self-edge on a constant, or a component of more than one item containing
a constant, makes `compile` reject with `error_recursive_constant`, with an
empty initialiser log. -/
theorem cycle_rejected (g : Graph) (comps : List (List Nat)) (ht : tarjan g = .ok comps)
    (hcyc : (∃ c rs, (c, rs) ∈ g.edges ∧ g.kind c = .const ∧ c ∈ rs) ∨
            (∃ comp, comp ∈ comps ∧ comp.length > 1 ∧ ∃ c, c ∈ comp ∧ g.kind c = .const)) :
    ∃ c', g.kind c' = .const ∧ compile g = .ok (.rejected (.recursive c') []) := by
  rcases hcyc with ⟨c, rs, hm, hk, hr⟩ | ⟨comp, hm, hl, c, hc, hk⟩
  · obtain ⟨c', hk', hs⟩ := selfEdge_some g g.edges c rs hm hk hr
    exact ⟨c', hk', by simp [compile, findCompilationOrder, hs, bind, Except.bind]⟩
  · cases hs : selfEdge g g.edges with
    | some c' =>
      exact ⟨c', selfEdge_const g _ _ hs, by simp [compile, findCompilationOrder, hs, bind, Except.bind]⟩
    | none =>
      obtain ⟨c', hk', hx⟩ := mixedComponent_some g comps comp hm hl c hc hk
      exact ⟨c', hk', by simp [compile, findCompilationOrder, hs, ht, hx, bind, Except.bind]⟩

/-- Semantic form, given the certificate: a constant that reaches itself through
at least one reference (directly, through constants, through functions) is
rejected before anything is evaluated. -/
theorem cycle_rejected_of_valid (g : Graph) (comps : List (List Nat)) (ht : tarjan g = .ok comps)
    (topo : TopoOrder g comps) (c d : Nat) (hk : g.kind c = .const)
    (e : Edge g c d) (r : Reach g d c) :
    ∃ c', g.kind c' = .const ∧ compile g = .ok (.rejected (.recursive c') []) := by
  obtain ⟨rs, hm, hrs⟩ := edge_mem_edges e
  by_cases hdc : d = c
  · subst hdc
    exact cycle_rejected g comps ht (Or.inl ⟨d, rs, hm, hk, hrs⟩)
  · have hcn : c ∈ g.nodes := by
      simp only [Graph.nodes, Graph.keys, List.mem_append, List.mem_map]
      exact Or.inl ⟨(c, rs), hm, rfl⟩
    obtain ⟨comp, hcomp, hcc⟩ := List.mem_flatten.1 ((topo.complete c).1 hcn)
    obtain ⟨pre, post, hsplit⟩ := List.append_of_mem hcomp
    rcases topo.back pre comp post hsplit c hcc d e with hd | hd
    · -- `d` is strictly earlier, so everything it reaches is: but it reaches `c`
      have : c ∈ pre.flatten :=
        Reach.closed (S := fun z => z ∈ pre.flatten) (topo.pre_closed pre comp post hsplit) r hd
      have hnd := topo.nodup
      rw [hsplit] at hnd
      simp only [List.flatten_append, List.flatten_cons] at hnd
      have := (List.nodup_append.1 hnd).2.2 c this c (by simp [hcc])
      exact absurd rfl this
    · refine cycle_rejected g comps ht (Or.inr ⟨comp, hcomp, ?_, c, hcc, hk⟩)
      exact two_mem_length hcc hd (Ne.symm hdc)

/-- **T2 in full, no certificate**: in every reference graph (distinct keys), a
constant that reaches itself through at least one reference — directly, through
constants, through functions — is rejected before anything is evaluated
(`order_topological` supplies what the certificate supplied). -/
theorem cycle_rejected_semantic (g : Graph) (hkeys : g.keys.Nodup) (c d : Nat)
    (hk : g.kind c = .const) (e : Edge g c d) (r : Reach g d c) :
    ∃ c', g.kind c' = .const ∧ compile g = .ok (.rejected (.recursive c') []) := by
  obtain ⟨comps, ht, topo⟩ := order_topological_total g hkeys
  exact cycle_rejected_of_valid g comps ht topo c d hk e r

/-- **T2 as an equivalence, no certificate**: `compile` answers "constant `c` is
recursively defined" (with nothing evaluated) exactly when some constant
reaches itself through at least one reference, and the constant it names is
one that does — in particular a DAG of constants over cycles of mutually
recursive functions is never rejected this way, from whichever member the
cycles are entered. -/
theorem recursive_iff_cycle (g : Graph) (hkeys : g.keys.Nodup) :
    ((∃ c, compile g = .ok (.rejected (.recursive c) [])) ↔
      ∃ c d, g.kind c = .const ∧ Edge g c d ∧ Reach g d c) ∧
    (∀ c log, compile g = .ok (.rejected (.recursive c) log) →
      log = [] ∧ g.kind c = .const ∧ ∃ d, Edge g c d ∧ Reach g d c) := by
  have back : ∀ c log, compile g = .ok (.rejected (.recursive c) log) →
      log = [] ∧ g.kind c = .const ∧ ∃ d, Edge g c d ∧ Reach g d c := by
    intro c log h
    unfold compile at h
    cases hf : findCompilationOrder g with
    | error e => simp [hf, bind, Except.bind] at h
    | ok o =>
      cases o with
      | order o =>
        simp only [hf, bind, Except.bind] at h
        cases hcg : codegen g o <;> simp [hcg] at h
      | recursive c' =>
        simp only [hf, bind, Except.bind, Except.ok.injEq, Compiled.rejected.injEq,
          Outcome.recursive.injEq] at h
        obtain ⟨hc, hl⟩ := h
        subst hc
        exact ⟨hl.symm, recursive_sound g hkeys c' hf⟩
      | usesContext c' => simp [hf, bind, Except.bind] at h
  refine ⟨⟨fun ⟨c, h⟩ => ?_, fun ⟨c, d, hk, e, r⟩ => ?_⟩, back⟩
  · obtain ⟨_, hk, d, e, r⟩ := back c [] h
    exact ⟨c, d, hk, e, r⟩
  · obtain ⟨c', _, h⟩ := cycle_rejected_semantic g hkeys c d hk e r
    exact ⟨c', h⟩

/-- non-vacuity of the "never rejected" side: ring 1 ⇄ 2 entered through both members -/
example : ¬ ∃ c, compile ⟨[(0, [2]), (1, [2]), (2, [1]), (3, [1])],
    fun n => if n = 1 ∨ n = 2 then .func else .const⟩ = .ok (.rejected (.recursive c) []) := by
  have : compile ⟨[(0, [2]), (1, [2]), (2, [1]), (3, [1])],
      fun n => if n = 1 ∨ n = 2 then .func else .const⟩
      = .ok (.compiled [1, 2, 0, 3] ⟨[3, 0, 2, 1], [], [0, 3], [0, 3]⟩) := by decide
  rintro ⟨c, h⟩
  rw [this] at h
  cases h

example : compile ⟨[(0, [1]), (1, [0])], fun _ => .const⟩ = .ok (.rejected (.recursive 1) []) := by decide
example : compile ⟨[(0, [1]), (1, [2]), (2, [0])], fun n => if n = 1 then .func else .const⟩
    = .ok (.rejected (.recursive 2) []) := by decide

/-! ## T3 — the context check errs iff a constant reaches a context variable -/

/-- `context_check` never fails (the fuel — node count — is never exhausted, no
panic), and it returns an error iff some script constant reaches a context
variable through references; the constant it names is such a constant.

The subtle point is the "assume `false` while on the stack, do not cache" rule:
a callee that met an on-stack name may be cached `false` although it does reach
a context variable through that name — but then that name's own call returns
`true`, every enclosing call returns `true`, the entry constant errs and the
cache is never consulted again.  Formally (`CInv`): as long as every call so far
returned `false`, no `true` is cached and every cached `false` is justified up
to names still on the stack; between top-level calls the stack is empty. -/
theorem context_rejected_iff (g : Graph) :
    ∃ r, contextCheck g = .ok r ∧
      (r.isSome = true ↔ ∃ c, c ∈ g.keys ∧ g.kind c = .const ∧ UsesCtx g c) ∧
      (∀ c, r = some c → c ∈ g.keys ∧ g.kind c = .const ∧ UsesCtx g c) := by
  obtain ⟨r, hr⟩ := contextCheck_total g
  obtain ⟨h1, h2⟩ := contextLoop_spec g g.nodeCount g.keys ⟨[], []⟩ r (CInv.init g) hr
  refine ⟨r, hr, ⟨fun hs => ?_, fun ⟨c, hk, hc, hu⟩ => ?_⟩, h2⟩
  · cases r with
    | none => cases hs
    | some c => exact ⟨c, h2 c rfl⟩
  · cases r with
    | none => exact absurd hu (h1 rfl c hk hc)
    | some _ => rfl

/-- At the level of `compile`: once the cycle tests have passed, a constant that
transitively reads a context variable makes `compile` reject with an empty log;
and `compile` only reports `usesContext c` for a constant `c` that does. -/
theorem context_rejected (g : Graph) (comps : List (List Nat)) (ht : tarjan g = .ok comps)
    (hs : selfEdge g g.edges = none) (hm : mixedComponent g comps = none) :
    ((∃ c, c ∈ g.keys ∧ g.kind c = .const ∧ UsesCtx g c) ↔
      ∃ c, compile g = .ok (.rejected (.usesContext c) [])) ∧
    (∀ c, compile g = .ok (.rejected (.usesContext c) []) →
      c ∈ g.keys ∧ g.kind c = .const ∧ UsesCtx g c) := by
  obtain ⟨r, hr, hiff, hwho⟩ := context_rejected_iff g
  have hcomp : compile g = match r with
      | some c => .ok (.rejected (.usesContext c) [])
      | none => (codegen g comps.flatten >>= fun st => .ok (.compiled comps.flatten st)) := by
    cases r with
    | some c => simp [compile, findCompilationOrder, hs, ht, hm, hr, bind, Except.bind]
    | none =>
      simp only [compile, findCompilationOrder, hs, ht, hm, hr, bind, Except.bind]
  constructor
  · constructor
    · intro h
      have := hiff.2 h
      cases r with
      | none => cases this
      | some c => exact ⟨c, hcomp⟩
    · rintro ⟨c, hc⟩
      cases r with
      | some c' => exact ⟨c', hwho c' rfl⟩
      | none =>
        rw [hcomp] at hc
        simp only [bind, Except.bind] at hc
        cases hcg : codegen g comps.flatten <;> rw [hcg] at hc <;> cases hc
  · intro c hc
    cases r with
    | some c' =>
      rw [hcomp] at hc
      have : c' = c := by simpa using hc
      subst this; exact hwho c' rfl
    | none =>
      rw [hcomp] at hc
      simp only [bind, Except.bind] at hc
      cases hcg : codegen g comps.flatten <;> rw [hcg] at hc <;> cases hc

/-- the subtle case: constant 0 → f1; f1 → f2, f1 → ctx 3; f2 → f1.  `f2` is
cached `false` (wrongly) while `f1` is on the stack, yet the check errs. -/
example : contextCheck ⟨[(0, [1]), (1, [2, 3]), (2, [1])],
    fun n => if n = 0 then .const else if n = 3 then .ctx else .func⟩ = .ok (some 0) := by decide
example : contextCheck ⟨[(0, [1]), (1, [2]), (2, [1]), (4, [3])],
    fun n => if n = 0 then .const else if n = 3 then .ctx else .func⟩ = .ok none := by decide

/-- The shape a pass "in component order" gets wrong: the context read sits in
one member `r` of a cycle of mutually recursive functions and the constant
calls another member `e` (which reaches `r`).  In whatever order the names are
visited — the SCC pass may enter the cycle at `r` and list it last —,
`compile` rejects with nothing evaluated. -/
theorem context_rejected_through_cycle (g : Graph) (comps : List (List Nat)) (ht : tarjan g = .ok comps)
    (hs : selfEdge g g.edges = none) (hm : mixedComponent g comps = none)
    (c e r x : Nat) (hc : c ∈ g.keys) (hk : g.kind c = .const) (hce : Edge g c e)
    (her : Reach g e r) (hrx : Edge g r x) (hx : g.kind x = .ctx) :
    ∃ c', compile g = .ok (.rejected (.usesContext c') []) :=
  (context_rejected g comps ht hs hm).1.1 ⟨c, hc, hk, x, .step hce (her.trans (.single hrx)), hx⟩

/-- the witness: reader f0 ⇄ f1, constant 2 → f1, f0 → ctx 3; `tarjan` enters the
cycle at the reader (components `[[3], [1, 0], [2]]`: a single pass over them
sees `f1` before `f0` is known to read the context) -/
example : tarjan ⟨[(0, [1, 3]), (1, [0]), (2, [1])],
    fun n => if n = 2 then .const else if n = 3 then .ctx else .func⟩ = .ok [[3], [1, 0], [2]] := by decide
example : compile ⟨[(0, [1, 3]), (1, [0]), (2, [1])],
    fun n => if n = 2 then .const else if n = 3 then .ctx else .func⟩ = .ok (.rejected (.usesContext 2) []) := by decide

/-! ## T4 — evaluated exactly once, after everything reached, before any call -/

/-- With an order the verified checker accepts and the two cycle tests passed,
the codegen loop completes (no "Constant not defined", no unresolved function),
runs every script constant's initialiser exactly once, a constant only after
every script constant it reaches; all of this before `compile` returns (the log
is final in the returned state, and reads do not touch it). -/
theorem evaluated_once_after_deps (g : Graph) (comps : List (List Nat))
    (topo : TopoOrder g comps) (hc : NoConstCycle g comps) :
    ∃ st, codegen g comps.flatten = .ok st ∧
      st.log.Nodup ∧
      (∀ c, c ∈ st.log ↔ (c ∈ g.keys ∧ g.kind c = .const)) ∧
      (∀ c d, c ∈ st.log → d ∈ g.keys → g.kind d = .const → d ≠ c → Reach g c d → Before d c st.log) ∧
      st.store = st.log ∧ st.pending = [] ∧
      (∀ c, c ∈ g.keys → g.kind c = .const → readConstant st c = .ok st) := by
  obtain ⟨st, hrun, inv⟩ := cg_comps topo hc comps [] CgState.new (by simp)
    ⟨by simp [CgState.new, mirItems_eq], by simp [CgState.new, mirItems_eq], rfl, by simp [CgState.new]⟩
  have hlog : st.log = (mirItems g comps.flatten).filter g.isConst := by rw [inv.log, inv.store]
  have hmem : ∀ c, c ∈ st.log ↔ (c ∈ g.keys ∧ g.kind c = .const) := by
    intro c
    rw [hlog, List.mem_filter, mem_mirItems]
    simp only [isItem, Graph.isConst, Bool.and_eq_true, List.contains_eq_mem, decide_eq_true_eq,
      Bool.or_eq_true, beq_iff_eq]
    constructor
    · rintro ⟨⟨_, hk, _⟩, hc⟩; exact ⟨hk, hc⟩
    · rintro ⟨hk, hc⟩
      refine ⟨⟨(topo.complete c).1 ?_, hk, Or.inl hc⟩, hc⟩
      simp only [Graph.nodes, List.mem_append]; exact Or.inl hk
  have hfin : finalizeDefinitions g (mirItems g comps.flatten) st = .ok { st with pending := [] } := by
    have : st.pending.all (fun f => (funcRefs g (mirItems g comps.flatten) f).all st.defined.contains) = true := by
      simp only [List.all_eq_true, List.contains_eq_mem, decide_eq_true_eq]
      intro f _ r hr
      exact (inv.defined r).2 (mem_funcRefs.1 hr).2.2
    simp [finalizeDefinitions, this]
  refine ⟨{ st with pending := [] }, by simp [codegen, hrun, hfin, bind, Except.bind], ?_, hmem, ?_,
    by simp [inv.log], rfl, ?_⟩
  · show st.log.Nodup
    rw [hlog]
    exact (topo.nodup.filter _).filter _
  · intro c d hcl hdk hdc hne hr
    show Before d c st.log
    have hcflat : c ∈ comps.flatten := by
      rw [hlog, List.mem_filter, mem_mirItems] at hcl; exact hcl.1.1
    have hck : g.kind c = .const := ((hmem c).1 hcl).2
    obtain ⟨comp, hcomp, hcc⟩ := List.mem_flatten.1 hcflat
    obtain ⟨pre, post, hsplit⟩ := List.append_of_mem hcomp
    have hsingle : comp = [c] := hc.noMixed comp hcomp c hcc hck
    subst hsingle
    have hd : d ∈ pre.flatten := by
      rcases topo.reach_back pre [c] post hsplit (Or.inr hcc) hr with h | h
      · exact h
      · exact absurd (by simpa using h) hne
    have hdl : d ∈ (mirItems g pre.flatten).filter g.isConst := by
      rw [List.mem_filter, mem_mirItems]
      exact ⟨⟨hd, by simp [isItem, hdk, hdc]⟩, by simp [Graph.isConst, hdc]⟩
    obtain ⟨l1, l2, hl⟩ := List.append_of_mem hdl
    have hci : isItem g c = true := by
      rw [hlog, List.mem_filter, mem_mirItems] at hcl; exact hcl.1.2
    refine ⟨l1, l2, (mirItems g post.flatten).filter g.isConst, ?_⟩
    rw [hlog, hsplit]
    simp only [List.flatten_append, List.flatten_cons, mirItems_append, List.filter_append, hl]
    simp [mirItems_eq, hci, Graph.isConst, hck]
  · intro c hk hcc
    have : c ∈ st.store := by rw [← inv.log]; exact (hmem c).2 ⟨hk, hcc⟩
    simp [readConstant, this]

/-- The same, read off `compile`: whenever `find_compilation_order` returns an
order and `tarjan`'s components pass the checker, `compile` succeeds with that
order and the evaluation log has the properties above. -/
theorem compile_evaluates_once (g : Graph) (comps : List (List Nat)) (o : List Nat)
    (ht : tarjan g = .ok comps) (topo : TopoOrder g comps)
    (ho : findCompilationOrder g = .ok (.order o)) :
    o = comps.flatten ∧ ∃ st, compile g = .ok (.compiled o st) ∧
      st.log.Nodup ∧
      (∀ c, c ∈ st.log ↔ (c ∈ g.keys ∧ g.kind c = .const)) ∧
      (∀ c d, c ∈ st.log → d ∈ g.keys → g.kind d = .const → d ≠ c → Reach g c d → Before d c st.log) ∧
      (∀ c, c ∈ g.keys → g.kind c = .const → readConstant st c = .ok st) := by
  have hs : selfEdge g g.edges = none := by
    cases h : selfEdge g g.edges with
    | none => rfl
    | some c => simp [findCompilationOrder, h] at ho
  have hm : mixedComponent g comps = none := by
    cases h : mixedComponent g comps with
    | none => rfl
    | some c => simp [findCompilationOrder, hs, ht, h, bind, Except.bind] at ho
  have hoc : o = comps.flatten := by
    simp only [findCompilationOrder, hs, ht, hm, bind, Except.bind] at ho
    cases hcc : contextCheck g with
    | error e => simp [hcc] at ho
    | ok r =>
      cases r with
      | some c => simp [hcc] at ho
      | none => simp [hcc] at ho; exact ho.symm
  have hc : NoConstCycle g comps := by
    constructor
    · intro c hk e
      obtain ⟨rs, hmem, hrs⟩ := edge_mem_edges e
      obtain ⟨c', _, h'⟩ := selfEdge_some g g.edges c rs hmem hk hrs
      rw [hs] at h'; cases h'
    · intro comp hcomp c hcc hk
      by_cases hl : comp.length > 1
      · obtain ⟨c', _, h'⟩ := mixedComponent_some g comps comp hcomp hl c hcc hk
        rw [hm] at h'; cases h'
      · match comp, hcc, hl with
        | [x], hcc, _ => simp at hcc; rw [hcc]
        | _ :: _ :: _, _, hl => simp at hl
  obtain ⟨st, h1, h2, h3, h4, _, _, h7⟩ := evaluated_once_after_deps g comps topo hc
  refine ⟨hoc, st, ?_, h2, h3, h4, h7⟩
  subst hoc
  simp [compile, ho, h1, bind, Except.bind]

/-- **T4 in full, no certificate**: for every reference graph (distinct keys),
whenever `find_compilation_order` returns an order, `compile` succeeds with it,
every script constant's initialiser has run exactly once, a constant only after
every script constant it reaches directly or through functions, all before
`compile` returns; reading any constant afterwards leaves the log as it is. -/
theorem evaluated_once_in_order (g : Graph) (hkeys : g.keys.Nodup) (o : List Nat)
    (ho : findCompilationOrder g = .ok (.order o)) :
    ∃ st, compile g = .ok (.compiled o st) ∧
      st.log.Nodup ∧
      (∀ c, c ∈ st.log ↔ (c ∈ g.keys ∧ g.kind c = .const)) ∧
      (∀ c d, c ∈ st.log → d ∈ g.keys → g.kind d = .const → d ≠ c → Reach g c d → Before d c st.log) ∧
      (∀ c, c ∈ g.keys → g.kind c = .const → readConstant st c = .ok st) := by
  obtain ⟨comps, ht, topo⟩ := order_topological_total g hkeys
  obtain ⟨_, st, h⟩ := compile_evaluates_once g comps o ht topo ho
  exact ⟨st, h⟩

/-- non-vacuity: constant 0 reads constant 1 through function 2 -/
example : findCompilationOrder ⟨[(0, [2]), (1, []), (2, [1])], fun n => if n = 2 then .func else .const⟩
    = .ok (.order [1, 2, 0]) := by decide

/-- Completeness (the other half of "every constant is evaluated exactly once"):
when the components pass the checker *and* are strongly connected (`validScc`),
a graph in which no constant reaches itself and no script constant reaches a
context variable is accepted, with the order `tarjan` found, and evaluated as in
`evaluated_once_after_deps`.  (`g.keys.Nodup` is the `BTreeMap` invariant.) -/
theorem compile_accepts_valid (g : Graph) (comps : List (List Nat)) (hkeys : g.keys.Nodup)
    (ht : tarjan g = .ok comps) (hv : validScc g comps = true)
    (hacyc : ∀ c d, g.kind c = .const → Edge g c d → ¬ Reach g d c)
    (hctx : ¬ ∃ c, c ∈ g.keys ∧ g.kind c = .const ∧ UsesCtx g c) :
    ∃ st, compile g = .ok (.compiled comps.flatten st) ∧
      st.log.Nodup ∧
      (∀ c, c ∈ st.log ↔ (c ∈ g.keys ∧ g.kind c = .const)) ∧
      (∀ c d, c ∈ st.log → d ∈ g.keys → g.kind d = .const → d ≠ c → Reach g c d → Before d c st.log) := by
  simp only [validScc, Bool.and_eq_true, List.all_eq_true] at hv
  obtain ⟨hvo, hscc⟩ := hv
  have topo := RotoV.Tarjan.validOrder_sound g comps hvo
  obtain ⟨hs, hm⟩ := cycle_tests_pass g hkeys comps topo
    (fun comp hcomp => sccOk_sound g comp (hscc comp hcomp)) hacyc
  obtain ⟨r, hr, hiff, _⟩ := context_rejected_iff g
  have hrn : r = none := by
    cases r with
    | none => rfl
    | some c => exact absurd (hiff.1 rfl) hctx
  subst hrn
  have ho : findCompilationOrder g = .ok (.order comps.flatten) := by
    simp [findCompilationOrder, hs, ht, hm, hr, bind, Except.bind]
  obtain ⟨_, st, h1, h2, h3, h4, _⟩ := compile_evaluates_once g comps comps.flatten ht topo ho
  exact ⟨st, h1, h2, h3, h4⟩

/-- **T1, second half, for the algorithm as written**: the members of every
component `tarjan` returns reach each other — a component of more than one
name is a genuine cycle, so `find_compilation_order` never reports a constant
as recursive that is not. -/
theorem components_strongly_connected (g : Graph) (comps : List (List Nat)) (h : tarjan g = .ok comps) :
    ∀ c, c ∈ comps → ∀ x y, x ∈ c → y ∈ c → Reach g x y :=
  RotoV.Tarjan.tarjan_scc g comps h

example : tarjan ⟨[(1, [2]), (2, [3]), (3, [4]), (4, [1])], fun _ => .func⟩ = .ok [[4, 3, 2, 1]] := by decide

/-- **Completeness in full, no certificate**: every reference graph (distinct
keys) in which no constant reaches itself and no script constant reaches a
context variable is accepted — whatever cycles of mutually recursive functions
it has and however the names are ordered — and evaluated once each in
dependency order. -/
theorem compile_accepts_acyclic (g : Graph) (hkeys : g.keys.Nodup)
    (hacyc : ∀ c d, g.kind c = .const → Edge g c d → ¬ Reach g d c)
    (hctx : ¬ ∃ c, c ∈ g.keys ∧ g.kind c = .const ∧ UsesCtx g c) :
    ∃ o st, compile g = .ok (.compiled o st) ∧
      st.log.Nodup ∧
      (∀ c, c ∈ st.log ↔ (c ∈ g.keys ∧ g.kind c = .const)) ∧
      (∀ c d, c ∈ st.log → d ∈ g.keys → g.kind d = .const → d ≠ c → Reach g c d → Before d c st.log) ∧
      (∀ c, c ∈ g.keys → g.kind c = .const → readConstant st c = .ok st) := by
  obtain ⟨comps, ht, topo⟩ := order_topological_total g hkeys
  obtain ⟨hs, hm⟩ := cycle_tests_pass g hkeys comps topo (RotoV.Tarjan.tarjan_scc g comps ht) hacyc
  obtain ⟨r, hr, hiff, _⟩ := context_rejected_iff g
  have hrn : r = none := by
    cases r with
    | none => rfl
    | some c => exact absurd (hiff.1 rfl) hctx
  subst hrn
  have ho : findCompilationOrder g = .ok (.order comps.flatten) := by
    simp [findCompilationOrder, hs, ht, hm, hr, bind, Except.bind]
  obtain ⟨st, h⟩ := evaluated_once_in_order g hkeys comps.flatten ho
  exact ⟨comps.flatten, st, h⟩

/-- non-vacuity: two mutually recursive functions 1 ⇄ 2, constants 0 → 2 and
3 → 1 entering the ring through either member (the shape a stale on-stack flag
turns into a bogus "recursively defined"), constant 4 → 0: accepted, in order -/
example : (compile ⟨[(0, [2]), (1, [2]), (2, [1]), (3, [1]), (4, [0])],
    fun n => if n = 1 ∨ n = 2 then .func else .const⟩).map
      (fun r => match r with | .compiled o st => (o, st.log) | .rejected _ _ => ([], [])) =
    .ok ([1, 2, 0, 3, 4], [0, 3, 4]) := by decide

/-- **Context use in full, no certificate**: when no constant reaches itself,
`compile` rejects with `usesContext c` — nothing evaluated — exactly when some
script constant transitively reads a context variable, and the `c` it names
is one. -/
theorem context_rejected_acyclic (g : Graph) (hkeys : g.keys.Nodup)
    (hacyc : ∀ c d, g.kind c = .const → Edge g c d → ¬ Reach g d c) :
    ((∃ c, c ∈ g.keys ∧ g.kind c = .const ∧ UsesCtx g c) ↔
      ∃ c, compile g = .ok (.rejected (.usesContext c) [])) ∧
    (∀ c, compile g = .ok (.rejected (.usesContext c) []) →
      c ∈ g.keys ∧ g.kind c = .const ∧ UsesCtx g c) := by
  obtain ⟨comps, ht, topo⟩ := order_topological_total g hkeys
  obtain ⟨hs, hm⟩ := cycle_tests_pass g hkeys comps topo (RotoV.Tarjan.tarjan_scc g comps ht) hacyc
  exact context_rejected g comps ht hs hm

example : compile ⟨[(0, [1]), (1, [2, 3]), (2, [1])],
    fun n => if n = 0 then .const else if n = 3 then .ctx else .func⟩
    = .ok (.rejected (.usesContext 0) []) := by decide

example : validScc ⟨[(1, [2]), (2, [3, 4]), (3, [2, 4]), (4, [])], fun _ => .func⟩ [[4], [3, 2], [1]] = true := by
  decide
example : validScc ⟨[(1, [2]), (2, [3, 4]), (3, [2, 4]), (4, [])], fun _ => .func⟩ [[4], [3, 2, 1]] = false := by
  decide

example : (codegen ⟨[(0, [2]), (1, []), (2, [1])], fun n => if n = 2 then .func else .const⟩ [1, 2, 0]).map (·.log)
    = .ok [1, 0] := by decide
/-- a wrong order is a loud failure in the model (`ice!("Constant not defined")`) -/
example : (codegen ⟨[(0, [2]), (1, []), (2, [1])], fun n => if n = 2 then .func else .const⟩ [0, 2, 1]).map (·.log)
    = .error .panic := by decide

/-! ## T5 — edge completeness: a collected graph that contains every real dependency rejects every real context use

`t` is the dependency structure a program really has (the harness knows it for
the programs it generates: which item mentions which, in whatever syntactic
position), `i` the reference graph the type checker collected for it.  The
driver decides `edgesSubset t i` on every generated program; under it, whatever
`t` says about context use carries over to what `compile` does on `i`. -/

/-- the executable comparison is sound -/
theorem edgesSubset_sound (t i : Graph) (h : edgesSubset t i = true) :
    ∀ u v, Edge t u v → Edge i u v :=
  RotoV.Tarjan.edgesSubset_sound t i h

/-- If every dependency of the real structure `t` is an edge of the collected
graph `i` (same kinds, every real constant is a key), then a constant that
really reads a context variable — directly, as a method receiver, through
constants, through any chain of functions — makes `compile` reject, with
nothing evaluated. -/
theorem real_edges_reject_context (t i : Graph) (hedge : ∀ a b, Edge t a b → Edge i a b)
    (hkind : ∀ x, t.kind x = i.kind x) (hkeys : ∀ c, c ∈ t.keys → c ∈ i.keys)
    (hc : ∃ c, c ∈ t.keys ∧ t.kind c = .const ∧ UsesCtx t c) :
    ∃ o, compile i = .ok (.rejected o []) := by
  obtain ⟨c, hck, hcc, hu⟩ := hc
  have hu' : UsesCtx i c := hu.mono hedge (fun x hx => by rw [← hkind x]; exact hx)
  obtain ⟨comps, ht⟩ := tarjan_total i
  cases hs : selfEdge i i.edges with
  | some c' => exact ⟨.recursive c', by simp [compile, findCompilationOrder, hs, bind, Except.bind]⟩
  | none =>
    cases hm : mixedComponent i comps with
    | some c' => exact ⟨.recursive c', by simp [compile, findCompilationOrder, hs, ht, hm, bind, Except.bind]⟩
    | none =>
      obtain ⟨c', h'⟩ := ((context_rejected i comps ht hs hm).1).1
        ⟨c, hkeys c hck, by rw [← hkind c]; exact hcc, hu'⟩
      exact ⟨_, h'⟩

/-- the same with the executable comparison the driver runs on every generated
program (`edgesSubset`, what `c14 tie` decides) as the hypothesis -/
theorem complete_edges_reject_context (t i : Graph) (hsub : edgesSubset t i = true)
    (hkind : ∀ x, t.kind x = i.kind x) (hkeys : ∀ c, c ∈ t.keys → c ∈ i.keys)
    (hc : ∃ c, c ∈ t.keys ∧ t.kind c = .const ∧ UsesCtx t c) :
    ∃ o, compile i = .ok (.rejected o []) :=
  real_edges_reject_context t i (RotoV.Tarjan.edgesSubset_sound t i hsub) hkind hkeys hc

/-- likewise for cycles: a real cycle through a constant is a cycle of the
collected graph, hence rejected (no certificate needed any more: `cycle_rejected_semantic`) -/
theorem complete_edges_reject_cycle (t i : Graph) (hsub : edgesSubset t i = true)
    (hkind : ∀ x, t.kind x = i.kind x) (hkeys : i.keys.Nodup) (c d : Nat) (hk : t.kind c = .const)
    (e : Edge t c d) (r : Reach t d c) :
    ∃ c', i.kind c' = .const ∧ compile i = .ok (.rejected (.recursive c') []) := by
  have hedge := RotoV.Tarjan.edgesSubset_sound t i hsub
  exact cycle_rejected_semantic i hkeys c d (by rw [← hkind c]; exact hk) (hedge c d e) (r.mono hedge)

/-- the method-receiver shape: constant 0 calls f1, f1 reads context 2 only as
`ctxvar.method()`.  With the edge the program is rejected; a collected graph
without it is *not* a superset of the real structure (the comparison fails) and
would be compiled. -/
example : compile ⟨[(0, [1]), (1, [2])], fun n => if n = 0 then .const else if n = 2 then .ctx else .func⟩
    = .ok (.rejected (.usesContext 0) []) := by decide
example : edgesSubset ⟨[(0, [1]), (1, [2])], fun _ => .func⟩ ⟨[(0, [1]), (1, [])], fun _ => .func⟩ = false := by decide
example : edgesMissing ⟨[(0, [1]), (1, [2])], fun _ => .func⟩ ⟨[(0, [1]), (1, [])], fun _ => .func⟩ = [(1, 2)] := by decide

/-! ## T6 — the item loop over the lowered list: when an initialiser runs, everything it can call is defined

`cgLir` is the code generator's loop over `Lir.functions` as emitted (generated
clone / drop / eq functions included).  The harness feeds it the list of every
real compilation (hook `take_lir`): it must succeed, and its run order must be
the observed initialiser log. -/

/-- If the loop completes, then every constant's initialiser ran exactly once,
in list order, and at the moment constant `c`'s initialiser ran (`D` = bodies
defined and finalized, `S` = constants already evaluated): the constant itself
and every function it can reach through calls / function addresses — script
functions and generated clone / drop / eq functions alike — had a finalized
body; every script constant read by it or by anything it can reach had already
been evaluated, earlier in the run order; and in the end every defined body only
refers to defined bodies. -/
theorem init_runs_closed (items : List LItem) (st : LState) (h : cgLir items = .ok st) :
    st.runs.map Prod.fst = constPositions 0 items ∧
    (∀ c D S, (c, D, S) ∈ st.runs →
      c ∈ D ∧ ∀ x, LReach items c x →
        x ∈ D ∧ ∀ k, LReads items x k → k ∈ S ∧ Before k c (st.runs.map Prod.fst)) ∧
    (∀ p, p ∈ st.defined → ∀ q, LEdge items p q → q ∈ st.defined) := by
  unfold cgLir at h
  simp only [bind, Except.bind] at h
  cases hl : lLoop items 0 items LState.new with
  | error e => rw [hl] at h; cases h
  | ok st1 =>
    rw [hl] at h
    obtain ⟨inv1, hr1⟩ := lLoop_inv items 0 LState.new st1 (by simp) (LInv.new items) hl
    obtain ⟨inv2, _, hp2, _, hr2⟩ := lFinalize_inv inv1 h
    refine ⟨by rw [hr2, hr1]; simp [LState.new], ?_, ?_⟩
    · intro c D S hm
      obtain ⟨hc, hD, hS, hB⟩ := inv2.runs c D S hm
      refine ⟨hc, fun x r => ?_⟩
      have hx : x ∈ D := r.closed hD hc
      exact ⟨hx, fun k hk => ⟨hS x hx k hk, hB k (hS x hx k hk)⟩⟩
    · intro p hp q e
      exact inv2.closed p hp (by rw [hp2]; simp) q e

/-- helpers first: `[clone, drop, K, f]` where `K`'s initialiser calls `clone` -/
example : (cgLir [⟨false, none, [], []⟩, ⟨false, none, [], []⟩, ⟨true, some 1, [some 0], []⟩,
    ⟨false, none, [some 0], [some 2]⟩]).map (·.runs) = .ok [(2, [2, 1, 0], [])] := by decide
/-- the clone function after the script items: `[drop, K, f, clone]` — the loop
stops at `K` ("can't resolve symbol") -/
example : cgLir [⟨false, none, [], []⟩, ⟨true, some 0, [some 3], []⟩, ⟨false, none, [some 3], [some 1]⟩,
    ⟨false, none, [], []⟩] = .error .panic := by decide
/-- a function ordered before the constant that needs it refers to a later helper -/
example : cgLir [⟨false, none, [], []⟩, ⟨false, none, [some 3], []⟩, ⟨true, some 0, [some 1], []⟩,
    ⟨false, none, [], []⟩] = .error .panic := by decide
/-- the drop function of the constant's type must have a body as well -/
example : cgLir [⟨true, some 1, [], []⟩, ⟨false, none, [], []⟩] = .error .panic := by decide
/-- without a constant in between, order does not matter (one finalize at the end) -/
example : (cgLir [⟨false, none, [some 1], []⟩, ⟨false, none, [], []⟩]).map (·.runs) = .ok [] := by decide

/-- The same condition in closed form (`lirReady`, decided positionally without
running anything: every symbol is declared; a body only reads *earlier
constants*; for every constant, its drop function and every symbol any body up
to its position refers to sit at or before that position; at the end everything
referred to is in the list): it implies that the loop completes — and hence, by
`init_runs_closed`, that whenever an initialiser runs everything it can call is
defined.  (The converse is checked on every real item list by the harness:
`lirReady` and `cgLir` must agree.) -/
theorem cgLir_ok_of_ready (items : List LItem) (h : lirReady items = true) :
    ∃ st, cgLir items = .ok st ∧
      st.runs.map Prod.fst = constPositions 0 items ∧
      (∀ c D S, (c, D, S) ∈ st.runs →
        c ∈ D ∧ ∀ x, LReach items c x →
          x ∈ D ∧ ∀ k, LReads items x k → k ∈ S ∧ Before k c (st.runs.map Prod.fst)) := by
  obtain ⟨st, hst⟩ := cgLir_ok_of_ready' items h
  obtain ⟨h1, h2, _⟩ := init_runs_closed items st hst
  exact ⟨st, hst, h1, h2⟩

example : lirReady [⟨false, none, [], []⟩, ⟨false, none, [], []⟩, ⟨true, some 1, [some 0], []⟩,
    ⟨false, none, [some 0], [some 2]⟩] = true := by decide
example : lirReady [⟨false, none, [], []⟩, ⟨true, some 0, [some 3], []⟩, ⟨false, none, [some 3], [some 1]⟩,
    ⟨false, none, [], []⟩] = false := by decide
example : lirReady [⟨false, none, [], []⟩, ⟨false, none, [some 3], []⟩, ⟨true, some 0, [some 1], []⟩,
    ⟨false, none, [], []⟩] = false := by decide

end RotoV.C14
