/-
  C14 — constants are evaluated once, in dependency order, before any call.
-/
import RotoV.Model.Tarjan

namespace RotoV.C14
open RotoV.Tarjan

/-- the repository's own unit test `one_two_three_four`, on the model -/
theorem tarjan_unit_test :
    tarjan ⟨[(1, [2]), (2, [3, 4]), (3, [2, 4]), (4, [])], fun _ => .func⟩
      = .ok [[4], [3, 2], [1]] := by decide

end RotoV.C14
