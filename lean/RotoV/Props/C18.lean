/-
  C18 — registration is validated and makes items reachable where declared.

  Model: `RotoV/Model/Registration.lean` (`register` = the public item
  constructors + `Rt::add`; `Cfg.fixed` is the source as it is now, tied to the
  working tree by the correspondence run `harness/src/bin/c18.rs`;
  `Cfg.pinned` is the pinned tree).  Helper lemmas: `RotoV/Lemmas/Registration.lean`
  (invariant, T1), `RegistrationOps` (`add_eq`: `Rt::add` is five lists of guarded
  insertions), `RegistrationClosed` (closed form of a pass, permutation
  invariance), `RegistrationOrder` (T4), `RegistrationExact` / `RegistrationDefects` /
  `RegistrationAccepts` (T2), `RegistrationReach` / `RegistrationOrigin` (T3).  The
  theorems that mention the regenerated pass structure live in `Props/C18Passes.lean`.

  `library!`: the `use` declarations it accepts are `RotoV.Use.UseTree`
  (`RotoV/Model/UseTree.lean`); `flatten_use_tree` of `macros/src/lib.rs` is
  regenerated from the source on every run (`RotoV/Generated/FlattenUse.lean`)
  and the theorems of `Props/C18Use.lean` (T5) are stated over that generated
  function; they live in a module of their own so that a change to the macro
  breaks exactly those obligations and a change to the lexer's keyword table
  exactly the ones here.
-/
import RotoV.Lemmas.RegistrationOrigin
import RotoV.Lemmas.RegistrationKind
import RotoV.Generated.Keywords

namespace RotoV.C18
open RotoV.Reg

/-! ## T1 — never a panic -/

/-- **T1 `add_no_panic`.** For every library (any nesting, empty paths, empty
    or invalid names, impl blocks for unknown types, …) and every lexer
    verdict, building the library and adding it to a well-formed runtime
    returns `ok` or `err`, never a panic; a successful add extends the
    declaration table (nothing declared before changes) and leaves a
    well-formed runtime, so the statement covers every sequence of adds. -/
theorem add_no_panic (lex : Name → Lex) (st : St) (hw : WF st) (items : Items) :
    match register Cfg.fixed lex st items with
    | .ok st' => Ext st st' ∧ WF st'
    | .err _ => True
    | .panic _ => False :=
  register_good lex hw items

/-- the initial runtime (primitives and other built-in names at the root) is well-formed -/
theorem init_wf (prims : List (Name × TyId)) (others : List Name) : WF (St.init prims others) :=
  wf_init prims others

/-- T1 over sequences of adds on one runtime -/
def registerAll (lex : Name → Lex) : St → List Items → Res St
  | st, [] => .ok st
  | st, l :: ls =>
    match register Cfg.fixed lex st l with
    | .ok st' => registerAll lex st' ls
    | .err e => .err e
    | .panic s => .panic s

theorem add_sequence_no_panic (lex : Name → Lex) :
    ∀ (libs : List Items) (st : St), WF st → ∀ s, registerAll lex st libs ≠ .panic s
  | [], st, _, s => by simp [registerAll]
  | l :: ls, st, hw, s => by
    have h := add_no_panic lex st hw l
    simp only [registerAll]
    cases hr : register Cfg.fixed lex st l with
    | ok st' => rw [hr] at h; exact add_sequence_no_panic lex ls st' h.2 s
    | err e => simp
    | panic s' => rw [hr] at h; exact h.elim

/-! ## T2 — fails exactly for the listed defects -/

/-- **T2, clause (1) first**: the item constructors check every name before
    `Rt::add` runs; with valid names `register` is `Rt::add`. -/
theorem names_checked_first (lex : Name → Lex) (st : St) (items : Items) :
    (¬ NamesValid lex items → register Cfg.fixed lex st items = .err .invalidName) ∧
    (NamesValid lex items → register Cfg.fixed lex st items = add Cfg.fixed lex st items) := by
  constructor
  · intro h
    have : namesOk Cfg.fixed lex items ≠ true := fun hn => h ((namesOk_iff lex items).mp hn)
    simp [register, this]
  · intro h
    simp [register, (namesOk_iff lex items).mpr h]

/-- **T2 `add_succeeds_iff`.** For every library, lexer verdict and
    well-formed runtime: the registration succeeds **iff** the library satisfies
    every clause of `Accepts` — (1) valid names, (2) no name bound twice in a
    scope or bound already (modules, types, functions and methods, constants,
    imports; a method's scope is the one its *type* owns), (3) no Rust type
    registered twice, (4) every signature, constant and impl block mentions
    registered types only, and the structural demands of the API (nothing nested
    in an impl block, `use` paths non-empty and through scope-owning items) —
    and the resulting runtime is then the closed-form table `S5`. -/
theorem add_succeeds_iff (lex : Name → Lex) (st : St) (hw : WF st) (items : Items) (st' : St) :
    register Cfg.fixed lex st items = .ok st' ↔ Accepts lex st items ∧ st' = S5 lex st items := by
  rw [register_ok_iff lex hw, ← and_assoc, accepts_iff lex hw]

/-- **T2 `add_fails_iff`.** `Rt::add` returns a registration error **iff** the
    library has one of the listed defects, i.e. violates a clause of `Accepts`
    (never a panic: `add_no_panic`). -/
theorem add_fails_iff (lex : Name → Lex) (st : St) (hw : WF st) (items : Items) :
    (∃ e, register Cfg.fixed lex st items = .err e) ↔ ¬ Accepts lex st items := by
  rw [register_err_iff lex hw, accepts_iff lex hw]

/-! ## T2 with the error KIND -/

/-- **T2, the kind of the error (`add_error_kind`).** For every library, lexer
    verdict and well-formed runtime: when the registration is rejected, the KIND
    of the `RegistrationError` names a defect the library really has
    (`KindDefect`, clause by clause of `Accepts`): `invalidName` — a name is not a
    valid non-keyword identifier; `nameTaken` — one of the five "pairwise
    different and free" clauses fails (modules, types, functions and methods,
    constants, imports); `typeTwice` — a Rust type is registered by two `type`
    items or in the runtime already; `unregistered` — a signature, constant or
    impl block mentions a type registered neither in the runtime nor by the
    library; `nestedInImpl`, `emptyPath`, `noScope` — the API's structural
    demands.  (Which defect is reported when a library has several depends on the
    order of the items: passes stop at their first failing operation.) -/
theorem add_error_kind (lex : Name → Lex) (st : St) (hw : WF st) (items : Items) (e : Err)
    (h : register Cfg.fixed lex st items = .err e) : KindDefect lex st items e :=
  register_err_kind lex hw items e h

/-- every such defect is the failure of a clause of `Accepts` -/
theorem kind_defect_refutes_accepts (lex : Name → Lex) (st : St) (items : Items) (e : Err)
    (h : KindDefect lex st items e) : ¬ Accepts lex st items :=
  fun a => accepts_no_kindDefect lex a e h

/-- **T2 with the kind, converse for libraries with one kind of defect**: a
    library that is not acceptable and has no defect of any kind but `k` is
    rejected with an error of kind `k` — in whatever order its items stand. -/
theorem add_error_kind_of_only_defect (lex : Name → Lex) (st : St) (hw : WF st) (items : Items) (k : Err)
    (hna : ¬ Accepts lex st items) (honly : ∀ e, e ≠ k → ¬ KindDefect lex st items e) :
    register Cfg.fixed lex st items = .err k := by
  obtain ⟨e, he⟩ := (add_fails_iff lex st hw items).mpr hna
  have hk := add_error_kind lex st hw items e he
  by_cases hek : e = k
  · rw [← hek]; exact he
  · exact absurd hk (honly e hek)

/-! ## T3 — reachable where declared -/

/- **T3 `reachable`**: `reachable_declared` (functions, constants, types at
   their declared path), `reachable_impl_items` (methods and constants of impl
   blocks at the declared path of the *type*), `reachable_use_paths` /
   `reachable_through_use` (the paths `use` items name), `tables_hold_exactly` and
   `reachable_nowhere_else` / `reachable_only_items` (nothing else is declared,
   every declaration is one item, and a script path resolves only along a
   declaration's own path or a root import).  Refuted for
   a `use` *inside* a module (`use_in_module_lands_in_parent`, known finding;
   `use_in_module_not_repairable_by_registration`). -/

/-- **T3, declared-path half** for functions, constants and types. -/
theorem reachable_declared (lex : Name → Lex) (st st' : St) (hw : WF st) (items : Items)
    (h : register Cfg.fixed lex st items = .ok st') (p : List Name) :
    (∀ n ps r tag, ItemAt items p (.function n ps r tag) →
      ∃ ps' r', convTys st' ps = .ok ps' ∧ convTy st' r = .ok r' ∧
        resolvePath st' (p ++ [n]) = some ⟨.function ps' r' tag, none⟩) ∧
    (∀ n ty tag, ItemAt items p (.constant n ty tag) →
      ∃ ty', convTy st' ty = .ok ty' ∧ resolvePath st' (p ++ [n]) = some ⟨.const ty' tag, none⟩) ∧
    (∀ n id, ItemAt items p (.type n id) →
      ∃ s d sc, scopeAt st' [] p = some s ∧ convTy st' (.reg id) = .ok (.name ⟨s, n⟩) ∧
        resolvePath st' (p ++ [n]) = some d ∧ d.scope = some sc) := by
  have hadd : add Cfg.fixed lex st items = .ok st' := by
    unfold register at h
    split at h
    · exact h
    · cases h
  have hall := add_post lex hw items hadd
  refine ⟨fun n ps r tag hi => ?_, fun n ty tag hi => ?_, fun n id hi => ?_⟩
  · obtain ⟨s, hs, hq⟩ := holds_itemAt hi [] hall
    simp only [HoldsItem, QDecl] at hq
    obtain ⟨ps', r', h1, h2, h3⟩ := hq
    exact ⟨ps', r', h1, h2, resolvePath_scopeAt st' p s n _ hs h3⟩
  · obtain ⟨s, hs, hq⟩ := holds_itemAt hi [] hall
    simp only [HoldsItem, QDecl] at hq
    obtain ⟨ty', h1, h2⟩ := hq
    exact ⟨ty', h1, resolvePath_scopeAt st' p s n _ hs h2⟩
  · obtain ⟨s, hs, hq⟩ := holds_itemAt hi [] hall
    simp only [HoldsItem, QDecl] at hq
    obtain ⟨h1, d, sc, h2, h3⟩ := hq
    exact ⟨s, d, sc, hs, by simp [convTy, h1], resolvePath_scopeAt st' p s n _ hs h2, h3⟩

/-- **T3, the paths a `use` names.** After a successful registration, every
    path of every `use` item of the library (at the top or inside modules — the
    import pass hands a module's children the enclosing scope, see
    `use_in_module_lands_in_parent`) is bound at the root: its last segment is
    an import whose target is that name in the scope reached by walking the
    other segments as nested modules / types; and unless the root itself
    declares the name, a script path that starts with it continues from the
    target.  (No member of the list sees another member's segments: the
    statement is per path.) -/
theorem reachable_use_paths (lex : Name → Lex) (st st' : St) (items : Items)
    (h : register Cfg.fixed lex st items = .ok st')
    (ps : List (List Name)) (hu : UseIn items ps) (p : List Name) (hp : p ∈ ps) :
    ∃ last s, p.getLast? = some last ∧ scopeAt st' [] p.dropLast = some s ∧
      st'.imports [] last = some ⟨s, last⟩ ∧
      (st'.decls ⟨[], last⟩ = none → ∀ rest,
        resolvePath st' (last :: rest) =
          match st'.decls ⟨s, last⟩ with
          | some d => resolveRest st' d rest
          | none => none) := by
  have hadd : add Cfg.fixed lex st items = .ok st' := by
    unfold register at h
    split at h
    · exact h
    · cases h
  have b := add_uses_bound lex st st' items hadd ps hu p hp
  obtain ⟨last, s, h1, h2, h3⟩ := b
  obtain ⟨last', s', h1', h2', h4⟩ := resolvePath_bound st' p ⟨last, s, h1, h2, h3⟩
  rw [h1] at h1'; cases h1'
  rw [h2] at h2'; cases h2'
  exact ⟨last, s, h1, h2, h3, h4⟩

/-- **T3, end to end for a `use` of a function or constant**: the bare name
    resolves, from a script, to the declaration of the item that sits at the
    used path — identity and declared signature. -/
theorem reachable_through_use (lex : Name → Lex) (st st' : St) (hw : WF st) (items : Items)
    (h : register Cfg.fixed lex st items = .ok st')
    (ps : List (List Name)) (hu : UseIn items ps) (pre : List Name) (n : Name)
    (hp : pre ++ [n] ∈ ps) (hroot : st'.decls ⟨[], n⟩ = none) :
    (∀ ps0 r tag, ItemAt items pre (.function n ps0 r tag) →
      ∃ ps' r', convTys st' ps0 = .ok ps' ∧ convTy st' r = .ok r' ∧
        resolvePath st' [n] = some ⟨.function ps' r' tag, none⟩) ∧
    (∀ ty tag, ItemAt items pre (.constant n ty tag) →
      ∃ ty', convTy st' ty = .ok ty' ∧ resolvePath st' [n] = some ⟨.const ty' tag, none⟩) := by
  have hadd : add Cfg.fixed lex st items = .ok st' := by
    unfold register at h
    split at h
    · exact h
    · cases h
  have hall := add_post lex hw items hadd
  obtain ⟨last, s, h1, h2, _, h4⟩ := reachable_use_paths lex st st' items h ps hu (pre ++ [n]) hp
  have hl : last = n := by simpa using h1.symm
  subst hl
  simp only [List.dropLast_concat] at h2
  have hres := h4 hroot []
  refine ⟨fun ps0 r tag hi => ?_, fun ty tag hi => ?_⟩
  · obtain ⟨s', hs', hq⟩ := holds_itemAt hi [] hall
    rw [h2] at hs'; cases hs'
    simp only [HoldsItem, QDecl] at hq
    obtain ⟨ps', r', c1, c2, c3⟩ := hq
    exact ⟨ps', r', c1, c2, by rw [hres, c3]; rfl⟩
  · obtain ⟨s', hs', hq⟩ := holds_itemAt hi [] hall
    rw [h2] at hs'; cases hs'
    simp only [HoldsItem, QDecl] at hq
    obtain ⟨ty', c1, c2⟩ := hq
    exact ⟨ty', c1, by rw [hres, c2]; rfl⟩

/-- **T3 for impl blocks (`reachable_impl_items`).** After a successful
    registration, for every impl block of the library — wherever it stands in
    the module tree — for the type `tn` declared at module path `p`: every method
    and every constant of the block resolves from a script at `p ++ [tn, name]`,
    the declared path of the *type* followed by the name, to a declaration with
    the item's identity and its declared signature. -/
theorem reachable_impl_items (lex : Name → Lex) (st st' : St) (hw : WF st) (items : Items)
    (h : register Cfg.fixed lex st items = .ok st')
    {p q : List Name} {tn : Name} {id : TyId} {ch : Items}
    (ht : ItemAt items p (.type tn id)) (hi : ItemAt items q (.impl id ch)) :
    (∀ n ps r tag, Item.function n ps r tag ∈ ch.toList →
      ∃ ps' r', convTys st' ps = .ok ps' ∧ convTy st' r = .ok r' ∧
        resolvePath st' (p ++ [tn] ++ [n]) = some ⟨.method ps' r' tag, none⟩) ∧
    (∀ n cty tag, Item.constant n cty tag ∈ ch.toList →
      ∃ ty', convTy st' cty = .ok ty' ∧
        resolvePath st' (p ++ [tn] ++ [n]) = some ⟨.const ty' tag, none⟩) := by
  obtain ⟨hn, hc, rfl⟩ := (register_ok_iff lex hw items st').mp h
  have hw' : WF (S5 lex st items) := (checks_stages lex hw items hc).2.2.2.2.2
  obtain ⟨s, _, _, hs, hconv, _, _⟩ := (reachable_declared lex st _ hw items h p).2.2 tn id ht
  have hsp := scopeAt_path hw' p [] s hs
  simp only [List.nil_append] at hsp
  subst hsp
  obtain ⟨nm, hnm, hm, hk⟩ := impl_items_declared lex hw items hc hi
  have hnm' : nm = ⟨s, tn⟩ := by
    simp only [convTy, hnm, Res.ok.injEq, RotoTy.name.injEq] at hconv
    exact hconv
  subst hnm'
  obtain ⟨d, sc, hd, hsc⟩ := hw'.types id _ hnm
  have hg : (S5 lex st items).getScopeOf s tn = some sc := by simp [St.getScopeOf, hd, hsc]
  have hsc' := getScopeOf_path hw' hg
  have hsnoc := scopeAt_snoc s [] s tn sc hs hg
  refine ⟨fun n ps r tag hmem => ?_, fun n cty tag hmem => ?_⟩
  · obtain ⟨ps', r', h1, h2, h3⟩ := hm n ps r tag hmem
    refine ⟨ps', r', h1, h2, resolvePath_scopeAt _ (s ++ [tn]) sc n _ hsnoc ?_⟩
    rw [hsc']; exact h3
  · obtain ⟨ty', h1, h3⟩ := hk n cty tag hmem
    refine ⟨ty', h1, resolvePath_scopeAt _ (s ++ [tn]) sc n _ hsnoc ?_⟩
    rw [hsc']; exact h3

/-- **T3, "nothing else" at the level of the tables (`tables_hold_exactly`).**
    After a successful registration the declaration table, the imports and the
    registered types hold exactly what they held before and what the library
    declares (`Declared`: its modules, types, functions, methods and constants,
    each under the name `DOp.key` gives and with the converted signature;
    `Imported`: one root import per `use` path). -/
theorem tables_hold_exactly (lex : Name → Lex) (st st' : St) (hw : WF st) (items : Items)
    (h : register Cfg.fixed lex st items = .ok st') :
    (∀ k d, st'.decls k = some d ↔ st.decls k = some d ∨ (k, d) ∈ Declared lex st items) ∧
    (∀ s n t, st'.imports s n = some t ↔
      st.imports s n = some t ∨ (s = [] ∧ (n, t) ∈ Imported lex st items)) ∧
    (∀ i nm, st'.types i = some nm ↔ st.types i = some nm ∨ ∃ t ∈ ops2 items, t.id = i ∧ t.nm = nm) := by
  obtain ⟨_, hc, rfl⟩ := (register_ok_iff lex hw items st').mp h
  exact tables_exact lex items hc

/-- **T3, "at no other path" (`reachable_nowhere_else`).** After a successful
    registration, whatever a script path `p` resolves to is a declaration that
    the runtime held before or that the library declares, and `p` is that
    declaration's own path — or the path of a root import (held before, or made
    by a `use` path of the library) followed by the rest of the declaration's
    path. -/
theorem reachable_nowhere_else (lex : Name → Lex) (st st' : St) (hw : WF st) (items : Items)
    (h : register Cfg.fixed lex st items = .ok st') (p : List Name) (d : Decl)
    (hr : resolvePath st' p = some d) :
    ∃ k, (st.decls k = some d ∨ (k, d) ∈ Declared lex st items) ∧
      (k.path = p ∨ ∃ n rest tgt, p = n :: rest ∧
        (st.imports [] n = some tgt ∨ (n, tgt) ∈ Imported lex st items) ∧ k.path = tgt.path ++ rest) := by
  obtain ⟨hd, himp, _⟩ := tables_hold_exactly lex st st' hw items h
  have hw' : WF st' := by
    have := add_no_panic lex st hw items
    rw [h] at this
    exact this.2
  obtain ⟨k, hk, hp⟩ := resolvePath_key hw' p d hr
  refine ⟨k, (hd k d).mp hk, ?_⟩
  rcases hp with hp | ⟨n, rest, tgt, h1, _, h3, h4⟩
  · exact Or.inl hp
  · refine Or.inr ⟨n, rest, tgt, h1, ?_, h4⟩
    rcases (himp [] n tgt).mp h3 with a | ⟨_, a⟩
    · exact Or.inl a
    · exact Or.inr a

/-- **T3, "at no other path", in terms of the items (`reachable_only_items`).**
    After a successful registration, whatever a script path `p` resolves to was
    declared before or is the declaration of *one item of the library*
    (`Origin`: a module, type, function or constant at its module path ++ name;
    a method or constant of an impl block at the path of the block's *type* ++
    name), and `p` is that path — or `last :: rest` for a root import
    `last ↦ u.dropLast ++ [last]` made by a path `u` of a `use` item of the
    library (or held before), followed by the rest of that path. -/
theorem reachable_only_items (lex : Name → Lex) (st st' : St) (hw : WF st) (items : Items)
    (h : register Cfg.fixed lex st items = .ok st') (p : List Name) (d : Decl)
    (hr : resolvePath st' p = some d) :
    ∃ k, (st.decls k = some d ∨ Origin lex st items k d) ∧
      (k.path = p ∨ ∃ n rest tgt, p = n :: rest ∧
        (st.imports [] n = some tgt ∨ ∃ u ∈ ops5 items, u.getLast? = some n ∧ tgt = ⟨u.dropLast, n⟩) ∧
        k.path = tgt.path ++ rest) := by
  obtain ⟨_, hc, _⟩ := (register_ok_iff lex hw items st').mp h
  obtain ⟨k, hk, hp⟩ := reachable_nowhere_else lex st st' hw items h p d hr
  refine ⟨k, hk.imp id (declared_origin lex hw items hc), ?_⟩
  rcases hp with hp | ⟨n, rest, tgt, h1, h2, h3⟩
  · exact Or.inl hp
  · exact Or.inr ⟨n, rest, tgt, h1, h2.imp id (imported_origin lex hw items hc), h3⟩

/-- Why the open finding `use_in_module_lands_in_parent` has no repair inside
    registration: a script path consults imports only for its *first* segment
    and only those of the root (every further segment is looked up among the
    members of the scope reached, `resolve_name(.., recurse = false)`), so two
    runtimes that agree on the declarations and on the root's imports resolve
    every path alike — in whichever scope `declare_imports` registers a module's
    `use`, `module.name` cannot be made to resolve through it; registering it in
    the module's own scope would only remove the name from the root. -/
theorem use_in_module_not_repairable_by_registration (st st' : St) (hd : st'.decls = st.decls)
    (hi : st'.imports [] = st.imports []) (p : List Name) : resolvePath st' p = resolvePath st p :=
  resolvePath_ignores_inner_imports st st' hd hi p

/-! ## T4 — the order of items does not matter -/

/-- **T4 `order_indep`.** For every reordering of the items at any level (top,
    inside modules, inside impl blocks), every lexer verdict and every
    well-formed runtime: the two registrations are both errors, or both succeed
    with the *same* runtime (declarations, imports, registered types — scopes are
    named by their path, the quotient by scope numbering). -/
theorem order_indep (lex : Name → Lex) (st : St) (hw : WF st) (items items' : Items)
    (hs : Shuffle items items') :
    match register Cfg.fixed lex st items, register Cfg.fixed lex st items' with
    | .ok a, .ok b => a = b
    | .err _, .err _ => True
    | _, _ => False := by
  have g1 := add_no_panic lex st hw items
  have g2 := add_no_panic lex st hw items'
  cases h1 : register Cfg.fixed lex st items with
  | ok a =>
    have := register_ok_shuffle lex hw hs a h1
    rw [this]
  | err e =>
    cases h2 : register Cfg.fixed lex st items' with
    | ok b =>
      have := register_ok_shuffle lex hw hs.symm b h2
      rw [h1] at this
      cases this
    | err e' => trivial
    | panic s => rw [h2] at g2; exact g2
  | panic s => rw [h1] at g1; exact g1

/-- every library of a sequence reordered (each at any level) -/
inductive ShuffleAll : List Items → List Items → Prop
  | nil : ShuffleAll [] []
  | cons {l l' : Items} {ls ls' : List Items} : Shuffle l l' → ShuffleAll ls ls' → ShuffleAll (l :: ls) (l' :: ls')

/-- T4 over sequences of adds on one runtime: reordering the items of every
    library of the sequence (each at any level) changes nothing — both sequences
    fail, or both succeed with the same runtime. -/
theorem order_indep_sequence (lex : Name → Lex) :
    ∀ (libs libs' : List Items) (st : St), WF st → ShuffleAll libs libs' →
      match registerAll lex st libs, registerAll lex st libs' with
      | .ok a, .ok b => a = b
      | .err _, .err _ => True
      | _, _ => False
  | [], _, st, _, h => by cases h; simp [registerAll]
  | l :: ls, _, st, hw, h => by
    cases h with
    | cons h1 hs =>
      rename_i l' ls'
      have o := order_indep lex st hw l l' h1
      have g := add_no_panic lex st hw l
      simp only [registerAll]
      cases hr : register Cfg.fixed lex st l with
      | ok a =>
        rw [hr] at o g
        cases hr' : register Cfg.fixed lex st l' with
        | ok b =>
          rw [hr'] at o
          subst o
          exact order_indep_sequence lex ls ls' a g.2 hs
        | err e => rw [hr'] at o; exact o.elim
        | panic s => rw [hr'] at o; exact o.elim
      | err e =>
        rw [hr] at o
        cases hr' : register Cfg.fixed lex st l' with
        | ok b => rw [hr'] at o; exact o.elim
        | err e' => trivial
        | panic s => rw [hr'] at o; exact o.elim
      | panic s => rw [hr] at g; exact g.elim

/- **T4 with the kind**, full statement: for `Shuffle items items'`, if the
   library has defects of one kind only, both registrations report that kind.
   Proved below as `order_indep_kind_partial` with the "one kind only" hypothesis
   stated for BOTH orders: that `KindDefect` is invariant under `Shuffle` (the
   closed-form tables `S1…S4` of a rejected library are defined through
   insertions in item order) is not proved. -/
theorem order_indep_kind_partial (lex : Name → Lex) (st : St) (hw : WF st) (items items' : Items) (k : Err)
    (hs : Shuffle items items') (hna : ¬ Accepts lex st items)
    (honly : ∀ e, e ≠ k → ¬ KindDefect lex st items e)
    (honly' : ∀ e, e ≠ k → ¬ KindDefect lex st items' e) :
    register Cfg.fixed lex st items = .err k ∧ register Cfg.fixed lex st items' = .err k := by
  have h1 := add_error_kind_of_only_defect lex st hw items k hna honly
  refine ⟨h1, ?_⟩
  have o := order_indep lex st hw items items' hs
  rw [h1] at o
  cases h2 : register Cfg.fixed lex st items' with
  | ok b => rw [h2] at o; exact o.elim
  | panic s => rw [h2] at o; exact o.elim
  | err e' =>
    have hk := add_error_kind lex st hw items' e' h2
    by_cases hek : e' = k
    · rw [hek]
    · exact absurd hk (honly' e' hek)

/-! ## witnesses -/

def lexV : Name → Lex := fun _ => ⟨some (some .ident), false, true⟩
def il : List Item → Items
  | [] => .nil
  | i :: is => .cons i (il is)
def fn0 (n tag : Nat) : Item := .function n [] .unit tag
/-- a runtime with one primitive type (name 50, type id 100) -/
def st0 : St := St.init [(50, 100)] []

/-- non-vacuity of T1: `st0` is well-formed and a nested library registers -/
example : (register Cfg.fixed lexV st0 (il [.module 0 (il [.module 1 (il [fn0 2 7])]), .use [[0, 1, 2]]])).isOk = true := by
  decide

/-- non-vacuity: a keyword name is rejected, wherever it sits -/
example :
    register Cfg.fixed (fun n => if n = 3 then ⟨some (some .keyword), false, true⟩ else lexV n) st0
      (il [.module 0 (il [.impl 100 (il [fn0 3 1])])]) = .err .invalidName := by
  apply (names_checked_first _ _ _).1
  simp [il, fn0, NamesValid, NameValidItem, ValidName]

/-- non-vacuity of T3: a function two modules deep -/
example : ItemAt (il [.module 0 (il [.module 1 (il [fn0 2 7])]), .use [[0, 1, 2]]]) [0, 1] (fn0 2 7) :=
  .inside 0 _ (.inside 1 _ (.here _ _))

/-- non-vacuity of `reachable_use_paths` / `reachable_through_use`: a two-path `use` next to the modules -/
example : UseIn (il [.module 0 (il [.module 1 (il [fn0 2 7]), fn0 3 8]), .use [[0, 1, 2], [0, 3]]]) [[0, 1, 2], [0, 3]] :=
  .there _ (.here _ _)
example :
    (match register Cfg.fixed lexV st0 (il [.module 0 (il [.module 1 (il [fn0 2 7]), fn0 3 8]), .use [[0, 1, 2], [0, 3]]]) with
     | .ok st => (resolvePath st [2], resolvePath st [3], st.decls ⟨[], 3⟩)
     | _ => (none, none, none)) =
    (some ⟨.function [] .unit 7, none⟩, some ⟨.function [] .unit 8, none⟩, none) := by decide

/-- non-vacuity of T4: a reordering at two levels, both orders succeed -/
example :
    Shuffle (il [.module 0 (il [fn0 1 5, fn0 2 6]), fn0 3 7]) (il [fn0 3 7, .module 0 (il [fn0 2 6, fn0 1 5])]) :=
  .trans (.inModule 0 _ (.swap _ _ _)) (.swap _ _ _)
example :
    (register Cfg.fixed lexV st0 (il [.module 0 (il [fn0 1 5, fn0 2 6]), fn0 3 7])).isOk = true ∧
    (register Cfg.fixed lexV st0 (il [fn0 3 7, .module 0 (il [fn0 2 6, fn0 1 5])])).isOk = true := by decide

/-! ## the defects of the pinned tree, refuted on the model as pinned -/

/-- (a) `mod a { mod b { fn c() } } use a::b::c;` — pinned: rejected
    ("Could not get scope of b"); now: accepted and `c` resolves. -/
def witnessA : Items := il [.module 0 (il [.module 1 (il [fn0 2 7])]), .use [[0, 1, 2]]]

theorem pinned_use_three_segments_rejected :
    (register Cfg.pinned lexV st0 witnessA).isErr = true := by decide

theorem fixed_use_three_segments_reachable :
    (match register Cfg.fixed lexV st0 witnessA with
     | .ok st => resolvePath st [2]
     | _ => none) = some ⟨.function [] .unit 7, none⟩ := by decide

/-- (b) `Use::new(vec![vec![]])` — pinned: panic; now: an error. -/
theorem pinned_empty_use_path_panics :
    (register Cfg.pinned lexV st0 (il [.use [[]]])).isPanic = true := by decide

theorem fixed_empty_use_path_errs :
    (register Cfg.fixed lexV st0 (il [.use [[]]])).isErr = true := by decide

/-- (c) `mod a { fn f() } mod m { use a::f; }` — the import is registered in
    the scope of the *enclosing* item list (here the root): `f` resolves at the
    root and `m.f` does not.  Still so on the current source (known finding). -/
def witnessC : Items := il [.module 0 (il [fn0 2 7]), .module 1 (il [.use [[0, 2]]])]

theorem use_in_module_lands_in_parent :
    (match register Cfg.fixed lexV st0 witnessC with
     | .ok st => (resolvePath st [2], resolvePath st [1, 2])
     | _ => (none, none)) = (some ⟨.function [] .unit 7, none⟩, none) := by decide

/-- (d) a name with surrounding whitespace / a trailing comment lexes as one
    identifier token that does not span the name — pinned: accepted. -/
def lexSpace : Name → Lex := fun n => if n = 9 then ⟨some (some .ident), false, false⟩ else lexV n

theorem pinned_accepts_padded_name :
    ¬ ValidName (lexSpace 9) ∧ (register Cfg.pinned lexSpace st0 (il [fn0 9 1])).isOk = true := by decide

theorem fixed_rejects_padded_name :
    (register Cfg.fixed lexSpace st0 (il [fn0 9 1])).isErr = true := by decide

/-- (e) a type registered under a primitive's name — pinned: at the root it is
    accepted and recorded under the primitive's name (a registered
    `fn(Val<Foo>)` then takes the primitive: type confusion); in a module it
    is accepted but not declared, and an impl block for it panics. -/
theorem pinned_type_named_like_primitive_confused :
    (match register Cfg.pinned lexV st0 (il [.type 50 3, .function 1 [.reg 3] .unit 5]) with
     | .ok st => resolvePath st [1]
     | _ => none) = some ⟨.function [.name ⟨[], 50⟩] .unit 5, none⟩ := by decide

theorem pinned_type_named_like_primitive_impl_panics :
    (register Cfg.pinned lexV st0 (il [.module 0 (il [.type 50 3]), .impl 3 .nil])).isPanic = true := by
  decide

theorem fixed_type_named_like_primitive :
    (register Cfg.fixed lexV st0 (il [.type 50 3])).isErr = true ∧
    (match register Cfg.fixed lexV st0 (il [.module 0 (il [.type 50 3]), .impl 3 (il [fn0 4 8])]) with
     | .ok st => resolvePath st [0, 50, 4]
     | _ => none) = some ⟨.method [] .unit 8, none⟩ := by decide

/-! ## non-vacuity of the full-strength theorems -/

theorem isOk_elim {α} {r : Res α} (h : r.isOk = true) : ∃ a, r = .ok a := by
  cases r <;> simp [Res.isOk] at h; exact ⟨_, rfl⟩
theorem isErr_elim {α} {r : Res α} (h : r.isErr = true) : ∃ e, r = .err e := by
  cases r <;> simp [Res.isErr] at h; exact ⟨_, rfl⟩

/-- a library with a type in a module, an impl block for it at the root (one
    method, one constant), a function that mentions the type, a `use` -/
def libImpl : Items :=
  il [.module 0 (il [.type 1 7]), .impl 7 (il [fn0 2 5, .constant 3 (.reg 7) 9]),
      .function 4 [.reg 7] (.option (.reg 7)) 6, .use [[0, 1]]]

/-- non-vacuity of `add_succeeds_iff`: `Accepts` is satisfiable -/
example : Accepts lexV st0 libImpl := by
  obtain ⟨st', h⟩ := isOk_elim (show (register Cfg.fixed lexV st0 libImpl).isOk = true by decide)
  exact ((add_succeeds_iff lexV st0 (init_wf _ _) libImpl st').mp h).1

/-- non-vacuity of `add_fails_iff`, one library per listed defect: a name bound
    twice, a method clashing with a method of the same type from another impl
    block, a Rust type registered twice, an unregistered type in a signature, an
    impl block for an unregistered type, a module inside an impl block, a `use`
    through a function -/
example : ¬ Accepts lexV st0 (il [fn0 1 5, .module 1 .nil]) :=
  (add_fails_iff lexV st0 (init_wf _ _) _).mp (isErr_elim (by decide))
example : ¬ Accepts lexV st0 (il [.module 0 (il [.type 1 7, .impl 7 (il [fn0 2 5])]), .impl 7 (il [fn0 2 6])]) :=
  (add_fails_iff lexV st0 (init_wf _ _) _).mp (isErr_elim (by decide))
example : ¬ Accepts lexV st0 (il [.type 1 7, .module 0 (il [.type 2 7])]) :=
  (add_fails_iff lexV st0 (init_wf _ _) _).mp (isErr_elim (by decide))
example : ¬ Accepts lexV st0 (il [.function 1 [.list (.reg 7)] .unit 5]) :=
  (add_fails_iff lexV st0 (init_wf _ _) _).mp (isErr_elim (by decide))
example : ¬ Accepts lexV st0 (il [.impl 7 .nil]) :=
  (add_fails_iff lexV st0 (init_wf _ _) _).mp (isErr_elim (by decide))
example : ¬ Accepts lexV st0 (il [.type 1 7, .impl 7 (il [.module 2 .nil])]) :=
  (add_fails_iff lexV st0 (init_wf _ _) _).mp (isErr_elim (by decide))
example : ¬ Accepts lexV st0 (il [fn0 1 5, .use [[1, 2]]]) :=
  (add_fails_iff lexV st0 (init_wf _ _) _).mp (isErr_elim (by decide))

/-- non-vacuity of `reachable_impl_items`: the impl block stands at the root,
    the type in module 0 — the method and the constant resolve below the type -/
example : ItemAt libImpl [0] (.type 1 7) ∧ ItemAt libImpl [] (.impl 7 (il [fn0 2 5, .constant 3 (.reg 7) 9])) :=
  ⟨.inside 0 _ (.here _ _), .there _ (.here _ _)⟩
example :
    (match register Cfg.fixed lexV st0 libImpl with
     | .ok st => (resolvePath st [0, 1, 2], resolvePath st [0, 1, 3], resolvePath st [2], resolvePath st [1, 2])
     | _ => (none, none, none, none)) =
    (some ⟨.method [] .unit 5, none⟩, some ⟨.const (.name ⟨[0], 1⟩) 9, none⟩, none,
     -- `use 0::1` imports the type at the root, so `1.2` names the method too
     some ⟨.method [] .unit 5, none⟩) := by decide

/-- non-vacuity of `order_indep`: reorderings at the top, in a module and in an impl block;
    one pair that succeeds, one that fails in both orders -/
example :
    Shuffle libImpl (il [.use [[0, 1]], .impl 7 (il [.constant 3 (.reg 7) 9, fn0 2 5]),
      .function 4 [.reg 7] (.option (.reg 7)) 6, .module 0 (il [.type 1 7])]) := by
  refine .trans (.tail _ (.inImpl 7 _ (.swap _ _ _))) ?_
  refine .trans (.swap _ _ _) ?_
  refine .trans (.tail _ (.swap _ _ _)) ?_
  refine .trans (.tail _ (.tail _ (.swap _ _ _))) ?_
  refine .trans (.tail _ (.swap _ _ _)) ?_
  exact .swap _ _ _
example :
    (register Cfg.fixed lexV st0 (il [fn0 1 5, .impl 7 .nil])).isErr = true ∧
    (register Cfg.fixed lexV st0 (il [.impl 7 .nil, fn0 1 5])).isErr = true := by decide

/-- non-vacuity of `order_indep_sequence`: two adds, the second uses a type of the first -/
example : ShuffleAll [il [.type 1 7, fn0 2 5], il [.impl 7 (il [fn0 3 6]), fn0 4 8]]
    [il [fn0 2 5, .type 1 7], il [fn0 4 8, .impl 7 (il [fn0 3 6])]] :=
  .cons (.swap _ _ _) (.cons (.swap _ _ _) .nil)
example : (registerAll lexV st0 [il [.type 1 7, fn0 2 5], il [.impl 7 (il [fn0 3 6]), fn0 4 8]]).isOk = true := by
  decide

/-- non-vacuity of `reachable_nowhere_else` / `tables_hold_exactly`: what the library declares -/
example : (Declared lexV st0 libImpl).map (·.1) =
    [⟨[], 0⟩, ⟨[0], 1⟩, ⟨[0, 1], 2⟩, ⟨[], 4⟩, ⟨[0, 1], 3⟩] ∧
    Imported lexV st0 libImpl = [(1, ⟨[0], 1⟩)] := by decide

/-- non-vacuity of `reachable_only_items`: an undeclared path resolves to nothing, the
    declared ones and the one through the `use` do -/
example :
    (match register Cfg.fixed lexV st0 libImpl with
     | .ok st => (resolvePath st [0, 2], resolvePath st [4, 1], (resolvePath st [0, 1]).isSome, (resolvePath st [1]).isSome)
     | _ => (none, none, false, false)) = (none, none, true, true) := by decide

/-- non-vacuity of `use_in_module_not_repairable_by_registration`: moving the
    import of `witnessC` into the module's own scope changes no resolution -/
example (st : St) : (st.insertImport [1] 2 ⟨[0], 2⟩).decls = st.decls ∧
    (st.insertImport [1] 2 ⟨[0], 2⟩).imports [] = st.imports [] :=
  ⟨rfl, by funext n; simp [St.insertImport]⟩

def errKind {α} : Res α → Option Err | .err e => some e | _ => none
theorem errKind_elim {α} {r : Res α} {e : Err} (h : errKind r = some e) : r = .err e := by
  cases r <;> simp [errKind] at h; rw [h]

/-- non-vacuity of `add_error_kind`: one library per kind (`decide` computes the kind the model reports;
    the theorem then yields the defect) -/
example : KindDefect lexV st0 (il [.type 1 7, .module 0 (il [.type 2 7])]) .typeTwice :=
  add_error_kind lexV st0 (init_wf _ _) _ _ (errKind_elim (by decide))
example : KindDefect lexV st0 (il [fn0 1 5, .module 1 .nil]) .nameTaken :=
  add_error_kind lexV st0 (init_wf _ _) _ _ (errKind_elim (by decide))
example : KindDefect lexV st0 (il [.function 1 [.list (.reg 7)] .unit 5]) .unregistered :=
  add_error_kind lexV st0 (init_wf _ _) _ _ (errKind_elim (by decide))
example : KindDefect lexV st0 (il [.type 1 7, .impl 7 (il [.module 2 .nil])]) .nestedInImpl :=
  add_error_kind lexV st0 (init_wf _ _) _ _ (errKind_elim (by decide))
example : KindDefect lexV st0 (il [.use [[]]]) .emptyPath :=
  add_error_kind lexV st0 (init_wf _ _) _ _ (errKind_elim (by decide))
example : KindDefect lexV st0 (il [fn0 1 5, .use [[1, 2]]]) .noScope :=
  add_error_kind lexV st0 (init_wf _ _) _ _ (errKind_elim (by decide))
/-- a library with two kinds of defect: the kind depends on the order (the functions pass stops at the first) -/
example :
    errKind (register Cfg.fixed lexV st0 (il [fn0 1 5, fn0 1 6, .function 2 [.reg 7] .unit 7])) = some .nameTaken ∧
    errKind (register Cfg.fixed lexV st0 (il [.function 2 [.reg 7] .unit 7, fn0 1 5, fn0 1 6])) = some .unregistered := by
  decide

/-! ## the keyword table -/

/-- Roto's documented keywords, as character codes -/
def documentedKeywords : List (List Nat) :=
  ["accept", "const", "dep", "else", "enum", "filter", "filtermap", "for", "fn", "if", "import",
   "in", "let", "match", "pkg", "record", "reject", "return", "std", "super", "test", "while"].map
    (fun s => s.toList.map Char.toNat)

/-- The lexer's keyword table (regenerated from `keyword_or_ident` on every
    run) is exactly the documented list, and the only other identifier-shaped
    words that are not identifiers are `true` and `false`. -/
theorem keyword_table_documented :
    RotoV.Gen.Keywords.keywords.map (·.1) =
      [[97, 99, 99, 101, 112, 116], [99, 111, 110, 115, 116], [100, 101, 112], [101, 108, 115, 101],
       [101, 110, 117, 109], [102, 105, 108, 116, 101, 114], [102, 105, 108, 116, 101, 114, 109, 97, 112],
       [102, 111, 114], [102, 110], [105, 102], [105, 109, 112, 111, 114, 116], [105, 110],
       [108, 101, 116], [109, 97, 116, 99, 104], [112, 107, 103], [114, 101, 99, 111, 114, 100],
       [114, 101, 106, 101, 99, 116], [114, 101, 116, 117, 114, 110], [115, 116, 100],
       [115, 117, 112, 101, 114], [116, 101, 115, 116], [119, 104, 105, 108, 101]] ∧
    RotoV.Gen.Keywords.nonIdentWords = [[116, 114, 117, 101], [102, 97, 108, 115, 101]] := by
  decide

example : documentedKeywords.length = 22 := by decide

/-! ## T2, clause (3) spelled out: a Rust type registered twice — any names, any scopes (round 4) -/

/-- a list whose image under `f` has no duplicates: `f` is injective on it -/
theorem nodup_map_inj {α β : Type} (f : α → β) : ∀ (l : List α), (l.map f).Nodup →
    ∀ a ∈ l, ∀ b ∈ l, f a = f b → a = b
  | [], _, a, ha, _, _, _ => by cases ha
  | x :: xs, h, a, ha, b, hb, hab => by
    simp only [List.map_cons, List.nodup_cons, List.mem_map, not_exists, not_and] at h
    rcases List.mem_cons.1 ha with rfl | ha' <;> rcases List.mem_cons.1 hb with rfl | hb'
    · rfl
    · exact absurd hab.symm (h.1 b hb')
    · exact absurd hab (h.1 a ha')
    · exact nodup_map_inj f xs h.2 a ha' b hb' hab

/-- **A Rust type the runtime already has.** For every library, lexer verdict
    and well-formed runtime: a `type` item — at ANY path of the library, under ANY
    name — whose Rust type is registered in the runtime (under whatever name, in
    whatever scope: `nm` is arbitrary) makes the registration an error. -/
theorem type_registered_before_rejected (lex : Name → Lex) (st : St) (hw : WF st) (items : Items)
    {p : List Name} {n : Name} {id : TyId} {nm : RName}
    (hi : ItemAt items p (.type n id)) (hreg : st.types id = some nm) :
    ∃ e, register Cfg.fixed lex st items = .err e := by
  rw [add_fails_iff lex st hw]
  intro ha
  have hm : (⟨[] ++ p, n, id⟩ : TOp) ∈ ops2 items :=
    mem_flat_of_itemAt leafType hi [] _ (by simp [leafType])
  have := ha.types_once.2 _ hm
  simp [hreg] at this

/-- **A Rust type registered twice by one library.** Two `type` items of one
    Rust type at different places — sibling modules, a module and a module nested
    in it, the root and a module — under the same identifier or different ones
    make the registration an error.  (Two items with the same path AND name are
    rejected by the name clause of `Accepts`.) -/
theorem type_twice_in_library_rejected (lex : Name → Lex) (st : St) (hw : WF st) (items : Items)
    {p q : List Name} {n n' : Name} {id : TyId}
    (h1 : ItemAt items p (.type n id)) (h2 : ItemAt items q (.type n' id)) (hne : (p, n) ≠ (q, n')) :
    ∃ e, register Cfg.fixed lex st items = .err e := by
  rw [add_fails_iff lex st hw]
  intro ha
  have m1 : (⟨[] ++ p, n, id⟩ : TOp) ∈ ops2 items := mem_flat_of_itemAt leafType h1 [] _ (by simp [leafType])
  have m2 : (⟨[] ++ q, n', id⟩ : TOp) ∈ ops2 items := mem_flat_of_itemAt leafType h2 [] _ (by simp [leafType])
  have := nodup_map_inj (·.id) _ ha.types_once.1 _ m1 _ m2 rfl
  simp only [List.nil_append, TOp.mk.injEq, and_true] at this
  exact hne (by rw [this.1, this.2])

example : ∃ e, register Cfg.fixed lexV st0
    (il [.module 0 (il [.type 5 7]), .module 1 (il [.type 5 7])]) = .err e :=
  type_twice_in_library_rejected lexV st0 (init_wf _ _) _
    (p := [0]) (q := [1]) (.inside 0 _ (.here _ _)) (.there _ (.inside 1 _ (.here _ _))) (by decide)

/-- the Rust type of the pre-declared primitive (100, registered as `50` at the root) again, as `5` inside a module -/
example : ∃ e, register Cfg.fixed lexV st0 (il [.module 0 (il [.type 5 100])]) = .err e :=
  type_registered_before_rejected lexV st0 (init_wf _ _) _ (p := [0]) (nm := ⟨[], 50⟩)
    (.inside 0 _ (.here _ _)) (by decide)

end RotoV.C18
