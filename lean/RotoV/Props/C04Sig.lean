/-
  C04 — where the signature of a filtermap comes from, and what it is compiled at.

  Own module (own regenerated definitions, `RotoV.Gen.GateSig`), so that a
  change to `force_filtermap_types` or to `TypeInfo::convert` breaks exactly
  these obligations and a change to `check_roto_type` exactly those of
  `RotoV.Props.C04`.

  The gate compares the requested Rust type with the signature the type
  checker left behind. For a filtermap that signature is *inferred*:
  `filter_map_type` makes it `Verdict[?a, ?r]` with two fresh variables, the
  `accept` / `reject` statements unify their payload types with them, and
  `force_filtermap_types` settles what is still open afterwards. Two facts
  about that hand-over are read off the source here:

  * which sides `force_filtermap_types` touches and what it makes of them
    (`Gen.GateSig.forceArms`): a side that is still a plain variable — never
    used — becomes `()`, and nothing else is touched; in particular literal
    type variables stay in the signature, at the top of a payload and below
    constructors alike, and it is the gate that has to default them
    (`RotoV.C04.gate_deep_default`);
  * what the code generator takes a type that is still a variable to be
    (`Gen.GateSig.convertDefaults`): `{integer}` is compiled as `i32`,
    `{float}` as `f64` — the very types the documented mapping (and with
    `RotoV.C04.gate_iff` the gate) assigns to them.
-/
import RotoV.Model.Gate
import RotoV.Generated.GateSig
open RotoV.Gate
namespace RotoV.C04Sig

/-- `force_filtermap_types` as the source has it today does to either side
    what the model's `forceSide` does: an unresolved variable becomes `()`,
    every other type — a literal type variable included — is left alone. -/
theorem force_side_as_modelled (t : RotoTy) :
    forceSideBy Gen.GateSig.forceArms (id% "a") t = forceSide t ∧
    forceSideBy Gen.GateSig.forceArms (id% "r") t = forceSide t := by
  cases t <;> exact ⟨rfl, rfl⟩

example : forceSideBy Gen.GateSig.forceArms (id% "a") (.var 3) = .unit := rfl
example : forceSideBy Gen.GateSig.forceArms (id% "r") .intVar = .intVar := rfl

/-- … so the signature of a filtermap is the modelled one: the verdict of the
    payload types, `()` for a side the body never uses. -/
theorem filtermap_signature_as_modelled (n : ResolvedName) (a r : RotoTy) :
    forceFiltermap (.name n [a, r]) =
      some (.name n [forceSideBy Gen.GateSig.forceArms (id% "a") a,
                     forceSideBy Gen.GateSig.forceArms (id% "r") r]) := by
  rw [(force_side_as_modelled a).1, (force_side_as_modelled r).2]
  rfl

example : filtermapSignature (id% "Verdict") [] (some (.named (id% "Option") [.intVar])) none
    = some ⟨[], .named (id% "Verdict") [.named (id% "Option") [.intVar], .unit]⟩ := rfl

/-- the `TyRef` constants of the code generator, by the Rust type they stand for -/
def tyRefRust : List (Ident × Ident) :=
  [(id% "I32", id% "i32"), (id% "F64", id% "f64"), (id% "I64", id% "i64"), (id% "U32", id% "u32"),
   (id% "F32", id% "f32"), (id% "I16", id% "i16"), (id% "I8", id% "i8"), (id% "U8", id% "u8"),
   (id% "U16", id% "u16"), (id% "U64", id% "u64")]

/-- the Rust leaf a signature type that is still a variable is compiled at -/
def compiledAs (v : Ident) : Option RustTy :=
  match Gen.GateSig.convertDefaults.find? (·.1 == v) with
  | some (_, c) => (tyRefRust.find? (·.1 == c)).map (fun p => .leaf (.prim p.2))
  | none => none

/-- A literal nothing constrains is compiled as the type the documented mapping
    assigns to it: the retrieval gate (`gate_iff`) and the code generator agree
    on the true signature of such a function. An unresolved plain variable is
    compiled as no value type at all, and has no image. -/
theorem literals_compiled_as_documented (ti : TypeInfo) :
    compiledAs (id% "IntVar") = mapping ti .intVar ∧
    compiledAs (id% "FloatVar") = mapping ti .floatVar ∧
    compiledAs (id% "Var") = none ∧ ∀ k, mapping ti (.var k) = none := by
  have h1 : compiledAs (id% "IntVar") = some (.leaf (.prim (id% "i32"))) := by decide
  have h2 : compiledAs (id% "FloatVar") = some (.leaf (.prim (id% "f64"))) := by decide
  exact ⟨h1, h2, by decide, fun k => rfl⟩

example : compiledAs (id% "IntVar") = some (.leaf (.prim (id% "i32"))) := by decide

end RotoV.C04Sig
