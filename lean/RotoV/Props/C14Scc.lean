/-
  C14, T13 — the order / SCC pass of the source is the one the model transcribes
  (`order_topological`, `components_strongly_connected`, `recursive_iff_cycle` are
  proved about `Model/Tarjan.lean`): over the step lists regenerated from
  src/typechecker/value_cycle.rs on every run.
-/
import RotoV.Model.TarjanSccShape
import RotoV.Generated.C14Scc

namespace RotoV.C14
open RotoV.TarjanSccShape

/-- `strongly_connect` and `update_lowlink` as written are, statement for
statement, what `strongConnect` / `visitRefs` / `popUntil` / `updateLowlink`
transcribe: an unvisited reference is visited and its lowlink taken, a visited
one counts only when the stack scan finds it (its index), a root pops down to
and including itself. -/
theorem strongly_connect_as_modelled :
    Step.beq.beqList RotoV.Gen.C14Scc.strongConnectSteps strongConnectAsModelled = true
      ∧ Step.beq.beqList RotoV.Gen.C14Scc.updateLowlinkSteps updateLowlinkAsModelled = true := by decide

/-- `tarjan` starts from every unvisited key in key order and returns the
components in the order they were closed; `find_compilation_order` is the
self-reference test, `tarjan`, the mixed-component test, the context check, and
the components flattened — nothing re-orders the result afterwards. -/
theorem compilation_order_as_modelled :
    Step.beq.beqList RotoV.Gen.C14Scc.tarjanSteps tarjanAsModelled = true
      ∧ Step.beq.beqList RotoV.Gen.C14Scc.orderSteps orderAsModelled = true := by decide

/-- non-vacuity: the comparison sees a reordered pair of statements and a
dropped else-branch -/
example : Step.beq.beqList [.act .takeIndex, .act .bumpIndex] [.act .bumpIndex, .act .takeIndex] = false := by decide
example : Step.beq.beqList [.ite .unvisited [.act .recurse] [.ite .onStack [.act .newFromIndex] []]]
    [.ite .unvisited [.act .recurse] []] = false := by decide

end RotoV.C14
