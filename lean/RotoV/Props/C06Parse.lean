/-
  C06 — compilation is total, the PARSER: `Parser::parse`
  (`src/parser/mod.rs`, `expr.rs`, `filter_map.rs`) modelled in
  `Model/Parse.lean` on top of the proved lexer model.

  PROVED here, for every source text, every instantiation of the lexer's
  Unicode predicates and every literal-decoder oracle whose ESCAPE-error ranges
  lie inside the text the escaper was given, on character boundaries (`LitOk`;
  nothing is assumed about any other literal):

   * `parse_total`          with fuel `32 · len + 1` or more (`len` = bytes of the
                            source) the parser model returns a tree or a
                            `ParseError` — never a panic (no `unwrap` on
                            `None`/`Err`, no index out of range in the span table,
                            no `usize` underflow in `peek_many`, no
                            `unreachable!()`), never out of fuel. The measure:
                            `μ` = bytes not yet lexed + tokens queued in
                            `Lexer::peeked`; every loop iteration and every cycle
                            of calls consumes at least one token, a cycle of calls
                            that consume nothing first is at most 8 calls long
                            (ranks in `Lemmas/ParseExpr.lean`), so the depth of
                            the call tree, loop iterations included, is at most
                            `32 · μ + 8`;
   * `parse_default_fuel`   the fuel `Parser::parse` of the model supplies is enough;
   * `parse_error_spans_ok` the location of every parse error, and of the
                            `almost_keyword` hint `run_parser` adds, lies inside
                            the source on character boundaries, and
                            `Span::character_range` (report rendering) does not
                            slice off a boundary for it (composition with
                            `char_range_ok` of Props/C06);
   * `parse_span_table_ok`  after a successful parse every entry of the span
                            table (what later stages cite) is such a span too;
   * obligations on GENERATED facts: `windows_ok` (the `peek_many` windows of
     `atom` can be tried in order without `N - len` underflowing),
     `rel_never_panics` (`relative_associativity`), `tables_ok`.

  Recursion depth: the model's fuel bounds the depth of ITS call tree, where
  loops are recursive calls. The real parser's stack depth is at most 9 frames
  per open bracket / prefix operator / pending binary operator / `if`-`match`-
  `while`-`for` of the input (the longest cycle `block → expr → assign_expr →
  binop_expr → negation → access → atom → block`, plus `expr_inner`, `record`,
  `separated`); that bound is STATED, not proved, and the real stack use is
  outside the model (the property's own limit: bounded nesting depth).

  The literal decoders are PARAMETERS (like the Unicode predicates): which
  literal tokens decode, and the error a failing one yields. The slices
  `simple_literal` takes of the token text first (`&s[1..s.len() - 1]`,
  `&s[2..]`) ARE in the model and proved not to panic (`literal_slices_ok`, from
  the shape of the token text the lexer model guarantees); so are the slices of `unescape_f_string_part` (`fstring_part_slices_ok`, for every
  text). The location arithmetic of decoding errors is in the model
  too (`span.start + 1 + range.start` for a string literal, `token.start + 1 ..
  token.end` for a character literal, `span.start + piece_start + range.start`
  for a piece of an f-string text, the token's span for every other literal).
  What stays in the oracle is the decoding proper: which literals std `parse` /
  `rustc-literal-escaper` accept, and the escaper's range relative to its input.
-/
import RotoV.Lemmas.ParseTop

namespace RotoV.C06Parse
open RotoV RotoV.Lex RotoV.Parse

/-- obligation on the GENERATED punctuation tables (as in Props/C06) -/
theorem tables_ok : TablesOk := ⟨by decide, by decide⟩

/-- obligation on the GENERATED keyword table: no keyword is given the kind of a
literal whose text `simple_literal` slices (string, character, hexadecimal, AS number) -/
theorem keyword_kinds_ok : KwKindsOk := by unfold KwKindsOk; decide

theorem lex_ok : LexOk := ⟨tables_ok, keyword_kinds_ok⟩

/-- `simple_literal`'s slices (`&s[1..s.len() - 1]`, `&s[2..]`) cannot panic on
a token of the lexer model: the text of a string token starts and ends with a
quote, of a hexadecimal number with `0x`, of an AS number with `AS` — for every
token `next_inner` can return, from any reachable lexer state. -/
theorem literal_slices_ok (P : Preds) (src : List Char) (L L' : Lexer) (hr : Reach src L)
    (k : TokKind) (sp : Span) (h : nextInner P L = .ok (.tok k sp, L')) :
    litSlices k (textOf src sp) = .ok () :=
  litSlices_ok (nextInner_text keyword_kinds_ok P tables_ok hr h)

/-- non-vacuity: a string token and the slice the parser takes of it -/
example : litSlices .string ['"', 'a', '€', '"'] = .ok () ∧ litSlices .string ['"'] = .panic ∧
    litSlices .hex ['€'] = .panic := by decide

/-- `unescape_f_string_part(s, …)` never slices `s` off a character boundary:
the ranges `piece_start..i` it cuts at every doubled brace and the final
`piece_start..` are on boundaries for EVERY text (the model of its scan over
`char_indices()`, with the `\\u{…}` skip). -/
theorem fstring_part_slices_ok (t : List Char) : fPieces t = .ok () := fPieces_ok t

/-- non-vacuity: the ranges the scan cuts out of `a{{€}}b` (bytes 0..1 and 3..6, then 8..) -/
example : uScan .normal 0 0 ['a', '{', '{', '€', '}', '}', 'b'] [] = ([(0, 1), (3, 6)], 8) := by decide

/-- obligation on the GENERATED look-ahead windows of `atom`: tried in order,
`peek_many::<N>` never computes `N - self.peeked.len()` with `len > N` -/
theorem windows_ok : winOk 2 Gen.ParseFacts.recordWindows = true := by decide

/-- obligation on the GENERATED operator relation: no panic for any pair -/
theorem rel_never_panics (p op : BinOp) :
    ∃ a, Gen.Precedence.relative_associativity true p op = .ok a := rel_ok p op

/-- `parse_total`: a tree or a `ParseError`; never a panic, never out of fuel,
for every fuel of at least `32 · len + 1`. -/
theorem parse_total (c : Ctx) (hl : LitOk c) (fuel : Nat) (hf : 32 * blen c.src + 1 ≤ fuel) :
    (∃ t sp, parseWith c fuel = .tree t sp) ∨ (∃ e sp, parseWith c fuel = .error e sp) := by
  have h := parseWith_ok lex_ok hl windows_ok fuel hf
  revert h
  cases parseWith c fuel with
  | tree t sp => exact fun _ => Or.inl ⟨t, sp, rfl⟩
  | error e sp => exact fun _ => Or.inr ⟨e, sp, rfl⟩
  | panic => exact False.elim
  | fuel => exact False.elim

/-- the fuel the model's `Parser::parse` supplies is linear in the input and enough -/
theorem parse_default_fuel (c : Ctx) (hl : LitOk c) :
    (∃ t sp, parse c = .tree t sp) ∨ (∃ e sp, parse c = .error e sp) :=
  parse_total c hl _ (by simp only [parseFuel, fuelPerByte]; omega)

/-- `parse_error_spans_ok`: error location and hint location are spans of the
source on character boundaries; `character_range` does not panic on them. -/
theorem parse_error_spans_ok (c : Ctx) (hl : LitOk c) (fuel : Nat) (hf : 32 * blen c.src + 1 ≤ fuel)
    (e : PErr) (sp : List Span) (h : parseWith c fuel = .error e sp) :
    (SpanOk c.src e.span ∧ ∃ a b, characterRange c.src e.span = .ok (a, b) ∧ a ≤ b ∧ b ≤ c.src.length) ∧
    ∀ x, e.hint = some x →
      SpanOk c.src x ∧ ∃ a b, characterRange c.src x = .ok (a, b) ∧ a ≤ b ∧ b ≤ c.src.length := by
  have h0 := parseWith_ok lex_ok hl windows_ok fuel hf
  rw [h] at h0
  exact ⟨⟨h0.1, characterRange_ok _ _ h0.1⟩, fun x hx => ⟨h0.2 x hx, characterRange_ok _ _ (h0.2 x hx)⟩⟩

/-- after a successful parse every entry of the span table is a span of the
source on character boundaries (later stages cite these) -/
theorem parse_span_table_ok (c : Ctx) (hl : LitOk c) (fuel : Nat) (hf : 32 * blen c.src + 1 ≤ fuel)
    (t : Sx) (sp : List Span) (h : parseWith c fuel = .tree t sp) :
    ∀ x ∈ sp, SpanOk c.src x ∧ ∃ a b, characterRange c.src x = .ok (a, b) ∧ a ≤ b ∧ b ≤ c.src.length := by
  have h0 := parseWith_ok lex_ok hl windows_ok fuel hf
  rw [h] at h0
  exact fun x hx => ⟨h0 x hx, characterRange_ok _ _ (h0 x hx)⟩

/-- `Parser::parse_signature` (src/parser/signature.rs, the entry point for the
signature texts of registered functions) is total as well: a tree or a
`ParseError` citing spans of the source; never a panic, never out of fuel. No
literal is decoded on this path, so nothing is assumed about the oracle. -/
theorem parse_signature_total (c : Ctx) (fuel : Nat) (hf : 32 * blen c.src + 1 ≤ fuel) :
    (∃ t sp, parseSignatureWith c fuel = .tree t sp ∧ ∀ x ∈ sp, SpanOk c.src x) ∨
    (∃ e sp, parseSignatureWith c fuel = .error e sp ∧ SpanOk c.src e.span ∧
      ∀ x, e.hint = some x → SpanOk c.src x) := by
  have h := parseSignatureWith_ok lex_ok fuel hf
  revert h
  cases parseSignatureWith c fuel with
  | tree t sp => exact fun h => Or.inl ⟨t, sp, rfl, h⟩
  | error e sp => exact fun h => Or.inr ⟨e, sp, rfl, h.1, h.2⟩
  | panic => exact False.elim
  | fuel => exact False.elim

/-- the context of the non-vacuity examples: ASCII predicates, every literal decodes -/
def exCtx (src : List Char) : Ctx :=
  ⟨src, ⟨fun c => c.isAlpha, fun c => c.isAlphanum, fun c => c == ' '⟩, fun _ _ _ => none, []⟩

/-- non-vacuity: the hypotheses are satisfiable … -/
example (src : List Char) : LitOk (exCtx src) := by intro f s e k j a b h; cases h

/-- … also by an oracle that reports an escape error: `"\\q"` (bytes 0..4), the escaper's
range `0..2` inside the content `\\q`; the parser cites bytes 1..3 -/
example : LitOk ⟨['"', '\\', 'q', '"'], ⟨fun _ => false, fun _ => false, fun _ => false⟩,
    fun f s e => if f = false ∧ s = 0 ∧ e = 4 then some (.custom, 0, 0, 2) else none, []⟩ := by
  intro f s e k j a b h
  simp only at h
  split at h
  · rename_i hc
    obtain ⟨rfl, rfl, rfl⟩ := hc
    cases h
    refine ⟨(by intro hf; cases hf), fun _ _ => ?_⟩
    refine ⟨by decide, ⟨[], ['\\', 'q'], by decide, by decide⟩, ⟨['\\', 'q'], [], by decide, by decide⟩⟩
  · cases h

/-- … the empty source parses to the empty tree … -/
example : parse (exCtx []) = .tree (.n "Tree" []) [] := by rfl

/-- … the empty text is not a signature: `EndOfInput` at `0..0` … -/
example : parseSignature (exCtx []) = .error ⟨.endOfInput, (0, 0), none⟩ [] := by rfl

/-- … and an unrecognised character is a parse error at that character -/
example : parse (exCtx ['€']) = .error ⟨.failedToParseEntireInput, (0, 3), none⟩ [] := by rfl

end RotoV.C06Parse
