/-
  C08 — the step skeletons of the MIR lowering functions, regenerated from
  `src/mir/lower.rs` and `src/mir/lower/match_expr.rs` on every run
  (`extract/src/targets/c08.rs`, target `c08order`), pinned to the sequences
  the structured lowering model (`Model/LowerS.lean`) and the order
  specification were written against: calls on `self` in evaluation order,
  the iterator adaptors of the loops over arguments / fields / elements / arms,
  `Value::…` and `Expr::BinOp` constructions, control-flow markers. Drop
  bookkeeping (C03's subject) is left out by the translator.

  A regrouped, reversed, dropped or duplicated step changes the generated
  definition and the theorem below stops checking; the check then searches for
  a concrete script whose host-call log differs.
-/
import RotoV.Generated.LowerOrder

namespace RotoV.C08Source
open RotoV.Gen

/-- `binop`: the `==` / `!=` paths and the general path all run `expr l; assign_to_var l; expr r; assign_to_var r` — the left operand is materialised before the right one is lowered (`LowerS.lowerE`, case `.bin`); `&&`/`||` go to `shortcircuit_binop`. -/
theorem source_binop : LowerOrder.binop = [
  "if(*binop==ast::BinOp::Eq)",
  "self.expr(l)",
  "self.assign_to_var(left,l_ty)",
  "self.expr(r)",
  "self.assign_to_var(right,r_ty)",
  "Value::BinOp{left,binop:ast::BinOp::Eq,ty:l_ty,right}",
  "return",
  "endif",
  "if(*binop==ast::BinOp::Ne)",
  "self.expr(l)",
  "self.assign_to_var(left,l_ty)",
  "self.expr(r)",
  "self.assign_to_var(right,r_ty)",
  "Value::BinOp{left,binop:ast::BinOp::Ne,ty:l_ty,right}",
  "return",
  "endif",
  "if(l_ty==Type::string())",
  "self.binop_str(l,binop,r)",
  "return",
  "endif",
  "if(l_ty==Type::ip_addr())",
  "self.binop_ip_addr(l,binop,r)",
  "return",
  "endif",
  "if(self.type_info.is_list_type(&l_ty))",
  "self.binop_list(l_ty,l,binop,r)",
  "return",
  "endif",
  "if(*binop==ast::BinOp::And)",
  "self.binop_and(l,r)",
  "return",
  "endif",
  "if(*binop==ast::BinOp::Or)",
  "self.binop_or(l,r)",
  "return",
  "endif",
  "self.expr(l)",
  "self.assign_to_var(l,l_ty)",
  "self.expr(r)",
  "self.assign_to_var(r,r_ty)",
  "Value::BinOp{left:l,binop:*binop,ty:l_ty,right:r}"
] := rfl

/-- `normalizedFunctionCall`: the receiver is stored in its temporary first; then `arguments.iter()` (not reversed): each argument is lowered and stored before the next (`LowerS.lowerArgs`). -/
theorem source_normalized_function_call : LowerOrder.normalizedFunctionCall = [
  "if(letSome((receiver,ty))=receiver)",
  "self.undropped_tmp()",
  "self.do_assign(Place::new(tmp.clone(),ty),ty,receiver)",
  "endif",
  "arguments.iter",
  "closure",
  "self.expr(a)",
  "self.undropped_tmp()",
  "self.do_assign(Place::new(tmp.clone(),ty),ty,op)",
  "endclosure",
  "arguments.iter().map",
  "args.extend",
  "func.signature.parameter_types.iter",
  "closure",
  "endclosure",
  "func.signature.parameter_types.iter().map",
  "….collect",
  "match(func.definition)",
  "arm(FunctionDefinition::Runtime(func_ref))",
  "for(idxin&self.runtime.get_function(func_ref).vtables)",
  "endfor",
  "Value::CallRuntime{func_ref,args,mir_signature,vtables}",
  "arm(FunctionDefinition::Roto)",
  "Value::Call{func:name,args,mir_signature}",
  "endmatch"
] := rfl

/-- `functionCall`: a method call on an expression lowers the receiver expression first (`self.expr(e)`), then hands it to `normalized_function_call`. -/
theorem source_function_call : LowerOrder.functionCall = [
  "match(&function.node)",
  "arm(ast::Expr::Path(p))",
  "match(resolved_path)",
  "arm(ResolvedPath::Method{value,signature,..})",
  "self.path_value(&value.clone())",
  "self.normalized_function_call(&func,Some((op,ty)),arguments)",
  "arm(ResolvedPath::Function{..}|ResolvedPath::StaticMethod{..})",
  "self.normalized_function_call(&func,None,arguments)",
  "arm(ResolvedPath::EnumConstructor{ty:_,variant})",
  "self.enum_constructor(ty,variant.name,arguments)",
  "arm(ResolvedPath::Value{..})",
  "endmatch",
  "arm(ast::Expr::Access(e,_))",
  "self.expr(e)",
  "self.normalized_function_call(&func,Some((expr,ty)),arguments)",
  "arm(_)",
  "endmatch"
] := rfl

/-- `shortcircuitBinop`: result temporary, left operand, store, switch, new block, right operand, store, jump (`LowerS.shortCircuit`). -/
theorem source_shortcircuit_binop : LowerOrder.shortcircuitBinop = [
  "self.undropped_tmp()",
  "self.expr(l)",
  "self.do_assign(Place::new(tmp.clone(),TyRef::BOOL),TyRef::BOOL,val)",
  "self.emit_switch(tmp.clone(),vec![(other_if,lbl_other)],Some(lbl_cont))",
  "self.new_block(lbl_other)",
  "self.expr(r)",
  "self.do_assign(Place::new(tmp.clone(),TyRef::BOOL),TyRef::BOOL,val)",
  "self.emit_jump(lbl_cont)",
  "self.new_block(lbl_cont)"
] := rfl

/-- `compoundAssign`: `x op= e` becomes `Expr::BinOp(x, op, e)` — the target is the LEFT operand — assigned to `x` (`LowerS.lowerE`, case `.cassign`). -/
theorem source_compound_assign : LowerOrder.compoundAssign = [
  "match(c.op)",
  "arm(CompoundAssignOp::Add)",
  "arm(CompoundAssignOp::Sub)",
  "arm(CompoundAssignOp::Mul)",
  "arm(CompoundAssignOp::Div)",
  "arm(CompoundAssignOp::Mod)",
  "endmatch",
  "Expr::BinOp(Box::new(left),op,c.expr.clone())",
  "self.assign(&c.path,&bin_expr)"
] := rfl

/-- `assign`: value lowered, stored in a fresh temporary, then moved into the variable. -/
theorem source_assign : LowerOrder.assign = [
  "fields.iter",
  "closure",
  "endclosure",
  "fields.iter().map",
  "….collect",
  "self.expr(expr)",
  "self.tmp(ty)",
  "self.do_assign(Place::new(tmp.clone(),ty),ty,val)",
  "self.do_assign(place,ty,Value::Move(tmp))"
] := rfl

/-- `ifElse`: condition materialised; switch; then-block, result temporary allocated after it; else-block. -/
theorem source_if_else : LowerOrder.ifElse = [
  "self.expr(condition)",
  "self.assign_to_var(examinee,TyRef::BOOL)",
  "if(r#else.is_some())",
  "else",
  "endif",
  "self.emit_switch(examinee,branches,Some(ifr#else.is_some(){lbl_else}else{lbl_cont}))",
  "self.new_block(lbl_then)",
  "self.block(then)",
  "self.undropped_tmp()",
  "self.emit_assign(Place::new(res.clone(),ty),ty,op)",
  "self.emit_jump(lbl_cont)",
  "if(letSome(r#else)=r#else)",
  "self.new_block(lbl_else)",
  "self.block(r#else)",
  "self.emit_assign(Place::new(res.clone(),ty),ty,op)",
  "self.emit_jump(lbl_cont)",
  "endif",
  "self.new_block(lbl_cont)"
] := rfl

/-- `whileLoop`: jump to the condition block; examinee temporary; condition lowered and stored on every iteration; switch; body; jump back. -/
theorem source_while_loop : LowerOrder.whileLoop = [
  "self.emit_jump(lbl_condition)",
  "self.new_block(lbl_condition)",
  "self.undropped_tmp()",
  "self.expr(condition)",
  "self.do_assign(Place::new(examinee.clone(),TyRef::BOOL),TyRef::BOOL,val)",
  "self.emit_switch(examinee,vec![(1,lbl_body)],Some(lbl_cont))",
  "self.new_block(lbl_body)",
  "self.block(block)",
  "self.assign_to_var(val,TyRef::UNIT)",
  "self.emit_jump(lbl_condition)",
  "self.new_block(lbl_cont)"
] := rfl

/-- `forLoop`: the list expression is lowered once, before the loop; `get(idx)` per iteration. -/
theorem source_for_loop : LowerOrder.forLoop = [
  "self.undropped_tmp()",
  "self.expr(expr)",
  "self.assign_to_var(list_value,list_ty)",
  "self.assign_to_var(Value::Const(Literal::Integer(0,Some(IntType::U64)),TyRef::U64),TyRef::U64)",
  "self.emit_jump(lbl_condition)",
  "self.new_block(lbl_increment)",
  "self.assign_to_var(Value::Const(Literal::Integer(1,Some(IntType::U64)),TyRef::U64,),TyRef::U64)",
  "Value::BinOp{left:index_var.clone(),binop:ast::BinOp::Add,ty:TyRef::U64,right:one_var.clone()}",
  "self.emit_assign(Place::new(index_var.clone(),TyRef::U64),TyRef::U64,new_index)",
  "self.emit_jump(lbl_condition)",
  "self.new_block(lbl_condition)",
  "self.find_method(TypeId::of::<ErasedList>(),\"get\")",
  "self.assign_to_var(Value::Clone(Place::new(list_var,list_ty)),list_ty)",
  "Value::CallRuntime{func_ref,args:vec![new_list_var,index_var],mir_signature,vtables:Vec::new()}",
  "self.emit(Instruction::Assign{to:Place::new(opt_elem_var.clone(),opt_elem_ty),ty…)",
  "self.undropped_tmp()",
  "self.emit_assign(Place::new(discriminant.clone(),TyRef::U8),TyRef::U8,Value::Discriminant(opt_elem_var.clone()))",
  "self.emit_switch(discriminant,vec![(0,lbl_body)],Some(lbl_cont))",
  "self.new_block(lbl_body)",
  "self.do_assign(Place::new(elem_var,elem_ty),elem_ty,Value::Clone(Place{var:opt_elem_var,root_ty:opt_elem_ty,projection:vec…)",
  "self.block(body)",
  "self.assign_to_var(val,TyRef::UNIT)",
  "self.emit_jump(lbl_increment)",
  "self.new_block(lbl_cont)"
] := rfl

/-- `block`: statements in order, then the final expression, materialised. -/
theorem source_block : LowerOrder.block = [
  "for(stmtin&block.stmts)",
  "self.stmt(stmt)",
  "endfor",
  "match(&block.last)",
  "arm(Some(expr))",
  "self.expr(expr)",
  "arm(None)",
  "endmatch",
  "self.assign_to_var(op.clone(),ty)",
  "if(!self.type_info.diverges(block))",
  "endif"
] := rfl

/-- `blockExpr`: `block`, then the result copied into a fresh temporary. -/
theorem source_block_expr : LowerOrder.blockExpr = [
  "self.block(block)",
  "self.undropped_tmp()",
  "self.emit_assign(Place::new(res.clone(),ty),ty,val)"
] := rfl

/-- `stmt`: `let`: value lowered then assigned to the variable; expression statement: lowered, materialised, dropped. -/
theorem source_stmt : LowerOrder.stmt = [
  "match(&**stmt)",
  "arm(ast::Stmt::Let(ident,_,expr))",
  "self.expr(expr)",
  "self.do_assign(Place::new(to,ty),ty,val)",
  "arm(ast::Stmt::Expr(expr))",
  "self.expr(expr)",
  "self.assign_to_var(value,ty)",
  "endmatch"
] := rfl

/-- `returnExpr`: the operand is lowered first; `accept`/`reject` wrap it with `make_enum`; then `return_value`. -/
theorem source_return_expr : LowerOrder.returnExpr = [
  "match(expr)",
  "arm(Some(expr))",
  "self.expr(expr)",
  "arm(None)",
  "endmatch",
  "match(return_kind)",
  "arm(ast::ReturnKind::Return)",
  "self.return_value(val.0)",
  "arm(ast::ReturnKind::Accept)",
  "self.make_enum(ty,\"Accept\".into(),&[val])",
  "self.return_value(val)",
  "arm(ast::ReturnKind::Reject)",
  "self.make_enum(ty,\"Reject\".into(),&[val])",
  "self.return_value(val)",
  "endmatch"
] := rfl

/-- `returnValue`: value materialised, then `return`. -/
theorem source_return_value : LowerOrder.returnValue = [
  "self.assign_to_var(val,self.return_type)",
  "self.emit_return(var)"
] := rfl

/-- `questionMark`: operand lowered and materialised, discriminant read, switch to the return-None block. -/
theorem source_question_mark : LowerOrder.questionMark = [
  "self.expr(expr)",
  "self.assign_to_var(examinee,examinee_ty)",
  "self.undropped_tmp()",
  "self.emit_assign(Place::new(discriminant.clone(),TyRef::U8),TyRef::U8,Value::Discriminant(examinee.clone()))",
  "self.emit_switch(discriminant,vec![(0,continue_lbl)],Some(lbl_return_none))",
  "self.new_block(lbl_return_none)",
  "self.make_enum(ty,\"None\".into(),&[])",
  "self.return_value(val)",
  "self.new_block(continue_lbl)"
] := rfl

/-- `notExpr`: operand lowered and materialised. -/
theorem source_not_expr : LowerOrder.notExpr = [
  "self.expr(expr)",
  "self.assign_to_var(val,TyRef::BOOL)"
] := rfl

/-- `negate`: operand lowered and materialised. -/
theorem source_negate : LowerOrder.negate = [
  "self.expr(expr)",
  "self.assign_to_var(val,ty)"
] := rfl

/-- `access`: the record expression is lowered and materialised before the field is read. -/
theorem source_access : LowerOrder.access = [
  "self.expr(expr)",
  "self.assign_to_var(op,ty)"
] := rfl

/-- `record`: `for (s, expr) in &record.fields` (source order): each field lowered and stored before the next. -/
theorem source_record : LowerOrder.record = [
  "self.tmp(ty)",
  "for((s,expr)in&record.fields)",
  "self.expr(expr)",
  "self.do_assign(Place{var:to.clone(),root_ty:ty,projection:vec![Projection::Field(**s)…,field_ty,op)",
  "endfor"
] := rfl

/-- `list`: `for expr in list` (source order): each element lowered, stored, pushed before the next. -/
theorem source_list : LowerOrder.list = [
  "self.tmp(ty)",
  "self.find_method(TypeId::of::<ErasedList>(),\"new\")",
  "Value::CallRuntime{func_ref,args:Vec::new(),mir_signature:ty::Signature{parameter_types:Vec::new(),return_type:ty,…,vtables:vec![inner]}",
  "self.emit(Instruction::Assign{to:Place{var:tmp.clone(),root_ty:ty,projection:Vec…)",
  "self.tmp(TyRef::UNIT)",
  "for(exprinlist)",
  "self.assign_to_var(list_var,ty)",
  "self.expr(expr)",
  "self.undropped_tmp()",
  "self.do_assign(Place::new(elem_var.clone(),elem_ty),elem_ty,elem)",
  "self.find_method(TypeId::of::<ErasedList>(),\"push\")",
  "Value::CallRuntime{func_ref,args:vec![list_var,elem_var],mir_signature:ty::Signature{parameter_types:vec![ty,inner],return_type…,vtables:Vec::new()}",
  "self.emit(Instruction::Assign{to:Place{var:unit_tmp.clone(),root_ty:TyRef::UNIT,…)",
  "endfor"
] := rfl

/-- `enumConstructor`: each argument is lowered AND stored (`assign_to_var`) before the next one (fix 6df857b). -/
theorem source_enum_constructor : LowerOrder.enumConstructor = [
  "arguments.iter",
  "closure",
  "self.expr(a)",
  "self.assign_to_var(val,ty)",
  "endclosure",
  "arguments.iter().map",
  "….collect",
  "self.make_enum(ty,variant,&arguments)"
] := rfl

/-- `makeEnum`: discriminant set, then the fields assigned in order. -/
theorem source_make_enum : LowerOrder.makeEnum = [
  "variants.iter",
  "closure",
  "endclosure",
  "self.tmp(ty)",
  "self.emit_set_discriminant(to.clone(),ty,variant_name)",
  "arguments.iter",
  "arguments.iter().enumerate",
  "for((i,(value,field_ty))inarguments.iter().enumerate())",
  "self.do_assign(Place{var:to.clone(),root_ty:ty,projection:vec![Projection::VariantFie…,*field_ty,value.clone())",
  "endfor"
] := rfl

/-- `fString`: `for part in parts` (source order): each part lowered, converted, appended before the next. -/
theorem source_f_string : LowerOrder.fString = [
  "closure",
  "endclosure",
  "self.assign_to_var(string_val,TyRef::STRING)",
  "self.find_method(type_id,\"append\")",
  "for(partinparts)",
  "match(&part.node)",
  "arm(ast::FStringPart::String(s))",
  "arm(ast::FStringPart::Expr(expr))",
  "self.expr(expr)",
  "self.normalized_function_call(&func,Some((val,ty)),&[])",
  "endmatch",
  "self.assign_to_var(new_string,TyRef::STRING)",
  "self.call_runtime(func_ref,Vec::new(),mir_signature,vec![string.clone(),new_string])",
  "self.do_assign(Place::new(string.clone(),TyRef::STRING),TyRef::STRING,val)",
  "endfor"
] := rfl

/-- `assignToVar`: a `Move` is used as is, anything else is stored in a fresh temporary (`LowerS.atvCode/atvVar/atvNext`). -/
theorem source_assign_to_var : LowerOrder.assignToVar = [
  "if(letValue::Move(x)=value)",
  "return",
  "endif",
  "self.tmp(ty)",
  "self.do_assign(Place::new(to.clone(),ty),ty,value)"
] := rfl

/-- `doAssign`: emits the assignment at once. -/
theorem source_do_assign : LowerOrder.doAssign = [
  "if(letValue::Move(var)=&val)",
  "endif",
  "self.emit_assign(to,ty,val)"
] := rfl

/-- `functionLike`: the body block, its value materialised, `return` (`LowerS.lowerFn`). -/
theorem source_function_like : LowerOrder.functionLike = [
  "self.new_block(label)",
  "for((x,_)in&params.0)",
  "endfor",
  "for((name,ty)in&parameter_types)",
  "endfor",
  "parameter_types.iter",
  "closure",
  "endclosure",
  "parameter_types.iter().map",
  "….collect",
  "self.block(body)",
  "self.assign_to_var(last,return_type)",
  "self.emit_return(tmp)"
] := rfl

/-- `matchExpr`: the examinee is lowered and materialised once; one guard chain per discriminant containing that variant's arms and the `_` arms in source order; arm bodies afterwards. -/
theorem source_match_expr : LowerOrder.matchExpr = [
  "arms.iter",
  "arms.iter().enumerate",
  "closure",
  "match(&arm.pattern.node)",
  "arm(Pattern::EnumVariant{variant,..})",
  "variants.iter",
  "closure",
  "endclosure",
  "arm(Pattern::Underscore)",
  "endmatch",
  "endclosure",
  "arms.iter().enumerate().map",
  "….collect",
  "branches.iter",
  "closure",
  "endclosure",
  "branches.iter().filter_map",
  "branches.iter().filter_map(|(d,_,_)|*d).collect",
  "all_discriminants.into_iter",
  "closure",
  "endclosure",
  "all_discriminants.into_iter().map",
  "….collect",
  "all_discriminants.iter",
  "closure",
  "endclosure",
  "all_discriminants.iter().map",
  "….collect",
  "branches.iter",
  "closure",
  "endclosure",
  "branches.iter().filter",
  "….collect",
  "self.expr(expr)",
  "self.assign_to_var(examinee,examinee_ty_ref)",
  "self.undropped_tmp()",
  "self.emit_assign(Place::new(discriminant.clone(),TyRef::U8),TyRef::U8,Value::Discriminant(examinee.clone()))",
  "if(needs_default)",
  "else",
  "endif",
  "self.emit_switch(discriminant,switch_branches,default_branch)",
  "branches.iter",
  "closure",
  "endclosure",
  "branches.iter().map",
  "….collect",
  "for((discriminant,lbl)inall_discriminants)",
  "branches.iter",
  "closure",
  "endclosure",
  "branches.iter().filter",
  "….collect",
  "self.match_case(examinee.clone(),examinee_ty_ref,Some(&variants[discriminant]),lbl,&branches,&arm_labels)",
  "endfor",
  "if(needs_default)",
  "self.match_case(examinee,examinee_ty_ref,None,default_lbl,&default_branches,&arm_labels)",
  "endif",
  "self.undropped_tmp()",
  "for((discriminant,arm,arm_index)inbranches)",
  "if(letPattern::EnumVariant{variant:_,fields:Some(fields),}=&arm.pattern.n…)",
  "fields.iter",
  "fields.iter().zip",
  "for((field_binding,&field_ty)infields.iter().zip(&variant.1))",
  "endfor",
  "endif",
  "self.new_block(arm_labels[&arm_index])",
  "self.block(&arm.body)",
  "self.emit_assign(Place::new(out.clone(),ty),ty,val)",
  "self.emit_jump(continue_lbl)",
  "endfor",
  "self.new_block(continue_lbl)"
] := rfl

/-- `matchCase`: per chain: for each arm in order, bind the fields, then the guard (lowered, materialised, switch to the arm / to the next guard). -/
theorem source_match_case : LowerOrder.matchCase = [
  "self.new_block(lbl)",
  "self.emit_jump(guard_lbl)",
  "branches.iter",
  "branches.iter().enumerate",
  "for((i,(_,arm,arm_index))inbranches.iter().enumerate())",
  "self.new_block(guard_lbl)",
  "if(letPattern::EnumVariant{fields:Some(fields),variant:_,}=&arm.pattern.n…)",
  "fields.iter",
  "fields.iter().zip",
  "fields.iter().zip(&variant.1).enumerate",
  "for((i,(field_binding,&field_ty))infields.iter().zip(&variant.1).enumerate())",
  "self.do_assign(Place::new(var,field_ty),field_ty,Value::Clone(Place{var:examinee.clone(),root_ty:examinee_ty,projection…)",
  "endfor",
  "endif",
  "if(letSome(guard)=&arm.guard)",
  "self.expr(guard)",
  "self.assign_to_var(op,TyRef::BOOL)",
  "self.emit_switch(op,vec![(1,arm_lbl)],Some(intermediate_lbl))",
  "self.new_block(intermediate_lbl)",
  "self.emit_jump(next_lbl)",
  "else",
  "self.emit_jump(arm_lbl)",
  "endif",
  "endfor"
] := rfl

/-- `desugaredBinop`: `l + r` on strings / lists, `ip / len`: left lowered and materialised, right lowered and materialised, result temporary, the runtime call stored at once (`LowerS.lowerE`, case `.concat`). -/
theorem source_desugared_binop : LowerOrder.desugaredBinop = [
  "self.find_method(kind,name)",
  "self.expr(l)",
  "self.assign_to_var(l,l_ty)",
  "self.expr(r)",
  "self.assign_to_var(r,r_ty)",
  "self.tmp(return_type)",
  "self.call_runtime(func_ref,Vec::new(),mir_signature,vec![l,r])",
  "self.do_assign(Place::new(tmp.clone(),return_type),return_type,val)"
] := rfl

/-- `binopStr`: `+` on strings is `desugared_binop(append)`. -/
theorem source_binop_str : LowerOrder.binopStr = [
  "match(binop)",
  "arm(ast::BinOp::Add)",
  "self.desugared_binop(type_id,\"append\",Type::string(),(l,Type::string()),(r,Type::string()))",
  "arm(_)",
  "endmatch"
] := rfl

/-- `callRuntime`: builds the lazy `Value::CallRuntime` over already materialised arguments. -/
theorem source_call_runtime : LowerOrder.callRuntime = [
  "for(varin&args)",
  "endfor",
  "Value::CallRuntime{func_ref,args,mir_signature,vtables}"
] := rfl

end RotoV.C08Source
