/-
  C08 — the step skeletons of the MIR lowering functions, regenerated from
  `src/mir/lower.rs` and `src/mir/lower/match_expr.rs` on every run
  (`extract/src/targets/c08.rs`, target `c08order`), pinned to the sequences
  the structured lowering model (`Model/LowerS.lean`) and the order
  specification were written against: calls on `self` in evaluation order,
  the iterator adaptors of the loops over arguments / fields / elements / arms,
  `Value::…` and `Expr::BinOp` constructions, control-flow markers. Arguments
  that are plain local names appear as `v0, v1, …` (order of first use), so a
  consistent renaming of a local leaves the skeleton unchanged. Drop
  bookkeeping (C03's subject) is left out by the translator.

  A regrouped, reversed, dropped or duplicated step changes the generated
  definition and the theorem below stops checking; the check then searches for
  a concrete script whose host-call log differs.
-/
import RotoV.Generated.LowerOrder

namespace RotoV.C08Source
open RotoV.Gen

/-- `binop`: the `==` / `!=` paths and the general path all run `expr l; assign_to_var l; expr r; assign_to_var r` — the left operand is materialised before the right one is lowered (`LowerS.lowerE`, case `.bin`); `&&`/`||` go to `shortcircuit_binop`. -/
theorem source_binop : LowerOrder.binop = [
  "if",
  "self.expr(v0)",
  "self.assign_to_var(v1,v2)",
  "self.expr(v3)",
  "self.assign_to_var(v4,v5)",
  "Value::BinOp{left:v1,binop:ast::BinOp::Eq,ty:v2,right:v4}",
  "return",
  "endif",
  "if",
  "self.expr(v0)",
  "self.assign_to_var(v1,v2)",
  "self.expr(v3)",
  "self.assign_to_var(v4,v5)",
  "Value::BinOp{left:v1,binop:ast::BinOp::Ne,ty:v2,right:v4}",
  "return",
  "endif",
  "if",
  "self.binop_str(v0,v6,v3)",
  "return",
  "endif",
  "if",
  "self.binop_ip_addr(v0,v6,v3)",
  "return",
  "endif",
  "if",
  "self.binop_list(v2,v0,v6,v3)",
  "return",
  "endif",
  "if",
  "self.binop_and(v0,v3)",
  "return",
  "endif",
  "if",
  "self.binop_or(v0,v3)",
  "return",
  "endif",
  "self.expr(v0)",
  "self.assign_to_var(v0,v2)",
  "self.expr(v3)",
  "self.assign_to_var(v3,v5)",
  "Value::BinOp{left:v0,binop:*binop,ty:v2,right:v3}"
] := rfl

/-- `normalizedFunctionCall`: the receiver is stored in its temporary first; then `arguments.iter()` (not reversed): each argument is lowered and stored before the next (`LowerS.lowerArgs`). `for(&args)` is the loop that takes the argument temporaries off the list of live variables right before the call value is built (fix 176e3ed; it emits nothing). -/
theorem source_normalized_function_call : LowerOrder.normalizedFunctionCall = [
  "if",
  "self.undropped_tmp()",
  "self.do_assign(Place::new(tmp.clone(),ty),v0,v1)",
  "endif",
  "arguments.iter",
  "closure",
  "self.expr(v2)",
  "self.undropped_tmp()",
  "self.do_assign(Place::new(tmp.clone(),ty),v0,v3)",
  "endclosure",
  "arguments.iter().map",
  "args.extend",
  "for(&args)",
  "endfor",
  "func.signature.parameter_types.iter",
  "closure",
  "endclosure",
  "func.signature.parameter_types.iter().map",
  "….collect",
  "match(func.definition)",
  "arm(FunctionDefinition::Runtime(func_ref))",
  "for(&self.runtime.get_function(func_ref).vtables)",
  "endfor",
  "Value::CallRuntime{func_ref:v4,args:v5,mir_signature:v6,vtables:v7}",
  "arm(FunctionDefinition::Roto)",
  "Value::Call{func:v8,args:v5,mir_signature:v6}",
  "endmatch"
] := rfl

/-- `functionCall`: a method call on an expression lowers the receiver expression first (`self.expr(e)`), then hands it to `normalized_function_call`. -/
theorem source_function_call : LowerOrder.functionCall = [
  "match(&function.node)",
  "arm(ast::Expr::Path(p))",
  "match(resolved_path)",
  "arm(ResolvedPath::Method{value,signature,..})",
  "self.path_value(&value.clone())",
  "self.normalized_function_call(&v0,Some((op,ty)),v1)",
  "arm(ResolvedPath::Function{..}|ResolvedPath::StaticMethod{..})",
  "self.normalized_function_call(&v0,None,v1)",
  "arm(ResolvedPath::EnumConstructor{ty:_,variant})",
  "self.enum_constructor(v2,variant.name,v1)",
  "arm(ResolvedPath::Value{..})",
  "endmatch",
  "arm(ast::Expr::Access(e,_))",
  "self.expr(v3)",
  "self.normalized_function_call(&v0,Some((expr,ty)),v1)",
  "arm(_)",
  "endmatch"
] := rfl

/-- `shortcircuitBinop`: result temporary, left operand, store, switch, new block, right operand, store, jump (`LowerS.shortCircuit`). -/
theorem source_shortcircuit_binop : LowerOrder.shortcircuitBinop = [
  "self.undropped_tmp()",
  "self.expr(v0)",
  "self.do_assign(Place::new(tmp.clone(),TyRef::BOOL),TyRef::BOOL,v1)",
  "self.emit_switch(tmp.clone(),vec![(other_if,lbl_other)],Some(lbl_cont))",
  "self.new_block(v2)",
  "self.expr(v3)",
  "self.do_assign(Place::new(tmp.clone(),TyRef::BOOL),TyRef::BOOL,v1)",
  "self.emit_jump(v4)",
  "self.new_block(v4)"
] := rfl

/-- `compoundAssign`: `x op= e` becomes `Expr::BinOp(x, op, e)` — the target is the LEFT operand — assigned to `x` (`LowerS.lowerE`, case `.cassign`). -/
theorem source_compound_assign : LowerOrder.compoundAssign = [
  "match(c.op)",
  "arm(CompoundAssignOp::Add)",
  "arm(CompoundAssignOp::Sub)",
  "arm(CompoundAssignOp::Mul)",
  "arm(CompoundAssignOp::Div)",
  "arm(CompoundAssignOp::Mod)",
  "endmatch",
  "Expr::BinOp(Box::new(left),op,c.expr.clone())",
  "self.assign(&c.path,&v0)"
] := rfl

/-- `assign`: value lowered, stored in a fresh temporary, then moved into the variable. -/
theorem source_assign : LowerOrder.assign = [
  "fields.iter",
  "closure",
  "endclosure",
  "fields.iter().map",
  "….collect",
  "self.expr(v0)",
  "self.tmp(v1)",
  "self.do_assign(Place::new(tmp.clone(),ty),v1,v2)",
  "self.do_assign(v3,v1,Value::Move(tmp))"
] := rfl

/-- `ifElse`: condition materialised; switch; then-block, result temporary allocated after it; else-block. -/
theorem source_if_else : LowerOrder.ifElse = [
  "self.expr(v0)",
  "self.assign_to_var(v1,TyRef::BOOL)",
  "if",
  "else",
  "endif",
  "self.emit_switch(v1,v2,Some(ifr#else.is_some(){lbl_else}else{lbl_cont}))",
  "self.new_block(v3)",
  "self.block(v4)",
  "self.undropped_tmp()",
  "self.emit_assign(Place::new(res.clone(),ty),v5,v6)",
  "self.emit_jump(v7)",
  "if",
  "self.new_block(v8)",
  "self.block(r#else)",
  "self.emit_assign(Place::new(res.clone(),ty),v5,v6)",
  "self.emit_jump(v7)",
  "endif",
  "self.new_block(v7)"
] := rfl

/-- `whileLoop`: jump to the condition block; examinee temporary; condition lowered and stored on every iteration; switch; body; jump back. -/
theorem source_while_loop : LowerOrder.whileLoop = [
  "self.emit_jump(v0)",
  "self.new_block(v0)",
  "self.undropped_tmp()",
  "self.expr(v1)",
  "self.do_assign(Place::new(examinee.clone(),TyRef::BOOL),TyRef::BOOL,v2)",
  "self.emit_switch(v3,vec![(1,lbl_body)],Some(lbl_cont))",
  "self.new_block(v4)",
  "self.block(v5)",
  "self.assign_to_var(v2,TyRef::UNIT)",
  "self.emit_jump(v0)",
  "self.new_block(v6)"
] := rfl

/-- `forLoop`: the list expression is lowered once, before the loop; `get(idx)` per iteration. -/
theorem source_for_loop : LowerOrder.forLoop = [
  "self.undropped_tmp()",
  "self.expr(v0)",
  "self.assign_to_var(v1,v2)",
  "self.assign_to_var(Value::Const(Literal::Integer(0,Some(IntType::U64)),TyRef::U64),TyRef::U64)",
  "self.emit_jump(v3)",
  "self.new_block(v4)",
  "self.assign_to_var(Value::Const(Literal::Integer(1,Some(IntType::U64)),TyRef::U64,),TyRef::U64)",
  "Value::BinOp{left:index_var.clone(),binop:ast::BinOp::Add,ty:TyRef::U64,right:one_var.clone()}",
  "self.emit_assign(Place::new(index_var.clone(),TyRef::U64),TyRef::U64,v5)",
  "self.emit_jump(v3)",
  "self.new_block(v3)",
  "self.find_method(TypeId::of::<ErasedList>(),\"get\")",
  "self.assign_to_var(Value::Clone(Place::new(list_var,list_ty)),v2)",
  "Value::CallRuntime{func_ref:v6,args:vec![new_list_var,index_var],mir_signature:v7,vtables:Vec::new()}",
  "self.emit(Instruction::Assign{to:Place::new(opt_elem_var.clone(),opt_elem_ty),ty…)",
  "self.undropped_tmp()",
  "self.emit_assign(Place::new(discriminant.clone(),TyRef::U8),TyRef::U8,Value::Discriminant(opt_elem_var.clone()))",
  "self.emit_switch(v8,vec![(0,lbl_body)],Some(lbl_cont))",
  "self.new_block(v9)",
  "self.do_assign(Place::new(elem_var,elem_ty),v10,Value::Clone(Place{var:opt_elem_var,root_ty:opt_elem_ty,projection:vec…)",
  "self.block(v11)",
  "self.assign_to_var(v12,TyRef::UNIT)",
  "self.emit_jump(v4)",
  "self.new_block(v13)"
] := rfl

/-- `block`: statements in order, then the final expression, materialised. -/
theorem source_block : LowerOrder.block = [
  "for(&block.stmts)",
  "self.stmt(v0)",
  "endfor",
  "match(&block.last)",
  "arm(Some(expr))",
  "self.expr(v1)",
  "arm(None)",
  "endmatch",
  "self.assign_to_var(op.clone(),v2)",
  "if",
  "endif"
] := rfl

/-- `blockExpr`: `block`, then the result copied into a fresh temporary. -/
theorem source_block_expr : LowerOrder.blockExpr = [
  "self.block(v0)",
  "self.undropped_tmp()",
  "self.emit_assign(Place::new(res.clone(),ty),v1,v2)"
] := rfl

/-- `stmt`: `let`: value lowered then assigned to the variable; expression statement: lowered, materialised, dropped. -/
theorem source_stmt : LowerOrder.stmt = [
  "match(&**stmt)",
  "arm(ast::Stmt::Let(ident,_,expr))",
  "self.expr(v0)",
  "self.do_assign(Place::new(to,ty),v1,v2)",
  "arm(ast::Stmt::Expr(expr))",
  "self.expr(v0)",
  "self.assign_to_var(v3,v1)",
  "endmatch"
] := rfl

/-- `returnExpr`: the operand is lowered first; `accept`/`reject` wrap it with `make_enum`; then `return_value`. -/
theorem source_return_expr : LowerOrder.returnExpr = [
  "match(expr)",
  "arm(Some(expr))",
  "self.expr(v0)",
  "arm(None)",
  "endmatch",
  "match(return_kind)",
  "arm(ast::ReturnKind::Return)",
  "self.return_value(val.0)",
  "arm(ast::ReturnKind::Accept)",
  "self.make_enum(v1,\"Accept\".into(),&[val])",
  "self.return_value(v2)",
  "arm(ast::ReturnKind::Reject)",
  "self.make_enum(v1,\"Reject\".into(),&[val])",
  "self.return_value(v2)",
  "endmatch"
] := rfl

/-- `returnValue`: value materialised, then `return`. -/
theorem source_return_value : LowerOrder.returnValue = [
  "self.assign_to_var(v0,self.return_type)",
  "self.emit_return(v1)"
] := rfl

/-- `questionMark`: operand lowered and materialised, discriminant read, switch to the return-None block. -/
theorem source_question_mark : LowerOrder.questionMark = [
  "self.expr(v0)",
  "self.assign_to_var(v1,v2)",
  "self.undropped_tmp()",
  "self.emit_assign(Place::new(discriminant.clone(),TyRef::U8),TyRef::U8,Value::Discriminant(examinee.clone()))",
  "self.emit_switch(v3,vec![(0,continue_lbl)],Some(lbl_return_none))",
  "self.new_block(v4)",
  "self.make_enum(v5,\"None\".into(),&[])",
  "self.return_value(v6)",
  "self.new_block(v7)"
] := rfl

/-- `notExpr`: operand lowered and materialised. -/
theorem source_not_expr : LowerOrder.notExpr = [
  "self.expr(v0)",
  "self.assign_to_var(v1,TyRef::BOOL)"
] := rfl

/-- `negate`: operand lowered and materialised. -/
theorem source_negate : LowerOrder.negate = [
  "self.expr(v0)",
  "self.assign_to_var(v1,v2)"
] := rfl

/-- `access`: the record expression is lowered and materialised before the field is read. -/
theorem source_access : LowerOrder.access = [
  "self.expr(v0)",
  "self.assign_to_var(v1,v2)"
] := rfl

/-- `record`: `record.fields.iter()` (source order, not reversed): each field is lowered AND stored (`assign_to_var`) before the next one, like the arguments of an enum constructor; then the result temporary is allocated and the fields are moved in, in the same order (fix bb2b488; `LowerS.lowerCtorArgs` + `storeFields`). -/
theorem source_record : LowerOrder.record = [
  "record.fields.iter",
  "closure",
  "self.expr(v0)",
  "self.assign_to_var(v1,v2)",
  "endclosure",
  "record.fields.iter().map",
  "….collect",
  "self.tmp(v3)",
  "for(fields)",
  "self.do_assign(Place{var:to.clone(),root_ty:ty,projection:vec![Projection::Field(s)],…,v2,Value::Move(var))",
  "endfor"
] := rfl

/-- `list`: `for expr in list` (source order): each element lowered, stored, pushed before the next. -/
theorem source_list : LowerOrder.list = [
  "self.tmp(v0)",
  "self.find_method(TypeId::of::<ErasedList>(),\"new\")",
  "Value::CallRuntime{func_ref:v1,args:Vec::new(),mir_signature:ty::Signature{parameter_types:Vec::new(),return_type:ty,},vtables:vec![inner]}",
  "self.emit(Instruction::Assign{to:Place{var:tmp.clone(),root_ty:ty,projection:Vec…)",
  "self.tmp(TyRef::UNIT)",
  "for(list)",
  "self.assign_to_var(v2,v0)",
  "self.expr(v3)",
  "self.undropped_tmp()",
  "self.do_assign(Place::new(elem_var.clone(),elem_ty),v4,v5)",
  "self.find_method(TypeId::of::<ErasedList>(),\"push\")",
  "Value::CallRuntime{func_ref:v1,args:vec![list_var,elem_var],mir_signature:ty::Signature{parameter_types:vec![ty,inner],return_type:TyRef::UNIT,},vtables:Vec::new()}",
  "self.emit(Instruction::Assign{to:Place{var:unit_tmp.clone(),root_ty:TyRef::UNIT,…)",
  "endfor"
] := rfl

/-- `enumConstructor`: each argument is lowered AND stored (`assign_to_var`) before the next one (fix 6df857b). -/
theorem source_enum_constructor : LowerOrder.enumConstructor = [
  "arguments.iter",
  "closure",
  "self.expr(v0)",
  "self.assign_to_var(v1,v2)",
  "endclosure",
  "arguments.iter().map",
  "….collect",
  "self.make_enum(v2,v3,&v4)"
] := rfl

/-- `makeEnum`: discriminant set, then the fields assigned in order. -/
theorem source_make_enum : LowerOrder.makeEnum = [
  "variants.iter",
  "closure",
  "endclosure",
  "self.tmp(v0)",
  "self.emit_set_discriminant(to.clone(),v0,v1)",
  "arguments.iter",
  "arguments.iter().enumerate",
  "for(arguments.iter().enumerate())",
  "self.do_assign(Place{var:to.clone(),root_ty:ty,projection:vec![Projection::VariantFie…,*field_ty,value.clone())",
  "endfor"
] := rfl

/-- `fString`: `for part in parts` (source order): each part lowered, converted, appended before the next. -/
theorem source_f_string : LowerOrder.fString = [
  "closure",
  "endclosure",
  "self.assign_to_var(v0,TyRef::STRING)",
  "self.find_method(v1,\"append\")",
  "for(parts)",
  "match(&part.node)",
  "arm(ast::FStringPart::String(s))",
  "arm(ast::FStringPart::Expr(expr))",
  "self.expr(v2)",
  "self.normalized_function_call(&v3,Some((val,ty)),&[])",
  "endmatch",
  "self.assign_to_var(v4,TyRef::STRING)",
  "self.call_runtime(v5,Vec::new(),v6,vec![string.clone(),new_string])",
  "self.do_assign(Place::new(string.clone(),TyRef::STRING),TyRef::STRING,v7)",
  "endfor"
] := rfl

/-- `assignToVar`: a `Move` is used as is, anything else is stored in a fresh temporary (`LowerS.atvCode/atvVar/atvNext`). -/
theorem source_assign_to_var : LowerOrder.assignToVar = [
  "if",
  "return",
  "endif",
  "self.tmp(v0)",
  "self.do_assign(Place::new(to.clone(),ty),v0,v1)"
] := rfl

/-- `doAssign`: emits the assignment at once. -/
theorem source_do_assign : LowerOrder.doAssign = [
  "if",
  "endif",
  "self.emit_assign(v0,v1,v2)"
] := rfl

/-- `functionLike`: the body block, its value materialised, `return` (`LowerS.lowerFn`). -/
theorem source_function_like : LowerOrder.functionLike = [
  "self.new_block(v0)",
  "for(&params.0)",
  "endfor",
  "for(&parameter_types)",
  "endfor",
  "parameter_types.iter",
  "closure",
  "endclosure",
  "parameter_types.iter().map",
  "….collect",
  "self.block(v1)",
  "self.assign_to_var(v2,v3)",
  "self.emit_return(v4)"
] := rfl

/-- `matchExpr`: the examinee is lowered and materialised once; one guard chain per discriminant containing that variant's arms and the `_` arms in source order; arm bodies afterwards. -/
theorem source_match_expr : LowerOrder.matchExpr = [
  "arms.iter",
  "arms.iter().enumerate",
  "closure",
  "match(&arm.pattern.node)",
  "arm(Pattern::EnumVariant{variant,..})",
  "variants.iter",
  "closure",
  "endclosure",
  "arm(Pattern::Underscore)",
  "endmatch",
  "endclosure",
  "arms.iter().enumerate().map",
  "….collect",
  "branches.iter",
  "closure",
  "endclosure",
  "branches.iter().filter_map",
  "branches.iter().filter_map(|(d,_,_)|*d).collect",
  "all_discriminants.into_iter",
  "closure",
  "endclosure",
  "all_discriminants.into_iter().map",
  "….collect",
  "all_discriminants.iter",
  "closure",
  "endclosure",
  "all_discriminants.iter().map",
  "….collect",
  "branches.iter",
  "closure",
  "endclosure",
  "branches.iter().filter",
  "….collect",
  "self.expr(v0)",
  "self.assign_to_var(v1,v2)",
  "self.undropped_tmp()",
  "self.emit_assign(Place::new(discriminant.clone(),TyRef::U8),TyRef::U8,Value::Discriminant(examinee.clone()))",
  "if",
  "else",
  "endif",
  "self.emit_switch(v3,v4,v5)",
  "branches.iter",
  "closure",
  "endclosure",
  "branches.iter().map",
  "….collect",
  "for(all_discriminants)",
  "branches.iter",
  "closure",
  "endclosure",
  "branches.iter().filter",
  "….collect",
  "self.match_case(examinee.clone(),v2,Some(&variants[discriminant]),v6,&v7,&v8)",
  "endfor",
  "if",
  "self.match_case(v1,v2,None,v9,&v10,&v8)",
  "endif",
  "self.undropped_tmp()",
  "for(branches)",
  "if",
  "fields.iter",
  "fields.iter().zip",
  "for(fields.iter().zip(&variant.1))",
  "endfor",
  "endif",
  "self.new_block(arm_labels[&arm_index])",
  "self.block(&arm.body)",
  "self.emit_assign(Place::new(out.clone(),ty),v11,v12)",
  "self.emit_jump(v13)",
  "endfor",
  "self.new_block(v13)"
] := rfl

/-- `matchCase`: per chain: for each arm in order, bind the fields, then the guard (lowered, materialised, switch to the arm / to the next guard). -/
theorem source_match_case : LowerOrder.matchCase = [
  "self.new_block(v0)",
  "self.emit_jump(v1)",
  "branches.iter",
  "branches.iter().enumerate",
  "for(branches.iter().enumerate())",
  "self.new_block(v1)",
  "if",
  "fields.iter",
  "fields.iter().zip",
  "fields.iter().zip(&variant.1).enumerate",
  "for(fields.iter().zip(&variant.1).enumerate())",
  "self.do_assign(Place::new(var,field_ty),v2,Value::Clone(Place{var:examinee.clone(),root_ty:examinee_ty,projection…)",
  "endfor",
  "endif",
  "if",
  "self.expr(v3)",
  "self.assign_to_var(v4,TyRef::BOOL)",
  "self.emit_switch(v4,vec![(1,arm_lbl)],Some(intermediate_lbl))",
  "self.new_block(v5)",
  "self.emit_jump(v6)",
  "else",
  "self.emit_jump(v7)",
  "endif",
  "endfor"
] := rfl

/-- `desugaredBinop`: `l + r` on strings / lists, `ip / len`: left lowered and materialised, right lowered and materialised, result temporary, the runtime call stored at once (`LowerS.lowerE`, case `.concat`). -/
theorem source_desugared_binop : LowerOrder.desugaredBinop = [
  "self.find_method(v0,v1)",
  "self.expr(v2)",
  "self.assign_to_var(v2,v3)",
  "self.expr(v4)",
  "self.assign_to_var(v4,v5)",
  "self.tmp(v6)",
  "self.call_runtime(v7,Vec::new(),v8,vec![l,r])",
  "self.do_assign(Place::new(tmp.clone(),return_type),v6,v9)"
] := rfl

/-- `binopStr`: `+` on strings is `desugared_binop(append)`. -/
theorem source_binop_str : LowerOrder.binopStr = [
  "match(binop)",
  "arm(ast::BinOp::Add)",
  "self.desugared_binop(v0,\"append\",Type::string(),(l,Type::string()),(r,Type::string()))",
  "arm(_)",
  "endmatch"
] := rfl

/-- `callRuntime`: builds the lazy `Value::CallRuntime` over already materialised arguments. -/
theorem source_call_runtime : LowerOrder.callRuntime = [
  "for(&args)",
  "endfor",
  "Value::CallRuntime{func_ref:v0,args:v1,mir_signature:v2,vtables:v3}"
] := rfl

end RotoV.C08Source
