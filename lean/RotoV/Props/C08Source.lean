/-
  C08 — the step skeletons of the MIR lowering functions, regenerated from
  `src/mir/lower.rs` and `src/mir/lower/match_expr.rs` on every run
  (`extract/src/targets/c08.rs`, target `c08order`), pinned to the sequences
  the structured lowering model (`Model/LowerS.lean`) and the order
  specification were written against: calls on `self` in evaluation order,
  the loops over arguments / fields / elements / arms, `Value::…` and
  `Expr::BinOp` constructions, control-flow markers — in a normal form (see the
  head of `extract/src/targets/c08.rs`): locals are numbered per BINDING in order
  of first appearance (`vN=step` where a `let` names the result of a step), so
  renaming a local or un-shadowing two `let val` changes nothing while using a
  different variable does; `for x in XS`, `XS.iter().map(..).collect()` and
  `ys.extend(XS.iter().map(..))` are all `loop(XS) … endloop` (`loop-rev` with a
  `.rev()`); `if let P = e {A} else {B}` is the two-arm `match`; an `if` ending in
  `return` takes the rest of the block as its else-branch and a tail `return` is
  the tail value; arms over unit variants are sorted and the last arm of a `match`
  (no guard, no binder) is `arm(_)`; a loop / branch / closure in which nothing is
  recorded leaves no marker and a call of a helper of `Lowerer` that does nothing
  but drop bookkeeping is not a step (that removes the drop bookkeeping, C03's
  subject). Eleven behaviour-preserving refactorings of the lowering
  (seeded/harmless H9–H14, H16–H19, H55: iterator chain ↔ `for`, reordered
  disjoint arms, renamed / un-shadowed locals, `match` ↔ `if let`, `if let …
  return` → `match`, a drop loop moved into a helper) leave every skeleton below
  unchanged; H15 (a sub-expression of a recorded argument moved into a local of
  its own) does not — that shape needs a re-pin; every seeded order defect changes
  at least one.

  A regrouped, reversed, dropped or duplicated step changes the generated
  definition and the theorem below stops checking; the check then searches for
  a concrete script whose host-call log differs.
-/
import RotoV.Generated.LowerOrder

namespace RotoV.C08Source
open RotoV.Gen

/-- `binop`: the `==` / `!=` paths and the general path all run `expr l; assign_to_var l; expr r; assign_to_var r` — the left operand is materialised before the right one is lowered (`LowerS.lowerE`, case `.bin`); `&&`/`||` go to `shortcircuit_binop`. -/
theorem source_binop : LowerOrder.binop = [
  "if",
  "v0=self.expr(v1)",
  "v2=self.assign_to_var(v0,v3)",
  "v4=self.expr(v5)",
  "v6=self.assign_to_var(v4,v7)",
  "Value::BinOp{left:v2,binop:ast::BinOp::Eq,ty:v3,right:v6}",
  "else",
  "if",
  "v8=self.expr(v1)",
  "v9=self.assign_to_var(v8,v10)",
  "v11=self.expr(v5)",
  "v12=self.assign_to_var(v11,v13)",
  "Value::BinOp{left:v9,binop:ast::BinOp::Ne,ty:v10,right:v12}",
  "else",
  "if",
  "self.binop_str(v1,v14,v5)",
  "else",
  "if",
  "self.binop_ip_addr(v1,v14,v5)",
  "else",
  "if",
  "self.binop_list(v15,v1,v14,v5)",
  "else",
  "if",
  "self.binop_and(v1,v5)",
  "else",
  "if",
  "self.binop_or(v1,v5)",
  "else",
  "v16=self.expr(v1)",
  "v17=self.assign_to_var(v16,v18)",
  "v19=self.expr(v5)",
  "v20=self.assign_to_var(v19,v21)",
  "Value::BinOp{left:v17,binop:*v14,ty:v18,right:v20}",
  "endif",
  "endif",
  "endif",
  "endif",
  "endif",
  "endif",
  "endif"
] := rfl

/-- `normalizedFunctionCall`: the receiver is stored in its temporary first; then `loop(arguments)` (not reversed): each argument is lowered and stored before the next (`LowerS.lowerArgs`). (The loop that takes the argument temporaries off the list of live variables right before the call value is built, fix 176e3ed, records nothing and leaves no marker.) -/
theorem source_normalized_function_call : LowerOrder.normalizedFunctionCall = [
  "match(v0)",
  "arm(Some((_,_)))",
  "v1=self.undropped_tmp()",
  "self.do_assign(Place::new(v1.clone(),v2),v2,v3)",
  "arm(_)",
  "endmatch",
  "loop(v4)",
  "v5=self.expr(v6)",
  "v7=self.undropped_tmp()",
  "self.do_assign(Place::new(v7.clone(),v8),v8,v5)",
  "endloop",
  "match(v9.definition)",
  "arm(FunctionDefinition::Runtime(_))",
  "Value::CallRuntime{func_ref:v10,args:v11,mir_signature:v12,vtables:v13}",
  "arm(_)",
  "Value::Call{func:v14,args:v11,mir_signature:v12}",
  "endmatch"
] := rfl

/-- `functionCall`: a method call on an expression lowers the receiver expression first (`self.expr(e)`), then hands it to `normalized_function_call`. -/
theorem source_function_call : LowerOrder.functionCall = [
  "match(&v0.node)",
  "arm(ast::Expr::Path(_))",
  "match(v1)",
  "arm(ResolvedPath::Method{_,_,..})",
  "v2=self.path_value(&v3.clone())",
  "self.normalized_function_call(&v4,Some((v2,v5)),v6)",
  "arm(ResolvedPath::Function{..}|ResolvedPath::StaticMethod{..})",
  "self.normalized_function_call(&v7,None,v6)",
  "arm(ResolvedPath::EnumConstructor{ty:_,_})",
  "self.enum_constructor(v8,v9.name,v6)",
  "arm(_)",
  "endmatch",
  "arm(ast::Expr::Access(_,_))",
  "v10=self.expr(v11)",
  "self.normalized_function_call(&v12,Some((v10,v13)),v6)",
  "arm(_)",
  "endmatch"
] := rfl

/-- `shortcircuitBinop`: result temporary, left operand, store, switch, new block, right operand, store, jump (`LowerS.shortCircuit`). -/
theorem source_shortcircuit_binop : LowerOrder.shortcircuitBinop = [
  "v0=self.undropped_tmp()",
  "v1=self.expr(v2)",
  "self.do_assign(Place::new(v0.clone(),TyRef::BOOL),TyRef::BOOL,v1)",
  "self.emit_switch(v0.clone(),vec![(v3,v4)],Some(v5))",
  "self.new_block(v4)",
  "v6=self.expr(v7)",
  "self.do_assign(Place::new(v0.clone(),TyRef::BOOL),TyRef::BOOL,v6)",
  "self.emit_jump(v5)",
  "self.new_block(v5)"
] := rfl

/-- `compoundAssign`: `x op= e` becomes `Expr::BinOp(x, op, e)` — the target is the LEFT operand — assigned to `x` (`LowerS.lowerE`, case `.cassign`). -/
theorem source_compound_assign : LowerOrder.compoundAssign = [
  "Expr::BinOp(Box::new(v0),v1,v2.expr.clone())",
  "self.assign(&v2.path,&v3)"
] := rfl

/-- `assign`: value lowered, stored in a fresh temporary, then moved into the variable. -/
theorem source_assign : LowerOrder.assign = [
  "v0=self.expr(v1)",
  "v2=self.tmp(v3)",
  "self.do_assign(Place::new(v2.clone(),v3),v3,v0)",
  "self.do_assign(v4,v3,Value::Move(v2))"
] := rfl

/-- `ifElse`: condition materialised; switch; then-block, result temporary allocated after it; else-block. -/
theorem source_if_else : LowerOrder.ifElse = [
  "v0=self.expr(v1)",
  "v2=self.assign_to_var(v0,TyRef::BOOL)",
  "self.emit_switch(v2,v3,Some(ifv4.is_some(){v5}else{v6}))",
  "self.new_block(v7)",
  "v8=self.block(v9)",
  "v10=self.undropped_tmp()",
  "self.emit_assign(Place::new(v10.clone(),v11),v11,v8)",
  "self.emit_jump(v6)",
  "match(v4)",
  "arm(Some(_))",
  "self.new_block(v5)",
  "v12=self.block(v13)",
  "self.emit_assign(Place::new(v10.clone(),v11),v11,v12)",
  "self.emit_jump(v6)",
  "arm(_)",
  "endmatch",
  "self.new_block(v6)"
] := rfl

/-- `whileLoop`: jump to the condition block; examinee temporary; condition lowered and stored on every iteration; switch; body; jump back. -/
theorem source_while_loop : LowerOrder.whileLoop = [
  "self.emit_jump(v0)",
  "self.new_block(v0)",
  "v1=self.undropped_tmp()",
  "v2=self.expr(v3)",
  "self.do_assign(Place::new(v1.clone(),TyRef::BOOL),TyRef::BOOL,v2)",
  "self.emit_switch(v1,vec![(1,v4)],Some(v5))",
  "self.new_block(v4)",
  "v6=self.block(v7)",
  "self.assign_to_var(v6,TyRef::UNIT)",
  "self.emit_jump(v0)",
  "self.new_block(v5)"
] := rfl

/-- `forLoop`: the list expression is lowered once, before the loop; `get(idx)` per iteration. -/
theorem source_for_loop : LowerOrder.forLoop = [
  "v0=self.undropped_tmp()",
  "v1=self.expr(v2)",
  "v3=self.assign_to_var(v1,v4)",
  "v5=self.assign_to_var(Value::Const(Literal::Integer(0,Some(IntType::U64)),TyRef::U64),TyRef::U64)",
  "self.emit_jump(v6)",
  "self.new_block(v7)",
  "v8=self.assign_to_var(Value::Const(Literal::Integer(1,Some(IntType::U64)),TyRef::U64,),TyRef::U64)",
  "v9=Value::BinOp{left:v5.clone(),binop:ast::BinOp::Add,ty:TyRef::U64,right:v8.clone()}",
  "self.emit_assign(Place::new(v5.clone(),TyRef::U64),TyRef::U64,v9)",
  "self.emit_jump(v6)",
  "self.new_block(v6)",
  "v10=self.find_method(TypeId::of::<ErasedList>(),\"get\")",
  "v11=self.assign_to_var(Value::Clone(Place::new(v3,v4)),v4)",
  "Value::CallRuntime{func_ref:v10,args:vec![v11,v5],mir_signature:v12,vtables:Vec::new()}",
  "self.emit(Instruction::Assign{to:Place::new(v0.clone(),v13),ty:v13,value:Value::CallRuntime{func_ref:v10,args:vec![v11,v5],mir_signature:v12,vtables:Vec::new(),},})",
  "v14=self.undropped_tmp()",
  "self.emit_assign(Place::new(v14.clone(),TyRef::U8),TyRef::U8,Value::Discriminant(v0.clone()))",
  "self.emit_switch(v14,vec![(0,v15)],Some(v16))",
  "self.new_block(v15)",
  "self.do_assign(Place::new(v17,v18),v18,Value::Clone(Place{var:v0,root_ty:v13,projection:vec![Projection::VariantField(\"Some\".into(),0)],}))",
  "v19=self.block(v20)",
  "self.assign_to_var(v19,TyRef::UNIT)",
  "self.emit_jump(v7)",
  "self.new_block(v16)"
] := rfl

/-- `block`: statements in order, then the final expression, materialised. -/
theorem source_block : LowerOrder.block = [
  "loop(v0.stmts)",
  "self.stmt(v1)",
  "endloop",
  "match(&v0.last)",
  "arm(Some(_))",
  "self.expr(v2)",
  "arm(_)",
  "endmatch",
  "v3=self.assign_to_var(v4.clone(),v5)"
] := rfl

/-- `blockExpr`: `block`, then the result copied into a fresh temporary. -/
theorem source_block_expr : LowerOrder.blockExpr = [
  "v0=self.block(v1)",
  "v2=self.undropped_tmp()",
  "self.emit_assign(Place::new(v2.clone(),v3),v3,v0)"
] := rfl

/-- `stmt`: `let`: value lowered then assigned to the variable; expression statement: lowered, materialised, dropped. -/
theorem source_stmt : LowerOrder.stmt = [
  "match(&**v0)",
  "arm(ast::Stmt::Let(_,_,_))",
  "v1=self.expr(v2)",
  "self.do_assign(Place::new(v3,v4),v4,v1)",
  "arm(ast::Stmt::Expr(_))",
  "v5=self.expr(v6)",
  "v7=self.assign_to_var(v5,v8)",
  "endmatch"
] := rfl

/-- `returnExpr`: the operand is lowered first; `accept`/`reject` wrap it with `make_enum`; then `return_value`. -/
theorem source_return_expr : LowerOrder.returnExpr = [
  "match(v0)",
  "arm(Some(_))",
  "self.expr(v1)",
  "arm(_)",
  "endmatch",
  "match(v2)",
  "arm(ast::ReturnKind::Accept)",
  "v3=self.make_enum(v4,\"Accept\".into(),&[v5])",
  "self.return_value(v3)",
  "arm(ast::ReturnKind::Reject)",
  "v6=self.make_enum(v7,\"Reject\".into(),&[v5])",
  "self.return_value(v6)",
  "arm(ast::ReturnKind::Return)",
  "self.return_value(v5.0)",
  "endmatch"
] := rfl

/-- `returnValue`: value materialised, then `return`. -/
theorem source_return_value : LowerOrder.returnValue = [
  "v0=self.assign_to_var(v1,self.return_type)",
  "self.emit_return(v0)"
] := rfl

/-- `questionMark`: operand lowered and materialised, discriminant read, switch to the return-None block. -/
theorem source_question_mark : LowerOrder.questionMark = [
  "v0=self.expr(v1)",
  "v2=self.assign_to_var(v0,v3)",
  "v4=self.undropped_tmp()",
  "self.emit_assign(Place::new(v4.clone(),TyRef::U8),TyRef::U8,Value::Discriminant(v2.clone()))",
  "self.emit_switch(v4,vec![(0,v5)],Some(v6))",
  "self.new_block(v6)",
  "v7=self.make_enum(v8,\"None\".into(),&[])",
  "self.return_value(v7)",
  "self.new_block(v5)"
] := rfl

/-- `notExpr`: operand lowered and materialised. -/
theorem source_not_expr : LowerOrder.notExpr = [
  "v0=self.expr(v1)",
  "v2=self.assign_to_var(v0,TyRef::BOOL)"
] := rfl

/-- `negate`: operand lowered and materialised. -/
theorem source_negate : LowerOrder.negate = [
  "v0=self.expr(v1)",
  "v2=self.assign_to_var(v0,v3)"
] := rfl

/-- `access`: the record expression is lowered and materialised before the field is read. -/
theorem source_access : LowerOrder.access = [
  "v0=self.expr(v1)",
  "v2=self.assign_to_var(v0,v3)"
] := rfl

/-- `record`: `loop(record.fields)` — the fields of the LITERAL, in source order, not reversed, not the fields of the type: each field is lowered AND stored (`assign_to_var`) before the next one, like the arguments of an enum constructor; then the result temporary is allocated and the fields are moved in, in the same order (fix bb2b488; `LowerS.lowerCtorArgs` + `storeFields`). -/
theorem source_record : LowerOrder.record = [
  "loop(v0.fields)",
  "v1=self.expr(v2)",
  "v3=self.assign_to_var(v1,v4)",
  "endloop",
  "v5=self.tmp(v6)",
  "loop(v7)",
  "self.do_assign(Place{var:v5.clone(),root_ty:v6,projection:vec![Projection::Field(v8)],},v9,Value::Move(v10))",
  "endloop"
] := rfl

/-- `list`: `for expr in list` (source order): each element lowered, stored, pushed before the next. -/
theorem source_list : LowerOrder.list = [
  "v0=self.tmp(v1)",
  "v2=self.find_method(TypeId::of::<ErasedList>(),\"new\")",
  "Value::CallRuntime{func_ref:v2,args:Vec::new(),mir_signature:ty::Signature{parameter_types:Vec::new(),return_type:v1,},vtables:vec![v3]}",
  "self.emit(Instruction::Assign{to:Place{var:v0.clone(),root_ty:v1,projection:Vec::new(),},ty:v1,value:Value::CallRuntime{func_ref:v2,args:Vec::new(),mir_signature:ty::Signature{parameter_types:Vec::new…",
  "v4=self.tmp(TyRef::UNIT)",
  "loop(v5)",
  "v6=self.assign_to_var(v7,v1)",
  "v8=self.expr(v9)",
  "v10=self.undropped_tmp()",
  "self.do_assign(Place::new(v10.clone(),v11),v11,v8)",
  "v12=self.find_method(TypeId::of::<ErasedList>(),\"push\")",
  "Value::CallRuntime{func_ref:v12,args:vec![v6,v10],mir_signature:ty::Signature{parameter_types:vec![v1,v3],return_type:TyRef::UNIT,},vtables:Vec::new()}",
  "self.emit(Instruction::Assign{to:Place{var:v4.clone(),root_ty:TyRef::UNIT,projection:Vec::new(),},ty:TyRef::UNIT,value:Value::CallRuntime{func_ref:v12,args:vec![v6,v10],mir_signature:ty::Signature{par…",
  "endloop"
] := rfl

/-- `enumConstructor`: each argument is lowered AND stored (`assign_to_var`) before the next one (fix 6df857b). -/
theorem source_enum_constructor : LowerOrder.enumConstructor = [
  "loop(v0)",
  "v1=self.expr(v2)",
  "v3=self.assign_to_var(v1,v4)",
  "endloop",
  "self.make_enum(v5,v6,&v7)"
] := rfl

/-- `makeEnum`: discriminant set, then the fields assigned in order. -/
theorem source_make_enum : LowerOrder.makeEnum = [
  "v0=self.tmp(v1)",
  "self.emit_set_discriminant(v0.clone(),v1,v2)",
  "loop(v3)",
  "self.do_assign(Place{var:v0.clone(),root_ty:v1,projection:vec![Projection::VariantField(v2,v4,)],},*v5,v6.clone())",
  "endloop"
] := rfl

/-- `fString`: `for part in parts` (source order): each part lowered, converted, appended before the next. -/
theorem source_f_string : LowerOrder.fString = [
  "v0=self.assign_to_var(v1,TyRef::STRING)",
  "v2=self.find_method(v3,\"append\")",
  "loop(v4)",
  "match(&v5.node)",
  "arm(ast::FStringPart::String(_))",
  "arm(ast::FStringPart::Expr(_))",
  "v6=self.expr(v7)",
  "self.normalized_function_call(&v8,Some((v6,v9)),&[])",
  "endmatch",
  "v10=self.assign_to_var(v11,TyRef::STRING)",
  "v12=self.call_runtime(v2,Vec::new(),v13,vec![v0.clone(),v10])",
  "self.do_assign(Place::new(v0.clone(),TyRef::STRING),TyRef::STRING,v12)",
  "endloop"
] := rfl

/-- `assignToVar`: a `Move` is used as is, anything else is stored in a fresh temporary (`LowerS.atvCode/atvVar/atvNext`). -/
theorem source_assign_to_var : LowerOrder.assignToVar = [
  "match(v0)",
  "arm(Value::Move(_))",
  "arm(_)",
  "v1=self.tmp(v2)",
  "self.do_assign(Place::new(v1.clone(),v2),v2,v0)",
  "endmatch"
] := rfl

/-- `doAssign`: emits the assignment at once. -/
theorem source_do_assign : LowerOrder.doAssign = [
  "self.emit_assign(v0,v1,v2)"
] := rfl

/-- `functionLike`: the body block, its value materialised, `return` (`LowerS.lowerFn`). -/
theorem source_function_like : LowerOrder.functionLike = [
  "self.new_block(v0)",
  "v1=self.block(v2)",
  "v3=self.assign_to_var(v1,v4)",
  "self.emit_return(v3)"
] := rfl

/-- `matchExpr`: the examinee is lowered and materialised once; one guard chain per discriminant containing that variant's arms and the `_` arms in source order; arm bodies afterwards. -/
theorem source_match_expr : LowerOrder.matchExpr = [
  "v0.iter().filter_map",
  "v0.iter().filter",
  "v1=self.expr(v2)",
  "v3=self.assign_to_var(v1,v4)",
  "v5=self.undropped_tmp()",
  "self.emit_assign(Place::new(v5.clone(),TyRef::U8),TyRef::U8,Value::Discriminant(v3.clone()))",
  "self.emit_switch(v5,v6,v7)",
  "loop(v8)",
  "v0.iter().filter",
  "self.match_case(v3.clone(),v4,Some(&v9[v10]),v11,&v12,&v13)",
  "endloop",
  "if",
  "self.match_case(v3,v4,None,v14,&v15,&v13)",
  "endif",
  "v16=self.undropped_tmp()",
  "loop(v0)",
  "self.new_block(v13[&v17])",
  "v18=self.block(&v19.body)",
  "self.emit_assign(Place::new(v16.clone(),v20),v20,v18)",
  "self.emit_jump(v21)",
  "endloop",
  "self.new_block(v21)"
] := rfl

/-- `matchCase`: per chain: for each arm in order, bind the fields, then the guard (lowered, materialised, switch to the arm / to the next guard). -/
theorem source_match_case : LowerOrder.matchCase = [
  "self.new_block(v0)",
  "self.emit_jump(v1)",
  "loop(v2)",
  "self.new_block(v3)",
  "match(&v4.pattern.node)",
  "arm(Pattern::EnumVariant{fields:Some(_),variant:_,})",
  "loop(v5.zip(&v6.1))",
  "self.do_assign(Place::new(v7,v8),v8,Value::Clone(Place{var:v9.clone(),root_ty:v10,projection:vec![Projection::VariantField(v6.0,v11,)],}))",
  "endloop",
  "arm(_)",
  "endmatch",
  "match(&v4.guard)",
  "arm(Some(_))",
  "v12=self.expr(v13)",
  "v14=self.assign_to_var(v12,TyRef::BOOL)",
  "self.emit_switch(v14,vec![(1,v15)],Some(v16))",
  "self.new_block(v16)",
  "self.emit_jump(v17)",
  "arm(_)",
  "self.emit_jump(v15)",
  "endmatch",
  "endloop"
] := rfl

/-- `desugaredBinop`: `l + r` on strings / lists, `ip / len`: left lowered and materialised, right lowered and materialised, result temporary, the runtime call stored at once (`LowerS.lowerE`, case `.concat`). -/
theorem source_desugared_binop : LowerOrder.desugaredBinop = [
  "v0=self.find_method(v1,v2)",
  "v3=self.expr(v4)",
  "v5=self.assign_to_var(v3,v6)",
  "v7=self.expr(v8)",
  "v9=self.assign_to_var(v7,v10)",
  "v11=self.tmp(v12)",
  "v13=self.call_runtime(v0,Vec::new(),v14,vec![v5,v9])",
  "self.do_assign(Place::new(v11.clone(),v12),v12,v13)"
] := rfl

/-- `binopStr`: `+` on strings is `desugared_binop(append)`. -/
theorem source_binop_str : LowerOrder.binopStr = [
  "match(v0)",
  "arm(ast::BinOp::Add)",
  "self.desugared_binop(v1,\"append\",Type::string(),(v2,Type::string()),(v3,Type::string()))",
  "arm(_)",
  "endmatch"
] := rfl

/-- `binopList`: `+` on lists is `desugared_binop(concat)` — the same function as string `+`, so the
    operand order proved for `concat` (T1 `concat_operands_left_to_right`, T2) is the order of list `+` too. -/
theorem source_binop_list : LowerOrder.binopList = [
  "match(v0)",
  "arm(ast::BinOp::Add)",
  "self.desugared_binop(TypeId::of::<ErasedList>(),\"concat\",v1.clone(),(v2,v1.clone()),(v3,v1.clone()))",
  "arm(_)",
  "endmatch"
] := rfl

/-- `binopIpAddr`: `addr / len` is `desugared_binop(Prefix.new)`: left operand first as well. -/
theorem source_binop_ip_addr : LowerOrder.binopIpAddr = [
  "match(v0)",
  "arm(ast::BinOp::Div)",
  "self.desugared_binop(v1,\"new\",Type::prefix(),(v2,Type::ip_addr()),(v3,Type::u8()))",
  "arm(_)",
  "endmatch"
] := rfl

/-- `binopAnd`: `l && r` is `shortcircuit_binop` whose switch goes to the block of the RIGHT operand
    exactly when the left operand is `1` (true) — `LowerS.shortCircuit` with `otherIf = 1`. -/
theorem source_binop_and : LowerOrder.binopAnd = [
  "self.shortcircuit_binop(v0,v1,\"and_other\",1)"
] := rfl

/-- `binopOr`: `l || r` runs the right operand exactly when the left operand is `0` (false). -/
theorem source_binop_or : LowerOrder.binopOr = [
  "self.shortcircuit_binop(v0,v1,\"or_other\",0)"
] := rfl

/-- `callRuntime`: builds the lazy `Value::CallRuntime` over already materialised arguments. -/
theorem source_call_runtime : LowerOrder.callRuntime = [
  "Value::CallRuntime{func_ref:v0,args:v1,mir_signature:v2,vtables:v3}"
] := rfl

/-- `lirCall` — `Lowerer::call` of the MIR → LIR lowering (src/lir/lower.rs), one stage below the
    model: return slot / temporary, the arguments in order (`loop` over them, zero-sized ones
    filtered out), then exactly ONE `self.emit(Instruction::Call{..})`, outside every loop — what
    `C08Lir.assignCalls` assumes of the `.operand` arm of a call value. -/
theorem source_lir_call : LowerOrder.lirCall = [
  "v0=self.is_reference_type(v1)",
  "match(v0)",
  "arm(Some(true))",
  "self.layout_of(v1)",
  "v2=self.new_stack_slot(v3)",
  "arm(Some(false))",
  "self.lower_type(v1)",
  "closure",
  "self.new_tmp(v4)",
  "endclosure",
  "self.lower_type(v1).map",
  "arm(_)",
  "endmatch",
  "closure",
  "self.lower_type(v5)",
  "self.lower_type(v5).map",
  "endclosure",
  "v6.into_iter().zip(v7.parameter_types).filter_map",
  "loop(v8)",
  "self.var(v9)",
  "endloop",
  "self.emit(Instruction::Call{to:v10.clone(),ctx:Some(v11.into()),func:v12,args:v13,return_ptr:v14.clone(),})",
  "match(v14)",
  "arm(Some(_))",
  "arm(_)",
  "v10.map",
  "endmatch"
] := rfl

end RotoV.C08Source
